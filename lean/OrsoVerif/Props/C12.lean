import OrsoVerif.Model.GroupBy
import OrsoVerif.Lemmas.GroupBy
import OrsoVerif.Generated.GroupBy
import OrsoVerif.Model.GroupByCode
import OrsoVerif.Lemmas.GroupByCode
import OrsoVerif.Model.GroupByX
import OrsoVerif.Lemmas.GroupByX
import OrsoVerif.Model.GroupByEq
import OrsoVerif.Lemmas.GroupByEq
import OrsoVerif.Lemmas.GroupByCodeEq
import OrsoVerif.Lemmas.GroupBySession
/-!
# C12 — GroupBy aggregates equal a reference partition-and-fold

Property theorems only.  `aggregate` is the model of the code's single pass over emitted
`(group, column, value)` triples (`Model/GroupBy.lean`); `reference`, `members`, `nonNull`,
`groupKeys` are the partition-and-fold specification.  All statements hold for every row type,
every key type with decidable equality (no hash anywhere), every frame, every key function and
every non-empty request list, repeats of a column included.
-/
namespace C12
open GroupBy

variable {ρ κ : Type} [DecidableEq κ]

/-- **Source tie.**  Every aggregate function of the model is a key of `AGGREGATORS` (order and
additional keys are immaterial), and `_map` keys a group by the tuple of its key values, not by a
hash of it.  Stops compiling when one of the five keys disappears or that line goes back to `hash`. -/
theorem aggregator_table :
    (∀ f ∈ Func.all, f.name ∈ Gen.GroupBy.aggregatorKeys)
    ∧ Gen.GroupBy.groupKeyIsTuple = true := by decide

/-- **Partition.**  The groups are keyed by a duplicate-free list of keys; a key is listed iff some
row has it; every row lies in the group of its own key and in no other; the group sizes add up to
the number of rows. -/
theorem partition (keyOf : ρ → κ) (rows : List ρ) :
    (groupKeys keyOf rows).Nodup
    ∧ (∀ k, k ∈ groupKeys keyOf rows ↔ ∃ r ∈ rows, keyOf r = k)
    ∧ (∀ r ∈ rows, ∀ k, r ∈ members keyOf rows k ↔ k = keyOf r)
    ∧ ((groupKeys keyOf rows).map fun k => (members keyOf rows k).length).sum = rows.length := by
  refine ⟨nodup_firstSeen _, fun k => mem_groupKeys, ?_, ?_⟩
  · intro r hr k
    simp only [members, List.mem_filter, decide_eq_true_eq, hr, true_and]
    exact eq_comm
  · apply sum_members_length keyOf (nodup_firstSeen _)
    intro r hr
    exact mem_groupKeys.mpr ⟨r, hr, rfl⟩

/-- **The single pass is partition-and-fold** (`aggregate_spec`, first half).  For every non-empty
request list the code's pass — collect each distinct column once, append non-null values per
(group, column), fold every request — yields exactly one entry per distinct key, in order of first
occurrence, holding each request folded over the non-null values of that key's rows. -/
theorem aggregate_spec (keyOf : ρ → κ) (cell : ρ → String → Option Int) (rows : List ρ)
    (reqs : List Req) (h : reqs ≠ []) :
    aggregate keyOf cell rows reqs = reference keyOf cell rows reqs := by
  unfold aggregate reference
  have hcols : firstSeen (reqs.map (·.2)) ≠ [] := firstSeen_ne_nil (by simpa using h)
  simp only
  rw [firstSeen_emit_keys keyOf cell hcols rows]
  apply List.map_congr_left
  intro k _
  congr 1
  apply List.map_congr_left
  intro q hq
  rw [collected_emit keyOf cell (nodup_firstSeen _) rows k q.2]
  rw [if_pos (mem_firstSeen.mpr (List.mem_map.mpr ⟨q, hq, rfl⟩))]

/-- **The folds are the usual aggregates** (`aggregate_spec`, second half): over the list `vs` of a
group's non-null values, COUNT is the length, SUM the sum, AVG the exact quotient sum/length, MIN a
member below all members, MAX a member above all members; on no values COUNT is 0 and the others
null. -/
theorem fold_spec (vs : List Int) :
    fold .count vs = .int vs.length
    ∧ fold .sum vs = (if vs = [] then .null else .int vs.sum)
    ∧ fold .avg vs = (if vs = [] then .null else .ratio vs.sum vs.length)
    ∧ (∀ m, fold .min vs = .int m ↔ m ∈ vs ∧ ∀ x ∈ vs, m ≤ x)
    ∧ (∀ m, fold .max vs = .int m ↔ m ∈ vs ∧ ∀ x ∈ vs, x ≤ m)
    ∧ (fold .min vs = .null ↔ vs = []) ∧ (fold .max vs = .null ↔ vs = []) := by
  refine ⟨rfl, fold_sum_eq vs, fold_avg_eq vs, ?_, ?_, ?_, ?_⟩
  · intro m
    rw [← least_eq_some_iff]
    cases h : least vs <;> simp [fold, h]
  · intro m
    rw [← greatest_eq_some_iff]
    cases h : greatest vs <;> simp [fold, h]
  · rw [← least_eq_none_iff]
    cases h : least vs <;> simp [fold, h]
  · rw [← greatest_eq_none_iff]
    cases h : greatest vs <;> simp [fold, h]

/-- **COUNT(\*) is the group size.**  A column that is non-null in every row (the `*` pseudo column
is) counts the rows of the group, and these counts add up to the size of the frame. -/
theorem count_star (keyOf : ρ → κ) (cell : ρ → String → Option Int) (rows : List ρ) (c : String)
    (hstar : ∀ r ∈ rows, (cell r c).isSome) :
    aggregate keyOf cell rows [(.count, c)] =
      (groupKeys keyOf rows).map (fun k => (k, [Agg.int (members keyOf rows k).length])) := by
  rw [aggregate_spec keyOf cell rows _ (by simp)]
  unfold reference
  apply List.map_congr_left
  intro k _
  have : (nonNull cell (members keyOf rows k) c).length = (members keyOf rows k).length := by
    unfold nonNull
    have hall : ∀ r ∈ members keyOf rows k, (cell r c).isSome := fun r hr =>
      hstar r (List.mem_filter.mp hr).1
    generalize members keyOf rows k = ms at hall
    induction ms with
    | nil => rfl
    | cons r rs ih =>
      have h1 := hall r (by simp)
      rw [List.filterMap_cons]
      cases hc : cell r c with
      | none => rw [hc] at h1; simp at h1
      | some v => simp only [List.length_cons]; rw [ih (fun r' hr' => hall r' (List.mem_cons_of_mem _ hr'))]
  simp [fold, this]

/-- **Distinct keys are never merged.**  The output has one entry per distinct key, and the entry of
key `k` is what the frame made of `k`'s rows alone would give: rows with any other key — whatever
their hashes — have no influence on it. -/
theorem distinct_keys_never_merged (keyOf : ρ → κ) (cell : ρ → String → Option Int) (rows : List ρ)
    (reqs : List Req) (h : reqs ≠ []) :
    ((aggregate keyOf cell rows reqs).map (·.1)).Nodup
    ∧ (∀ k, k ∈ (aggregate keyOf cell rows reqs).map (·.1) ↔ ∃ r ∈ rows, keyOf r = k)
    ∧ ∀ k, k ∈ groupKeys keyOf rows →
        (aggregate keyOf cell rows reqs).lookup k
          = (aggregate keyOf cell (members keyOf rows k) reqs).lookup k := by
  have hkeys : (aggregate keyOf cell rows reqs).map (·.1) = groupKeys keyOf rows := by
    rw [aggregate_spec keyOf cell rows reqs h]
    simp [reference, List.map_map, Function.comp_def]
  refine ⟨by rw [hkeys]; exact nodup_firstSeen _, fun k => by rw [hkeys]; exact mem_groupKeys, ?_⟩
  intro k hk
  rw [aggregate_spec keyOf cell rows reqs h, aggregate_spec keyOf cell _ reqs h]
  unfold reference
  have hk' : k ∈ groupKeys keyOf (members keyOf rows k) := by
    obtain ⟨r, hr, hrk⟩ := mem_groupKeys.mp hk
    exact mem_groupKeys.mpr ⟨r, List.mem_filter.mpr ⟨hr, by simp [hrk]⟩, hrk⟩
  rw [lookup_map_self _ _ hk, lookup_map_self _ _ hk', members_members]

/-- **Requests are independent.**  The row of a group under a request list is the concatenation of
what each request yields for that group when it is asked alone — so the value of `FUNC(col)` does
not depend on which other requests accompany it, repeats of the same column included. -/
theorem requests_independent (keyOf : ρ → κ) (cell : ρ → String → Option Int) (rows : List ρ)
    (reqs : List Req) (h : reqs ≠ []) :
    aggregate keyOf cell rows reqs =
      (groupKeys keyOf rows).map fun k =>
        (k, reqs.flatMap fun q => ((aggregate keyOf cell rows [q]).lookup k).getD []) := by
  rw [aggregate_spec keyOf cell rows reqs h]
  unfold reference
  apply List.map_congr_left
  intro k hk
  congr 1
  have : ∀ q : Req, ((aggregate keyOf cell rows [q]).lookup k).getD []
      = [fold q.1 (nonNull cell (members keyOf rows k) q.2)] := by
    intro q
    rw [aggregate_spec keyOf cell rows [q] (by simp)]
    unfold reference
    rw [lookup_map_self _ _ hk]
    rfl
  simp only [this]
  induction reqs with
  | nil => rfl
  | cons q qs ih =>
    cases qs with
    | nil => simp
    | cons q' qs' => simp only [List.map_cons, List.flatMap_cons] at ih ⊢; rw [← ih (by simp)]; rfl

/-- **Row order does not matter** (beyond output order): permuting the rows permutes the output
entries and changes no key and no value. -/
theorem perm_invariant (keyOf : ρ → κ) (cell : ρ → String → Option Int) (rows rows' : List ρ)
    (reqs : List Req) (h : reqs ≠ []) (hp : rows.Perm rows') :
    (aggregate keyOf cell rows reqs).Perm (aggregate keyOf cell rows' reqs) := by
  rw [aggregate_spec keyOf cell rows reqs h, aggregate_spec keyOf cell rows' reqs h]
  unfold reference
  have hf : (fun k => (k, reqs.map fun q => fold q.1 (nonNull cell (members keyOf rows k) q.2)))
      = fun k => (k, reqs.map fun q => fold q.1 (nonNull cell (members keyOf rows' k) q.2)) := by
    funext k
    congr 1
    apply List.map_congr_left
    intro q _
    apply fold_perm
    unfold nonNull members
    exact (hp.filter _).filterMap _
  rw [hf]
  exact (firstSeen_perm (hp.map keyOf)).map _

/-- **`groups()`** lists the distinct keys, once each, in order of first occurrence. -/
theorem groups_spec (keyOf : ρ → κ) (rows : List ρ) :
    groupsOf keyOf rows = groupKeys keyOf rows := by
  unfold groupsOf
  exact firstSeen_emit_keys keyOf _ (by simp) rows

/-- **Requests one at a time on one object** (`sequence_independent`).  `_group_keys` persists on a
`GroupBy` object and is never reset; the value map is a local of each call.  For every frame and
every finite sequence of calls (`aggregate` with any request lists — the wrappers included —, and
`groups()`, in any order, repeats included) on one object, every result equals the result of that
call alone on a fresh object, and after every call `_group_keys` holds exactly the distinct keys of
the frame. -/
theorem sequence_independent (keyOf : ρ → κ) (cell : ρ → String → Option Int) (rows : List ρ)
    (ops : List Op) :
    runS keyOf cell rows [] ops = ops.map fun op => (stepS keyOf cell rows [] op).2 := by
  suffices h : ∀ st, (st = [] ∨ st = groupKeys keyOf rows) →
      runS keyOf cell rows st ops = ops.map fun op => (stepS keyOf cell rows [] op).2 from
    h [] (Or.inl rfl)
  induction ops with
  | nil => intro st _; rfl
  | cons op ops ih =>
    intro st hst
    obtain ⟨h1, h2⟩ := stepS_state keyOf cell rows st hst op
    simp only [runS, List.map_cons]
    rw [h2, ih _ (Or.inr h1)]

/-- The result of an `aggregate` call in a sequence is the partition-and-fold reference, and
`groups()` at any point lists the distinct keys. -/
theorem sequence_spec (keyOf : ρ → κ) (cell : ρ → String → Option Int) (rows : List ρ) (op : Op) :
    (stepS keyOf cell rows [] op).2 =
      match op with
      | .aggregate reqs => .table (aggregate keyOf cell rows reqs)
      | .groups => .keys (groupKeys keyOf rows) := by
  cases op with
  | aggregate reqs => rfl
  | groups => exact congrArg Out.keys (groups_spec keyOf rows)

/-- **Use, mutate, use again.**  A `GroupBy` object holds a reference to its frame, and
`_group_keys` is never reset.  For every history of calls on one object (`aggregate` with any request
lists, the wrappers, `groups()`) with rows appended to the frame in between (`DataFrame.append`),
every call returns what it returns alone on a fresh object of the frame as it is at the time of the
call: the keys registered when the frame was shorter are a prefix of the keys of the longer frame,
in the same order, so nothing stale survives. -/
theorem sequence_with_appends (keyOf : ρ → κ) (cell : ρ → String → Option Int) (rows : List ρ)
    (ops : List (OpA ρ)) :
    runSA keyOf cell rows [] ops = aloneA keyOf cell rows ops :=
  runSA_eq_aloneA keyOf cell ops [] rows

/-- **Layout of a result row**: when the labels and the key column names are pairwise distinct, the
header is the `FUNC(column)` labels in request order followed by the key columns, and every row is
the aggregates followed by the key values. -/
theorem layout (keyCols : List String) (reqs : List Req) (k : List PyVal) (aggs : List Agg)
    (hnd : (reqs.map label ++ keyCols).Nodup) (hk : k.length = keyCols.length)
    (ha : aggs.length = reqs.length) :
    header keyCols reqs = reqs.map label ++ keyCols
    ∧ resultRow keyCols reqs k aggs = aggs.map Agg.toPyVal ++ k := by
  constructor
  · unfold header
    rw [dictOf_nodup]
    · simp [List.map_append, List.map_map, Function.comp_def]
    · simpa [List.map_append, List.map_map, Function.comp_def] using hnd
  · unfold resultRow
    have hA1 : ((reqs.zip aggs).map fun qa => (label qa.1, qa.2.toPyVal)).map (·.1) = reqs.map label := by
      rw [List.map_map]
      have : ((fun x : String × PyVal => x.1) ∘ fun qa : Req × Agg => (label qa.1, qa.2.toPyVal))
          = label ∘ Prod.fst := rfl
      rw [this, ← List.map_map, List.map_fst_zip (by omega)]
    have hA2 : ((reqs.zip aggs).map fun qa => (label qa.1, qa.2.toPyVal)).map (·.2)
        = aggs.map Agg.toPyVal := by
      rw [List.map_map]
      have : ((fun x : String × PyVal => x.2) ∘ fun qa : Req × Agg => (label qa.1, qa.2.toPyVal))
          = Agg.toPyVal ∘ Prod.snd := rfl
      rw [this, ← List.map_map, List.map_snd_zip (by omega)]
    have hB1 : (keyCols.zip k).map (·.1) = keyCols := List.map_fst_zip (by omega)
    have hB2 : (keyCols.zip k).map (·.2) = k := List.map_snd_zip (by omega)
    rw [dictOf_nodup _ (by rw [List.map_append, hA1, hB1]; exact hnd)]
    rw [List.map_append, hA2, hB2]

/-- **Frames.**  On a frame whose key columns all exist, with labels and key column names pairwise
distinct, `group_by(keyCols).aggregate(reqs)` returns the header `FUNC(column)… , key columns…` and,
for every distinct key tuple in first-occurrence order, the reference aggregates followed by the key
values.  (Total: the empty frame gives the header and no rows.) -/
theorem run_spec (fr : Frame) (keyCols : List String) (reqs : List Req) (idx : List Nat)
    (h : reqs ≠ []) (hidx : keyCols.mapM (fun c => index c fr.columns) = some idx)
    (hnd : (reqs.map label ++ keyCols).Nodup) :
    run fr keyCols reqs = .ok (reqs.map label ++ keyCols,
      (reference (keyAt idx) (cellOf fr.columns) fr.rows reqs).map fun ka =>
        ka.2.map Agg.toPyVal ++ ka.1) := by
  unfold run
  rw [hidx]
  simp only
  have hlen := mapM_length _ _ _ hidx
  rw [aggregate_spec _ _ _ _ h]
  congr 2
  · exact (layout keyCols reqs (idx.map fun _ => PyVal.none) (reqs.map fun _ => Agg.null) hnd
      (by simp [hlen]) (by simp)).1
  · apply List.map_congr_left
    intro ka hka
    unfold reference at hka
    obtain ⟨k, hk, rfl⟩ := List.mem_map.mp hka
    obtain ⟨r, _, hr⟩ := mem_groupKeys.mp hk
    exact (layout keyCols reqs _ _ hnd (by rw [← hr]; simp [keyAt, hlen]) (by simp)).2

/-- A key column that is not in the frame is refused, whatever the rows and requests. -/
theorem run_missing_key (fr : Frame) (keyCols : List String) (reqs : List Req)
    (hidx : keyCols.mapM (fun c => index c fr.columns) = none) :
    run fr keyCols reqs = .error .valueError := by
  unfold run
  rw [hidx]

/-- **Dict collapse.**  A Python dict built by successive assignments — the result row of
group_by.py:149-153 is one — has every assigned name once, in order of first assignment, and holds
under each name the value assigned last.  No distinctness assumption. -/
theorem dict_collapse {β : Type} (kvs : List (String × β)) :
    (dictOf kvs).map (·.1) = firstSeen (kvs.map (·.1))
    ∧ ((dictOf kvs).map (·.1)).Nodup
    ∧ ∀ k, dictGet (dictOf kvs) k = lastAssigned kvs k := by
  refine ⟨dictOf_keys kvs, ?_, dictGet_dictOf kvs⟩
  rw [dictOf_keys]
  exact nodup_firstSeen _

/-- **Layout with repeated names.**  For any request list and key columns — repeated identical
requests, a key column named twice, a key column named like a label — the header is the labels
followed by the key columns with every name kept at its first position only, and every cell of a
result row is the value most recently assigned under its column's name (labels in request order,
then key columns). -/
theorem layout_general (keyCols : List String) (reqs : List Req) (k : List PyVal) (aggs : List Agg) :
    header keyCols reqs = firstSeen (reqs.map label ++ keyCols)
    ∧ resultRow keyCols reqs k aggs =
        (firstSeen (((reqs.zip aggs).map fun qa => label qa.1) ++ (keyCols.zip k).map (·.1))).map fun name =>
          (lastAssigned (((reqs.zip aggs).map fun qa => (label qa.1, qa.2.toPyVal)) ++ keyCols.zip k) name).getD .none := by
  constructor
  · unfold header
    rw [dictOf_keys]
    simp [List.map_append, List.map_map, Function.comp_def]
  · unfold resultRow
    have hk := dictOf_keys (((reqs.zip aggs).map fun qa => (label qa.1, qa.2.toPyVal)) ++ keyCols.zip k)
    rw [map_snd_eq_map_get _ (by rw [hk]; exact nodup_firstSeen _) PyVal.none, hk]
    simp only [List.map_append, List.map_map, Function.comp_def]
    apply List.map_congr_left
    intro name _
    rw [dictGet_dictOf]

/-- Non-vacuity: colliding keys -1 / -2 stay apart, a column requested twice is counted once, an
all-null group keeps its row, and the reverse frame gives the same entries. -/
example :
    let rows : List (Int × Option Int) := [(-1, some 1), (-2, some 10), (-1, none), (7, none)]
    let reqs : List Req := [(.sum, "v"), (.max, "v"), (.count, "v"), (.count, "*"), (.avg, "v")]
    let cell := fun (r : Int × Option Int) (c : String) => if c = "v" then r.2 else some 0
    aggregate (·.1) cell rows reqs =
      [(-1, [.int 1, .int 1, .int 1, .int 2, .ratio 1 1]),
       (-2, [.int 10, .int 10, .int 1, .int 1, .ratio 10 1]),
       (7, [.null, .null, .int 0, .int 1, .null])] := by decide

/-- Non-vacuity on a frame of `PyVal` rows: a two-column key whose tuples collide in CPython. -/
example :
    (run { columns := ["k", "j", "v"],
           rows := [[.int 0, .str "a", .int 4], [.int 2305843009213693951, .str "a", .none],
                    [.int 0, .str "a", .int 6]] }
        ["k", "j"] [(.avg, "v"), (.count, "*")]).toOption
      = some (["AVG(v)", "COUNT(*)", "k", "j"],
             [[.list [.str "avg", .int 10, .int 2], .int 2, .int 0, .str "a"],
              [.none, .int 1, .int 2305843009213693951, .str "a"]]) := by decide

/-- Non-vacuity of the collapse: a request repeated verbatim and a key column named twice. -/
example :
    (run { columns := ["k", "v"], rows := [[.int (-1), .int 4], [.int (-2), .int 1], [.int (-1), .int 6]] }
        ["k", "k"] [(.sum, "v"), (.max, "v"), (.sum, "v")]).toOption
      = some (["SUM(v)", "MAX(v)", "k"], [[.int 10, .int 6, .int (-1)], [.int 1, .int 1, .int (-2)]]) := by decide

/-! ## What "beyond output order" and "as usually defined" mean, made precise -/

/-- **Output order.**  The output rows come in the order in which their keys first occur in the
frame; this is the only thing about the result that depends on the order of the input rows
(`perm_invariant`, `run_perm_invariant`). -/
theorem output_order (keyOf : ρ → κ) (cell : ρ → String → Option Int) (rows : List ρ)
    (reqs : List Req) (h : reqs ≠ []) :
    (aggregate keyOf cell rows reqs).map (·.1) = groupKeys keyOf rows := by
  rw [aggregate_spec keyOf cell rows reqs h]
  simp [reference, List.map_map, Function.comp_def]

/-- **Row order, at the level of frames**: for two frames with the same columns whose rows are a
permutation of each other, `group_by(keys).aggregate(reqs)` has the same header, the output rows of
one are a permutation of the output rows of the other (same keys, same aggregate values), and a
refused key column is refused for both. -/
theorem run_perm_invariant (fr fr' : Frame) (hc : fr.columns = fr'.columns) (hp : fr.rows.Perm fr'.rows)
    (keyCols : List String) (reqs : List Req) (h : reqs ≠ []) :
    match run fr keyCols reqs, run fr' keyCols reqs with
    | .ok r1, .ok r2 => r1.1 = r2.1 ∧ r1.2.Perm r2.2
    | .error e1, .error e2 => e1 = e2
    | _, _ => False := by
  unfold run
  rw [← hc]
  cases hidx : keyCols.mapM (fun c => index c fr.columns) with
  | none => simp
  | some idx =>
    simp only
    exact ⟨trivial, (perm_invariant (keyAt idx) (cellOf fr.columns) fr.rows fr'.rows reqs h hp).map _⟩

/-- **MIN and MAX are Python's `min` and `max`**: the model's `least` / `greatest` on integers are
the walk `min(values)` / `max(values)` does with the comparison `<` of the values. -/
theorem min_max_are_python_walks (vs : List Int) :
    least vs = leastBy (fun a b => decide (a < b)) vs
    ∧ greatest vs = leastBy (fun a b => decide (b < a)) vs :=
  ⟨least_eq_leastBy vs, greatest_eq_leastBy vs⟩

section
variable {α : Type} (lt : α → α → Bool)

/-- **What MIN / MAX demand of the values, 1.**  Over any strict partial order — whatever kind of
value the column holds — Python's walk returns a member of the group with no member below it. -/
theorem min_of_partial_order_is_minimal (hirr : ∀ a, lt a a = false)
    (htr : ∀ a b c, lt a b = true → lt b c = true → lt a c = true) (vs : List α) (m : α)
    (h : leastBy lt vs = some m) : m ∈ vs ∧ ∀ x ∈ vs, lt x m = false := by
  cases vs with
  | nil => simp [leastBy] at h
  | cons v vs =>
    simp only [leastBy, Option.some.injEq] at h
    subst h
    obtain ⟨h1, _, h3⟩ := foldl_leastBy_spec lt hirr htr vs v [] (by simp)
    exact ⟨h1, h3⟩

/-- **What MIN / MAX demand of the values, 2.**  When the comparison is moreover total on the values
of the group (numbers without NaN, texts, booleans, Decimals — not NaN, not values of different
kinds; only the values that occur need to be comparable) that member is unique and the result does
not depend on the order of the rows.  Totality is needed: the example below is a float column with
a NaN. -/
theorem min_of_total_order_ignores_row_order (hirr : ∀ a, lt a a = false)
    (htr : ∀ a b c, lt a b = true → lt b c = true → lt a c = true) {vs ws : List α}
    (htot : ∀ a ∈ vs, ∀ b ∈ vs, a ≠ b → lt a b = true ∨ lt b a = true) (hp : vs.Perm ws) :
    leastBy lt vs = leastBy lt ws := by
  cases hv : leastBy lt vs with
  | none =>
    cases vs with
    | nil => rw [List.nil_perm.mp hp]; rfl
    | cons v vs => simp [leastBy] at hv
  | some m =>
    cases hw : leastBy lt ws with
    | none =>
      cases ws with
      | nil => rw [List.perm_nil.mp hp] at hv; simp [leastBy] at hv
      | cons w ws => simp [leastBy] at hw
    | some m' =>
      obtain ⟨h1, h2⟩ := min_of_partial_order_is_minimal lt hirr htr vs m hv
      obtain ⟨h1', h2'⟩ := min_of_partial_order_is_minimal lt hirr htr ws m' hw
      congr 1
      apply Classical.byContradiction
      intro hne
      rcases htot m h1 m' (hp.mem_iff.mpr h1') hne with h | h
      · rw [h2' m (hp.mem_iff.mp h1)] at h; exact absurd h (by simp)
      · rw [h2 m' (hp.mem_iff.mpr h1')] at h; exact absurd h (by simp)
end

/-- A float column with a NaN (`none`; every comparison with it is false — a strict partial order
that is not total): `min` depends on the order of the rows.  The property's "MIN, MAX as usually
defined" and "does not depend on the order of the input rows" can therefore only be asked of value
columns on which `<` is total; the harness keeps NaN out of the judged value columns and records
what orso does with them (`outside-domain:…` in the evidence). -/
example :
    let lt : Option Nat → Option Nat → Bool := fun a b => match a, b with | some x, some y => x < y | _, _ => false
    leastBy lt [none, some 1] = some none ∧ leastBy lt [some 1, none] = some (some 1) := by decide

/-! ## Float value columns: the infinities, NaN, the negative zero

The statement folds "that group's non-null values".  A NaN is a value, not a null: `COUNT` counts it,
`SUM` and `AVG` of a group that holds one are NaN (`Model/GroupByX.lean`).  The theorems of this
section are the property on frames whose value cells are floats `XVal` = a finite number | `inf` |
`-inf` | `nan` (the negative zero is the number zero). -/
section Floats

/-- **The single pass is partition-and-fold on float columns too**: for every frame whose value
cells are floats (NaN and the infinities among them) and every non-empty request list, `aggregate`
yields one entry per distinct key in first-occurrence order, each request folded over *all* the
non-null values of that key's rows — a NaN is one of them. -/
theorem float_aggregate_spec (keyOf : ρ → κ) (cell : ρ → String → Option XVal) (rows : List ρ)
    (reqs : List Req) (h : reqs ≠ []) :
    aggregateX keyOf cell rows reqs = referenceX keyOf cell rows reqs := by
  unfold aggregateX referenceX
  have hcols : firstSeen (reqs.map (·.2)) ≠ [] := firstSeen_ne_nil (by simpa using h)
  simp only
  rw [firstSeen_emit_keys keyOf cell hcols rows]
  apply List.map_congr_left
  intro k _
  congr 1
  apply List.map_congr_left
  intro q hq
  rw [collected_emit keyOf cell (nodup_firstSeen _) rows k q.2]
  rw [if_pos (mem_firstSeen.mpr (List.mem_map.mpr ⟨q, hq, rfl⟩))]

/-- **The folds on floats are the usual aggregates.**  Over the list `vs` of a group's non-null float
values: COUNT is the length (a NaN counts); SUM is `sumOfFloats` — NaN as soon as a NaN or both
infinities are among the values, otherwise the infinity among them, otherwise the exact sum — and AVG
is that sum over the length (NaN / ±inf when the sum is); on no values COUNT is 0 and the others
null; when no NaN is among the values MIN / MAX are the member with no member below / above it. -/
theorem float_fold_spec (vs : List XVal) :
    xfold .count vs = .val (.fin vs.length)
    ∧ xfold .sum vs = (if vs = [] then .null else .val (sumOfFloats vs))
    ∧ xfold .avg vs = (if vs = [] then .null else
        match sumOfFloats vs with | .fin s => .ratio s vs.length | x => .val x)
    ∧ (XVal.nan ∉ vs → ∀ m, xfold .min vs = .val m ↔ m ∈ vs ∧ ∀ x ∈ vs, x.lt m = false)
    ∧ (XVal.nan ∉ vs → ∀ m, xfold .max vs = .val m ↔ m ∈ vs ∧ ∀ x ∈ vs, m.lt x = false)
    ∧ (xfold .min vs = .null ↔ vs = []) ∧ (xfold .max vs = .null ↔ vs = []) := by
  have htot : XVal.nan ∉ vs → ∀ a ∈ vs, ∀ b ∈ vs, a ≠ b → a.lt b = true ∨ b.lt a = true :=
    fun hn a ha b hb hab => XVal.lt_total (fun e => hn (e ▸ ha)) (fun e => hn (e ▸ hb)) hab
  refine ⟨rfl, ?_, ?_, ?_, ?_, ?_, ?_⟩
  · cases vs with
    | nil => rfl
    | cons v vs => simp [xfold, xtotal_eq]
  · cases vs with
    | nil => rfl
    | cons v vs =>
      simp only [xfold, xtotal_eq]
      rw [if_neg (by simp)]
      cases sumOfFloats (v :: vs) <;> rfl
  · intro hn m
    rw [← leastBy_eq_some_iff XVal.lt XVal.lt_irrefl XVal.lt_trans vs (htot hn) m, ← xleast_eq_leastBy]
    cases h : xleast vs <;> simp [xfold, h]
  · intro hn m
    rw [← leastBy_eq_some_iff (fun a b => XVal.lt b a) XVal.lt_irrefl
      (fun a b c hab hbc => XVal.lt_trans c b a hbc hab) vs
      (fun a ha b hb hab => (htot hn a ha b hb hab).symm) m, ← xgreatest_eq_leastBy]
    cases h : xgreatest vs <;> simp [xfold, h]
  · cases vs <;> simp [xfold, xleast]
  · cases vs <;> simp [xfold, xgreatest]

/-- **Row order and float values.**  COUNT, SUM and AVG of any float values — NaN and the infinities
included — do not depend on their order; MIN and MAX do not as long as no NaN is among them (with a
NaN they do: the example after `min_of_total_order_ignores_row_order`). -/
theorem float_fold_ignores_row_order (f : Func) {vs ws : List XVal} (hp : vs.Perm ws)
    (hn : (f = .min ∨ f = .max) → XVal.nan ∉ vs) : xfold f vs = xfold f ws := by
  have hnil : vs = [] ↔ ws = [] := by
    constructor
    · rintro rfl; exact List.nil_perm.mp hp
    · rintro rfl; exact List.perm_nil.mp hp
  have htot : XVal.nan ∉ vs → ∀ a ∈ vs, ∀ b ∈ vs, a ≠ b → a.lt b = true ∨ b.lt a = true :=
    fun hn a ha b hb hab => XVal.lt_total (fun e => hn (e ▸ ha)) (fun e => hn (e ▸ hb)) hab
  cases f with
  | count => simp [xfold, hp.length_eq]
  | min =>
    have := min_of_total_order_ignores_row_order XVal.lt XVal.lt_irrefl XVal.lt_trans
      (htot (hn (Or.inl rfl))) hp
    simp only [xfold, xleast_eq_leastBy, this]
  | max =>
    have := min_of_total_order_ignores_row_order (fun a b => XVal.lt b a) XVal.lt_irrefl
      (fun a b c hab hbc => XVal.lt_trans c b a hbc hab)
      (fun a ha b hb hab => (htot (hn (Or.inr rfl)) a ha b hb hab).symm) hp
    simp only [xfold, xgreatest_eq_leastBy, this]
  | sum =>
    cases vs with
    | nil => rw [hnil.mp rfl]
    | cons v vs =>
      cases ws with
      | nil => exact absurd (hnil.mpr rfl) (by simp)
      | cons w ws => simp only [xfold, xtotal_perm hp]
  | avg =>
    cases vs with
    | nil => rw [hnil.mp rfl]
    | cons v vs =>
      cases ws with
      | nil => exact absurd (hnil.mpr rfl) (by simp)
      | cons w ws => simp only [xfold, xtotal_perm hp, hp.length_eq]

/-- **Row order, frames with float columns**: permuting the rows permutes the output entries and
changes no key and no value — for COUNT, SUM, AVG and COUNT(\*) whatever the floats, for MIN / MAX of
the columns that hold no NaN. -/
theorem float_perm_invariant (keyOf : ρ → κ) (cell : ρ → String → Option XVal) (rows rows' : List ρ)
    (reqs : List Req) (h : reqs ≠ []) (hp : rows.Perm rows')
    (hn : ∀ q ∈ reqs, (q.1 = .min ∨ q.1 = .max) → ∀ r ∈ rows, cell r q.2 ≠ some .nan) :
    (aggregateX keyOf cell rows reqs).Perm (aggregateX keyOf cell rows' reqs) := by
  rw [float_aggregate_spec keyOf cell rows reqs h, float_aggregate_spec keyOf cell rows' reqs h]
  unfold referenceX
  have hf : ∀ k, (k, reqs.map fun q => xfold q.1 (nonNull cell (members keyOf rows k) q.2))
      = (k, reqs.map fun q => xfold q.1 (nonNull cell (members keyOf rows' k) q.2)) := by
    intro k
    congr 1
    apply List.map_congr_left
    intro q hq
    apply float_fold_ignores_row_order
    · unfold nonNull members
      exact (hp.filter _).filterMap _
    · intro hmm hmem
      unfold nonNull at hmem
      obtain ⟨r, hr, hc⟩ := List.mem_filterMap.mp hmem
      exact hn q hq hmm r (List.mem_filter.mp hr).1 hc
  rw [List.map_congr_left (fun k _ => hf k)]
  exact (firstSeen_perm (hp.map keyOf)).map _

/-- **On finite columns the float model is the integer model**: a frame whose value cells are all
finite gives, through `aggregateX`, exactly the entries of `aggregate` — so every theorem above about
`aggregate` speaks about float columns without NaN and infinities as well. -/
theorem float_finite_is_integer_model (keyOf : ρ → κ) (cell : ρ → String → Option Int) (rows : List ρ)
    (reqs : List Req) (h : reqs ≠ []) :
    aggregateX keyOf (fun r c => (cell r c).map .fin) rows reqs
      = (aggregate keyOf cell rows reqs).map fun ka => (ka.1, ka.2.map XAgg.ofAgg) := by
  rw [float_aggregate_spec _ _ _ _ h, aggregate_spec _ _ _ _ h]
  unfold referenceX reference
  rw [List.map_map]
  apply List.map_congr_left
  intro k _
  simp only [Function.comp, List.map_map]
  congr 1
  apply List.map_congr_left
  intro q _
  rw [nonNull_map_fin, xfold_map_fin]
  rfl

/-- **A NaN is a value, not a null.**  `COUNT(c)` of a group is the number of its rows whose cell `c`
is not null — the rows holding a NaN (or an infinity, or a zero) are among them — and `SUM(c)` and
`AVG(c)` of a group one of whose rows holds a NaN are NaN. -/
theorem float_nan_is_a_value (keyOf : ρ → κ) (cell : ρ → String → Option XVal) (rows : List ρ) (c : String) :
    aggregateX keyOf cell rows [(.count, c)] =
      (groupKeys keyOf rows).map (fun k =>
        (k, [XAgg.val (.fin ((members keyOf rows k).filter fun r => (cell r c).isSome).length)]))
    ∧ ∀ r ∈ rows, cell r c = some .nan →
        (aggregateX keyOf cell rows [(.sum, c), (.avg, c)]).lookup (keyOf r) = some [.val .nan, .val .nan] := by
  constructor
  · rw [float_aggregate_spec keyOf cell rows _ (by simp)]
    unfold referenceX
    apply List.map_congr_left
    intro k _
    have : (nonNull cell (members keyOf rows k) c).length
        = ((members keyOf rows k).filter fun r => (cell r c).isSome).length := by
      unfold nonNull
      generalize members keyOf rows k = ms
      induction ms with
      | nil => rfl
      | cons r rs ih =>
        rw [List.filterMap_cons, List.filter_cons]
        cases hc : cell r c <;> simp [ih]
    simp [xfold, this]
  · intro r hr hc
    rw [float_aggregate_spec keyOf cell rows _ (by simp)]
    unfold referenceX
    rw [lookup_map_self _ _ (mem_groupKeys.mpr ⟨r, hr, rfl⟩)]
    have hmem : XVal.nan ∈ nonNull cell (members keyOf rows (keyOf r)) c := by
      unfold nonNull members
      exact List.mem_filterMap.mpr ⟨r, List.mem_filter.mpr ⟨hr, by simp⟩, hc⟩
    have hne : nonNull cell (members keyOf rows (keyOf r)) c ≠ [] := List.ne_nil_of_mem hmem
    have hs : sumOfFloats (nonNull cell (members keyOf rows (keyOf r)) c) = .nan := by
      unfold sumOfFloats
      rw [if_pos (Or.inl hmem)]
    obtain ⟨_, h2, h3, _⟩ := float_fold_spec (nonNull cell (members keyOf rows (keyOf r)) c)
    simp only [List.map_cons, List.map_nil, h2, h3, if_neg hne, hs]

/-- Non-vacuity: a float column with a NaN, both infinities and nulls; the NaN is counted, the sums
with a NaN or with both infinities are NaN, the all-null group keeps its row. -/
example :
    let rows : List (Int × Option XVal) :=
      [(-1, some (.fin 3)), (-2, some .nan), (-1, none), (-1, some .nan), (-2, some (.fin 1)),
       (7, none), (5, some .pinf), (5, some .ninf), (6, some .pinf), (6, some (.fin 2))]
    let reqs : List Req := [(.count, "v"), (.sum, "v"), (.avg, "v"), (.count, "*")]
    let cell := fun (r : Int × Option XVal) (c : String) => if c = "v" then r.2 else some (.fin 1)
    aggregateX (·.1) cell rows reqs =
      [(-1, [.val (.fin 2), .val .nan, .val .nan, .val (.fin 3)]),
       (-2, [.val (.fin 2), .val .nan, .val .nan, .val (.fin 2)]),
       (7, [.val (.fin 0), .null, .null, .val (.fin 1)]),
       (5, [.val (.fin 2), .val .nan, .val .nan, .val (.fin 2)]),
       (6, [.val (.fin 2), .val .pinf, .val .pinf, .val (.fin 2)])] := by decide

end Floats

/-! ## The source, statement by statement

`GroupByCode.source` is the program `harness/extractors/c12_code.py` reads from the AST of
`orso/group_by.py` and `orso/dataframe.py` on every run (`Generated/GroupByCode.lean`);
`GroupByCode.aggregateC`, `stepC`, `runCallsC`, `runCallsF` interpret it.  The theorems below are
about *that* program: when a statement of the source changes in a way that breaks the property,
the theorem that names the statement's job stops checking. -/
section Source
open GroupByCode GroupByIR

/-- **The aggregator table of the source** (`AGGREGATORS` and the bodies of the five functions it
names, group_by.py:24-46) computes the five folds of `fold_spec` on every list of non-null values:
in particular COUNT of no values is 0, MIN / MAX / AVG / SUM of no values are null (not 0, no
exception), and a sum that happens to be zero stays the number zero. -/
theorem source_aggregators (f : Func) (vs : List Int) :
    evalA (aggOf source f) (vs.map some) = AVal.ofAgg (fold f vs) := by
  have h : aggOk f (aggOf source f) = true := by cases f <;> decide
  exact aggOk_sound h vs

/-- **Every requested column is collected once** (`collect_columns = …` in `aggregate`,
group_by.py:127): the argument handed to `_map` is duplicate-free and names exactly the requested
columns, however often a column is requested.  (Repair C12-F02; with `[col for _, col in
aggregations]` this is false, `collect_all_counts_twice`.) -/
theorem source_collects_each_column_once (reqs : List Req) :
    (collectCols source.collect reqs).Nodup
    ∧ ∀ c, c ∈ collectCols source.collect reqs ↔ c ∈ reqs.map (·.2) := by
  have h : source.collect = .dedup := by decide
  rw [h]
  exact ⟨nodup_firstSeen _, fun c => mem_firstSeen⟩

/-- **The collection loop registers the group before the null test** (group_by.py:128-132): on a
null value the body of the loop touches `column_value_map[group_key]` and appends nothing; on any
other value (zero included) it appends the value exactly once; `_map` yields a triple for every
row and requested column whatever the value, and registers the group's key values in
`_group_keys`.  (Repair C12-F03; decided by running the extracted body on the three kinds of value
its tests can tell apart — `stepBody_ok` shows that this determines the body on every value.) -/
theorem source_registers_before_null_test :
    bodyOk source.body = true ∧ yieldOk source.yieldGuards = true ∧ source.registers = true := by
  decide

/-- **The collection loop appends every float value, NaN included** (group_by.py:128-132).  On the
values of a float column the tests of the loop can tell more kinds apart (`value != value` is true
of a NaN only): for every float value — zero, a finite number, an infinity, NaN — the body of the
loop in the working tree appends the value exactly once and `_map` yields its triple; on a null it
registers the group and appends nothing.  A NaN is a non-null value (`float_nan_is_a_value`); a loop
that treats it as a null (`if value is None or value != value: continue`) fails this theorem while
it passes `source_registers_before_null_test`, which only speaks about integers. -/
theorem source_appends_every_float_value :
    (∀ v : XVal, ((effectX source.body (some v)).filter isAppend).length = 1
      ∧ guardsHoldX source.yieldGuards (some v) = true)
    ∧ effectX source.body none ≠ [] ∧ ∀ a ∈ effectX source.body none, a = Action.touch := by
  have hb : bodyOkX source.body = true := by decide
  have hy : yieldOkX source.yieldGuards = true := by decide
  obtain ⟨⟨h1, h2⟩, h3⟩ := bodyOkX_sound hb
  exact ⟨fun v => ⟨h3 v, yieldOkX_sound hy (some v)⟩, h1, h2⟩

/-- **A group is identified by its key values** (`group_key = …` in `_map`, group_by.py:92):
whatever the hash function, the identity `_map` computes is injective in the key.  (Repair C12-F01;
false for `hash(tuple(…))`, `hash_identity_merges`.) -/
theorem source_group_identity_injective {κ : Type} (h : κ → κ) :
    Function.Injective (identOf h source.key) := by
  have hk : source.key = .tuple ∨ source.key = .typedTuple := by decide
  rcases hk with hk | hk <;> rw [hk] <;> intro a b hab <;> exact hab

/-- **A lazily backed frame is materialised before it is walked** (`for record in self._dictset` in
`_map`; `DataFrame.__iter__` calls `materialize`, which replaces a generator by a list). -/
theorem source_iterates_materialised :
    source.via = .frame ∧ source.iterMaterialises = true ∧ source.materializeMakesList = true := by
  decide

/-- **A result without groups still has its header** (`if not result_set:` in `aggregate`,
`if not self._group_keys:` in `groups`, repair C12-F04): both branches are there and return a frame
with the columns and no rows, instead of handing an empty list of dictionaries to `DataFrame`. -/
theorem source_empty_frame_header :
    source.aggEmptyHeader = true ∧ source.groupsEmptyHeader = true := by
  decide

/-- **A result row holds the aggregates themselves** (`results = {label: values.get(label) …}`,
group_by.py:143): the cell written under a label is the value the aggregator returned — a COUNT of 0,
a SUM or AVG of 0 stay the number zero (with `values.get(label) or None` they would turn into null,
`falsy_cell_loses_zero`). -/
theorem source_result_cells : source.cell = .get := by decide

/-- **The convenience wrappers ask for their own function**: `max` → `MAX`, `min` → `MIN`,
`sum` → `SUM`, `avg` → `AVG` over the columns given, `count` → `COUNT(*)`. -/
theorem source_wrappers :
    ∀ w ∈ [("max", "MAX", ""), ("min", "MIN", ""), ("sum", "SUM", ""), ("count", "COUNT", "*"),
           ("avg", "AVG", "")], w ∈ Gen.GroupByCode.wrappers := by
  decide

/-- **Nothing but `_group_keys` survives a call, and `_group_keys` belongs to the object**:
`column_value_map` is created inside `aggregate` (a value map kept on the object would hand the
values collected by one call to the next, `stale_value_map_counts_twice`), and `_group_keys` is
created in `__init__`, one per `GroupBy` object. -/
theorem source_state_between_calls :
    source.freshValueMap = true ∧ source.registryPerObject = true := by
  decide

/-- The conditions of the refinement lemmas, for the program in the working tree. -/
theorem source_good : Good source :=
  { body := source_registers_before_null_test.1
    yields := source_registers_before_null_test.2.1
    registers := source_registers_before_null_test.2.2
    cols := source_collects_each_column_once
    aggs := source_aggregators
    lazy := source_iterates_materialised
    fresh := source_state_between_calls.1
    perObject := source_state_between_calls.2 }

/-- **`aggregate` as written is partition-and-fold.**  For every frame, key function, hash function,
non-empty request list (repeats included) and every state of `_group_keys` left by earlier calls on
the object: the statements of `_map` and `aggregate` in the working tree — key computation,
registration, emission, de-duplicated collection, the loop body with its null test, the aggregator
functions — return one entry per distinct key in first-occurrence order, each request folded over
the non-null values of that key's rows. -/
theorem source_aggregate_spec {ρ κ : Type} [DecidableEq κ] (h : κ → κ) (keyOf : ρ → κ)
    (cell : ρ → String → Option Int) (st : ObjState κ κ)
    (hst : Consistent (identOf h source.key) st.keys) (rows : List ρ) (reqs : List Req) (hne : reqs ≠ []) :
    (aggregateC source (identOf h source.key) keyOf cell st rows reqs).2
      = some ((reference keyOf cell rows reqs).map fun ka => (ka.1, ka.2.map AVal.ofAgg)) := by
  rw [(aggregateC_ok source source_good.body source_good.yields source_good.registers source_good.fresh reqs
    (source_good.cols reqs) source_good.aggs (source_group_identity_injective h) keyOf cell st hst rows).2,
    aggregate_spec keyOf cell rows reqs hne]

/-- **The `*` pseudo column is never null, and every column of the frame is itself**
(`collect_column_indicies = [source_columns.index(target) if target in source_columns else -1 …]` and
`"*" if column == -1 else record[column]`, group_by.py:89-104): the value `_map` yields for a requested
column is the row's cell — for the column at position 0 as for any other (`positions.get(target) or -1`
would turn the first column into `*`, example `first_column_is_not_star` below) — and a non-null marker
when the column is not in the frame — so `COUNT(*)` is the group size (`count_star`). -/
theorem source_star_never_null (columns : List String) (r : List PyVal) (c : String) :
    cellOfC source.value source.colIndex columns r c = cellOf columns r c
    ∧ (index c columns = none → (cellOfC source.value source.colIndex columns r c).isSome) := by
  have hv : source.value = .starIfMissing := by decide
  have hp : posOf source.colIndex c columns = index c columns := by
    have hi : source.colIndex = .indexIfPresent ∨ source.colIndex = .getDefault := by decide
    rcases hi with hi | hi <;> rw [hi] <;> rfl
  rw [hv]
  constructor
  · unfold cellOfC cellOf
    rw [hp]
    cases index c columns <;> rfl
  · intro hc
    unfold cellOfC
    rw [hp, hc]
    rfl

/-- **Labels.**  Every f-string of `aggregate` that names an aggregate column produces
`FUNC(column)`. -/
theorem source_label_format (q : Req) : ∀ fmt ∈ source.labels, labelC fmt q = label q := by
  have hl : source.labels.all (· == stdLabel) = true := by decide
  intro fmt hfmt
  have : fmt = stdLabel := by simpa using List.all_eq_true.mp hl fmt hfmt
  subst this
  simp [labelC, stdLabel, label, String.join]

/-- **Any sequence of calls on any number of `GroupBy` objects of one frame, lazily backed or
materialised.**  `objs` are the key column lists of the objects `df.group_by(objs[g])` (all key
columns in the frame, at positions `idxs[g]`), `calls` any list of (object, call) — `aggregate` with
any request lists, `groups()`, in any order, repeats included.  Read from the source, every call
returns exactly what `run` / `runGroups` return for that call alone on a fresh object of the
materialised frame (`run_spec`: the partition-and-fold table laid out as labels then keys), and a
frame without rows gives the header and no rows (repair C12-F04). -/
theorem source_calls_spec (fr : Frame) (lazy : Bool) (objs : List (List String))
    (idxs : List (List Nat)) (calls : List (Nat × Op))
    (hidx : ∀ c ∈ calls, (objs.getD c.1 []).mapM (fun n => index n fr.columns) = some (idxs.getD c.1 [])) :
    runCallsF source fr lazy objs idxs calls =
      calls.map fun c =>
        match c.2 with
        | .aggregate reqs => toExcept (run fr (objs.getD c.1 []) reqs)
        | .groups => toExcept (runGroups fr (objs.getD c.1 [])) := by
  unfold runCallsF
  have hsrc : ((if lazy = true then Source.gen fr.rows false else Source.list fr.rows) = Source.list fr.rows
      ∨ (if lazy = true then Source.gen fr.rows false else Source.list fr.rows) = Source.gen fr.rows false) := by
    cases lazy
    · exact Or.inl rfl
    · exact Or.inr rfl
  rw [runCallsC_ok source_good (source_group_identity_injective pyHashKey) _ _ fr.rows calls _ _ hsrc
    (fun g => ⟨fun e he => by simp [ObjState.empty] at he, Or.inl rfl⟩)]
  rw [List.zip_map_right, List.map_map]
  have hzip : ∀ (l : List (Nat × Op)), l.zip l = l.map fun c => (c, c) := by
    intro l
    induction l with
    | nil => rfl
    | cons x l ih => simp [ih]
  rw [hzip, List.map_map]
  apply List.map_congr_left
  intro c hc
  have hcell : cellOfC source.value source.colIndex fr.columns = cellOf fr.columns := by
    funext r col
    exact (source_star_never_null fr.columns r col).1
  simp only [Function.comp, Prod.map, id, hcell]
  have hi := hidx c hc
  obtain ⟨g, op⟩ := c
  cases op with
  | aggregate reqs =>
    simp only [stepS]
    rw [render_aggregate source_empty_frame_header.1 source_result_cells]
    simp only [run, hi, toExcept]
  | groups =>
    have hg := sequence_spec (keyAt (idxs.getD g [])) (cellOf fr.columns) fr.rows .groups
    simp only at hg
    rw [hg, render_groups source_empty_frame_header.2]
    simp only [runGroups, hi, toExcept, groups_spec]

/-- **Lazily backed or materialised makes no difference**, for any sequence of calls on any number
of objects of the frame. -/
theorem source_lazy_as_materialised (fr : Frame) (objs : List (List String)) (idxs : List (List Nat))
    (calls : List (Nat × Op))
    (hidx : ∀ c ∈ calls, (objs.getD c.1 []).mapM (fun n => index n fr.columns) = some (idxs.getD c.1 [])) :
    runCallsF source fr true objs idxs calls = runCallsF source fr false objs idxs calls := by
  rw [source_calls_spec fr true objs idxs calls hidx, source_calls_spec fr false objs idxs calls hidx]

/-! ### Tightness: undoing one repair at a time in the repaired program (`GroupByCode.repaired`,
written out in `Lemmas/GroupByCode.lean`, not read from the tree) makes the interpreter reproduce the
defect — so each condition above is needed, and the interpreter means what the code means. -/

/-- C12-F01 undone (`hash(tuple(…))`): the keys `-1` and `-2` share one group; the condition
`source_group_identity_injective` fails for it. -/
example :
    runCallsF { repaired with key := .hashTuple } { columns := ["k", "v"], rows := [[.int (-1), .int 1], [.int (-2), .int 10]] }
        false [["k"]] [[0]] [(0, .aggregate [(.sum, "v")])]
      = [.ok (["SUM(v)", "k"], [[.int 11, .int (-1)]])]
    ∧ ¬ Function.Injective (identOf pyHashKey (KeyExpr.hashTuple) : List PyVal → List PyVal) := by
  refine ⟨by decide, fun h => ?_⟩
  have := @h [.int (-1)] [.int (-2)] (by decide)
  exact absurd this (by decide)

/-- C12-F02 undone (`[col for _, col in aggregations]`): a column requested twice is collected
twice, SUM doubles; `source_collects_each_column_once` fails for it. -/
example :
    runCallsF { repaired with collect := .all } { columns := ["k", "v"], rows := [[.str "a", .int 1], [.str "a", .int 10]] }
        false [["k"]] [[0]] [(0, .aggregate [(.sum, "v"), (.max, "v")])]
      = [.ok (["SUM(v)", "MAX(v)", "k"], [[.int 22, .int 10, .str "a"]])]
    ∧ ¬ (collectCols .all [(.sum, "v"), (.max, "v")]).Nodup := by
  decide

/-- C12-F03 undone, first half (append — and thereby register — only non-null values): a group whose
requested values are all null has no row; `bodyOk` is false. -/
example :
    runCallsF { repaired with body := [([.notNone], .append)] }
        { columns := ["k", "v"], rows := [[.str "a", .none], [.str "b", .int 10]] }
        false [["k"]] [[0]] [(0, .aggregate [(.sum, "v")])]
      = [.ok (["SUM(v)", "k"], [[.int 10, .str "b"]])]
    ∧ bodyOk [([.notNone], .append)] = false := by
  decide

/-- C12-F03 undone, second half (`min(values)`, `sum(values)` without the empty case): an all-null
column next to a non-null one raises `ValueError`, and `SUM` of no values is 0; `aggOk` refuses both. -/
example :
    runCallsF { repaired with aggs := [("MAX", .maxE), ("SUM", .sum)] }
        { columns := ["k", "v", "w"], rows := [[.str "a", .none, .int 1]] }
        false [["k"]] [[0]] [(0, .aggregate [(.max, "v"), (.sum, "w")]), (0, .aggregate [(.sum, "v")])]
      = [.error "ValueError", .ok (["SUM(v)", "k"], [[.int 0, .str "a"]])]
    ∧ aggOk .max .maxE = false ∧ aggOk .sum .sum = false
    ∧ aggOk .sum (.orElse .sum .none) = false ∧ aggOk .max (.maxD (.lit 0)) = false := by
  decide

/-- C12-F04 undone (no branch for a result without groups): `StopIteration` from `DataFrame`. -/
example :
    runCallsF { repaired with aggEmptyHeader := false, groupsEmptyHeader := false }
        { columns := ["k", "v"], rows := [] } false [["k"]] [[0]] [(0, .aggregate [(.sum, "v")]), (0, .groups)]
      = [.error "StopIteration", .error "StopIteration"] := by
  decide

/-- `_map` walking the backing store itself (or `__iter__` not materialising): on a lazily backed
frame the second call — on any object — sees no rows. -/
example :
    runCallsF { repaired with via := .backing } { columns := ["k", "v"], rows := [[.str "a", .int 1]] }
        true [["k"], ["k"]] [[0], [0]] [(0, .aggregate [(.sum, "v")]), (1, .aggregate [(.sum, "v")])]
      = [.ok (["SUM(v)", "k"], [[.int 1, .str "a"]]), .ok (["SUM(v)", "k"], [])] := by
  decide

/-- The value map kept on the object (`column_value_map = self._group_values`): the second `SUM` on
the same object counts the values twice (`stale_value_map_counts_twice`). -/
example :
    runCallsF { repaired with freshValueMap := false } { columns := ["k", "v"], rows := [[.str "a", .int 3]] }
        false [["k"]] [[0]] [(0, .aggregate [(.sum, "v")]), (0, .aggregate [(.sum, "v")])]
      = [.ok (["SUM(v)", "k"], [[.int 3, .str "a"]]), .ok (["SUM(v)", "k"], [[.int 6, .str "a"]])] := by
  decide

/-- `_group_keys` shared by all objects of the class: `groups()` of an object that groups by `j`
also returns the keys registered by the object that groups by `k`. -/
example :
    runCallsF { repaired with registryPerObject := false }
        { columns := ["k", "j"], rows := [[.int 1, .str "a"]] }
        false [["k"], ["j"]] [[0], [1]] [(0, .groups), (1, .groups)]
      = [.ok (["k"], [[.int 1]]), .ok (["j"], [[.int 1], [.str "a"]])] := by
  decide

/-- `results = {label: values.get(label) or None …}`: a group whose values are all null has COUNT
null instead of 0, and a sum that is zero turns into null (`falsy_cell_loses_zero`). -/
example :
    runCallsF { repaired with cell := .getOrNone }
        { columns := ["k", "v"], rows := [[.str "a", .none], [.str "b", .int 0], [.str "c", .int 2]] }
        false [["k"]] [[0]] [(0, .aggregate [(.count, "v"), (.sum, "v")])]
      = [.ok (["COUNT(v)", "SUM(v)", "k"],
             [[.none, .none, .str "a"], [.int 1, .none, .str "b"], [.int 1, .int 2, .str "c"]])] := by
  decide

/-- NaN treated as a null in the collection loop (`if value is not None and value == value:`, or a
helper `is_null(value) = value is None or value != value`): on integers nothing changes (`bodyOk`
holds), on a float column the NaN is never appended — `bodyOkX` is false, so
`source_appends_every_float_value` fails for it. -/
example :
    bodyOk [([], .touch), ([.notNone, .notNaN], .append)] = true
    ∧ bodyOkX [([], .touch), ([.notNone, .notNaN], .append)] = false
    ∧ effectX [([], .touch), ([.notNone, .notNaN], .append)] (some .nan) = [.touch]
    ∧ bodyOkX repaired.body = true := by
  decide

/-- `avg_agg` in float arithmetic (`return sum(values) / len(values)`, no `Decimal` operand; the seeded
change C12-w5s2): the result is the double nearest to the mean, not the mean — `aggOk` refuses it, so
`source_aggregators` fails for it; with one `Decimal` operand the division is exact again. -/
example :
    aggOk .avg (.ifEmpty .none (.div .sum .len)) = false
    ∧ evalA (.ifEmpty .none (.div .sum .len)) [some (2 ^ 53), some (2 ^ 53 + 2), some 1] = .fratio (2 ^ 54 + 3) 3
    ∧ aggOk .avg (.ifEmpty .none (.div (.decimal .sum) .len)) = true
    ∧ aggOk .avg (.ifEmpty .none (.div .sum (.decimal .len))) = true := by
  decide

/-- `positions.get(target) or -1` for the position of a requested column (the seeded change C12-w5s3):
position 0 is falsy, the first column of the frame is read as the `*` pseudo column — every row counts,
nulls included, and `SUM` meets the text `"*"`. -/
example :
    cellOfC .starIfMissing .getOrMinusOne ["v", "k"] [.none, .str "a"] "v" = some 1
    ∧ cellOfC .starIfMissing .indexIfPresent ["v", "k"] [.none, .str "a"] "v" = none
    ∧ cellOfC .starIfMissing .getOrMinusOne ["k", "v"] [.str "a", .none] "v" = none
    ∧ runCallsF { repaired with colIndex := .getOrMinusOne }
        { columns := ["v", "k"], rows := [[.none, .str "a"], [.int 5, .str "a"]] }
        false [["k"]] [[1]] [(0, .aggregate [(.count, "v")])]
      = [.ok (["COUNT(v)", "k"], [[.int 2, .str "a"]])] := by
  decide

/-- **The key columns of a `GroupBy` are fixed when it is created** (`GroupBy.__init__`,
group_by.py:66-72: `self._columns = tuple(columns)` / `[columns]` — a new object in every branch, the
flag `Gen.GroupByCode.columnsCopied` read from the working tree).  A `GroupBy` is evaluated lazily: `_map`
resolves the positions of `self._columns` when a call is made.  For every frame (lazily backed or
materialised), any number of objects `df.group_by(objs[g])` and every session — calls (`aggregate` with
any request lists, `groups()`) interleaved in any way with the caller editing, in place, the very lists it
handed to `group_by` (append, clear, sort, replace an element, reuse for the next grouping) — every call
returns the partition-and-fold table of the frame over the key columns AS GIVEN AT CREATION, laid out as
labels then those key columns.  ("all one- and multi-column keys"; with `self._columns = columns` the
flag is false and the statement is false: `aliased_keys_follow_the_caller` below; the seeded change
C12-w8s2.) -/
theorem keys_fixed_at_creation :
    Gen.GroupByCode.columnsCopied = true
    ∧ ∀ (fr : Frame) (lazy : Bool) (objs : List (List String)) (idxs : List (List Nat)) (evs : List Ev),
      (∀ c ∈ callsOf evs, (objs.getD c.1 []).mapM (fun n => index n fr.columns) = some (idxs.getD c.1 [])) →
      runSessionF source Gen.GroupByCode.columnsCopied fr lazy objs evs =
        (callsOf evs).map fun c =>
          match c.2 with
          | .aggregate reqs => toExcept (run fr (objs.getD c.1 []) reqs)
          | .groups => toExcept (runGroups fr (objs.getD c.1 [])) := by
  have hflag : Gen.GroupByCode.columnsCopied = true := by decide
  refine ⟨hflag, fun fr lazy objs idxs evs hidx => ?_⟩
  rw [hflag, runSessionF_copied source fr lazy objs idxs evs hidx]
  exact source_calls_spec fr lazy objs idxs (callsOf evs) hidx

/-- `self._columns = columns` (the caller's own list kept, the seeded change C12-w8s2): the caller creates
`g = df.group_by(keys)` with `keys = ["k"]`, appends `"j"` to `keys` for the next level, and `g.count()`
groups by both columns — two rows where the keys given at creation make one; with the copy the same
session gives the one row. -/
example :
    runSessionF repaired false { columns := ["k", "j"], rows := [[.int 1, .str "a"], [.int 1, .str "b"]] } false [["k"]]
        [.edit 0 ["k", "j"], .call 0 (.aggregate [(.count, "*")])]
      = [.ok (["COUNT(*)", "k", "j"], [[.int 1, .int 1, .str "a"], [.int 1, .int 1, .str "b"]])]
    ∧ runSessionF repaired true { columns := ["k", "j"], rows := [[.int 1, .str "a"], [.int 1, .str "b"]] } false [["k"]]
        [.edit 0 ["k", "j"], .call 0 (.aggregate [(.count, "*")])]
      = [.ok (["COUNT(*)", "k"], [[.int 2, .int 1]])]
    ∧ runSessionF repaired false { columns := ["k", "j"], rows := [[.int 1, .str "a"]] } false [["k"]]
        [.call 0 .groups, .edit 0 ["nope"], .call 0 .groups]
      = [.ok (["k"], [[.int 1]]), .error "ValueError"] := by
  decide

/-- The repaired program passes every condition (the conditions are satisfiable). -/
example :
    bodyOk repaired.body = true ∧ yieldOk repaired.yieldGuards = true
    ∧ (∀ f ∈ Func.all, aggOk f (aggOf repaired f) = true) := by
  decide

end Source

/-! ## Equal keys that are written differently

"Grouping partitions the rows by *equality* of their key values": `1`, `1.0` and `True` are one key,
`0`, `0.0`, `-0.0` and `False` are one key, `(1, "a")` and `(1.0, "a")` are one key.  The theorems
above compare keys with Lean's `=`; the ones below are about the pass whose dictionaries find a key
by an equivalence `eqv` (`Model/GroupByEq.lean`: `aggregateBy`), for *every* equivalence that is the
kernel of some canonical form (`Kernel eqv canon`), and about Python's `==` on the key values of the
property (`pyEqVal`, `keyEq`), which is such an equivalence. -/
section EqualKeys
variable {γ : Type} [DecidableEq γ]

omit [DecidableEq κ] in
/-- **The pass over keys compared by an equivalence is the pass over their canonical forms**: every
theorem of this file about `aggregate` / `reference` (partition, fold, independence of the requests,
of the row order, of the calls before) holds of it, read through `canon`. -/
theorem equivalence_simulation (eqv : κ → κ → Bool) (canon : κ → γ) (hk : Kernel eqv canon)
    (keyOf : ρ → κ) (cell : ρ → String → Option Int) (rows : List ρ) (reqs : List Req) (h : reqs ≠ []) :
    (aggregateBy eqv keyOf cell rows reqs).map (fun ka => (canon ka.1, ka.2))
      = reference (fun r => canon (keyOf r)) cell rows reqs
    ∧ (groupsOfBy eqv keyOf rows).map canon = groupKeys (fun r => canon (keyOf r)) rows := by
  refine ⟨by rw [aggregateBy_map_canon hk, aggregate_spec _ cell rows reqs h], ?_⟩
  unfold groupsOfBy
  rw [firstSeenBy_emit_keys (Kernel.refl hk) keyOf _ (by simp) rows, firstSeenBy_map hk, List.map_map]
  rfl

omit [DecidableEq κ] in
/-- **Equal keys are one group, however they are written** (clauses "partitions the rows by equality
of their key values" and "one output row per distinct key").  No two output rows have equivalent
keys; every row of the frame belongs to an output row (the one whose key is equivalent to its own);
and the aggregates of an output row are the folds over the non-null values of *all* rows whose key
is equivalent to the row's key — not only of those that are written the same way. -/
theorem equal_keys_one_group (eqv : κ → κ → Bool) (canon : κ → γ) (hk : Kernel eqv canon)
    (keyOf : ρ → κ) (cell : ρ → String → Option Int) (rows : List ρ) (reqs : List Req) (h : reqs ≠ []) :
    ((aggregateBy eqv keyOf cell rows reqs).map (·.1)).Pairwise (fun a b => eqv a b = false)
    ∧ (∀ r ∈ rows, ∃ ka ∈ aggregateBy eqv keyOf cell rows reqs, eqv (keyOf r) ka.1 = true)
    ∧ (∀ ka ∈ aggregateBy eqv keyOf cell rows reqs,
        ka.2 = reqs.map fun q => fold q.1 (nonNull cell (membersBy eqv keyOf rows ka.1) q.2)) := by
  have hsim := (equivalence_simulation eqv canon hk keyOf cell rows reqs h).1
  have hkeys : ((aggregateBy eqv keyOf cell rows reqs).map (·.1)).map canon
      = groupKeys (fun r => canon (keyOf r)) rows := by
    have := congrArg (List.map (·.1)) hsim
    simpa [reference, List.map_map, Function.comp_def] using this
  refine ⟨?_, ?_, ?_⟩
  · have hnd : (((aggregateBy eqv keyOf cell rows reqs).map (·.1)).map canon).Nodup := by
      rw [hkeys]; exact nodup_firstSeen _
    rw [List.Nodup, List.pairwise_map] at hnd
    refine hnd.imp ?_
    intro a b hab
    cases he : eqv a b with
    | false => rfl
    | true => exact absurd ((hk a b).mp he) hab
  · intro r hr
    have hmem : canon (keyOf r) ∈ groupKeys (fun r => canon (keyOf r)) rows := mem_groupKeys.mpr ⟨r, hr, rfl⟩
    rw [← hkeys, List.mem_map] at hmem
    obtain ⟨k, hkm, hkc⟩ := hmem
    obtain ⟨ka, hka, rfl⟩ := List.mem_map.mp hkm
    exact ⟨ka, hka, (hk _ _).mpr hkc.symm⟩
  · intro ka hka
    have hm : (canon ka.1, ka.2) ∈ reference (fun r => canon (keyOf r)) cell rows reqs := by
      rw [← hsim]; exact List.mem_map.mpr ⟨ka, hka, rfl⟩
    unfold reference at hm
    obtain ⟨k', _, he⟩ := List.mem_map.mp hm
    have h1 : k' = canon ka.1 := congrArg Prod.fst he
    have h2 := congrArg Prod.snd he
    simp only at h2
    rw [← h2, h1]
    apply List.map_congr_left
    intro q _
    congr 2
    unfold members membersBy
    apply List.filter_congr
    intro r _
    cases he : eqv (keyOf r) ka.1 with
    | true => simpa using (hk _ _).mp he
    | false =>
      have : ¬ canon (keyOf r) = canon ka.1 := fun hc => by rw [(hk _ _).mpr hc] at he; cases he
      simpa using this

omit [DecidableEq κ] [DecidableEq γ] in
/-- **The key an output row shows** is the key of the first row of its class, as that row writes it
(`self._group_keys[group_key] = [(name, record[column]) …]` is executed by the first row of a group
only): no earlier row has an equivalent key.  (Which member of the class is shown is not part of the
property; this is what the code does.) -/
theorem representative_is_first_occurrence (eqv : κ → κ → Bool) (canon : κ → γ) (hk : Kernel eqv canon)
    (keyOf : ρ → κ) (cell : ρ → String → Option Int) (rows : List ρ) (reqs : List Req) (h : reqs ≠ []) :
    ∀ ka ∈ aggregateBy eqv keyOf cell rows reqs, ∃ pre r suf, rows = pre ++ r :: suf ∧ keyOf r = ka.1
      ∧ ∀ r' ∈ pre, eqv (keyOf r') ka.1 = false := by
  intro ka hka
  have hcols : firstSeen (reqs.map (·.2)) ≠ [] := firstSeen_ne_nil (by simpa using h)
  have hmem : ka.1 ∈ firstSeenBy eqv (rows.map keyOf) := by
    rw [← firstSeenBy_emit_keys (Kernel.refl hk) keyOf cell hcols rows]
    unfold aggregateBy at hka
    obtain ⟨g, hg, rfl⟩ := List.mem_map.mp hka
    exact hg
  rcases foldl_insBy_first hk (rows.map keyOf) [] ka.1 hmem with hnil | ⟨pre, suf, hxs, _, hpre⟩
  · cases hnil
  · obtain ⟨l1, l2, hrows, hl1, hl2⟩ := List.map_eq_append_iff.mp hxs
    obtain ⟨r, l2', rfl, hr, _⟩ := List.map_eq_cons_iff.mp hl2
    refine ⟨l1, r, l2', hrows, hr, ?_⟩
    intro r' hr'
    have hne := hpre (keyOf r') (by rw [← hl1]; exact List.mem_map.mpr ⟨r', hr', rfl⟩)
    cases he : eqv (keyOf r') ka.1 with
    | false => rfl
    | true => exact absurd ((hk _ _).mp he) hne

/-- **Python's `==` on the key values of the property** (`pyEqVal`; on key tuples `keyEq`) is an
equivalence — the kernel of the canonical form `keyCanon` — under which distinct integers stay
distinct however their hashes fall (`-1` / `-2`, `0` / `2**61 - 1`), a boolean equals the integer
`0` or `1` it counts as, and a text or a null equals nothing but itself. -/
theorem python_key_equality :
    Kernel keyEq keyCanon
    ∧ (∀ a, pyEqVal a a = true)
    ∧ (∀ a b, pyEqVal a b = true → pyEqVal b a = true)
    ∧ (∀ a b c, pyEqVal a b = true → pyEqVal b c = true → pyEqVal a c = true)
    ∧ (∀ i j : Int, pyEqVal (.int i) (.int j) = true ↔ i = j)
    ∧ (∀ (b : Bool) (i : Int), pyEqVal (.bool b) (.int i) = true ↔ i = if b then 1 else 0)
    ∧ (∀ (s : String) (v : PyVal), pyEqVal (.str s) v = true ↔ v = .str s)
    ∧ (∀ v : PyVal, pyEqVal .none v = true ↔ v = .none) := by
  refine ⟨fun a b => by simp [keyEq], fun a => by simp [pyEqVal], ?_, ?_, ?_, ?_, ?_, ?_⟩
  · intro a b hab
    simp only [pyEqVal, decide_eq_true_eq] at hab ⊢
    exact hab.symm
  · intro a b c hab hbc
    simp only [pyEqVal, decide_eq_true_eq] at hab hbc ⊢
    exact hab.trans hbc
  · intro i j
    constructor
    · intro hij
      exact dyadic_int_inj (of_decide_eq_true hij)
    · intro hij
      subst hij
      exact decide_eq_true rfl
  · intro b i
    constructor
    · intro hb
      have hb' := of_decide_eq_true hb
      cases b with
      | true =>
        have h1 : CKey.num 1 0 = dyadic i 0 := hb'
        exact (dyadic_int_inj (i := 1) (j := i) ((by decide : dyadic 1 0 = CKey.num 1 0).trans h1)).symm
      | false =>
        have h0 : CKey.num 0 0 = dyadic i 0 := hb'
        exact (dyadic_int_inj (i := 0) (j := i) ((by decide : dyadic 0 0 = CKey.num 0 0).trans h0)).symm
    · intro hi
      subst hi
      cases b <;> decide
  · intro s v
    simp only [pyEqVal, decide_eq_true_eq]
    constructor
    · intro hs
      cases v with
      | str t => simp only [canonVal, CKey.str.injEq] at hs; rw [hs]
      | none => simp [canonVal] at hs
      | bool b => simp [canonVal] at hs
      | int i => exact absurd hs.symm (canonVal_int_ne_str i s)
      | float f => exact absurd hs.symm (canonVal_float_ne_str f s)
      | bytes b => simp [canonVal] at hs
      | list l => simp [canonVal] at hs
      | dict d => simp [canonVal] at hs
    · intro hv
      rw [hv]
  · intro v
    simp only [pyEqVal, decide_eq_true_eq]
    constructor
    · intro hs
      cases v with
      | none => rfl
      | str t => simp [canonVal] at hs
      | bool b => simp [canonVal] at hs
      | int i => exact absurd hs.symm (canonVal_int_ne_none i)
      | float f => exact absurd hs.symm (canonVal_float_ne_none f)
      | bytes b => simp [canonVal] at hs
      | list l => simp [canonVal] at hs
      | dict d => simp [canonVal] at hs
    · intro hv
      rw [hv]

/-- `1 == 1.0 == True`, `0 == 0.0 == -0.0 == False`, `2**53 == 2.0**53` but `2**53 + 1 != 2.0**53`
(no rounding of the integer), `10**20 == 1e20`, `2 != 2.5`, `"1" != 1`, `None != 0`; composite keys
differ or agree component by component. -/
example :
    pyEqVal (.int 1) (.float 0x3ff0000000000000) = true ∧ pyEqVal (.bool true) (.float 0x3ff0000000000000) = true
    ∧ pyEqVal (.int 0) (.float 0x8000000000000000) = true ∧ pyEqVal (.bool false) (.float 0) = true
    ∧ pyEqVal (.float 0) (.float 0x8000000000000000) = true
    ∧ pyEqVal (.int (2 ^ 53)) (.float 0x4340000000000000) = true
    ∧ pyEqVal (.int (2 ^ 53 + 1)) (.float 0x4340000000000000) = false
    ∧ pyEqVal (.int (10 ^ 20)) (.float 0x4415af1d78b58c40) = true
    ∧ pyEqVal (.int 2) (.float 0x4004000000000000) = false
    ∧ pyEqVal (.str "1") (.int 1) = false ∧ pyEqVal .none (.int 0) = false
    ∧ keyEq [.int 1, .str "a"] [.float 0x3ff0000000000000, .str "a"] = true
    ∧ keyEq [.int 1, .str "a"] [.bool true, .str "b"] = false := by
  decide +kernel

/-- Non-vacuity, and what the seeded change "a group is identified by (type, value) pairs" breaks:
over the key column `1, 1.0, True, 2` there are two groups, the first shown as the `1` of the first
row with all three rows in it. -/
example :
    aggregateBy keyEq (fun r : PyVal × Int => [r.1]) (fun r _ => some r.2)
        [(.int 1, 10), (.float 0x3ff0000000000000, 20), (.bool true, 5), (.int 2, 1)] [(.sum, "v"), (.count, "*")]
      = [([.int 1], [.int 35, .int 3]), ([.int 2], [.int 1, .int 1])] := by
  decide +kernel

end EqualKeys

section SourceIdentity
open GroupByCode GroupByIR

/-- **The identity `_map` gives a group is equal exactly when the keys are** (`group_key = tuple(record[col]
for col in group_column_indicies)`, group_by.py:101): whatever `==` on key tuples is, whatever the types
of the key values and whatever the hash, two rows are put into one group iff their keys are equal —
neither fewer (`hash(…)`: unequal keys merged, `source_group_identity_injective`) nor more (`(type(x), x)`
pairs, `repr`: equal keys of different types split; example below). -/
theorem source_group_identity_is_key_equality {κ τ : Type} [DecidableEq κ] [DecidableEq τ]
    (eqv : κ → κ → Bool) (ty : κ → τ) (h : κ → κ) (a b : κ) :
    identEq eqv ty h source.key a b = eqv a b := by
  have hk : source.key = .tuple := by decide
  rw [hk]
  rfl

/-- Tightness: with `(type(value), value)` pairs as the identity, `1` and `True` (and `1.0`) are equal
keys with different identities. -/
example :
    identEq keyEq (fun k => k.map pyType) pyHashKey .typedTuple [.int 1] [.bool true] = false
    ∧ keyEq [.int 1] [.bool true] = true
    ∧ identEq keyEq (fun k => k.map pyType) pyHashKey .typedTuple [.int 1] [.int 1] = true := by
  decide +kernel

/-- **The dictionaries of the source find a group by Python's `==` of the keys**: the identity read
from the source (as `hash` and `==` see it) is the same for two keys iff the keys are equal —
`1`, `1.0` and `True` share it, `1` and `2`, `-1` and `-2` do not. -/
theorem source_identity_is_python_equality (a b : List PyVal) :
    identKeyOf source.key a = identKeyOf source.key b ↔ keyEq a b = true := by
  have hk : source.key = .tuple := by decide
  rw [hk, identKeyOf_tuple, identKeyOf_tuple]
  simp only [keyEq, decide_eq_true_eq]
  exact ⟨fun h => tag_injective h, fun h => by rw [h]⟩

/-- **`aggregate` as written partitions by equality of the key values, however they are written.**
For every frame whose keys are tuples of Python scalars, every non-empty request list and every state
of `_group_keys` left by earlier calls: the statements of `_map` and `aggregate` in the working tree
return a table which, with the key of every row read as `==` sees it (`keyCanon`: `1`, `1.0`, `True`
alike), is the partition-and-fold table of the frame keyed by those readings — one row per class of
equal keys, each request folded over the non-null values of all rows of the class. -/
theorem source_aggregate_equal_keys {ρ : Type} (keyOf : ρ → List PyVal) (cell : ρ → String → Option Int)
    (st : ObjState (List (Nat × CKey)) (List PyVal)) (hst : Consistent (identKeyOf source.key) st.keys)
    (rows : List ρ) (reqs : List Req) (hne : reqs ≠ []) :
    ((aggregateC source (identKeyOf source.key) keyOf cell st rows reqs).2.map
        fun t => t.map fun ka => (keyCanon ka.1, ka.2))
      = some ((reference (fun r => keyCanon (keyOf r)) cell rows reqs).map fun ka => (ka.1, ka.2.map AVal.ofAgg)) := by
  have h := aggregateC_by_identity source source_good.body source_good.yields source_good.registers
    source_good.fresh reqs (source_good.cols reqs) source_good.aggs (identKeyOf source.key) keyOf cell st hst rows
  have hk : source.key = .tuple := by decide
  rw [aggregate_spec _ cell rows reqs hne] at h
  have hid : identKeyOf source.key = fun k => (keyCanon k).map fun c => ((0 : Nat), c) := by
    funext k
    rw [hk, identKeyOf_tuple]
  rw [hid] at h
  rw [reference_map_inj tag_injective (fun r => keyCanon (keyOf r))] at h
  cases hres : (aggregateC source (identKeyOf source.key) keyOf cell st rows reqs).2 with
  | none => rw [hid] at hres; rw [hres] at h; cases h
  | some t =>
    rw [hid] at hres
    rw [hres] at h
    simp only [Option.map_some, Option.some.injEq, List.map_map] at h ⊢
    have hmap := congrArg (List.map fun ka : List (Nat × CKey) × List AVal => (ka.1.map (·.2), ka.2)) h
    simp only [List.map_map, Function.comp_def, List.map_map] at hmap
    simpa [Function.comp_def, List.map_map] using hmap

/-- **Any sequence of calls on any number of `GroupBy` objects of one frame whose keys may be equal
without being written alike, lazily backed or materialised.**  Read from the source and run with the
identity the dictionaries see (`identKeyOf`: equal for two keys iff the keys are equal,
`source_identity_is_python_equality`), every call — `aggregate` with any request list, `groups()`, any
order, any object — returns, with each shown key read through its identity, exactly what the functional
model returns for that call alone on a fresh object of the materialised frame keyed by identity
(`sequence_spec`: the partition-and-fold table, the distinct keys). -/
theorem source_calls_equal_keys {ρ : Type} (keyOfs : Nat → ρ → List PyVal) (cell : ρ → String → Option Int)
    (rows : List ρ) (lazy : Bool) (calls : List (Nat × Op)) :
    (runCallsC source (identKeyOf source.key) keyOfs cell
        (if lazy then Source.gen rows false else Source.list rows) (fun _ => ObjState.empty) calls).map
        (mapOutC (identKeyOf source.key))
      = calls.map fun c =>
          liftOut (stepS (fun r => identKeyOf source.key (keyOfs c.1 r)) cell rows [] c.2).2 := by
  apply runCallsC_by_identity source_good
  cases lazy
  · exact Or.inl rfl
  · exact Or.inr rfl

/-- Tightness: with `(type(value), value)` pairs the interpreter splits `1`, `1.0` and `True` into three
groups with partial sums (the seeded change C12-w5s1), as the implementation then does. -/
example :
    runCallsEqF { repaired with key := .typedTuple }
        { columns := ["k", "v"], rows := [[.int 1, .int 10], [.float 0x3ff0000000000000, .int 20], [.bool true, .int 5]] }
        false [["k"]] [[0]] [(0, .aggregate [(.sum, "v")])]
      = [.ok (["SUM(v)", "k"], [[.int 10, .int 1], [.int 20, .float 0x3ff0000000000000], [.int 5, .bool true]])]
    ∧ runCallsEqF repaired
        { columns := ["k", "v"], rows := [[.int 1, .int 10], [.float 0x3ff0000000000000, .int 20], [.bool true, .int 5]] }
        false [["k"]] [[0]] [(0, .aggregate [(.sum, "v")])]
      = [.ok (["SUM(v)", "k"], [[.int 35, .int 1]])] := by
  decide +kernel

end SourceIdentity

section Positions
open GroupByIR

/-- No frame has this many columns (a row of `2 ^ 31` cells is a 16 GiB tuple).  The bound stands OUTSIDE the
quantifier of `key_positions_fit`: `array.array("i", …)`, which `_map` uses now, is a C `int` (32 bits on every
platform CPython supports), so the statement "for every position" is true of the source only below it. -/
def positionLimit : Nat := 2 ^ 31

/-- Clause "for all frames … all one- and multi-column keys" — the WIDTH of the frame: whatever the positions of the
key columns in the frame (below `positionLimit`), the container `_map` of the working tree builds for them
(`Gen.GroupByCode.keyPositions`, read from `group_column_indicies = …` on every run) takes them all and hands them
back unchanged: building it raises nothing, and every row is keyed by the cells at exactly those positions.  With
`bytes(…)` (the seeded change C12-w9s2) the statement is false at position 256, with `array.array("h", …)` at 32768. -/
theorem key_positions_fit (ps : List Nat) (h : ∀ p ∈ ps, p < positionLimit) :
    Gen.GroupByCode.keyPositions.store (ps.map Int.ofNat) = .ok (ps.map Int.ofNat) := by
  apply PosContainer.store_ok
  intro p hp
  obtain ⟨n, hn, rfl⟩ := List.mem_map.mp hp
  have hlt := h n hn
  simp only [positionLimit] at hlt
  simp [Gen.GroupByCode.keyPositions, PosContainer.holds] <;> omega

/-- The same for the positions of the requested (value) columns, `collect_column_indicies`; `-1` stands there for
"not a column of the frame" (the `*` of `COUNT(*)`), so the container has to hold it too. -/
theorem value_positions_fit (ps : List Int) (h : ∀ p ∈ ps, -1 ≤ p ∧ p < positionLimit) :
    Gen.GroupByCode.valuePositions.store ps = .ok ps := by
  apply PosContainer.store_ok
  intro p hp
  have hlt := h p hp
  simp only [positionLimit] at hlt
  simp [Gen.GroupByCode.valuePositions, PosContainer.holds] <;> omega

/-- Tightness: a `bytes` object refuses position 256 (and takes 255), a signed 16-bit array refuses 32768, an
unsigned container refuses the `-1` of `COUNT(*)`. -/
example :
    PosContainer.bytes.store [3, 256] = .error "ValueError"
    ∧ PosContainer.bytes.store [3, 255] = .ok [3, 255]
    ∧ (PosContainer.array 16 true).store [32768] = .error "OverflowError"
    ∧ (PosContainer.array 16 false).store [-1] = .error "OverflowError"
    ∧ (PosContainer.array 32 true).store [65536, -1] = .ok [65536, -1] := by
  decide

end Positions

end C12
