import OrsoVerif.Model.GroupBy
import OrsoVerif.Lemmas.GroupBy
import OrsoVerif.Generated.GroupBy
/-!
# C12 — GroupBy aggregates equal a reference partition-and-fold

Property theorems only.  `aggregate` is the model of the code's single pass over emitted
`(group, column, value)` triples (`Model/GroupBy.lean`); `reference`, `members`, `nonNull`,
`groupKeys` are the partition-and-fold specification.  All statements hold for every row type,
every key type with decidable equality (no hash anywhere), every frame, every key function and
every non-empty request list, repeats of a column included.
-/
namespace C12
open GroupBy

variable {ρ κ : Type} [DecidableEq κ]

/-- **Source tie.**  Every aggregate function of the model is a key of `AGGREGATORS` (order and
additional keys are immaterial), and `_map` keys a group by the tuple of its key values, not by a
hash of it.  Stops compiling when one of the five keys disappears or that line goes back to `hash`. -/
theorem aggregator_table :
    (∀ f ∈ Func.all, f.name ∈ Gen.GroupBy.aggregatorKeys)
    ∧ Gen.GroupBy.groupKeyIsTuple = true := by decide

/-- **Partition.**  The groups are keyed by a duplicate-free list of keys; a key is listed iff some
row has it; every row lies in the group of its own key and in no other; the group sizes add up to
the number of rows. -/
theorem partition (keyOf : ρ → κ) (rows : List ρ) :
    (groupKeys keyOf rows).Nodup
    ∧ (∀ k, k ∈ groupKeys keyOf rows ↔ ∃ r ∈ rows, keyOf r = k)
    ∧ (∀ r ∈ rows, ∀ k, r ∈ members keyOf rows k ↔ k = keyOf r)
    ∧ ((groupKeys keyOf rows).map fun k => (members keyOf rows k).length).sum = rows.length := by
  refine ⟨nodup_firstSeen _, fun k => mem_groupKeys, ?_, ?_⟩
  · intro r hr k
    simp only [members, List.mem_filter, decide_eq_true_eq, hr, true_and]
    exact eq_comm
  · apply sum_members_length keyOf (nodup_firstSeen _)
    intro r hr
    exact mem_groupKeys.mpr ⟨r, hr, rfl⟩

/-- **The single pass is partition-and-fold** (`aggregate_spec`, first half).  For every non-empty
request list the code's pass — collect each distinct column once, append non-null values per
(group, column), fold every request — yields exactly one entry per distinct key, in order of first
occurrence, holding each request folded over the non-null values of that key's rows. -/
theorem aggregate_spec (keyOf : ρ → κ) (cell : ρ → String → Option Int) (rows : List ρ)
    (reqs : List Req) (h : reqs ≠ []) :
    aggregate keyOf cell rows reqs = reference keyOf cell rows reqs := by
  unfold aggregate reference
  have hcols : firstSeen (reqs.map (·.2)) ≠ [] := firstSeen_ne_nil (by simpa using h)
  simp only
  rw [firstSeen_emit_keys keyOf cell hcols rows]
  apply List.map_congr_left
  intro k _
  congr 1
  apply List.map_congr_left
  intro q hq
  rw [collected_emit keyOf cell (nodup_firstSeen _) rows k q.2]
  rw [if_pos (mem_firstSeen.mpr (List.mem_map.mpr ⟨q, hq, rfl⟩))]

/-- **The folds are the usual aggregates** (`aggregate_spec`, second half): over the list `vs` of a
group's non-null values, COUNT is the length, SUM the sum, AVG the exact quotient sum/length, MIN a
member below all members, MAX a member above all members; on no values COUNT is 0 and the others
null. -/
theorem fold_spec (vs : List Int) :
    fold .count vs = .int vs.length
    ∧ fold .sum vs = (if vs = [] then .null else .int vs.sum)
    ∧ fold .avg vs = (if vs = [] then .null else .ratio vs.sum vs.length)
    ∧ (∀ m, fold .min vs = .int m ↔ m ∈ vs ∧ ∀ x ∈ vs, m ≤ x)
    ∧ (∀ m, fold .max vs = .int m ↔ m ∈ vs ∧ ∀ x ∈ vs, x ≤ m)
    ∧ (fold .min vs = .null ↔ vs = []) ∧ (fold .max vs = .null ↔ vs = []) := by
  refine ⟨rfl, fold_sum_eq vs, fold_avg_eq vs, ?_, ?_, ?_, ?_⟩
  · intro m
    rw [← least_eq_some_iff]
    cases h : least vs <;> simp [fold, h]
  · intro m
    rw [← greatest_eq_some_iff]
    cases h : greatest vs <;> simp [fold, h]
  · rw [← least_eq_none_iff]
    cases h : least vs <;> simp [fold, h]
  · rw [← greatest_eq_none_iff]
    cases h : greatest vs <;> simp [fold, h]

/-- **COUNT(\*) is the group size.**  A column that is non-null in every row (the `*` pseudo column
is) counts the rows of the group, and these counts add up to the size of the frame. -/
theorem count_star (keyOf : ρ → κ) (cell : ρ → String → Option Int) (rows : List ρ) (c : String)
    (hstar : ∀ r ∈ rows, (cell r c).isSome) :
    aggregate keyOf cell rows [(.count, c)] =
      (groupKeys keyOf rows).map (fun k => (k, [Agg.int (members keyOf rows k).length])) := by
  rw [aggregate_spec keyOf cell rows _ (by simp)]
  unfold reference
  apply List.map_congr_left
  intro k _
  have : (nonNull cell (members keyOf rows k) c).length = (members keyOf rows k).length := by
    unfold nonNull
    have hall : ∀ r ∈ members keyOf rows k, (cell r c).isSome := fun r hr =>
      hstar r (List.mem_filter.mp hr).1
    generalize members keyOf rows k = ms at hall
    induction ms with
    | nil => rfl
    | cons r rs ih =>
      have h1 := hall r (by simp)
      rw [List.filterMap_cons]
      cases hc : cell r c with
      | none => rw [hc] at h1; simp at h1
      | some v => simp only [List.length_cons]; rw [ih (fun r' hr' => hall r' (List.mem_cons_of_mem _ hr'))]
  simp [fold, this]

/-- **Distinct keys are never merged.**  The output has one entry per distinct key, and the entry of
key `k` is what the frame made of `k`'s rows alone would give: rows with any other key — whatever
their hashes — have no influence on it. -/
theorem distinct_keys_never_merged (keyOf : ρ → κ) (cell : ρ → String → Option Int) (rows : List ρ)
    (reqs : List Req) (h : reqs ≠ []) :
    ((aggregate keyOf cell rows reqs).map (·.1)).Nodup
    ∧ (∀ k, k ∈ (aggregate keyOf cell rows reqs).map (·.1) ↔ ∃ r ∈ rows, keyOf r = k)
    ∧ ∀ k, k ∈ groupKeys keyOf rows →
        (aggregate keyOf cell rows reqs).lookup k
          = (aggregate keyOf cell (members keyOf rows k) reqs).lookup k := by
  have hkeys : (aggregate keyOf cell rows reqs).map (·.1) = groupKeys keyOf rows := by
    rw [aggregate_spec keyOf cell rows reqs h]
    simp [reference, List.map_map, Function.comp_def]
  refine ⟨by rw [hkeys]; exact nodup_firstSeen _, fun k => by rw [hkeys]; exact mem_groupKeys, ?_⟩
  intro k hk
  rw [aggregate_spec keyOf cell rows reqs h, aggregate_spec keyOf cell _ reqs h]
  unfold reference
  have hk' : k ∈ groupKeys keyOf (members keyOf rows k) := by
    obtain ⟨r, hr, hrk⟩ := mem_groupKeys.mp hk
    exact mem_groupKeys.mpr ⟨r, List.mem_filter.mpr ⟨hr, by simp [hrk]⟩, hrk⟩
  rw [lookup_map_self _ _ hk, lookup_map_self _ _ hk', members_members]

/-- **Requests are independent.**  The row of a group under a request list is the concatenation of
what each request yields for that group when it is asked alone — so the value of `FUNC(col)` does
not depend on which other requests accompany it, repeats of the same column included. -/
theorem requests_independent (keyOf : ρ → κ) (cell : ρ → String → Option Int) (rows : List ρ)
    (reqs : List Req) (h : reqs ≠ []) :
    aggregate keyOf cell rows reqs =
      (groupKeys keyOf rows).map fun k =>
        (k, reqs.flatMap fun q => ((aggregate keyOf cell rows [q]).lookup k).getD []) := by
  rw [aggregate_spec keyOf cell rows reqs h]
  unfold reference
  apply List.map_congr_left
  intro k hk
  congr 1
  have : ∀ q : Req, ((aggregate keyOf cell rows [q]).lookup k).getD []
      = [fold q.1 (nonNull cell (members keyOf rows k) q.2)] := by
    intro q
    rw [aggregate_spec keyOf cell rows [q] (by simp)]
    unfold reference
    rw [lookup_map_self _ _ hk]
    rfl
  simp only [this]
  induction reqs with
  | nil => rfl
  | cons q qs ih =>
    cases qs with
    | nil => simp
    | cons q' qs' => simp only [List.map_cons, List.flatMap_cons] at ih ⊢; rw [← ih (by simp)]; rfl

/-- **Row order does not matter** (beyond output order): permuting the rows permutes the output
entries and changes no key and no value. -/
theorem perm_invariant (keyOf : ρ → κ) (cell : ρ → String → Option Int) (rows rows' : List ρ)
    (reqs : List Req) (h : reqs ≠ []) (hp : rows.Perm rows') :
    (aggregate keyOf cell rows reqs).Perm (aggregate keyOf cell rows' reqs) := by
  rw [aggregate_spec keyOf cell rows reqs h, aggregate_spec keyOf cell rows' reqs h]
  unfold reference
  have hf : (fun k => (k, reqs.map fun q => fold q.1 (nonNull cell (members keyOf rows k) q.2)))
      = fun k => (k, reqs.map fun q => fold q.1 (nonNull cell (members keyOf rows' k) q.2)) := by
    funext k
    congr 1
    apply List.map_congr_left
    intro q _
    apply fold_perm
    unfold nonNull members
    exact (hp.filter _).filterMap _
  rw [hf]
  exact (firstSeen_perm (hp.map keyOf)).map _

/-- **`groups()`** lists the distinct keys, once each, in order of first occurrence. -/
theorem groups_spec (keyOf : ρ → κ) (rows : List ρ) :
    groupsOf keyOf rows = groupKeys keyOf rows := by
  unfold groupsOf
  exact firstSeen_emit_keys keyOf _ (by simp) rows

/-- **Requests one at a time on one object** (`sequence_independent`).  `_group_keys` persists on a
`GroupBy` object and is never reset; the value map is a local of each call.  For every frame and
every finite sequence of calls (`aggregate` with any request lists — the wrappers included —, and
`groups()`, in any order, repeats included) on one object, every result equals the result of that
call alone on a fresh object, and after every call `_group_keys` holds exactly the distinct keys of
the frame. -/
theorem sequence_independent (keyOf : ρ → κ) (cell : ρ → String → Option Int) (rows : List ρ)
    (ops : List Op) :
    runS keyOf cell rows [] ops = ops.map fun op => (stepS keyOf cell rows [] op).2 := by
  suffices h : ∀ st, (st = [] ∨ st = groupKeys keyOf rows) →
      runS keyOf cell rows st ops = ops.map fun op => (stepS keyOf cell rows [] op).2 from
    h [] (Or.inl rfl)
  induction ops with
  | nil => intro st _; rfl
  | cons op ops ih =>
    intro st hst
    obtain ⟨h1, h2⟩ := stepS_state keyOf cell rows st hst op
    simp only [runS, List.map_cons]
    rw [h2, ih _ (Or.inr h1)]

/-- The result of an `aggregate` call in a sequence is the partition-and-fold reference, and
`groups()` at any point lists the distinct keys. -/
theorem sequence_spec (keyOf : ρ → κ) (cell : ρ → String → Option Int) (rows : List ρ) (op : Op) :
    (stepS keyOf cell rows [] op).2 =
      match op with
      | .aggregate reqs => .table (aggregate keyOf cell rows reqs)
      | .groups => .keys (groupKeys keyOf rows) := by
  cases op with
  | aggregate reqs => rfl
  | groups => exact congrArg Out.keys (groups_spec keyOf rows)

/-- **Layout of a result row**: when the labels and the key column names are pairwise distinct, the
header is the `FUNC(column)` labels in request order followed by the key columns, and every row is
the aggregates followed by the key values. -/
theorem layout (keyCols : List String) (reqs : List Req) (k : List PyVal) (aggs : List Agg)
    (hnd : (reqs.map label ++ keyCols).Nodup) (hk : k.length = keyCols.length)
    (ha : aggs.length = reqs.length) :
    header keyCols reqs = reqs.map label ++ keyCols
    ∧ resultRow keyCols reqs k aggs = aggs.map Agg.toPyVal ++ k := by
  constructor
  · unfold header
    rw [dictOf_nodup]
    · simp [List.map_append, List.map_map, Function.comp_def]
    · simpa [List.map_append, List.map_map, Function.comp_def] using hnd
  · unfold resultRow
    have hA1 : ((reqs.zip aggs).map fun qa => (label qa.1, qa.2.toPyVal)).map (·.1) = reqs.map label := by
      rw [List.map_map]
      have : ((fun x : String × PyVal => x.1) ∘ fun qa : Req × Agg => (label qa.1, qa.2.toPyVal))
          = label ∘ Prod.fst := rfl
      rw [this, ← List.map_map, List.map_fst_zip (by omega)]
    have hA2 : ((reqs.zip aggs).map fun qa => (label qa.1, qa.2.toPyVal)).map (·.2)
        = aggs.map Agg.toPyVal := by
      rw [List.map_map]
      have : ((fun x : String × PyVal => x.2) ∘ fun qa : Req × Agg => (label qa.1, qa.2.toPyVal))
          = Agg.toPyVal ∘ Prod.snd := rfl
      rw [this, ← List.map_map, List.map_snd_zip (by omega)]
    have hB1 : (keyCols.zip k).map (·.1) = keyCols := List.map_fst_zip (by omega)
    have hB2 : (keyCols.zip k).map (·.2) = k := List.map_snd_zip (by omega)
    rw [dictOf_nodup _ (by rw [List.map_append, hA1, hB1]; exact hnd)]
    rw [List.map_append, hA2, hB2]

/-- **Frames.**  On a frame whose key columns all exist, with labels and key column names pairwise
distinct, `group_by(keyCols).aggregate(reqs)` returns the header `FUNC(column)… , key columns…` and,
for every distinct key tuple in first-occurrence order, the reference aggregates followed by the key
values.  (Total: the empty frame gives the header and no rows.) -/
theorem run_spec (fr : Frame) (keyCols : List String) (reqs : List Req) (idx : List Nat)
    (h : reqs ≠ []) (hidx : keyCols.mapM (fun c => index c fr.columns) = some idx)
    (hnd : (reqs.map label ++ keyCols).Nodup) :
    run fr keyCols reqs = .ok (reqs.map label ++ keyCols,
      (reference (keyAt idx) (cellOf fr.columns) fr.rows reqs).map fun ka =>
        ka.2.map Agg.toPyVal ++ ka.1) := by
  unfold run
  rw [hidx]
  simp only
  have hlen := mapM_length _ _ _ hidx
  rw [aggregate_spec _ _ _ _ h]
  congr 2
  · exact (layout keyCols reqs (idx.map fun _ => PyVal.none) (reqs.map fun _ => Agg.null) hnd
      (by simp [hlen]) (by simp)).1
  · apply List.map_congr_left
    intro ka hka
    unfold reference at hka
    obtain ⟨k, hk, rfl⟩ := List.mem_map.mp hka
    obtain ⟨r, _, hr⟩ := mem_groupKeys.mp hk
    exact (layout keyCols reqs _ _ hnd (by rw [← hr]; simp [keyAt, hlen]) (by simp)).2

/-- A key column that is not in the frame is refused, whatever the rows and requests. -/
theorem run_missing_key (fr : Frame) (keyCols : List String) (reqs : List Req)
    (hidx : keyCols.mapM (fun c => index c fr.columns) = none) :
    run fr keyCols reqs = .error .valueError := by
  unfold run
  rw [hidx]

/-- **Dict collapse.**  A Python dict built by successive assignments — the result row of
group_by.py:149-153 is one — has every assigned name once, in order of first assignment, and holds
under each name the value assigned last.  No distinctness assumption. -/
theorem dict_collapse {β : Type} (kvs : List (String × β)) :
    (dictOf kvs).map (·.1) = firstSeen (kvs.map (·.1))
    ∧ ((dictOf kvs).map (·.1)).Nodup
    ∧ ∀ k, dictGet (dictOf kvs) k = lastAssigned kvs k := by
  refine ⟨dictOf_keys kvs, ?_, dictGet_dictOf kvs⟩
  rw [dictOf_keys]
  exact nodup_firstSeen _

/-- **Layout with repeated names.**  For any request list and key columns — repeated identical
requests, a key column named twice, a key column named like a label — the header is the labels
followed by the key columns with every name kept at its first position only, and every cell of a
result row is the value most recently assigned under its column's name (labels in request order,
then key columns). -/
theorem layout_general (keyCols : List String) (reqs : List Req) (k : List PyVal) (aggs : List Agg) :
    header keyCols reqs = firstSeen (reqs.map label ++ keyCols)
    ∧ resultRow keyCols reqs k aggs =
        (firstSeen (((reqs.zip aggs).map fun qa => label qa.1) ++ (keyCols.zip k).map (·.1))).map fun name =>
          (lastAssigned (((reqs.zip aggs).map fun qa => (label qa.1, qa.2.toPyVal)) ++ keyCols.zip k) name).getD .none := by
  constructor
  · unfold header
    rw [dictOf_keys]
    simp [List.map_append, List.map_map, Function.comp_def]
  · unfold resultRow
    have hk := dictOf_keys (((reqs.zip aggs).map fun qa => (label qa.1, qa.2.toPyVal)) ++ keyCols.zip k)
    rw [map_snd_eq_map_get _ (by rw [hk]; exact nodup_firstSeen _) PyVal.none, hk]
    simp only [List.map_append, List.map_map, Function.comp_def]
    apply List.map_congr_left
    intro name _
    rw [dictGet_dictOf]

/-- Non-vacuity: colliding keys -1 / -2 stay apart, a column requested twice is counted once, an
all-null group keeps its row, and the reverse frame gives the same entries. -/
example :
    let rows : List (Int × Option Int) := [(-1, some 1), (-2, some 10), (-1, none), (7, none)]
    let reqs : List Req := [(.sum, "v"), (.max, "v"), (.count, "v"), (.count, "*"), (.avg, "v")]
    let cell := fun (r : Int × Option Int) (c : String) => if c = "v" then r.2 else some 0
    aggregate (·.1) cell rows reqs =
      [(-1, [.int 1, .int 1, .int 1, .int 2, .ratio 1 1]),
       (-2, [.int 10, .int 10, .int 1, .int 1, .ratio 10 1]),
       (7, [.null, .null, .int 0, .int 1, .null])] := by decide

/-- Non-vacuity on a frame of `PyVal` rows: a two-column key whose tuples collide in CPython. -/
example :
    (run { columns := ["k", "j", "v"],
           rows := [[.int 0, .str "a", .int 4], [.int 2305843009213693951, .str "a", .none],
                    [.int 0, .str "a", .int 6]] }
        ["k", "j"] [(.avg, "v"), (.count, "*")]).toOption
      = some (["AVG(v)", "COUNT(*)", "k", "j"],
             [[.list [.str "avg", .int 10, .int 2], .int 2, .int 0, .str "a"],
              [.none, .int 1, .int 2305843009213693951, .str "a"]]) := by decide

/-- Non-vacuity of the collapse: a request repeated verbatim and a key column named twice. -/
example :
    (run { columns := ["k", "v"], rows := [[.int (-1), .int 4], [.int (-2), .int 1], [.int (-1), .int 6]] }
        ["k", "k"] [(.sum, "v"), (.max, "v"), (.sum, "v")]).toOption
      = some (["SUM(v)", "MAX(v)", "k"], [[.int 10, .int 6, .int (-1)], [.int 1, .int 1, .int (-2)]]) := by decide

end C12
