import OrsoVerif.Lemmas.Cache
import OrsoVerif.Lemmas.CacheLru
import OrsoVerif.Lemmas.CacheLock
import OrsoVerif.Lemmas.CacheArith
import OrsoVerif.Lemmas.CacheSeq
import OrsoVerif.Lemmas.CacheRefine
import OrsoVerif.Lemmas.CacheGen
import OrsoVerif.Lemmas.CacheGenEq
import OrsoVerif.Lemmas.CacheKey
import OrsoVerif.Generated.CacheKey
/-!
# C19 — Memoised functions return only results computed for the same arguments

Property theorems only (helper lemmas: `Lemmas/Cache.lean`, `Lemmas/CacheSeq.lean`).
Values returned by a wrapper are *invocation indices* into the log of calls of the wrapped
function, so "returned a value computed for equal arguments" is `log[v] = (key, time)`.
-/
namespace C19
open Cache

/-! ## Ties to the source (extraction) -/

/-- The single-item wrapper in the working tree loads one snapshot and publishes one tuple:
the line program extracted from its AST is the program the theorems below are about. -/
theorem single_program_extracted : parseProgram Gen.Cache.singleLines = some repairedProgram := by
  decide

/-- The LRU wrapper in the working tree has the statement order, comparison operators,
eviction side and tuple layout that `Model/Cache.lean` was written from, and its dictionary key
is the tuple of the positional arguments and the frozenset of the keyword items (so key
equality is equality of the arguments - the model's `K` - and not, say, equality of a hash). -/
theorem lru_program_extracted :
    Gen.Cache.lruLines = lruShape ∧ Gen.Cache.lruExpireOp = ">" ∧ Gen.Cache.singleFreshOp = "<=" ∧
    Gen.Cache.lruPopLast = false ∧ Gen.Cache.lruResultIndex = (1, 1) ∧
    Gen.Cache.lruKeyForm = "tuple(args, frozenset(kwargs.items()))" ∧
    Gen.Cache.lruLocked = lruGuarded ∧ (Gen.Cache.lruLockKind = "RLock" ∨ Gen.Cache.lruLockKind = "Lock") := by
  decide

/-- The decorator plumbing in the working tree (extracted facts): both decorators return the wrapper, guard
`func is None`, forward every configuration parameter to the recursive application, start with no entry (an initial
value that can equal no call / an empty dict), and create the cache ONCE PER DECORATED FUNCTION - not in a scope that
a configured decorator `d = lru_cache_with_expiry(max_size=2)` would share between the functions it is applied to. -/
theorem decorator_glue_extracted :
    Gen.Cache.singleGlue = ["guard:func is None", "forward:valid_for_seconds", "cache:per-function", "init:no-entry", "return:wrapper"] ∧
    Gen.Cache.lruGlue = ["guard:func is None", "forward:max_size", "forward:valid_for_seconds", "cache:per-function", "lock:per-function", "init:no-entry", "return:wrapper"] := by
  decide

/-! ## The dictionary key of the LRU wrapper as GENERATED from the working tree (`Gen.CacheKey.keyOf`, harness/extractors/c19_key.py)

A call is its positional values and its keyword `(name, value)` pairs in call order; "equal keyword arguments" is equality
as dictionaries (`List.Perm`).  Tuples are `PyVal.list`, the primitives are those of `Model/CacheKey.lean`. -/

/-- Clause "a value that the wrapped function produced for EQUAL POSITIONAL AND KEYWORD arguments", LRU cache: the key the
working tree builds from a call's arguments (`Gen.CacheKey.keyOf`, translated from the source expression on every run)
is injective - two calls with the same key have the same positional arguments and the same keyword arguments.  So an
entry found under a call's key (the model's `K`) was stored by a call with equal arguments: the positional part cannot be
mistaken for the keyword part, a nested tuple not for flat arguments, an empty `kwargs` not for anything else. -/
theorem key_injective (a1 a2 : List PyVal) (k1 k2 : List (String × PyVal)) :
    Gen.CacheKey.keyOf a1 k1 = Gen.CacheKey.keyOf a2 k2 → a1 = a2 ∧ k1.Perm k2 := by
  intro h
  simp only [Gen.CacheKey.keyOf, CacheKey.tuple_inj, CacheKey.frozenset_inj, List.cons.injEq, and_true] at h
  exact ⟨h.1, CacheKey.perm_of_sorted_items_eq h.2⟩

/-- The look-alike calls of the generators get DIFFERENT keys from the working tree's key expression: `f(limit=10)`,
`f(("limit", 10))`, `f((("limit", 10),))`; `f(1, x=2)` and `f(1, ("x", 2))`; `f((1, 2))` and `f(1, 2)`; `f()` and `f(())`. -/
theorem key_separates_lookalikes :
    Gen.CacheKey.keyOf [] [("limit", .int 10)] ≠ Gen.CacheKey.keyOf [.list [.str "limit", .int 10]] [] ∧
    Gen.CacheKey.keyOf [] [("limit", .int 10)] ≠ Gen.CacheKey.keyOf [.list [.list [.str "limit", .int 10]]] [] ∧
    Gen.CacheKey.keyOf [.int 1] [("x", .int 2)] ≠ Gen.CacheKey.keyOf [.int 1, .list [.str "x", .int 2]] [] ∧
    Gen.CacheKey.keyOf [.list [.int 1, .int 2]] [] ≠ Gen.CacheKey.keyOf [.int 1, .int 2] [] ∧
    Gen.CacheKey.keyOf [] [] ≠ Gen.CacheKey.keyOf [.list []] [] := by
  refine ⟨?_, ?_, ?_, ?_, ?_⟩ <;> intro h <;> have := key_injective _ _ _ _ h <;> simp at this

/-- The flat key without a separator between the positional and the keyword part
(`args + tuple(sorted(kwargs.items())) if kwargs else args`, seeded change C19-w8s1) is NOT injective: `f(("limit", 10))`
and `f(limit=10)`, and `f(1, ("x", 2))` and `f(1, x=2)`, are different calls with one key. -/
theorem flat_key_confuses_positional_with_keyword :
    CacheKey.flatKey [.list [.str "limit", .int 10]] [] = CacheKey.flatKey [] [("limit", .int 10)] ∧
    CacheKey.flatKey [.int 1, .list [.str "x", .int 2]] [] = CacheKey.flatKey [.int 1] [("x", .int 2)] ∧
    ¬ (∀ a1 a2 k1 k2, CacheKey.flatKey a1 k1 = CacheKey.flatKey a2 k2 → a1 = a2 ∧ k1.Perm k2) := by
  refine ⟨rfl, rfl, ?_⟩
  intro h
  have := (h [.list [.str "limit", .int 10]] [] [] [("limit", .int 10)] rfl).1
  simp at this

/-- The key with the keyword ORDER in it (`(args, tuple(kwargs.items()))`, hand mutation N7) is injective but not a
function of the arguments as the property means them: `f(x=1, y=2)` and `f(y=2, x=1)` have equal keyword arguments and
different keys (the wrapped function is invoked although an entry for equal arguments is held); the working tree's key
gives them one key. -/
theorem ordered_key_separates_equal_keywords :
    CacheKey.orderedKey [] [("x", .int 1), ("y", .int 2)] ≠ CacheKey.orderedKey [] [("y", .int 2), ("x", .int 1)] ∧
    Gen.CacheKey.keyOf [] [("x", .int 1), ("y", .int 2)] = Gen.CacheKey.keyOf [] [("y", .int 2), ("x", .int 1)] := by
  constructor
  · intro h
    simp only [CacheKey.orderedKey, CacheKey.tuple_inj, List.cons.injEq, and_true, true_and] at h
    have := CacheKey.items_inj h
    simp at this
  · decide

/-! ## The wrapper bodies as GENERATED from the working tree (`Gen.CacheFns`, harness/extractors/c19_fns.py)

"Equal arguments" is Python `==`: a `BEq` instance on the argument types about which nothing is assumed for the
single-item cache, and only reflexivity (Python: the identity shortcut of dict lookups) for the LRU cache.
`sameArgs stored call` = the identical arguments, or `stored == call` on the positional and the keyword part. -/

/-- Clause "returns a value that the wrapped function produced for equal positional and keyword arguments no longer
ago than the validity period", single-item cache, for the GENERATED wrapper and ANY `==`: in every history of calls and
clock advances every call returns the index of an invocation of the wrapped function whose arguments are the call's own
or `==` to them (stored value on the left, as Python evaluates it), made at most `valid_for_seconds` before the call. -/
theorem generated_single_returns_for_equal_arguments {α β : Type} [BEq α] [BEq β] (cost : α × β → Int)
    (valid : Option Int) (hv : ∀ v, valid = some v → 0 ≤ v) (t0 : Int) (ops : List (Op (α × β))) :
    ∀ e ∈ (gSingleRun cost valid Gen.CacheFns.single_init { now := t0, log := [] } ops).2,
      ∃ i stored tm, e.ret = some i ∧
        (gSingleRun cost valid Gen.CacheFns.single_init { now := t0, log := [] } ops).1.2.log[i]? = some (stored, tm) ∧
        sameArgs stored e.key ∧ leInf (e.now - tm) valid = true :=
  (gSingleRun_ok cost valid hv ops _ _ (GSInv_init _)).2

/-- The same clause for the GENERATED LRU wrapper (any `max_size`), for any reflexive `==` and any `hash`: the
dictionary lookup compares hashes and then `stored_key == key`; whatever the hash function does, a returned value was
produced for arguments `==` to the call's. -/
theorem generated_lru_returns_for_equal_arguments {α β : Type} [BEq α] [BEq β] [Hashable α] [Hashable β]
    [ReflBEq α] [ReflBEq β] (cost : α × β → Int) (maxSize : Nat) (valid : Option Int)
    (hv : ∀ v, valid = some v → 0 ≤ v) (t0 : Int) (ops : List (Op (α × β))) :
    ∀ e ∈ (gLruRun cost maxSize valid Gen.CacheFns.lru_init { now := t0, log := [] } ops).2,
      ∃ i stored tm, e.ret = some i ∧
        (gLruRun cost maxSize valid Gen.CacheFns.lru_init { now := t0, log := [] } ops).1.2.log[i]? = some (stored, tm) ∧
        sameArgs stored e.key ∧ leInf (e.now - tm) valid = true :=
  (gLruRun_ok cost maxSize valid hv ops _ _ (by intro e he; cases he)).2

/-- The generated single-item wrapper IS the hand-written statement-level machine: for lawful equality, every history
run through `Gen.CacheFns.single_wrapper` from `Gen.CacheFns.single_init` gives the events, the final entry and the
invocation log of `singleRun` - so `single_refines_spec` and `single_invokes_exactly_on_miss` below are theorems about
the wrapper body as it is in the working tree. -/
theorem generated_single_eq_model {α β : Type} [DecidableEq α] [DecidableEq β] (cost : α × β → Int) (valid : Option Int)
    (t0 : Int) (ops : List (Op (α × β))) :
    gSingleRun cost valid Gen.CacheFns.single_init { now := t0, log := [] } ops =
      ((encS (singleRun valid cost (SState.init t0) ops).1.entry,
        { now := (singleRun valid cost (SState.init t0) ops).1.now, log := (singleRun valid cost (SState.init t0) ops).1.log }),
       (singleRun valid cost (SState.init t0) ops).2.map gev) :=
  gSingleRun_eq cost valid ops (SState.init t0)

/-- The generated LRU wrapper IS the hand-written statement-level machine `lruRun` (for lawful equality and ANY hash
function): expiry sweep, membership test, `move_to_end`, insertion, `popitem(last=False)` above `max_size`. With
`lru_refines_spec` the generated wrapper refines the declarative specification. -/
theorem generated_lru_eq_model {α β : Type} [DecidableEq α] [DecidableEq β] [Hashable α] [Hashable β]
    (cost : α × β → Int) (maxSize : Nat) (valid : Option Int) (t0 : Int) (ops : List (Op (α × β))) :
    gLruRun cost maxSize valid Gen.CacheFns.lru_init { now := t0, log := [] } ops =
      ((encL (lruRun maxSize valid cost (LState.init t0) ops).1.cache,
        { now := (lruRun maxSize valid cost (LState.init t0) ops).1.now, log := (lruRun maxSize valid cost (LState.init t0) ops).1.log }),
       (lruRun maxSize valid cost (LState.init t0) ops).2.map gev) :=
  gLruRun_eq cost maxSize valid ops (LState.init t0)

/-- Non-vacuity with a NON-lawful `==`: arguments compared modulo 10 (`3 == 13`), single-item cache, validity 5:
f(3) computes, f(13) is served f(3)'s value (a value for `==` arguments), f(4) computes, after 6 s f(4) recomputes. -/
example : (@gSingleRun Nat Nat ⟨fun a b => a % 10 == b % 10⟩ ⟨fun a b => a == b⟩ (fun _ => 0) (some 5)
    Gen.CacheFns.single_init { now := 0, log := [] }
    [.call (3, 0), .call (13, 0), .call (4, 0), .advance 6, .call (4, 0)]).2.map (·.ret) = [some 0, some 0, some 1, some 2] := by
  decide

/-- Clause "which in particular keeps one DataFrame's cached column names from being served to another":
`DataFrame.column_names` / `columncount` are the bare `@single_item_cache` (no expiry) on a method of `self` only, and
`DataFrame` defines no `__eq__`, so the key is the frame compared by identity (`F` with lawful equality, no keyword
arguments).  For every history of reads on any frames, what a read returns was computed by the wrapped method for a
frame with the same identity - whatever `names` the method computes from a frame, the caller gets its own frame's. -/
theorem frame_is_served_its_own_names {F N : Type} [DecidableEq F] (names : F → N) (cost : F × Unit → Int) (t0 : Int)
    (ops : List (Op (F × Unit))) :
    ∀ e ∈ (gSingleRun cost none Gen.CacheFns.single_init { now := t0, log := [] } ops).2,
      ∃ i stored tm, e.ret = some i ∧
        (gSingleRun cost none Gen.CacheFns.single_init { now := t0, log := [] } ops).1.2.log[i]? = some (stored, tm) ∧
        names stored.1 = names e.key.1 := by
  intro e he
  obtain ⟨i, stored, tm, h1, h2, h3, _⟩ :=
    generated_single_returns_for_equal_arguments cost none (by intro v hv; cases hv) t0 ops e he
  refine ⟨i, stored, tm, h1, h2, ?_⟩
  rcases h3 with h | ⟨h, _⟩
  · rw [h]
  · rw [eq_of_beq h]

/-- The glue of clause 8, PER USE SITE (generated facts `Gen.Cache.useSites`: every decorated use site found by parsing
`orso/**/*.py` on this run - name, decorator, key arity, whether the receiver class defines `__eq__` / `__hash__`, which
attributes of `self` the wrapped body reads).  For every site decorated with the bare single-item cache whose only
argument is the receiver and whose class defines no `__eq__` (the key is the receiver compared by identity), every
history of reads on any receivers returns, at that site, a value the wrapped method computed for a receiver of the same
identity: the instance of `generated_single_returns_for_equal_arguments` at the site's own key type.  A new site of this
kind is covered by the same statement; a site with value equality is covered by the general theorem with its `==`. -/
theorem every_use_site_is_served_its_own_receiver :
    ∀ s ∈ Gen.Cache.useSites, s.decorator = "single_item_cache" → s.arity = 1 → s.receiverDefinesEq = false →
    -- the site configures nothing but (possibly) the validity: the wrapper installed there IS the generated wrapper and its
    -- key IS the receiver (a `key=` / identity / weak-reference argument would make the key something that can outlive
    -- the receiver and be met again by a different receiver at the same address)
    (∀ a ∈ s.decoratorArgs, a.1 = "valid_for_seconds") ∧
    ∀ {F N : Type} [DecidableEq F] (result : F → N) (cost : F × Unit → Int) (valid : Option Int)
      (_ : ∀ v, valid = some v → 0 ≤ v) (t0 : Int) (ops : List (Op (F × Unit))),
    ∀ e ∈ (gSingleRun cost valid Gen.CacheFns.single_init { now := t0, log := [] } ops).2,
      ∃ i stored tm, e.ret = some i ∧
        (gSingleRun cost valid Gen.CacheFns.single_init { now := t0, log := [] } ops).1.2.log[i]? = some (stored, tm) ∧
        result stored.1 = result e.key.1 := by
  have configured : ∀ s ∈ Gen.Cache.useSites, s.decorator = "single_item_cache" → s.arity = 1 → s.receiverDefinesEq = false →
      ∀ a ∈ s.decoratorArgs, a.1 = "valid_for_seconds" := by decide
  intro s hs h1 h2 h3
  refine ⟨configured s hs h1 h2 h3, ?_⟩
  intro F N _ result cost valid hv t0 ops e he
  obtain ⟨i, stored, tm, h1, h2, h3, _⟩ := generated_single_returns_for_equal_arguments cost valid hv t0 ops e he
  refine ⟨i, stored, tm, h1, h2, ?_⟩
  rcases h3 with h | ⟨h, _⟩
  · rw [h]
  · rw [eq_of_beq h]

/-- What a use site may CONFIGURE (generated fact `decoratorArgs`: the arguments the decorator is called with at the site,
extracted from the working tree on every run).  The theorems above are about the wrapper whose key is the tuple of the
call's own argument OBJECTS (held by the cache, so they stay alive and their identity stays theirs) and whose only
parameters are the validity and the size.  Every site of orso's two decorators passes nothing but these two, by keyword:
no site replaces the key by something derived from the arguments (`key=`, `id`, a weak reference, a hash), which would
be a key that can outlive its object and be met again by a different object at the same address. -/
theorem use_site_arguments_are_the_models_parameters :
    ∀ s ∈ Gen.Cache.useSites, s.decorator ∈ ["single_item_cache", "lru_cache_with_expiry"] →
      ∀ a ∈ s.decoratorArgs, a.1 ∈ ["valid_for_seconds", "max_size"] := by
  decide

/-- Every use site listed in the generated facts is decorated with a cache the framework has theorems for (orso's two)
or a correspondence for (the functools caches).  Which sites satisfy the hypotheses of the per-site instance above
(one-argument method, class without `__eq__`) is reported in the evidence (`use_sites_covered_by_the_per_site_theorem`);
a site that does not is not an alarm: it is covered by the general `==` theorems and examined by correspondence
(modes `frames` and `mutate`). -/
theorem use_site_decorators_known :
    ∀ s ∈ Gen.Cache.useSites, s.decorator ∈ ["single_item_cache", "lru_cache_with_expiry", "lru_cache", "cache", "cached_property"] := by
  decide

/-- The size arithmetic of the GENERATED LRU wrapper (`len(cache) > max_size` -> `popitem`), for an ARBITRARY `==` and hash
(no law assumed) and every `max_size` including 0: a call that starts with at most `max_size` entries ends with at most
`max_size` entries - the sweep only deletes, a hit re-orders, a miss adds one entry and evicts one when the bound is
exceeded.  (With `generated_lru_eq_model` + `lru_refines_spec` the evicted entry is the least recently used one and
`generated_lru_returns_for_equal_arguments` shows that no expired entry is served.) -/
theorem generated_lru_size_bounded {α β : Type} [BEq α] [BEq β] [Hashable α] [Hashable β] (cost : α × β → Int)
    (maxSize : Nat) (valid : Option Int) (a : α) (b : β) (c : PyOD (α × β) (Int × Nat)) (w : FnWorld (α × β))
    (h : PyOD.len c ≤ maxSize) :
    PyOD.len (Gen.CacheFns.lru_wrapper cost maxSize valid a b c w).2.1 ≤ maxSize :=
  lru_wrapper_size cost maxSize valid a b c w h

/-! ## Several wrappers made by one decorator (the plumbing around the wrapper) -/

/-- Each wrapper has its own entries: with the cache scope EXTRACTED from `lru_cache_with_expiry`, in any history of
calls on any number of wrappers (wrapper `j` wraps function `j`) and clock advances, the events of wrapper `j` are
exactly the events of the sequential machine `lruRun` on `j`'s own calls - the other wrappers' calls appear only as the
clock advances they caused - and function `j`'s invocation log is that run's log. -/
theorem lru_wrappers_independent {K : Type} [DecidableEq K] (maxSize : Nat) (valid : Option Int) (cost : K → Int)
    (t0 : Int) (j : Nat) (ops : List (AOp K)) :
    let M := lruMach maxSize valid cost
    let sh := scopeShared Gen.Cache.lruGlue
    let solo := lruRun maxSize valid cost (LState.init t0) (projOps M sh j (MState.init M t0) ops)
    ((multiRun M sh (MState.init M t0) ops).2.filter (fun p => p.1 = j)).map (·.2) = solo.2 ∧
    (multiRun M sh (MState.init M t0) ops).1.logs j = solo.1.log := by
  have hsh : scopeShared Gen.Cache.lruGlue = false := by decide
  simp only [hsh]
  have h := multiRun_independent (lruMach maxSize valid cost) j ops (MState.init (lruMach maxSize valid cost) t0)
  have hm := machRun_lru maxSize valid cost (projOps (lruMach maxSize valid cost) false j (MState.init (lruMach maxSize valid cost) t0) ops) (LState.init t0)
  simp only [MState.init, LState.init, lruMach] at h hm ⊢
  rw [hm] at h
  exact ⟨h.1, (Prod.mk.inj h.2).2⟩

/-- The same for `single_item_cache`. -/
theorem single_wrappers_independent {K : Type} [DecidableEq K] (valid : Option Int) (cost : K → Int)
    (t0 : Int) (j : Nat) (ops : List (AOp K)) :
    let M := singleMach valid cost
    let sh := scopeShared Gen.Cache.singleGlue
    let solo := singleRun valid cost (SState.init t0) (projOps M sh j (MState.init M t0) ops)
    ((multiRun M sh (MState.init M t0) ops).2.filter (fun p => p.1 = j)).map (·.2) = solo.2 ∧
    (multiRun M sh (MState.init M t0) ops).1.logs j = solo.1.log := by
  have hsh : scopeShared Gen.Cache.singleGlue = false := by decide
  simp only [hsh]
  have h := multiRun_independent (singleMach valid cost) j ops (MState.init (singleMach valid cost) t0)
  have hm := machRun_single valid cost (projOps (singleMach valid cost) false j (MState.init (singleMach valid cost) t0) ops) (SState.init t0)
  simp only [MState.init, SState.init, singleMach] at h hm ⊢
  rw [hm] at h
  exact ⟨h.1, (Prod.mk.inj h.2).2⟩

/-- Why the scope matters: with ONE cache for everything a configured decorator is applied to
(`cache:outer-scope`), `f0(7)` followed by `f1(7)` serves `f0`'s value to the caller of `f1` - the call of wrapper 1
does not invoke function 1 (whose log stays empty) and returns invocation 0 of function 0. -/
theorem shared_scope_serves_foreign :
    let r := multiRun (lruMach 2 none (fun (_ : Nat) => 0)) (scopeShared ["cache:outer-scope"])
      (MState.init (lruMach 2 none (fun (_ : Nat) => 0)) 0) [.call 0 7, .call 1 7]
    r.2.map (fun p => (p.1, p.2.ret, p.2.invoked)) = [(0, 0, true), (1, 0, false)] ∧ r.1.logs 1 = [] ∧ r.1.logs 0 = [(7, 0)] := by
  decide

/-! ## Every sequence of calls and clock advances: single-item cache

`SingleSpec` (Lemmas/CacheSeq.lean) is the property's sequential clause as a predicate on the
observable trace and the log of invocations of the wrapped function. -/

/-- For every history of calls and clock advances (any key type, any non-negative or
infinite validity, any clock advance inside the wrapped function) the single-item machine
satisfies the specification: each call returns a value produced for equal arguments no
longer ago than the validity period (boundary `<=`); the wrapped function is not invoked
iff the LAST call had equal arguments and its value is still valid; a call that does not
invoke returns the last call's value; an invocation is logged for this key at this time. -/
theorem single_refines_spec {K : Type} [DecidableEq K] (valid : Option Int)
    (hv : ∀ v, valid = some v → 0 ≤ v) (cost : K → Int) (t0 : Int) (ops : List (Op K)) :
    SingleSpec valid (singleRun valid cost (SState.init t0) ops).1.log none
      (singleRun valid cost (SState.init t0) ops).2 :=
  single_trace valid hv cost ops (SState.init t0) none rfl

/-- The wrapped function is invoked exactly once per miss and never otherwise: the log of
invocations has as many entries as there are events flagged `invoked`. -/
theorem single_invokes_exactly_on_miss {K : Type} [DecidableEq K] (valid : Option Int)
    (cost : K → Int) (t0 : Int) (ops : List (Op K)) :
    (singleRun valid cost (SState.init t0) ops).1.log.length =
      ((singleRun valid cost (SState.init t0) ops).2.filter (·.invoked)).length := by
  obtain ⟨l, hl, hn⟩ := singleRun_log valid cost ops (SState.init t0)
  rw [hl, ← hn]; simp [SState.init]

/-- The hypotheses are satisfiable and the boundary is `<=`: validity 10, call x, advance
10 (exactly at the boundary: hit), advance 1 (above: miss), then y, then x (miss: only the
last call is held). -/
example : (singleRun (some 10) (fun _ => 0) (SState.init 0)
    [.call 1, .advance 10, .call 1, .advance 1, .call 1, .call 2, .call 1]).2.map (fun e => (e.ret, e.invoked))
    = [(0, true), (0, false), (1, true), (2, true), (3, true)] := by decide

/-! ## Every sequence of calls and clock advances: LRU cache with expiry -/

/-- For every history, every `max_size`, the statement-level LRU machine returns at every
call a value the wrapped function produced for an equal key no longer ago than the validity
period, and a call flagged `invoked` returns the value logged for its key at its own time. -/
theorem lru_returns_own_fresh {K : Type} [DecidableEq K] (maxSize : Nat) (valid : Option Int)
    (hv : ∀ v, valid = some v → 0 ≤ v) (cost : K → Int) (t0 : Int) (ops : List (Op K)) :
    ∀ e ∈ (lruRun maxSize valid cost (LState.init t0) ops).2,
      (∃ tm, (lruRun maxSize valid cost (LState.init t0) ops).1.log[e.ret]? = some (e.key, tm) ∧
        fresh valid e.now tm = true) ∧
      (e.invoked = true →
        (lruRun maxSize valid cost (LState.init t0) ops).1.log[e.ret]? = some (e.key, e.now)) :=
  (lruRun_trace maxSize valid hv cost ops (LState.init t0) (by intro e he; simp [LState.init] at he)).2

/-- The wrapped function is invoked exactly once per event flagged `invoked`. -/
theorem lru_invokes_exactly_on_miss {K : Type} [DecidableEq K] (maxSize : Nat) (valid : Option Int)
    (hv : ∀ v, valid = some v → 0 ≤ v) (cost : K → Int) (t0 : Int) (ops : List (Op K)) :
    (lruRun maxSize valid cost (LState.init t0) ops).1.log.length =
      ((lruRun maxSize valid cost (LState.init t0) ops).2.filter (·.invoked)).length := by
  obtain ⟨⟨l, hl, hn⟩, _⟩ := lruRun_trace maxSize valid hv cost ops (LState.init t0)
    (by intro e he; simp [LState.init] at he)
  rw [hl, ← hn]; simp [LState.init]

/-- A call is a hit (the function is not invoked) iff, after the expiry sweep at the call's
time, an entry for an equal key is held; the swept cache holds exactly the entries that are
not older than the validity period (boundary: kept when `now - time <= valid`). -/
theorem lru_hit_iff_held {K : Type} [DecidableEq K] (maxSize : Nat) (valid : Option Int)
    (cost : K → Int) (s : LState K) (k : K) :
    ((lruCall maxSize valid cost s k).2.invoked = false ↔ ∃ e ∈ sweep valid s.now s.cache, e.key = k) ∧
    ∀ e ∈ sweep valid s.now s.cache, e ∈ s.cache ∧ fresh valid s.now e.time = true := by
  refine ⟨?_, fun e he => mem_sweep he⟩
  rcases lruCall_cases maxSize valid cost s k with ⟨e, hmem, hk, hc⟩ | ⟨hno, hev, _, _⟩
  · rw [hc]; exact ⟨fun _ => ⟨e, hmem, hk⟩, fun _ => rfl⟩
  · rw [hev]
    constructor
    · intro h; cases h
    · rintro ⟨e, he, hk⟩; exact absurd hk (hno e he)

/-- Refinement: for every history of calls and clock advances, every `max_size`, validity and
clock behaviour, the statement-level machine of `lru_cache_with_expiry` (expiry loop of
`del cache[k]`, `key in cache`, `move_to_end`, insert, `popitem(last=False)` when
`len(cache) > max_size`) produces exactly the trace, log and state of the declarative
specification `specRun`: held = the unexpired entries (`now - time <= valid`), least recently
used first; a call is a hit iff an entry for an equal key is held, and a hit makes it the most
recently used; a miss invokes the function, appends the entry and keeps the last `max_size`
(= the `max_size` most recently used). -/
theorem lru_refines_spec {K : Type} [DecidableEq K] (maxSize : Nat) (valid : Option Int)
    (cost : K → Int) (t0 : Int) (ops : List (Op K)) :
    lruRun maxSize valid cost (LState.init t0) ops = specRun maxSize valid cost (LState.init t0) ops :=
  (lruRun_eq_specRun maxSize valid cost ops (LState.init t0)
    ⟨by intro e he; simp [LState.init] at he, by simp [LState.init]⟩).1

/-- The invariants behind the refinement, for every reachable state: stored keys are unique
and at most `max_size` entries are held. -/
theorem lru_keys_unique_size_bounded {K : Type} [DecidableEq K] (maxSize : Nat) (valid : Option Int)
    (cost : K → Int) (t0 : Int) (ops : List (Op K)) :
    (∀ e ∈ (lruRun maxSize valid cost (LState.init t0) ops).1.cache,
      ∀ e' ∈ (lruRun maxSize valid cost (LState.init t0) ops).1.cache, e.key = e'.key → e = e') ∧
    (lruRun maxSize valid cost (LState.init t0) ops).1.cache.length ≤ maxSize := by
  have h := lruRun_eq_specRun maxSize valid cost ops (LState.init t0)
    ⟨by intro e he; simp [LState.init] at he, by simp [LState.init]⟩
  rw [h.1]; exact h.2

/-- Why the specification is a machine and not the classical closed formula "held = the `max_size` most recently
used keys of the history": with expiry the formula is FALSE of the code.  `max_size` 2, validity 10: `1`@0, `0`@8,
`1`@9 (hit), `2`@11 (the sweep deletes `1`, computed at 0, so nothing is evicted), `0`@12 is a HIT although the two
most recently used keys before it are `2` and `1`. -/
theorem lru_held_is_not_the_mru_closed_formula :
    ((lruRun 2 (some 10) (fun _ => 0) (LState.init 0)
        [.call 1, .advance 8, .call 0, .advance 1, .call 1, .advance 2, .call 2, .advance 1, .call 0]).2.map
      (fun e => (e.key, e.invoked)) = [(1, true), (0, true), (1, false), (2, true), (0, false)]) ∧
    ([2, 1, 0, 1].eraseDups.take 2 = [2, 1]) := by
  decide

/-- What a hit means in the specification: the function is not invoked iff an unexpired entry
for an equal key is stored (boundary `<=`). -/
theorem spec_hit_iff_unexpired_entry {K : Type} [DecidableEq K] (maxSize : Nat) (valid : Option Int)
    (cost : K → Int) (s : LState K) (k : K) :
    (specCall maxSize valid cost s k).2.invoked = false ↔
      ∃ e ∈ s.cache, e.key = k ∧ fresh valid s.now e.time = true := by
  cases hfind : (s.cache.filter (fun e => fresh valid s.now e.time)).find? (fun e => decide (e.key = k)) with
  | some e =>
    have hmem := List.mem_filter.mp (List.mem_of_find?_eq_some hfind)
    have hk : e.key = k := by simpa using List.find?_some hfind
    simp only [specCall, hfind]
    exact ⟨fun _ => ⟨e, hmem.1, hk, hmem.2⟩, fun _ => by trivial⟩
  | none =>
    simp only [specCall, hfind]
    constructor
    · intro h; cases h
    · rintro ⟨e, he, hk, hf⟩
      have := List.find?_eq_none.mp hfind e (List.mem_filter.mpr ⟨he, hf⟩)
      simp [hk] at this

/-- Non-vacuity and the LRU order: `max_size` 2, keys 1 2, hit on 1 (moves it to the end),
insert 3 (evicts 2, the least recently used), so 1 hits and 2 misses; after 11 s all expire. -/
example : (lruRun 2 (some 10) (fun _ => 0) (LState.init 0)
    [.call 1, .call 2, .call 1, .call 3, .call 1, .call 2, .advance 10, .call 2, .advance 1, .call 2]).2.map
      (fun e => (e.ret, e.invoked))
    = [(0, true), (1, true), (0, false), (2, true), (0, false), (3, true), (3, false), (4, true)] := by decide

/-! ## Concurrent callers, single-item cache -/

/-- "No caller ever receives a result that was computed for different arguments", for the
line program `P`: whatever the validity, the clock behaviour of the wrapped function, the
number of threads and their arguments, and the schedule (single lines, clock ticks, runs
to completion), every thread that has returned holds a value and that value was produced
by an invocation of the wrapped function with the thread's own `(args, kwargs)`. -/
def NoForeign (A B : Type) [DecidableEq A] [DecidableEq B] (P : Program) : Prop :=
  ∀ (valid : Option Int) (cost : A × B → Int) (t0 : Int) (keys : List (A × B)) (sched : List SStep)
    (c : Conc A B), Conc.runSched P valid cost (Conc.init t0 keys) sched = some c →
    ∀ t ∈ c.thr, ∀ r, t.out = some r → ∃ v tm, r = some v ∧ c.w.log[v]? = some ((t.ka, t.kb), tm)

/-- Clause "for every interleaving of concurrent callers" for the single-item cache as
repaired: holds for the program EXTRACTED from the working tree, any number of threads,
any schedule. (Assumes line-level atomicity, see the module header of Model/Cache.lean.) -/
theorem no_foreign_result (A B : Type) [DecidableEq A] [DecidableEq B] :
    NoForeign A B extractedProgram := by
  have hp : extractedProgram = repairedProgram := by
    unfold extractedProgram; rw [single_program_extracted]; rfl
  rw [hp]
  intro valid cost t0 keys sched c hrun t ht r hr
  have hinv := runSched_repaired valid cost sched _ c (CInv.init t0 keys) hrun
  obtain ⟨v, hv, tm, ho⟩ := (hinv.2 t ht).out r hr
  exact ⟨v, tm, hv, ho⟩

/-- The schedule that breaks the pinned four-store wrapper: the cache holds the entry of
`y = (1,0)`; thread 1 calls with `x = (2,0)`, misses, calls the function and stores
`last_args` (4 lines); thread 2 calls with `x`, passes all three comparisons against the
half-published entry and returns `y`'s result. -/
def raceSchedule : List SStep := [.finish 0, .run 1, .run 1, .run 1, .run 1, .finish 2]

/-- The pinned design (four separate slot stores, four separate loads) violates the
property: negation of `NoForeign`, by the explicit schedule above. -/
theorem four_slot_race : ¬ NoForeign Nat Nat pinnedProgram := by
  intro h
  have hrun : Conc.runSched pinnedProgram (some 10) (fun _ => 0) (Conc.init 0 [(1, 0), (2, 0), (2, 0)]) raceSchedule
      = some { w := { sh := { a := some 2, b := some 0, r := some 0, t := 0 }, clock := 0, log := [((1, 0), 0), ((2, 0), 0)] },
               thr := [ { ka := 1, kb := 0, pc := 9, now := 0, snap := { a := none, b := none, r := none, t := 0 }, res := some 0, out := some (some 0) },
                        { ka := 2, kb := 0, pc := 7, now := 0, snap := { a := some 1, b := none, r := none, t := 0 }, res := some 1, out := none },
                        { ka := 2, kb := 0, pc := 4, now := 0, snap := { a := some 2, b := some 0, r := some 0, t := 0 }, res := none, out := some (some 0) } ] } := by
    decide
  obtain ⟨v, tm, hv, hl⟩ := h (some 10) (fun _ => 0) 0 [(1, 0), (2, 0), (2, 0)] raceSchedule _ hrun
    { ka := 2, kb := 0, pc := 4, now := 0, snap := { a := some 2, b := some 0, r := some 0, t := 0 }, res := none, out := some (some 0) }
    (by simp) (some 0) rfl
  simp only [Option.some.injEq] at hv
  subst hv
  simp at hl

/-! ## Concurrent callers, LRU cache -/

/-- Clause "for every interleaving of concurrent callers" for the LRU cache (entries are
published by one dict store): any `max_size`, validity, number of threads, schedule; every
value RETURNED to a caller was produced by the wrapped function for that caller's key.
(A call may instead end in a `KeyError`/`RuntimeError` raised by the wrapper's own
bookkeeping - `Outcome.err`, open finding C19-K01 - which is not a returned value.) -/
theorem lru_no_foreign_result (K : Type) [DecidableEq K] (maxSize : Nat) (valid : Option Int)
    (cost : K → Int) (t0 : Int) (keys : List K) (sched : List SStep) (c : LConc K)
    (hrun : LConc.runSched maxSize valid cost (LConc.init t0 keys) sched = some c) :
    ∀ t ∈ c.thr, ∀ v, t.out = some (.ok v) → ∃ tm, c.w.log[v]? = some (t.key, tm) := by
  intro t ht v hv
  have hinv := lrunSched_inv maxSize valid cost sched _ c (LCInv.init t0 keys) hrun
  exact (hinv.2 t ht).out v hv

/-- Clause "for every interleaving of concurrent callers" at FULL strength for the LRU cache (finding
C19-K01, repaired by `fix: lru_cache_with_expiry does its bookkeeping under a lock`): for any `max_size`,
validity, clock behaviour, any number of threads with any arguments and ANY schedule of the line-level
semantics - in which every dictionary operation keeps its failure branch (`KeyError` of `del` /
`move_to_end` / `cache[key]` / `popitem`, `RuntimeError` of the iterator) and a thread that finds the lock
taken does not proceed -
* a call that has ended has RETURNED (no exception), and returned an invocation of the wrapped function
  made for the thread's own arguments;
* no thread is on an exception path;
* at most one thread is inside a `with lock:` block, and then the lock is taken;
* the dictionary's keys are unique. -/
theorem lru_every_call_returns_its_own_result (K : Type) [DecidableEq K] (maxSize : Nat) (valid : Option Int)
    (cost : K → Int) (t0 : Int) (keys : List K) (sched : List SStep) (c : LConc K)
    (hrun : LConc.runSched maxSize valid cost (LConc.init t0 keys) sched = some c) :
    (∀ t ∈ c.thr, ∀ o, t.out = some o → ∃ v tm, o = .ok v ∧ c.w.log[v]? = some (t.key, tm)) ∧
    (∀ t ∈ c.thr, t.out = none → ∀ cls, t.pc ≠ .relErr cls ∧ t.pc ≠ .cleanup cls) ∧
    (∀ (i j : Nat) (ti tj : LThr K), c.thr[i]? = some ti → c.thr[j]? = some tj →
      ti.crit = true → tj.crit = true → i = j) ∧
    (∀ t ∈ c.thr, t.crit = true → c.w.lock = true) ∧
    (c.w.od.items.map (·.key)).Nodup := by
  have hown := lrunSched_inv maxSize valid cost sched _ c (LCInv.init t0 keys) hrun
  have hlock := LockInv.runSched maxSize valid cost sched _ c (LockInv.init t0 keys) hrun
  refine ⟨?_, ?_, hlock.excl, ?_, hlock.nodup⟩
  · intro t ht o ho
    obtain ⟨j, hj⟩ := List.getElem?_of_mem ht
    cases o with
    | ok v => exact ⟨v, (hown.2 t ht).out v ho |>.choose, rfl, (hown.2 t ht).out v ho |>.choose_spec⟩
    | err cls => exact absurd ho (hlock.noerr j t hj cls)
  · intro t ht hout cls
    obtain ⟨j, hj⟩ := List.getElem?_of_mem ht
    have hk := hlock.know j t hj hout
    constructor <;> intro hpc <;> simp [Know, hpc] at hk
  · intro t ht hc
    obtain ⟨j, hj⟩ := List.getElem?_of_mem ht
    exact hlock.held j t hj hc

/-- The design before the repair is refuted (finding C19-K01 was real): the same line-level machine with
the two `with lock:` lines doing nothing (`lstepNoLock`).  `max_size = 1`, the cache holds `x`: a caller
of `x` that has passed `key in cache` loses its entry to a concurrent caller of `y` (insert + `popitem`)
and `move_to_end` raises `KeyError` - the call ends in an exception although the wrapped function did not fail. -/
theorem lru_without_lock_keyerror :
    (LConc.runNoLock 1 (some 10) (fun _ => 0) (LConc.init 0 [1, 1, 2])
        (List.replicate 10 0 ++ List.replicate 5 1 ++ List.replicate 12 2 ++ List.replicate 2 1)).map
      (fun c => c.thr.map (·.out)) = some [some (.ok 0), some (.err "KeyError"), some (.ok 1)] := by
  decide

/-- ... and with the lock the same attempt cannot be scheduled: the caller of `y` finds the lock taken and
does not proceed (its `with` line changes nothing) until the caller of `x` has left the block. -/
example :
    (LConc.runSched 1 (some 10) (fun _ => 0) (LConc.init 0 [1, 1, 2])
        ([.finish 0] ++ List.replicate 5 (.run 1) ++ List.replicate 4 (.run 2) ++ [.finish 1, .finish 2])).map
      (fun c => c.thr.map (·.out)) = some [some (.ok 0), some (.ok 0), some (.ok 1)] := by
  decide

end C19
