import OrsoVerif.Lemmas.EstimatorsTop
import OrsoVerif.Lemmas.DistogramState
import Mathlib.Algebra.Order.Ring.Rat
import Mathlib.Algebra.Field.Rat
/-!
# C14 — Histogram estimators are monotone, bounded and exact at the ends

Property theorems only, about `countAt`, `quantile`, `estimateBelow/Above` of
`Model/Estimators.lean` over an arbitrary linear ordered field, for **every** histogram that
satisfies C13's invariants (`Distogram.HistOK`: centres strictly increasing, counts positive,
non-empty, every centre within `[lo, hi]` — what `C13.bins_strictly_increasing`,
`C13.counts_positive`, `C13.centres_within_bounds` establish for every history) and every query
point.  Python's `int(total * value)` enters as a parameter `floor` with the properties of a floor
on non-negative numbers (`FloorLike`).
-/
namespace C14
open Distogram
set_option linter.unusedSectionVars false

variable {K : Type} [Field K] [LinearOrder K] [IsStrictOrderedRing K]
variable {bins : List (K × K)} {lo hi : K}

/-- What the theorems need of Python's `int()` applied to `total_count * value ≥ 0`. -/
structure FloorLike (floor : K → K) (total : K) : Prop where
  mono : ∀ a b, a ≤ b → floor a ≤ floor b
  zero : floor 0 = 0
  top : floor total = total
  le : ∀ a, floor a ≤ a

/-- **`count_at` is None outside the observed range** (and on an empty histogram). -/
theorem countAt_outside (mn mx : Option K) (x : K) :
    countAt ([] : List (K × K)) mn mx x = none ∧
    (x < lo ∨ hi < x → countAt bins (some lo) (some hi) x = none) := by
  refine ⟨by simp [countAt], ?_⟩
  intro h
  unfold countAt
  split
  · rename_i v0 f0 vl fl lo' hi' _ _ h3 h4
    simp only [Option.some.injEq] at h3 h4
    subst h3; subst h4
    rw [if_pos]
    simpa [Gen.DistogramExpr.countOutside] using h
  · rfl

/-- **`count_at` is 0 at the minimum.** -/
theorem countAt_min (ok : HistOK bins lo hi) : countAt bins (some lo) (some hi) lo = some 0 := by
  obtain ⟨v0, f0, tail, vl, fl, rfl, hl⟩ := shape ok
  have hle : lo ≤ hi := le_trans (ok.within (v0, f0) (by simp)).1 (ok.within (v0, f0) (by simp)).2
  rw [countAt_unfold v0 f0 tail vl fl lo hi lo hl, if_neg (by intro h; rcases h with h | h <;> linarith), if_pos rfl]

/-- **`count_at` is the total at the maximum** (when the histogram holds more than one value;
for `lo = hi` the code answers 0, the "minimum" clause). -/
theorem countAt_max (ok : HistOK bins lo hi) (h : lo < hi) :
    countAt bins (some lo) (some hi) hi = some (mass bins) := by
  obtain ⟨v0, f0, tail, vl, fl, rfl, hl⟩ := shape ok
  rw [countAt_unfold v0 f0 tail vl fl lo hi hi hl, if_neg (by intro h; rcases h with h | h <;> linarith),
    if_neg (by intro h'; rw [h'] at h; exact lt_irrefl _ h), if_pos rfl]

/-- **`count_at` lies between 0 and the total** — PARTIAL.
Full statement (the property): `HistOK bins lo hi → lo ≤ x → x ≤ hi → ∃ r, countAt … x = some r ∧
0 ≤ r ∧ r ≤ mass bins`.  It is *false* of the code as it exists (open finding C14-K01: the left
tail is `ratio * v0 / 2`, the first bin's value instead of its count) — see
`countAt_exceeds_total` and `countAt_negative`.  Proved here under `LeftTailOK` (the first centre
is the minimum, so the left tail is empty, or `0 ≤ v0 ≤ f0`); the other branches need nothing. -/
theorem countAt_bounds_partial (ok : HistOK bins lo hi) (hleft : LeftTailOK bins lo) {x : K}
    (hx : lo ≤ x) (hx' : x ≤ hi) :
    ∃ r, countAt bins (some lo) (some hi) x = some r ∧ 0 ≤ r ∧ r ≤ mass bins := by
  obtain ⟨v0, f0, tail, vl, fl, rfl, hl⟩ := shape ok
  have hf0 : 0 < f0 := ok.pos (v0, f0) (by simp)
  have b1 := half_le_topK (v0, f0) tail ok.pos
  have b2 := topK_le_mass (v0, f0) tail ok.pos
  have b3 := mass_nonneg ok.pos
  obtain ⟨r, hr, hc⟩ := countAt_class v0 f0 tail vl fl lo hi x ok hleft hl hx hx'
  refine ⟨r, hr, ?_⟩
  simp only at b1
  rcases hc with ⟨_, q⟩ | ⟨_, _, q⟩ | ⟨_, _, _, _, _, l, u⟩ | ⟨_, _, _, _, _, l, u⟩ | ⟨_, _, _, _, _, l, u⟩ <;>
    constructor <;> linarith

/-- **`count_at` is non-decreasing in its argument** — PARTIAL.
Full statement (the property): `HistOK bins lo hi → lo ≤ x → x ≤ y → y ≤ hi → countAt … x = some r1
→ countAt … y = some r2 → r1 ≤ r2`.  False of the code as it exists (C14-K01), see
`countAt_decreases`.  Proved under `LeftTailOK`: within each of the three branches, at the joins
of the interior segments and across the branches. -/
theorem countAt_mono_partial (ok : HistOK bins lo hi) (hleft : LeftTailOK bins lo) {x y r1 r2 : K}
    (hx : lo ≤ x) (hxy : x ≤ y) (hy : y ≤ hi)
    (h1 : countAt bins (some lo) (some hi) x = some r1)
    (h2 : countAt bins (some lo) (some hi) y = some r2) : r1 ≤ r2 := by
  obtain ⟨v0, f0, tail, vl, fl, rfl, hl⟩ := shape ok
  have hf0 : 0 < f0 := ok.pos (v0, f0) (by simp)
  have hmem := getLast?_mem _ _ hl
  have hfl : 0 < fl := ok.pos (vl, fl) hmem
  have b1 := half_le_topK (v0, f0) tail ok.pos
  have b2 := topK_le_mass (v0, f0) tail ok.pos
  have b3 := mass_nonneg ok.pos
  simp only at b1
  obtain ⟨s1, hs1, c1⟩ := countAt_class v0 f0 tail vl fl lo hi x ok hleft hl hx (le_trans hxy hy)
  obtain ⟨s2, hs2, c2⟩ := countAt_class v0 f0 tail vl fl lo hi y ok hleft hl (le_trans hx hxy) hy
  rw [h1] at hs1; rw [h2] at hs2
  simp only [Option.some.injEq] at hs1 hs2
  subst hs1; subst hs2
  rcases c1 with ⟨e1, q1⟩ | ⟨a1, e1, q1⟩ | ⟨a1, b1', c1', q1, w1, l1, u1⟩ | ⟨a1, b1', c1', d1, q1, l1, u1⟩ | ⟨a1, b1', c1', d1, q1, l1, u1⟩ <;>
  rcases c2 with ⟨e2, q2⟩ | ⟨a2, e2, q2⟩ | ⟨a2, b2', c2', q2, w2, l2, u2⟩ | ⟨a2, b2', c2', d2, q2, l2, u2⟩ | ⟨a2, b2', c2', d2, q2, l2, u2⟩ <;>
  first
    | linarith
    | (rw [q1, q2]; exact left_mono a1 hxy c2' w1)
    | (rw [q1, q2]; exact right_mono d1 hxy b2' hfl)
    | exact interior_mono (v0, f0) tail x y r1 r2 ok.inc ok.pos c1' hxy ⟨(vl, fl), hmem, le_of_lt d2⟩ q1 q2

/-- Outside the left tail nothing is assumed: for `v0 < x ≤ y` the estimate is non-decreasing and
within `[0, total]` for every histogram satisfying C13's invariants. -/
theorem countAt_right_of_first_centre (ok : HistOK bins lo hi) {v0 f0 x y r1 r2 : K}
    (hh : bins.head? = some (v0, f0)) (hx : v0 < x) (hxy : x ≤ y) (hy : y ≤ hi)
    (h1 : countAt bins (some lo) (some hi) x = some r1)
    (h2 : countAt bins (some lo) (some hi) y = some r2) : r1 ≤ r2 ∧ 0 ≤ r1 ∧ r2 ≤ mass bins := by
  obtain ⟨v0', f0', tail, vl, fl, rfl, hl⟩ := shape ok
  simp only [List.head?_cons, Option.some.injEq, Prod.mk.injEq] at hh
  obtain ⟨rfl, rfl⟩ := hh
  have hlo0 : lo ≤ v0' := (ok.within (v0', f0') (by simp)).1
  have hf0 : 0 < f0' := ok.pos (v0', f0') (by simp)
  have hmem := getLast?_mem _ _ hl
  have hfl : 0 < fl := ok.pos (vl, fl) hmem
  have b1 := half_le_topK (v0', f0') tail ok.pos
  have b2 := topK_le_mass (v0', f0') tail ok.pos
  simp only at b1
  -- the same histogram with its minimum moved onto the first centre has an empty left tail and
  -- answers identically right of the first centre
  have key : ∀ z, v0' < z → z ≤ hi → ∀ r, countAt ((v0', f0') :: tail) (some lo) (some hi) z = some r →
      (z = hi ∧ r = mass ((v0', f0') :: tail)) ∨
      (z < hi ∧ vl ≤ z ∧ r = (1 + (z - vl) / (hi - vl)) * fl / 2 + mass ((v0', f0') :: tail).dropLast ∧
        topK ((v0', f0') :: tail) ≤ r ∧ r ≤ mass ((v0', f0') :: tail)) ∨
      (z < hi ∧ z < vl ∧ interior ((v0', f0') :: tail) z = some r ∧ f0' / 2 ≤ r ∧ r ≤ topK ((v0', f0') :: tail)) := by
    intro z hz hzhi r hr
    have hleft : LeftTailOK ((v0', f0') :: tail) v0' := fun _ _ h => by
      simp only [List.head?_cons, Option.some.injEq, Prod.mk.injEq] at h; exact Or.inl h.1
    have ok' : HistOK ((v0', f0') :: tail) v0' hi :=
      ⟨ok.inc, ok.pos, ok.ne, fun b hb => ⟨inc_head_le ok.inc b hb, (ok.within b hb).2⟩⟩
    have same : countAt ((v0', f0') :: tail) (some v0') (some hi) z = countAt ((v0', f0') :: tail) (some lo) (some hi) z := by
      have n1 : ¬ (z < v0' ∨ hi < z) := by intro h; rcases h with h | h <;> linarith
      have n2 : ¬ (z < lo ∨ hi < z) := by intro h; rcases h with h | h <;> linarith
      have n3 : z ≠ v0' := ne_of_gt hz
      have n4 : z ≠ lo := ne_of_gt (lt_of_le_of_lt hlo0 hz)
      have n5 : ¬ z ≤ v0' := not_le.mpr hz
      rw [countAt_unfold v0' f0' tail vl fl v0' hi z hl, countAt_unfold v0' f0' tail vl fl lo hi z hl]
      simp [n1, n2, n3, n4, n5]
    obtain ⟨r', hr', hc⟩ := countAt_class v0' f0' tail vl fl v0' hi z ok' hleft hl (le_of_lt hz) hzhi
    rw [same, hr] at hr'
    simp only [Option.some.injEq] at hr'
    subst hr'
    rcases hc with ⟨e, _⟩ | ⟨_, e, q⟩ | ⟨_, _, c, _⟩ | ⟨_, b, _, d, q, l, u⟩ | ⟨_, b, _, d, q, l, u⟩
    · exact absurd e (ne_of_gt hz)
    · exact Or.inl ⟨e, q⟩
    · exact absurd c (not_le.mpr hz)
    · exact Or.inr (Or.inl ⟨b, d, q, l, u⟩)
    · exact Or.inr (Or.inr ⟨b, d, q, l, u⟩)
  have b3 := mass_nonneg ok.pos
  have c1 := key x hx (le_trans hxy hy) r1 h1
  have c2 := key y (lt_of_lt_of_le hx hxy) hy r2 h2
  rcases c1 with ⟨e1, q1⟩ | ⟨a1, d1, q1, l1, u1⟩ | ⟨a1, d1, q1, l1, u1⟩ <;>
  rcases c2 with ⟨e2, q2⟩ | ⟨a2, d2, q2, l2, u2⟩ | ⟨a2, d2, q2, l2, u2⟩ <;>
  refine ⟨?_, by linarith, by linarith⟩ <;>
  first
    | linarith
    | (rw [q1, q2]; exact right_mono d1 hxy a2 hfl)
    | exact interior_mono (v0', f0') tail x y r1 r2 ok.inc ok.pos hx hxy ⟨(vl, fl), hmem, le_of_lt d2⟩ q1 q2

/-- C14-K01, counterexample 1: the estimate exceeds the total.  Bins `(1000.5,2) (1002.5,2)
(1004.5,2)`, minimum 1000: `count_at(1000.2) = 200.1` on a total of 6. -/
theorem countAt_exceeds_total :
    let bins : List (ℚ × ℚ) := [(2001 / 2, 2), (2005 / 2, 2), (2009 / 2, 2)]
    HistOK bins 1000 1005 ∧ countAt bins (some 1000) (some 1005) (5001 / 5) = some (2001 / 10) ∧
    mass bins = 6 := by
  refine ⟨⟨?_, ?_, by simp, ?_⟩, by decide +kernel, by norm_num [mass]⟩
  · simp [Inc]; norm_num
  · intro b hb; simp at hb; rcases hb with rfl | rfl | rfl <;> norm_num
  · intro b hb; simp at hb; rcases hb with rfl | rfl | rfl <;> norm_num

/-- C14-K01, counterexample 2: negative data gives a negative estimate. -/
theorem countAt_negative :
    let bins : List (ℚ × ℚ) := [(-5, 2), (-1, 2)]
    HistOK bins (-6) 0 ∧ countAt bins (some (-6)) (some 0) (-11 / 2) = some (-5 / 4) := by
  refine ⟨⟨?_, ?_, by simp, ?_⟩, by decide +kernel⟩
  · simp [Inc]
  · intro b hb; simp at hb; rcases hb with rfl | rfl <;> norm_num
  · intro b hb; simp at hb; rcases hb with rfl | rfl <;> norm_num

/-- C14-K01, counterexample 3: the estimate decreases — a downward jump at the first centre. -/
theorem countAt_decreases :
    let bins : List (ℚ × ℚ) := [(2001 / 2, 2), (2005 / 2, 2), (2009 / 2, 2)]
    countAt bins (some 1000) (some 1005) (2001 / 2) = some (2001 / 4) ∧
    countAt bins (some 1000) (some 1005) 1001 = some (3 / 2) := by
  decide +kernel

/-- **`quantile` is None outside `[0, 1]`** (and on an empty histogram). -/
theorem quantile_outside (floor : K → K) (mn mx : Option K) (value : K) :
    quantile floor ([] : List (K × K)) mn mx value = none ∧
    (value < 0 ∨ 1 < value → quantile floor bins mn mx value = none) := by
  refine ⟨by simp [quantile], ?_⟩
  intro h
  unfold quantile
  split
  · rfl
  · rw [if_pos]
    simp only [Gen.DistogramExpr.quantInRange, decide_eq_true_eq]
    intro ⟨h0, h1⟩
    rcases h with h | h <;> linarith

/-- **`quantile(0)` is the minimum.** -/
theorem quantile_0 (floor : K → K) (ok : HistOK bins lo hi) (hf : FloorLike floor (mass bins)) :
    quantile floor bins (some lo) (some hi) 0 = some lo := by
  rw [quantile_eq floor ok (le_refl _) zero_le_one, mul_zero, hf.zero]
  obtain ⟨v0, f0, tail, vl, fl, rfl, hl⟩ := shape ok
  have hf0 : 0 < f0 := ok.pos (v0, f0) (by simp)
  rw [quantileQ_unfold v0 f0 tail vl fl lo hi 0 hl, if_pos (by positivity)]
  simp

/-- **`quantile(1)` is the maximum** (exactly, in exact arithmetic). -/
theorem quantile_1 (floor : K → K) (ok : HistOK bins lo hi) (hf : FloorLike floor (mass bins)) :
    quantile floor bins (some lo) (some hi) 1 = some hi := by
  rw [quantile_eq floor ok zero_le_one (le_refl _), mul_one, hf.top]
  obtain ⟨v0, f0, tail, vl, fl, rfl, hl⟩ := shape ok
  have hf0 : 0 < f0 := ok.pos (v0, f0) (by simp)
  have hfl : 0 < fl := ok.pos (vl, fl) (getLast?_mem _ _ hl)
  have hm : f0 ≤ mass ((v0, f0) :: tail) := by
    have := mass_nonneg (l := tail) (fun b hb => ok.pos b (by simp [hb]))
    simp only [mass, List.map_cons, List.sum_cons] at this ⊢
    linarith
  rw [quantileQ_unfold v0 f0 tail vl fl lo hi _ hl, if_neg (by intro h; linarith), if_pos (by linarith)]
  have : fl / 2 ≠ 0 := by positivity
  congr 1
  field_simp
  ring

/-- **`quantile` lies between the minimum and the maximum** on `[0, 1]` (and is defined there). -/
theorem quantile_bounds (floor : K → K) (ok : HistOK bins lo hi) (hf : FloorLike floor (mass bins))
    (hfl0 : ∀ a, 0 ≤ a → 0 ≤ floor a) {value : K} (h0 : 0 ≤ value) (h1 : value ≤ 1) :
    ∃ r, quantile floor bins (some lo) (some hi) value = some r ∧ lo ≤ r ∧ r ≤ hi := by
  rw [quantile_eq floor ok h0 h1]
  have hm := mass_nonneg ok.pos
  have hq0 : 0 ≤ floor (mass bins * value) := hfl0 _ (mul_nonneg hm h0)
  have hq1 : floor (mass bins * value) ≤ mass bins :=
    le_trans (hf.le _) (by nlinarith)
  obtain ⟨v0, f0, tail, vl, fl, rfl, hl⟩ := shape ok
  have hlo0 : lo ≤ v0 := (ok.within (v0, f0) (by simp)).1
  have hlhi : vl ≤ hi := (ok.within (vl, fl) (getLast?_mem _ _ hl)).2
  have h0l : v0 ≤ vl := inc_le_last _ (vl, fl) ok.inc hl (v0, f0) (by simp)
  obtain ⟨r, hr, hc⟩ := quantileQ_class v0 f0 tail vl fl lo hi _ ok hl hq0 hq1
  refine ⟨r, hr, ?_⟩
  rcases hc with ⟨_, _, l, u⟩ | ⟨_, _, _, l, u⟩ | ⟨_, _, _, l, u⟩ <;> constructor <;> linarith

/-- **`quantile` is non-decreasing in its argument** on `[0, 1]`. -/
theorem quantile_mono (floor : K → K) (ok : HistOK bins lo hi) (hf : FloorLike floor (mass bins))
    (hfl0 : ∀ a, 0 ≤ a → 0 ≤ floor a) {p1 p2 r1 r2 : K} (h0 : 0 ≤ p1) (h12 : p1 ≤ p2) (h1 : p2 ≤ 1)
    (e1 : quantile floor bins (some lo) (some hi) p1 = some r1)
    (e2 : quantile floor bins (some lo) (some hi) p2 = some r2) : r1 ≤ r2 := by
  rw [quantile_eq floor ok h0 (le_trans h12 h1)] at e1
  rw [quantile_eq floor ok (le_trans h0 h12) h1] at e2
  have hm := mass_nonneg ok.pos
  have hq12 : floor (mass bins * p1) ≤ floor (mass bins * p2) :=
    hf.mono _ _ (mul_le_mul_of_nonneg_left h12 hm)
  have hq0 : 0 ≤ floor (mass bins * p1) := hfl0 _ (mul_nonneg hm h0)
  have hq1 : floor (mass bins * p2) ≤ mass bins := le_trans (hf.le _) (by nlinarith)
  generalize floor (mass bins * p1) = q1 at *
  generalize floor (mass bins * p2) = q2 at *
  obtain ⟨v0, f0, tail, vl, fl, rfl, hl⟩ := shape ok
  have hf0 : 0 < f0 := ok.pos (v0, f0) (by simp)
  have hfl : 0 < fl := ok.pos (vl, fl) (getLast?_mem _ _ hl)
  have hlo0 : lo ≤ v0 := (ok.within (v0, f0) (by simp)).1
  have hlhi : vl ≤ hi := (ok.within (vl, fl) (getLast?_mem _ _ hl)).2
  have h0l : v0 ≤ vl := inc_le_last _ (vl, fl) ok.inc hl (v0, f0) (by simp)
  obtain ⟨s1, hs1, c1⟩ := quantileQ_class v0 f0 tail vl fl lo hi q1 ok hl hq0 (le_trans hq12 hq1)
  obtain ⟨s2, hs2, c2⟩ := quantileQ_class v0 f0 tail vl fl lo hi q2 ok hl (le_trans hq0 hq12) hq1
  rw [e1] at hs1; rw [e2] at hs2
  simp only [Option.some.injEq] at hs1 hs2
  subst hs1; subst hs2
  have hh0 : 0 < f0 / 2 := by positivity
  have hhl : 0 < fl / 2 := by positivity
  rcases c1 with ⟨a1, q1', l1, u1⟩ | ⟨a1, b1, q1', l1, u1⟩ | ⟨a1, b1, q1', l1, u1⟩ <;>
  rcases c2 with ⟨a2, q2', l2, u2⟩ | ⟨a2, b2, q2', l2, u2⟩ | ⟨a2, b2, q2', l2, u2⟩ <;>
  first
    | linarith
    | (rw [q1', q2']
       have := mul_le_mul_of_nonneg_right (div_le_div_of_nonneg_right hq12 (le_of_lt hh0)) (by linarith : (0 : K) ≤ v0 - lo)
       linarith)
    | (rw [q1', q2']
       have := mul_le_mul_of_nonneg_right
         (div_le_div_of_nonneg_right (by linarith : q1 - (mass ((v0, f0) :: tail) - fl / 2) ≤ q2 - (mass ((v0, f0) :: tail) - fl / 2)) (le_of_lt hhl))
         (by linarith : (0 : K) ≤ hi - vl)
       linarith)
    | exact scanQ_mono (v0, f0) tail 0 _ _ r1 r2 ok.inc ok.pos (by linarith) (by linarith) q1' q2'

/-- **A profile's estimates below and above a point add up to the number of non-null values**
(`count - missing`, the expression of `estimate_values_above` as it is in the source) whenever the
estimate exists. -/
theorem below_add_above (count missing : K) (mn mx : Option K) (p b : K)
    (h : estimateBelow bins mn mx p = some b) :
    ∃ a, estimateAbove count missing bins mn mx p = some a ∧ b + a = count - missing := by
  unfold estimateBelow at h
  unfold estimateAbove
  rw [h]
  exact ⟨count - missing - b, rfl, by ring⟩

/-- **The profile's estimates inherit the bounds**: a column profile's histogram holds numpy's
left edges, so its first centre *is* the minimum (`hhead`) and its counts add up to the non-null
values (`hm`); then inside the observed range both estimates exist, lie in `[0, count - missing]`
and add up to it — at full strength, the open finding C14-K01 does not reach profiles. -/
theorem profile_estimates_bounded (ok : HistOK bins lo hi) (count missing : K)
    (hm : mass bins = count - missing)
    (hhead : ∀ v0 f0, bins.head? = some (v0, f0) → lo = v0) {p : K} (h0 : lo ≤ p) (h1 : p ≤ hi) :
    ∃ b a, estimateBelow bins (some lo) (some hi) p = some b ∧
      estimateAbove count missing bins (some lo) (some hi) p = some a ∧
      0 ≤ b ∧ b ≤ count - missing ∧ 0 ≤ a ∧ a ≤ count - missing ∧ b + a = count - missing := by
  obtain ⟨r, hr, hr0, hr1⟩ := countAt_bounds_partial ok (fun v0 f0 h => Or.inl (hhead v0 f0 h)) h0 h1
  refine ⟨r, count - missing - r, hr, by unfold estimateAbove; rw [hr]; rfl, hr0, by rw [← hm]; exact hr1, ?_, ?_, by ring⟩
  · rw [← hm]; linarith
  · linarith

/-- **A profile's estimate below a point is non-decreasing in the point** (same hypotheses). -/
theorem profile_below_mono (ok : HistOK bins lo hi)
    (hhead : ∀ v0 f0, bins.head? = some (v0, f0) → lo = v0) {p q b1 b2 : K}
    (h0 : lo ≤ p) (hpq : p ≤ q) (h1 : q ≤ hi)
    (e1 : estimateBelow bins (some lo) (some hi) p = some b1)
    (e2 : estimateBelow bins (some lo) (some hi) q = some b2) : b1 ≤ b2 :=
  countAt_mono_partial ok (fun v0 f0 h => Or.inl (hhead v0 f0 h)) h0 hpq h1 e1 e2

/-- The C13 invariants give `HistOK`: every state reached by a history of the reference machine
with at least one bin satisfies the hypothesis of the theorems above. -/
theorem built_histOK {s : RState K} {L : List (K × K)} {B : List K} (h : Built s L B) (hne : s.bins ≠ []) :
    ∃ lo hi, s.min = some lo ∧ s.max = some hi ∧ HistOK s.bins lo hi := by
  have hi := (built_facts h).1
  cases hm : s.min with
  | none => exact absurd (hi.minNone hm) hne
  | some m =>
    cases hM : s.max with
    | none => exact absurd (hi.maxNone hM) hne
    | some M => exact ⟨m, M, rfl, rfl, hi.inc, hi.pos, hne, hi.within m M hm hM⟩

/-- Non-vacuity: a concrete histogram satisfies the hypotheses, and the estimators take the
expected values on it (left tail, a centre, interior, right tail; quantiles at 0, 1/2, 1). -/
example :
    let bins : List (ℚ × ℚ) := [(2, 2), (5, 4), (9, 2)]
    HistOK bins 1 10 ∧
    countAt bins (some 1) (some 10) 1 = some 0 ∧ countAt bins (some 1) (some 10) (3 / 2) = some (1 / 2) ∧
    countAt bins (some 1) (some 10) 2 = some 1 ∧ countAt bins (some 1) (some 10) 5 = some 4 ∧
    countAt bins (some 1) (some 10) 10 = some 8 ∧ countAt bins (some 1) (some 10) 11 = none ∧
    quantile (fun x => (x.floor : ℚ)) bins (some 1) (some 10) 0 = some 1 ∧
    quantile (fun x => (x.floor : ℚ)) bins (some 1) (some 10) (1 / 2) = some 5 ∧
    quantile (fun x => (x.floor : ℚ)) bins (some 1) (some 10) 1 = some 10 := by
  refine ⟨⟨?_, ?_, by simp, ?_⟩, ?_⟩
  · simp [Inc]; norm_num
  · intro b hb; simp at hb; rcases hb with rfl | rfl | rfl <;> norm_num
  · intro b hb; simp at hb; rcases hb with rfl | rfl | rfl <;> norm_num
  · decide +kernel

end C14
