import OrsoVerif.Lemmas.EstimatorsTop
import OrsoVerif.Lemmas.DistogramState
import OrsoVerif.Lemmas.ProfileEst
import OrsoVerif.Lemmas.HistObj
import OrsoVerif.Lemmas.TableProf
import OrsoVerif.Lemmas.ProfileHist
import OrsoVerif.Model.PyNum
import Mathlib.Algebra.Order.Ring.Rat
import Mathlib.Algebra.Field.Rat
import Mathlib.Data.Rat.Floor
/-!
# C14 — Histogram estimators are monotone, bounded and exact at the ends

Property theorems only, about `countAt`, `quantile`, `estimateBelow/Above` of
`Model/Estimators.lean` over an arbitrary linear ordered field, for **every** histogram that
satisfies C13's invariants (`Distogram.HistOK`: centres strictly increasing, counts positive,
non-empty, every centre within `[lo, hi]` — what `C13.bins_strictly_increasing`,
`C13.counts_positive`, `C13.centres_within_bounds` establish for every history) and every query
point.  Python's `int(total * value)` enters as a parameter `floor` with the properties of a floor
on non-negative numbers (`FloorLike`).
-/
namespace C14
open Distogram
set_option linter.unusedSectionVars false

variable {K : Type} [Field K] [LinearOrder K] [IsStrictOrderedRing K]
variable {bins : List (K × K)} {lo hi : K}

/-- What the theorems need of Python's `int()` applied to `total_count * value ≥ 0`. -/
structure FloorLike (floor : K → K) (total : K) : Prop where
  mono : ∀ a b, a ≤ b → floor a ≤ floor b
  zero : floor 0 = 0
  top : floor total = total
  le : ∀ a, floor a ≤ a

/-- **`count_at` is None outside the observed range** (and on an empty histogram). -/
theorem countAt_outside (mn mx : Option K) (x : K) :
    countAt ([] : List (K × K)) mn mx x = none ∧
    (x < lo ∨ hi < x → countAt bins (some lo) (some hi) x = none) := by
  refine ⟨by simp [countAt], ?_⟩
  intro h
  unfold countAt
  split
  · rename_i v0 f0 vl fl lo' hi' _ _ h3 h4
    simp only [Option.some.injEq] at h3 h4
    subst h3; subst h4
    rw [if_pos]
    simpa [Gen.DistogramExpr.countOutside] using h
  · rfl

/-- **`count_at` is 0 at the minimum.** -/
theorem countAt_min (ok : HistOK bins lo hi) : countAt bins (some lo) (some hi) lo = some 0 := by
  obtain ⟨v0, f0, tail, vl, fl, rfl, hl⟩ := shape ok
  have hle : lo ≤ hi := le_trans (ok.within (v0, f0) (by simp)).1 (ok.within (v0, f0) (by simp)).2
  rw [countAt_unfold v0 f0 tail vl fl lo hi lo hl, if_neg (by intro h; rcases h with h | h <;> linarith), if_pos rfl]

/-- **`count_at` is the total at the maximum** (when the histogram holds more than one value;
for `lo = hi` the code answers 0, the "minimum" clause). -/
theorem countAt_max (ok : HistOK bins lo hi) (h : lo < hi) :
    countAt bins (some lo) (some hi) hi = some (mass bins) := by
  obtain ⟨v0, f0, tail, vl, fl, rfl, hl⟩ := shape ok
  rw [countAt_unfold v0 f0 tail vl fl lo hi hi hl, if_neg (by intro h; rcases h with h | h <;> linarith),
    if_neg (by intro h'; rw [h'] at h; exact lt_irrefl _ h), if_pos rfl]

/-- **`count_at` lies between 0 and the total** — PARTIAL.
Full statement (the property): `HistOK bins lo hi → lo ≤ x → x ≤ hi → ∃ r, countAt … x = some r ∧
0 ≤ r ∧ r ≤ mass bins`.  It is *false* of the code as it exists (open finding C14-K01: the left
tail is `ratio * v0 / 2`, the first bin's value instead of its count) — see
`countAt_exceeds_total` and `countAt_negative`.  Proved here under `LeftTailOK` (the first centre
is the minimum, so the left tail is empty, or `0 ≤ v0 ≤ f0`); the other branches need nothing. -/
theorem countAt_bounds_partial (ok : HistOK bins lo hi) (hleft : LeftTailOK bins lo) {x : K}
    (hx : lo ≤ x) (hx' : x ≤ hi) :
    ∃ r, countAt bins (some lo) (some hi) x = some r ∧ 0 ≤ r ∧ r ≤ mass bins := by
  obtain ⟨v0, f0, tail, vl, fl, rfl, hl⟩ := shape ok
  have hf0 : 0 < f0 := ok.pos (v0, f0) (by simp)
  have b1 := half_le_topK (v0, f0) tail ok.pos
  have b2 := topK_le_mass (v0, f0) tail ok.pos
  have b3 := mass_nonneg ok.pos
  obtain ⟨r, hr, hc⟩ := countAt_class v0 f0 tail vl fl lo hi x ok hleft hl hx hx'
  refine ⟨r, hr, ?_⟩
  simp only at b1
  rcases hc with ⟨_, q⟩ | ⟨_, _, q⟩ | ⟨_, _, _, _, _, l, u⟩ | ⟨_, _, _, _, _, l, u⟩ | ⟨_, _, _, _, _, l, u⟩ <;>
    constructor <;> linarith

/-- **`count_at` is non-decreasing in its argument** — PARTIAL.
Full statement (the property): `HistOK bins lo hi → lo ≤ x → x ≤ y → y ≤ hi → countAt … x = some r1
→ countAt … y = some r2 → r1 ≤ r2`.  False of the code as it exists (C14-K01), see
`countAt_decreases`.  Proved under `LeftTailOK`: within each of the three branches, at the joins
of the interior segments and across the branches. -/
theorem countAt_mono_partial (ok : HistOK bins lo hi) (hleft : LeftTailOK bins lo) {x y r1 r2 : K}
    (hx : lo ≤ x) (hxy : x ≤ y) (hy : y ≤ hi)
    (h1 : countAt bins (some lo) (some hi) x = some r1)
    (h2 : countAt bins (some lo) (some hi) y = some r2) : r1 ≤ r2 := by
  obtain ⟨v0, f0, tail, vl, fl, rfl, hl⟩ := shape ok
  have hf0 : 0 < f0 := ok.pos (v0, f0) (by simp)
  have hmem := getLast?_mem _ _ hl
  have hfl : 0 < fl := ok.pos (vl, fl) hmem
  have b1 := half_le_topK (v0, f0) tail ok.pos
  have b2 := topK_le_mass (v0, f0) tail ok.pos
  have b3 := mass_nonneg ok.pos
  simp only at b1
  obtain ⟨s1, hs1, c1⟩ := countAt_class v0 f0 tail vl fl lo hi x ok hleft hl hx (le_trans hxy hy)
  obtain ⟨s2, hs2, c2⟩ := countAt_class v0 f0 tail vl fl lo hi y ok hleft hl (le_trans hx hxy) hy
  rw [h1] at hs1; rw [h2] at hs2
  simp only [Option.some.injEq] at hs1 hs2
  subst hs1; subst hs2
  rcases c1 with ⟨e1, q1⟩ | ⟨a1, e1, q1⟩ | ⟨a1, b1', c1', q1, w1, l1, u1⟩ | ⟨a1, b1', c1', d1, q1, l1, u1⟩ | ⟨a1, b1', c1', d1, q1, l1, u1⟩ <;>
  rcases c2 with ⟨e2, q2⟩ | ⟨a2, e2, q2⟩ | ⟨a2, b2', c2', q2, w2, l2, u2⟩ | ⟨a2, b2', c2', d2, q2, l2, u2⟩ | ⟨a2, b2', c2', d2, q2, l2, u2⟩ <;>
  first
    | linarith
    | (rw [q1, q2]; exact left_mono a1 hxy c2' w1)
    | (rw [q1, q2]; exact right_mono d1 hxy b2' hfl)
    | exact interior_mono (v0, f0) tail x y r1 r2 ok.inc ok.pos c1' hxy ⟨(vl, fl), hmem, le_of_lt d2⟩ q1 q2

/-- Outside the left tail nothing is assumed: for `v0 < x ≤ y` the estimate is non-decreasing and
within `[0, total]` for every histogram satisfying C13's invariants. -/
theorem countAt_right_of_first_centre (ok : HistOK bins lo hi) {v0 f0 x y r1 r2 : K}
    (hh : bins.head? = some (v0, f0)) (hx : v0 < x) (hxy : x ≤ y) (hy : y ≤ hi)
    (h1 : countAt bins (some lo) (some hi) x = some r1)
    (h2 : countAt bins (some lo) (some hi) y = some r2) : r1 ≤ r2 ∧ 0 ≤ r1 ∧ r2 ≤ mass bins := by
  obtain ⟨v0', f0', tail, vl, fl, rfl, hl⟩ := shape ok
  simp only [List.head?_cons, Option.some.injEq, Prod.mk.injEq] at hh
  obtain ⟨rfl, rfl⟩ := hh
  have hlo0 : lo ≤ v0' := (ok.within (v0', f0') (by simp)).1
  have hf0 : 0 < f0' := ok.pos (v0', f0') (by simp)
  have hmem := getLast?_mem _ _ hl
  have hfl : 0 < fl := ok.pos (vl, fl) hmem
  have b1 := half_le_topK (v0', f0') tail ok.pos
  have b2 := topK_le_mass (v0', f0') tail ok.pos
  simp only at b1
  -- the same histogram with its minimum moved onto the first centre has an empty left tail and
  -- answers identically right of the first centre
  have key : ∀ z, v0' < z → z ≤ hi → ∀ r, countAt ((v0', f0') :: tail) (some lo) (some hi) z = some r →
      (z = hi ∧ r = mass ((v0', f0') :: tail)) ∨
      (z < hi ∧ vl ≤ z ∧ r = (1 + (z - vl) / (hi - vl)) * fl / 2 + mass ((v0', f0') :: tail).dropLast ∧
        topK ((v0', f0') :: tail) ≤ r ∧ r ≤ mass ((v0', f0') :: tail)) ∨
      (z < hi ∧ z < vl ∧ interior ((v0', f0') :: tail) z = some r ∧ f0' / 2 ≤ r ∧ r ≤ topK ((v0', f0') :: tail)) := by
    intro z hz hzhi r hr
    have hleft : LeftTailOK ((v0', f0') :: tail) v0' := fun _ _ h => by
      simp only [List.head?_cons, Option.some.injEq, Prod.mk.injEq] at h; exact Or.inl h.1
    have ok' : HistOK ((v0', f0') :: tail) v0' hi :=
      ⟨ok.inc, ok.pos, ok.ne, fun b hb => ⟨inc_head_le ok.inc b hb, (ok.within b hb).2⟩⟩
    have same : countAt ((v0', f0') :: tail) (some v0') (some hi) z = countAt ((v0', f0') :: tail) (some lo) (some hi) z := by
      have n1 : ¬ (z < v0' ∨ hi < z) := by intro h; rcases h with h | h <;> linarith
      have n2 : ¬ (z < lo ∨ hi < z) := by intro h; rcases h with h | h <;> linarith
      have n3 : z ≠ v0' := ne_of_gt hz
      have n4 : z ≠ lo := ne_of_gt (lt_of_le_of_lt hlo0 hz)
      have n5 : ¬ z ≤ v0' := not_le.mpr hz
      rw [countAt_unfold v0' f0' tail vl fl v0' hi z hl, countAt_unfold v0' f0' tail vl fl lo hi z hl]
      simp [n1, n2, n3, n4, n5]
    obtain ⟨r', hr', hc⟩ := countAt_class v0' f0' tail vl fl v0' hi z ok' hleft hl (le_of_lt hz) hzhi
    rw [same, hr] at hr'
    simp only [Option.some.injEq] at hr'
    subst hr'
    rcases hc with ⟨e, _⟩ | ⟨_, e, q⟩ | ⟨_, _, c, _⟩ | ⟨_, b, _, d, q, l, u⟩ | ⟨_, b, _, d, q, l, u⟩
    · exact absurd e (ne_of_gt hz)
    · exact Or.inl ⟨e, q⟩
    · exact absurd c (not_le.mpr hz)
    · exact Or.inr (Or.inl ⟨b, d, q, l, u⟩)
    · exact Or.inr (Or.inr ⟨b, d, q, l, u⟩)
  have b3 := mass_nonneg ok.pos
  have c1 := key x hx (le_trans hxy hy) r1 h1
  have c2 := key y (lt_of_lt_of_le hx hxy) hy r2 h2
  rcases c1 with ⟨e1, q1⟩ | ⟨a1, d1, q1, l1, u1⟩ | ⟨a1, d1, q1, l1, u1⟩ <;>
  rcases c2 with ⟨e2, q2⟩ | ⟨a2, d2, q2, l2, u2⟩ | ⟨a2, d2, q2, l2, u2⟩ <;>
  refine ⟨?_, by linarith, by linarith⟩ <;>
  first
    | linarith
    | (rw [q1, q2]; exact right_mono d1 hxy a2 hfl)
    | exact interior_mono (v0', f0') tail x y r1 r2 ok.inc ok.pos hx hxy ⟨(vl, fl), hmem, le_of_lt d2⟩ q1 q2

/-- C14-K01, counterexample 1: the estimate exceeds the total.  Bins `(1000.5,2) (1002.5,2)
(1004.5,2)`, minimum 1000: `count_at(1000.2) = 200.1` on a total of 6. -/
theorem countAt_exceeds_total :
    let bins : List (ℚ × ℚ) := [(2001 / 2, 2), (2005 / 2, 2), (2009 / 2, 2)]
    HistOK bins 1000 1005 ∧ countAt bins (some 1000) (some 1005) (5001 / 5) = some (2001 / 10) ∧
    mass bins = 6 := by
  refine ⟨⟨?_, ?_, by simp, ?_⟩, by decide +kernel, by norm_num [mass]⟩
  · simp [Inc]; norm_num
  · intro b hb; simp at hb; rcases hb with rfl | rfl | rfl <;> norm_num
  · intro b hb; simp at hb; rcases hb with rfl | rfl | rfl <;> norm_num

/-- C14-K01, counterexample 2: negative data gives a negative estimate. -/
theorem countAt_negative :
    let bins : List (ℚ × ℚ) := [(-5, 2), (-1, 2)]
    HistOK bins (-6) 0 ∧ countAt bins (some (-6)) (some 0) (-11 / 2) = some (-5 / 4) := by
  refine ⟨⟨?_, ?_, by simp, ?_⟩, by decide +kernel⟩
  · simp [Inc]
  · intro b hb; simp at hb; rcases hb with rfl | rfl <;> norm_num
  · intro b hb; simp at hb; rcases hb with rfl | rfl <;> norm_num

/-- C14-K01, counterexample 3: the estimate decreases — a downward jump at the first centre. -/
theorem countAt_decreases :
    let bins : List (ℚ × ℚ) := [(2001 / 2, 2), (2005 / 2, 2), (2009 / 2, 2)]
    countAt bins (some 1000) (some 1005) (2001 / 2) = some (2001 / 4) ∧
    countAt bins (some 1000) (some 1005) 1001 = some (3 / 2) := by
  decide +kernel

/-- **`quantile` is None outside `[0, 1]`** (and on an empty histogram). -/
theorem quantile_outside (floor : K → K) (mn mx : Option K) (value : K) :
    quantile floor ([] : List (K × K)) mn mx value = none ∧
    (value < 0 ∨ 1 < value → quantile floor bins mn mx value = none) := by
  refine ⟨by simp [quantile], ?_⟩
  intro h
  unfold quantile
  split
  · rfl
  · rw [if_pos]
    -- whichever way the source spells the guard (`not (0 <= v <= 1)`, `v < 0 or v > 1`): on an ordered field the same test
    intro hq
    simp only [Gen.DistogramExpr.quantInRange, decide_eq_true_eq, not_or, not_lt, gt_iff_lt] at hq
    rcases h with h | h <;> linarith [hq.1, hq.2]

/-- **`quantile(0)` is the minimum.** -/
theorem quantile_0 (floor : K → K) (ok : HistOK bins lo hi) (hf : FloorLike floor (mass bins)) :
    quantile floor bins (some lo) (some hi) 0 = some lo := by
  rw [quantile_eq floor ok (le_refl _) zero_le_one, mul_zero, hf.zero]
  obtain ⟨v0, f0, tail, vl, fl, rfl, hl⟩ := shape ok
  have hf0 : 0 < f0 := ok.pos (v0, f0) (by simp)
  rw [quantileQ_unfold v0 f0 tail vl fl lo hi 0 hl, if_pos (by positivity)]
  simp

/-- **`quantile(1)` is the maximum** (exactly, in exact arithmetic). -/
theorem quantile_1 (floor : K → K) (ok : HistOK bins lo hi) (hf : FloorLike floor (mass bins)) :
    quantile floor bins (some lo) (some hi) 1 = some hi := by
  rw [quantile_eq floor ok zero_le_one (le_refl _), mul_one, hf.top]
  obtain ⟨v0, f0, tail, vl, fl, rfl, hl⟩ := shape ok
  have hf0 : 0 < f0 := ok.pos (v0, f0) (by simp)
  have hfl : 0 < fl := ok.pos (vl, fl) (getLast?_mem _ _ hl)
  have hm : f0 ≤ mass ((v0, f0) :: tail) := by
    have := mass_nonneg (l := tail) (fun b hb => ok.pos b (by simp [hb]))
    simp only [mass, List.map_cons, List.sum_cons] at this ⊢
    linarith
  rw [quantileQ_unfold v0 f0 tail vl fl lo hi _ hl, if_neg (by intro h; linarith), if_pos (by linarith)]
  have : fl / 2 ≠ 0 := by positivity
  congr 1
  field_simp
  ring

/-- **`quantile` lies between the minimum and the maximum** on `[0, 1]` (and is defined there). -/
theorem quantile_bounds (floor : K → K) (ok : HistOK bins lo hi) (hf : FloorLike floor (mass bins))
    (hfl0 : ∀ a, 0 ≤ a → 0 ≤ floor a) {value : K} (h0 : 0 ≤ value) (h1 : value ≤ 1) :
    ∃ r, quantile floor bins (some lo) (some hi) value = some r ∧ lo ≤ r ∧ r ≤ hi := by
  rw [quantile_eq floor ok h0 h1]
  have hm := mass_nonneg ok.pos
  have hq0 : 0 ≤ floor (mass bins * value) := hfl0 _ (mul_nonneg hm h0)
  have hq1 : floor (mass bins * value) ≤ mass bins :=
    le_trans (hf.le _) (by nlinarith)
  obtain ⟨v0, f0, tail, vl, fl, rfl, hl⟩ := shape ok
  have hlo0 : lo ≤ v0 := (ok.within (v0, f0) (by simp)).1
  have hlhi : vl ≤ hi := (ok.within (vl, fl) (getLast?_mem _ _ hl)).2
  have h0l : v0 ≤ vl := inc_le_last _ (vl, fl) ok.inc hl (v0, f0) (by simp)
  obtain ⟨r, hr, hc⟩ := quantileQ_class v0 f0 tail vl fl lo hi _ ok hl hq0 hq1
  refine ⟨r, hr, ?_⟩
  rcases hc with ⟨_, _, l, u⟩ | ⟨_, _, _, l, u⟩ | ⟨_, _, _, l, u⟩ <;> constructor <;> linarith

/-- **`quantile` is non-decreasing in its argument** on `[0, 1]`. -/
theorem quantile_mono (floor : K → K) (ok : HistOK bins lo hi) (hf : FloorLike floor (mass bins))
    (hfl0 : ∀ a, 0 ≤ a → 0 ≤ floor a) {p1 p2 r1 r2 : K} (h0 : 0 ≤ p1) (h12 : p1 ≤ p2) (h1 : p2 ≤ 1)
    (e1 : quantile floor bins (some lo) (some hi) p1 = some r1)
    (e2 : quantile floor bins (some lo) (some hi) p2 = some r2) : r1 ≤ r2 := by
  rw [quantile_eq floor ok h0 (le_trans h12 h1)] at e1
  rw [quantile_eq floor ok (le_trans h0 h12) h1] at e2
  have hm := mass_nonneg ok.pos
  have hq12 : floor (mass bins * p1) ≤ floor (mass bins * p2) :=
    hf.mono _ _ (mul_le_mul_of_nonneg_left h12 hm)
  have hq0 : 0 ≤ floor (mass bins * p1) := hfl0 _ (mul_nonneg hm h0)
  have hq1 : floor (mass bins * p2) ≤ mass bins := le_trans (hf.le _) (by nlinarith)
  generalize floor (mass bins * p1) = q1 at *
  generalize floor (mass bins * p2) = q2 at *
  obtain ⟨v0, f0, tail, vl, fl, rfl, hl⟩ := shape ok
  have hf0 : 0 < f0 := ok.pos (v0, f0) (by simp)
  have hfl : 0 < fl := ok.pos (vl, fl) (getLast?_mem _ _ hl)
  have hlo0 : lo ≤ v0 := (ok.within (v0, f0) (by simp)).1
  have hlhi : vl ≤ hi := (ok.within (vl, fl) (getLast?_mem _ _ hl)).2
  have h0l : v0 ≤ vl := inc_le_last _ (vl, fl) ok.inc hl (v0, f0) (by simp)
  obtain ⟨s1, hs1, c1⟩ := quantileQ_class v0 f0 tail vl fl lo hi q1 ok hl hq0 (le_trans hq12 hq1)
  obtain ⟨s2, hs2, c2⟩ := quantileQ_class v0 f0 tail vl fl lo hi q2 ok hl (le_trans hq0 hq12) hq1
  rw [e1] at hs1; rw [e2] at hs2
  simp only [Option.some.injEq] at hs1 hs2
  subst hs1; subst hs2
  have hh0 : 0 < f0 / 2 := by positivity
  have hhl : 0 < fl / 2 := by positivity
  rcases c1 with ⟨a1, q1', l1, u1⟩ | ⟨a1, b1, q1', l1, u1⟩ | ⟨a1, b1, q1', l1, u1⟩ <;>
  rcases c2 with ⟨a2, q2', l2, u2⟩ | ⟨a2, b2, q2', l2, u2⟩ | ⟨a2, b2, q2', l2, u2⟩ <;>
  first
    | linarith
    | (rw [q1', q2']
       have := mul_le_mul_of_nonneg_right (div_le_div_of_nonneg_right hq12 (le_of_lt hh0)) (by linarith : (0 : K) ≤ v0 - lo)
       linarith)
    | (rw [q1', q2']
       have := mul_le_mul_of_nonneg_right
         (div_le_div_of_nonneg_right (by linarith : q1 - (mass ((v0, f0) :: tail) - fl / 2) ≤ q2 - (mass ((v0, f0) :: tail) - fl / 2)) (le_of_lt hhl))
         (by linarith : (0 : K) ≤ hi - vl)
       linarith)
    | exact scanQ_mono (v0, f0) tail 0 _ _ r1 r2 ok.inc ok.pos (by linarith) (by linarith) q1' q2'

set_option linter.unusedVariables false in
/-- **`estimate_values_below` hands back `count_at`'s answer unchanged** (`Gen.ProfileEst.estimateBelowExpr`, the return
expression of the method regenerated from the source on every run): so every clause proved of `countAt` — the ends, `None`
outside the range, the bounds, monotonicity — is a clause of the profile's estimate. -/
theorem estimate_below_is_count_at (mn mx : Option K) (p : K) :
    estimateBelow bins mn mx p = countAt bins mn mx p := by
  unfold estimateBelow
  cases countAt bins mn mx p <;> simp [Gen.ProfileEst.estimateBelowExpr]

set_option linter.unusedSimpArgs false in
/-- **A profile's estimates below and above a point add up to the number of non-null values**
(`count - missing`) whenever the estimate exists, for every profile whose histogram counts add up to
the non-null values (`hm`; `C14.reachable_profile_ok` shows this of every profile reachable by
building, estimating and adding).  `estimate_values_above` is the expression the source has now,
over `count`, `missing`, the histogram's own total and `count_at(point)`: the statement holds
whichever of the two totals the source subtracts from. -/
theorem below_add_above (count missing : K) (mn mx : Option K) (p b : K)
    (hm : mass bins = count - missing)
    (h : estimateBelow bins mn mx p = some b) :
    ∃ a, estimateAbove count missing bins mn mx p = some a ∧ b + a = count - missing := by
  rw [estimate_below_is_count_at] at h
  unfold estimateAbove
  rw [h]
  refine ⟨_, rfl, ?_⟩
  simp only [Gen.DistogramExpr.estimateAbove, sumCounts_eq_mass]
  linarith

/-- **The profile's estimates inherit the bounds**: a column profile's histogram holds numpy's
left edges, so its first centre *is* the minimum (`hhead`) and its counts add up to the non-null
values (`hm`); then inside the observed range both estimates exist, lie in `[0, count - missing]`
and add up to it — at full strength, the open finding C14-K01 does not reach profiles. -/
theorem profile_estimates_bounded (ok : HistOK bins lo hi) (count missing : K)
    (hm : mass bins = count - missing)
    (hhead : ∀ v0 f0, bins.head? = some (v0, f0) → lo = v0) {p : K} (h0 : lo ≤ p) (h1 : p ≤ hi) :
    ∃ b a, estimateBelow bins (some lo) (some hi) p = some b ∧
      estimateAbove count missing bins (some lo) (some hi) p = some a ∧
      0 ≤ b ∧ b ≤ count - missing ∧ 0 ≤ a ∧ a ≤ count - missing ∧ b + a = count - missing := by
  obtain ⟨r, hr, hr0, hr1⟩ := countAt_bounds_partial ok (fun v0 f0 h => Or.inl (hhead v0 f0 h)) h0 h1
  rw [← estimate_below_is_count_at] at hr
  obtain ⟨a, ha, hsum⟩ := below_add_above count missing (some lo) (some hi) p r hm hr
  refine ⟨r, a, hr, ha, hr0, by rw [← hm]; exact hr1, ?_, ?_, hsum⟩
  · rw [← hm] at hsum; linarith
  · linarith

/-- **A profile's estimate below a point is non-decreasing in the point** (same hypotheses). -/
theorem profile_below_mono (ok : HistOK bins lo hi)
    (hhead : ∀ v0 f0, bins.head? = some (v0, f0) → lo = v0) {p q b1 b2 : K}
    (h0 : lo ≤ p) (hpq : p ≤ q) (h1 : q ≤ hi)
    (e1 : estimateBelow bins (some lo) (some hi) p = some b1)
    (e2 : estimateBelow bins (some lo) (some hi) q = some b2) : b1 ≤ b2 := by
  rw [estimate_below_is_count_at] at e1 e2
  exact countAt_mono_partial ok (fun v0 f0 h => Or.inl (hhead v0 f0 h)) h0 hpq h1 e1 e2

/-! ## Round 2: the strongest true statements about `count_at`, the boundary ranks of `quantile` -/

/-- **`count_at` answers everywhere inside the observed range** — for every histogram satisfying
C13's invariants, the left tail included (its division is by `v0 - min > 0`; the interior index
`#{v < value} - 1` and its successor exist). -/
theorem countAt_defined (ok : HistOK bins lo hi) {x : K} (hx : lo ≤ x) (hx' : x ≤ hi) :
    ∃ r, countAt bins (some lo) (some hi) x = some r := by
  obtain ⟨v0, f0, tail, vl, fl, rfl, hl⟩ := shape ok
  rw [countAt_unfold v0 f0 tail vl fl lo hi x hl]
  have hno : ¬ (x < lo ∨ hi < x) := by intro h; rcases h with h | h <;> linarith
  rw [if_neg hno]
  by_cases h1 : x = lo
  · exact ⟨_, by rw [if_pos h1]⟩
  rw [if_neg h1]
  by_cases h2 : x = hi
  · exact ⟨_, by rw [if_pos h2]⟩
  rw [if_neg h2]
  by_cases h3 : x ≤ v0
  · exact ⟨_, by rw [if_pos h3]⟩
  rw [if_neg h3]
  by_cases h4 : vl ≤ x
  · exact ⟨_, by rw [if_pos h4]⟩
  rw [if_neg h4]
  obtain ⟨r, hr, _⟩ := interior_range (v0, f0) tail x ok.inc ok.pos (not_le.mp h3)
    ⟨(vl, fl), getLast?_mem _ _ hl, le_of_lt (not_le.mp h4)⟩
  exact ⟨r, hr⟩

/-- **The strongest true monotonicity / boundedness statement about `count_at` as it exists**: on
the whole observed range *minus the open-closed left tail* `(min, v0]` — i.e. at the minimum and
everywhere right of the first centre — the estimate is non-decreasing and within `[0, total]`, for
every histogram satisfying C13's invariants, with no further hypothesis.  (Inside `(min, v0]` the
answer is `ratio * v0 / 2`, see `left_tail_sound_iff` for exactly when that is sound.) -/
theorem countAt_sound_off_left_tail (ok : HistOK bins lo hi) {v0 f0 x y r1 r2 : K}
    (hh : bins.head? = some (v0, f0)) (hx : x = lo ∨ v0 < x) (hy : y = lo ∨ v0 < y)
    (hxy : x ≤ y) (hyhi : y ≤ hi)
    (h1 : countAt bins (some lo) (some hi) x = some r1)
    (h2 : countAt bins (some lo) (some hi) y = some r2) : r1 ≤ r2 ∧ 0 ≤ r1 ∧ r2 ≤ mass bins := by
  have hlo0 : lo ≤ v0 := by
    obtain ⟨v0', f0', tail, vl, fl, rfl, hl⟩ := shape ok
    simp only [List.head?_cons, Option.some.injEq, Prod.mk.injEq] at hh
    rw [← hh.1]; exact (ok.within (v0', f0') (by simp)).1
  have hm := mass_nonneg ok.pos
  rcases hx with rfl | hx
  · rw [countAt_min ok] at h1
    simp only [Option.some.injEq] at h1
    subst h1
    rcases hy with rfl | hy
    · rw [countAt_min ok] at h2
      simp only [Option.some.injEq] at h2
      subst h2
      exact ⟨le_refl _, le_refl _, hm⟩
    · obtain ⟨_, b, c⟩ := countAt_right_of_first_centre ok hh hy (le_refl y) hyhi h2 h2
      exact ⟨b, le_refl _, c⟩
  · have hy' : v0 < y := lt_of_lt_of_le hx hxy
    exact countAt_right_of_first_centre ok hh hx hxy hyhi h1 h2

/-- **Exactly when the left tail is sound** (C14-K01 delimited): for a histogram whose first centre
lies strictly between the minimum and the maximum, the left tail stays within `[0, f0 / 2]` — the
value the interior branch starts from at the first centre (`seg_left`) — **iff** `0 ≤ v0 ≤ f0`.
So `LeftTailOK` in the `_partial` theorems is not merely sufficient: no weaker hypothesis on the
first bin will do. -/
theorem left_tail_sound_iff (ok : HistOK bins lo hi) {v0 f0 : K} (hh : bins.head? = some (v0, f0))
    (hlt : lo < v0) (hv : v0 < hi) :
    (∀ x, lo < x → x ≤ v0 → ∃ r, countAt bins (some lo) (some hi) x = some r ∧ 0 ≤ r ∧ r ≤ f0 / 2) ↔
      (0 ≤ v0 ∧ v0 ≤ f0) := by
  obtain ⟨v0', f0', tail, vl, fl, rfl, hl⟩ := shape ok
  simp only [List.head?_cons, Option.some.injEq, Prod.mk.injEq] at hh
  obtain ⟨rfl, rfl⟩ := hh
  have unf : ∀ x, lo < x → x ≤ v0' →
      countAt ((v0', f0') :: tail) (some lo) (some hi) x = some ((x - lo) / (v0' - lo) * v0' / 2) := by
    intro x h1 h2
    rw [countAt_unfold v0' f0' tail vl fl lo hi x hl,
      if_neg (by intro h; rcases h with h | h <;> linarith), if_neg (ne_of_gt h1),
      if_neg (ne_of_lt (lt_of_le_of_lt h2 hv)), if_pos h2]
  constructor
  · intro h
    obtain ⟨r, hr, h0, h1⟩ := h v0' hlt (le_refl _)
    rw [unf v0' hlt (le_refl _)] at hr
    simp only [Option.some.injEq] at hr
    have hd : v0' - lo ≠ 0 := by intro h; linarith
    rw [div_self hd, one_mul] at hr
    constructor <;> linarith
  · intro ⟨h0, h1⟩ x hx hx'
    have hb := left_bounds hx hx' h0
    exact ⟨_, unf x hx hx', hb.1, by linarith [hb.2]⟩

/-- **The boundary ranks of `quantile`** (the guards are those of the source): at rank
`q_count = f0 / 2` the estimate is exactly the first centre, at rank `total - fl / 2` exactly the
last centre — both tests are non-strict, so the interior walk (which has no running sum above
`mb = Σ mids` and would raise `StopIteration`) is never entered at a boundary rank. -/
theorem quantile_boundary_ranks (ok : HistOK bins lo hi) {v0 f0 vl fl : K}
    (hh : bins.head? = some (v0, f0)) (hl : bins.getLast? = some (vl, fl)) :
    quantileQ bins (some lo) (some hi) (f0 / 2) = some v0 ∧
    quantileQ bins (some lo) (some hi) (mass bins - fl / 2) = some vl := by
  obtain ⟨v0', f0', tail, vl', fl', rfl, hl'⟩ := shape ok
  simp only [List.head?_cons, Option.some.injEq, Prod.mk.injEq] at hh
  obtain ⟨rfl, rfl⟩ := hh
  rw [hl'] at hl
  simp only [Option.some.injEq, Prod.mk.injEq] at hl
  obtain ⟨rfl, rfl⟩ := hl
  have hf0 : 0 < f0' := ok.pos (v0', f0') (by simp)
  have hfl : 0 < fl' := ok.pos (vl', fl') (getLast?_mem _ _ hl')
  have hh0 : f0' / 2 ≠ 0 := by positivity
  have hhl : fl' / 2 ≠ 0 := by positivity
  constructor
  · rw [quantileQ_unfold v0' f0' tail vl' fl' lo hi _ hl', if_pos (le_refl _), div_self hh0]
    congr 1; ring
  · cases tail with
    | nil =>
      simp only [List.getLast?_singleton, Option.some.injEq, Prod.mk.injEq] at hl'
      obtain ⟨rfl, rfl⟩ := hl'
      have hm : mass [(v0', f0')] = f0' := by simp [mass]
      rw [quantileQ_unfold v0' f0' [] v0' f0' lo hi _ (by simp), hm,
        if_pos (by linarith), show f0' - f0' / 2 = f0' / 2 by ring, div_self hh0]
      congr 1; ring
    | cons c rest =>
      have hl2 : (c :: rest).getLast? = some (vl', fl') := by simpa [List.getLast?_cons_cons] using hl'
      have hge : fl' ≤ mass (c :: rest) :=
        mem_le_mass (c :: rest) (vl', fl') (fun b hb => ok.pos b (by simp [hb])) (getLast?_mem _ _ hl2)
      have hm : mass ((v0', f0') :: c :: rest) = f0' + mass (c :: rest) := by
        simp [mass]
      rw [quantileQ_unfold v0' f0' (c :: rest) vl' fl' lo hi _ hl', if_neg (by rw [hm]; intro h; linarith),
        if_pos (le_refl _), sub_self, zero_div, zero_mul, add_zero]

/-- **The `floor` parameter is not an empty assumption**: the floor the exact-mode driver runs
(`Rat.floor`, Python's `int()` on a non-negative number) satisfies `FloorLike` for every histogram
total that is a natural number — totals are sums of integer counts — and is non-negative on
non-negative arguments, so `quantile_0 / _1 / _bounds / _mono` apply to the model as it is executed. -/
theorem floorLike_rat (n : ℕ) :
    FloorLike (fun x : ℚ => ((x.floor : ℤ) : ℚ)) (n : ℚ) ∧ ∀ a : ℚ, 0 ≤ a → (0 : ℚ) ≤ ((a.floor : ℤ) : ℚ) := by
  refine ⟨⟨?_, ?_, ?_, ?_⟩, ?_⟩
  · intro a b h
    have : a.floor ≤ b.floor := Int.floor_mono (R := ℚ) h
    exact Int.cast_le.mpr this
  · have : (0 : ℚ).floor = 0 := Int.floor_zero (R := ℚ)
    simp only [this, Int.cast_zero]
  · have : ((n : ℚ)).floor = n := Int.floor_natCast (R := ℚ) n
    simp only [this, Int.cast_natCast]
  · intro a
    exact Int.floor_le (α := ℚ) a
  · intro a ha
    have : (0 : ℤ) ≤ a.floor := Int.floor_nonneg (α := ℚ) |>.mpr ha
    exact_mod_cast this

/-! ## Round 2: sequences on one column profile — estimate, add, estimate again -/

section profiles
open Gen.ProfileEst (addDropsCache)

variable {mrg : View K → List (K × K) → Except String (List (K × K))} {Base : EProf K → Prop} {p : EProf K}

/-- **The cache discipline of the source** (`Gen.ProfileEst.*`, regenerated from `profiler.py` on every
run): `__add__` removes the `Distogram` an earlier estimate left on the copy it starts from — or
the estimators never reuse one.  With `new_profile = self.deep_copy()` and nothing else,
`addDropsCache` is generated as `false`, this no longer checks, and with it everything below. -/
theorem cache_discipline : CacheDiscipline := by
  unfold CacheDiscipline; decide

/-- **`distogram.load` keeps the bounds it is given** (`Gen.ProfileEst.loadMin / loadMax`, regenerated from
`load` on every run): the histogram the estimators work on has the profile's `minimum` and `maximum`, also
when one of them is 0.  With `dgram.max = maximum or dgram.bins[-1][0]` this no longer checks. -/
theorem load_keeps_bounds : LoadGiven := by
  unfold LoadGiven; decide

/-- **No stale histogram after a sum**: on every profile reachable by building, estimating (in any
order, any number of times, on operands and on sums) and adding — whatever the histogram merge does —
`estimate_values_below / above` answer from the profile's *own current* `histogram`, `minimum`,
`maximum`, `count` and `missing`, never from a `Distogram` an earlier estimate left on an operand.
Rests on `cache_discipline`, i.e. on what `__add__` does with the copy it starts from
in the source as it is now. -/
theorem sum_estimates_use_the_sum (h : Reach mrg Base p) (x : K) :
    p.below x = estimateBelow p.hist p.minimum p.maximum x ∧
    p.above x = estimateAbove p.count p.missing p.hist p.minimum p.maximum x := by
  have hv := reach_view_fresh cache_discipline h
  unfold EProf.below EProf.above
  rw [hv, fresh_eq load_keeps_bounds]
  exact ⟨rfl, rfl⟩

/-- **Every reachable profile is well formed** (over C13's reference merge, from well-formed base
profiles — numpy's histogram of one batch is the parameter): C13's invariants of the histogram, at
most `binCount` bins, centres within `[minimum, maximum]`, and **the histogram's counts add up to
`count - missing`** — `count` and `missing` are the generated `addCount` / `addMissing` of the
operands', the histogram is merged, so the two totals an implementation might subtract from agree. -/
theorem reachable_profile_ok (h : Reach refMerge ProfOK p) :
    ProfOK p ∧ sumCounts p.view.bins = p.count - p.missing := by
  have ok := reach_profOK load_keeps_bounds h
  refine ⟨ok, ?_⟩
  rw [reach_view_fresh cache_discipline h, fresh_eq load_keeps_bounds, sumCounts_eq_mass]
  exact ok.mass

/-- **Below and above add up to the number of non-null values on every reachable profile**
(merged any number of times, estimated in between). -/
theorem reachable_below_add_above (h : Reach refMerge ProfOK p) {x b : K} (hb : p.below x = some b) :
    ∃ a, p.above x = some a ∧ b + a = p.count - p.missing := by
  obtain ⟨e1, e2⟩ := sum_estimates_use_the_sum h x
  rw [e1] at hb
  rw [e2]
  exact below_add_above p.count p.missing p.minimum p.maximum x b (reach_profOK load_keeps_bounds h).mass hb

/-- **The estimates of every reachable profile inherit the bounds**: inside `[minimum, maximum]`
both estimates exist and add up; below is 0 at the minimum and the number of non-null values at
the maximum (above the reverse); and at the minimum and everywhere right of the first bin
(`countAt_sound_off_left_tail` — a sum's first bin may be a merged one, so a sum can have a left
tail and C14-K01 reaches it) below is non-decreasing, above non-increasing, both within
`[0, count - missing]`. -/
theorem reachable_estimates_bounded (h : Reach refMerge ProfOK p) (hne : p.hist ≠ []) :
    ∃ lo hi, p.minimum = some lo ∧ p.maximum = some hi ∧
      p.below lo = some 0 ∧ p.above lo = some (p.count - p.missing) ∧
      (lo < hi → p.below hi = some (p.count - p.missing) ∧ p.above hi = some 0) ∧
      (∀ x, lo ≤ x → x ≤ hi → ∃ b a, p.below x = some b ∧ p.above x = some a ∧ b + a = p.count - p.missing) ∧
      (∀ v0 f0 x y bx by' ax ay, p.hist.head? = some (v0, f0) → (x = lo ∨ v0 < x) → (y = lo ∨ v0 < y) →
        x ≤ y → y ≤ hi → p.below x = some bx → p.below y = some by' → p.above x = some ax → p.above y = some ay →
        bx ≤ by' ∧ 0 ≤ bx ∧ by' ≤ p.count - p.missing ∧ ay ≤ ax ∧ 0 ≤ ay ∧ ax ≤ p.count - p.missing) := by
  have ok := reach_profOK load_keeps_bounds h
  obtain ⟨lo, hi, hlo, hhi, hok⟩ := profOK_histOK ok hne
  have e := fun x => sum_estimates_use_the_sum h x
  have sum := fun x b (hb : p.below x = some b) => reachable_below_add_above h hb
  have blo : p.below lo = some 0 := by
    rw [(e lo).1, hlo, hhi, estimate_below_is_count_at]; exact countAt_min hok
  refine ⟨lo, hi, hlo, hhi, blo, ?_, ?_, ?_, ?_⟩
  · obtain ⟨a, ha, hs⟩ := sum lo 0 blo
    rw [ha]; congr 1; linarith
  · intro hlt
    have bhi : p.below hi = some (p.count - p.missing) := by
      rw [(e hi).1, hlo, hhi, ← ok.mass, estimate_below_is_count_at]; exact countAt_max hok hlt
    obtain ⟨a, ha, hs⟩ := sum hi _ bhi
    refine ⟨bhi, ?_⟩
    rw [ha]; congr 1; linarith
  · intro x hx hx'
    obtain ⟨b, hb⟩ := countAt_defined hok hx hx'
    have hb' : p.below x = some b := by rw [(e x).1, hlo, hhi, estimate_below_is_count_at]; exact hb
    obtain ⟨a, ha, hs⟩ := sum x b hb'
    exact ⟨b, a, hb', ha, hs⟩
  · intro v0 f0 x y bx by' ax ay hh hx hy hxy hyhi h1 h2 h3 h4
    obtain ⟨a1, ha1, s1⟩ := sum x bx h1
    obtain ⟨a2, ha2, s2⟩ := sum y by' h2
    rw [h3] at ha1; rw [h4] at ha2
    simp only [Option.some.injEq] at ha1 ha2
    subst ha1; subst ha2
    rw [(e x).1, hlo, hhi, estimate_below_is_count_at] at h1
    rw [(e y).1, hlo, hhi, estimate_below_is_count_at] at h2
    obtain ⟨m, z, t⟩ := countAt_sound_off_left_tail hok hh hx hy hxy hyhi h1 h2
    rw [ok.mass] at t
    refine ⟨m, z, t, ?_, ?_, ?_⟩ <;> linarith

end profiles

/-! ## Round 4: the base case — the histogram of a freshly built numeric profile -/

/-- **The histogram comprehension of `NumericProfiler` keeps the left edge of every non-empty bin**
(`Profile.histogramOf` with `Gen.ProfileExpr.histEdgesFrom / histEdgesDropRight / histKeep / histKeepsCount` regenerated from
`[(left_edge, count) for count, left_edge in zip(hist_counts, bin_edges[:-1]) if count > 0]` on every run).  With
`bin_edges[1:]` (right edges) or `if count > 1` this no longer checks. -/
theorem comprehension_keeps_left_edges : LeftEdgesKept K := by
  intro counts edges
  unfold profileHist Profile.histogramOf keptBins
  simp only [Gen.ProfileExpr.histEdgesFrom, Gen.ProfileExpr.histEdgesDropRight, Gen.ProfileExpr.histKeep,
    Gen.ProfileExpr.histKeepsCount, List.drop_zero, Nat.sub_zero, if_true, List.map_map, gt_iff_lt]
  rfl

/-- **A freshly built (one-batch) numeric profile is well formed and has no left tail** — `numpy.histogram`'s contract
(`NumpyHist`: one more edge than counts, edges strictly increasing from the data minimum to the data maximum, counts adding
up to the number of values, the minimum in the first bin, `DISTOGRAM_BIN_COUNT` bins) is the only hypothesis; the
comprehension `[(left_edge, count) for count, left_edge in zip(hist_counts, bin_edges[:-1]) if count > 0]` is the generated
`Profile.histogramOf` (slice, filter and kept pair regenerated on every run).  This discharges the hypothesis `ProfOK` of
the base case of `Reach` / `TReach` and the hypotheses `HistOK`, `hm`, `hhead` of `profile_estimates_bounded` /
`profile_below_mono`: on a one-batch profile the open finding C14-K01 cannot occur.  With `bin_edges[1:]` (right edges) this
no longer checks. -/
theorem one_batch_profile_ok {counts : List Nat} {edges : List K} {lo hi : K} {n : Nat}
    (h : NumpyHist counts edges lo hi n) (count missing : K) (hn : count - missing = (n : K)) :
    ProfOK (⟨count, missing, some lo, some hi, profileHist counts edges, none⟩ : EProf K) ∧
    HistOK (profileHist counts edges) lo hi ∧ mass (profileHist counts edges) = count - missing ∧
    (∀ v0 f0, (profileHist counts edges).head? = some (v0, f0) → lo = v0) := by
  obtain ⟨hi', hp, hl, hm, hw, f0, rest, hh⟩ := profileHist_facts comprehension_keeps_left_edges h (by decide)
  have hne : profileHist counts edges ≠ [] := by rw [hh]; simp
  refine ⟨⟨hi', hp, hl, by rw [hm, hn], fun _ => ⟨lo, hi, rfl, rfl, hw⟩⟩, ⟨hi', hp, hne, hw⟩, by rw [hm, hn], ?_⟩
  intro v0 f0' hv
  rw [hh] at hv
  simp only [List.head?_cons, Option.some.injEq, Prod.mk.injEq] at hv
  exact hv.1

/-- **The estimates of a one-batch profile at full strength** (numpy's contract the only hypothesis): inside the observed
range both exist, lie in `[0, non-null]`, add up to the number of non-null values, and `below` is non-decreasing. -/
theorem one_batch_estimates_full {counts : List Nat} {edges : List K} {lo hi : K} {n : Nat}
    (h : NumpyHist counts edges lo hi n) (count missing : K) (hn : count - missing = (n : K)) {p q : K}
    (h0 : lo ≤ p) (hpq : p ≤ q) (h1 : q ≤ hi) :
    ∃ bp ap bq aq,
      estimateBelow (profileHist counts edges) (some lo) (some hi) p = some bp ∧
      estimateAbove count missing (profileHist counts edges) (some lo) (some hi) p = some ap ∧
      estimateBelow (profileHist counts edges) (some lo) (some hi) q = some bq ∧
      estimateAbove count missing (profileHist counts edges) (some lo) (some hi) q = some aq ∧
      0 ≤ bp ∧ bp ≤ bq ∧ bq ≤ count - missing ∧ bp + ap = count - missing ∧ bq + aq = count - missing ∧
      0 ≤ aq ∧ aq ≤ ap ∧ ap ≤ count - missing := by
  obtain ⟨_, ok, hm, hhead⟩ := one_batch_profile_ok h count missing hn
  obtain ⟨bp, ap, e1, e2, b0, _, _, a1, s1⟩ :=
    profile_estimates_bounded ok count missing hm hhead h0 (le_trans hpq h1)
  obtain ⟨bq, aq, e3, e4, _, b1, a0, _, s2⟩ :=
    profile_estimates_bounded ok count missing hm hhead (le_trans h0 hpq) h1
  have hmono := profile_below_mono ok hhead h0 hpq h1 e1 e3
  exact ⟨bp, ap, bq, aq, e1, e2, e3, e4, b0, hmono, b1, s1, s2, a0, by linarith, a1⟩

/-- Non-vacuity of numpy's contract: three bins over `[0, 3]`, the middle one empty; the profile keeps two bins, the first
at the minimum. -/
example : NumpyHist [2, 0, 1] [(0 : ℚ), 1, 2, 3] 0 3 3 ∧ profileHist [2, 0, 1] [(0 : ℚ), 1, 2, 3] = [(0, 2), (2, 1)] :=
  ⟨⟨by decide, by decide +kernel, rfl, rfl, rfl, ⟨2, [0, 1], rfl, by decide⟩, by decide⟩, by decide +kernel⟩

/-- The two base cases of `small_sum_keeps_first_bin_at_minimum`: a one-batch profile (numpy's contract) and the placeholder
`TableProfile.__add__` builds for a column one of the tables lacks have their first bin at the minimum (a placeholder has
neither). -/
theorem base_profiles_first_bin_at_minimum {counts : List Nat} {edges : List K} {lo hi : K} {n : Nat}
    (h : NumpyHist counts edges lo hi n) (count missing : K) (l : EProf K) (lr rr : K) :
    PHeadMin (⟨count, missing, some lo, some hi, profileHist counts edges, none⟩ : EProf K) ∧ PHeadMin (placeholder l lr rr) ∧
    PHeadMin (placeholderL l lr rr) := by
  obtain ⟨_, _, _, _, _, f0, rest, hh⟩ := profileHist_facts comprehension_keeps_left_edges h (by decide)
  refine ⟨?_, rfl, rfl⟩
  unfold PHeadMin
  simp only [hh, List.head?_cons]

/-- **A sum that never trims keeps its first bin at the minimum**: two well-formed profiles whose first bins sit at their
minima (`PHeadMin`: every one-batch profile by `one_batch_profile_ok`, an all-null batch, the placeholder of a table sum) and
whose histograms have at most `binCount` bins between them add up — over the reference merge — to a profile whose first bin
sits at its minimum: the sum has no left tail either. -/
theorem small_sum_keeps_first_bin_at_minimum {a b c : EProf K} (ha : ProfOK a) (hb : ProfOK b)
    (pa : PHeadMin a) (pb : PHeadMin b) (hfit : a.hist.length + b.hist.length ≤ Gen.Distogram.binCount)
    (h : EProf.addRef a b = .ok c) : ProfOK c ∧ PHeadMin c :=
  ⟨addRef_profOK load_keeps_bounds ha hb h, addRef_headMin load_keeps_bounds ha hb pa pb hfit h⟩

/-- **The estimates of such a profile at full strength** — the clause that is only `_partial` for trimmed sums (C14-K01):
a well-formed profile whose first bin is at its minimum answers inside `[minimum, maximum]` with both estimates defined, within
`[0, count - missing]`, adding up, `below` non-decreasing and `above` non-increasing.  By `one_batch_profile_ok` and
`small_sum_keeps_first_bin_at_minimum` this covers every one-batch profile and every sum of profiles that does not exceed the
bin limit (any grouping, as long as each `+` fits). -/
theorem first_bin_at_minimum_estimates_full {p : EProf K} (ok : ProfOK p) (hm : PHeadMin p) (hne : p.hist ≠ []) :
    ∃ lo hi, p.minimum = some lo ∧ p.maximum = some hi ∧
      ∀ x y, lo ≤ x → x ≤ y → y ≤ hi →
        ∃ bx ax by' ay,
          estimateBelow p.hist (some lo) (some hi) x = some bx ∧ estimateAbove p.count p.missing p.hist (some lo) (some hi) x = some ax ∧
          estimateBelow p.hist (some lo) (some hi) y = some by' ∧ estimateAbove p.count p.missing p.hist (some lo) (some hi) y = some ay ∧
          0 ≤ bx ∧ bx ≤ by' ∧ by' ≤ p.count - p.missing ∧ bx + ax = p.count - p.missing ∧ by' + ay = p.count - p.missing ∧
          0 ≤ ay ∧ ay ≤ ax ∧ ax ≤ p.count - p.missing := by
  obtain ⟨lo, hi, hlo, hhi, hok⟩ := profOK_histOK ok hne
  have hhead : ∀ v0 f0, p.hist.head? = some (v0, f0) → lo = v0 := by
    intro v0 f0 hh
    unfold PHeadMin at hm
    rw [hh] at hm
    simp only at hm
    rw [hlo] at hm
    exact Option.some.inj hm
  refine ⟨lo, hi, hlo, hhi, ?_⟩
  intro x y h0 hxy h1
  obtain ⟨bx, ax, e1, e2, b0, _, _, a1, s1⟩ :=
    profile_estimates_bounded hok p.count p.missing ok.mass hhead h0 (le_trans hxy h1)
  obtain ⟨by', ay, e3, e4, _, b1, a0, _, s2⟩ :=
    profile_estimates_bounded hok p.count p.missing ok.mass hhead (le_trans h0 hxy) h1
  have hmono := profile_below_mono hok hhead h0 hxy h1 e1 e3
  exact ⟨bx, ax, by', ay, e1, e2, e3, e4, b0, hmono, b1, s1, s2, a0, by linarith, a1⟩

/-! ## Round 4: table-level sums — `TableProfile + TableProfile` with different column sets and row counts -/

section tables
open Gen.TableProf (placeholderCount placeholderMissing leftPlaceholderCount leftPlaceholderMissing keepsRightOnly)

variable {t a b s : TProf K} {c : String × EProf K}

/-- **A stand-in for a column one table lacks holds no values** (`Gen.TableProf.placeholderCount / placeholderMissing` for a
column the right table lacks, `leftPlaceholderCount / leftPlaceholderMissing` for one the left table lacks — regenerated from
`TableProfile.__add__` on every run): whatever the present column and the row counts of the two tables, its `count - missing`
is 0, so it adds rows but no values to the column sum.  With a stand-in whose `count` and `missing` come from different sides
(`ColumnProfile(name, type, right_rows, left_rows)`) this no longer checks: it would hold `right_rows - left_rows` values no
histogram knows of. -/
theorem placeholder_holds_no_values : PlaceholderEmpty K := by
  intro c m lr rr
  constructor <;> simp [placeholderCount, placeholderMissing, leftPlaceholderCount, leftPlaceholderMissing]

/-- **Every column of every reachable table profile is a reachable column profile**: tables built from frames (columns
well formed, numpy's histogram the parameter), estimated on in between, added any number of times in any grouping — either
table lacking columns of the other, in another order, with any row count — have columns to which
`sum_estimates_use_the_sum`, `reachable_profile_ok`, `reachable_below_add_above` and `reachable_estimates_bounded` apply. -/
theorem table_columns_reachable (h : TReach t) (hc : c ∈ t.cols) : Reach refMerge ProfOK c.2 :=
  treach_cols placeholder_holds_no_values h c hc

/-- **What a table sum consists of**: the column names of the left table, in its order, followed (when the source has the
second loop: `Gen.TableProf.keepsRightOnly`) by the names only the right table has, in its order; each column holds the
non-null values of the left table's column of that name plus those of the right table's — **none** for the side that lacks
it, whatever the two row counts are. -/
theorem table_sum_columns (h : TProf.addRef a b = .ok s) :
    s.names = a.names ++ (if keepsRightOnly then b.names.filter (fun n => !a.names.contains n) else []) ∧
    ∀ c ∈ s.cols, ((a.column c.1).isSome ∨ (b.column c.1).isSome) ∧
      c.2.nonNull = (match a.column c.1 with | some l => l.nonNull | none => 0) +
                    (match b.column c.1 with | some r => r.nonNull | none => 0) := by
  obtain ⟨cs, ds, h1, h2, hs⟩ := tAddWith_ok h
  obtain ⟨hn1, hcs⟩ := addColumns_spec EProf.addRef a b _ _ h1
  obtain ⟨hn2, hds⟩ := rightOnly_cols h2
  refine ⟨by unfold TProf.names at *; rw [hs, List.map_append, hn1, hn2], ?_⟩
  intro c hc
  rw [hs] at hc
  rcases List.mem_append.mp hc with hc | hc
  · obtain ⟨l, r, hl, hr, hsum⟩ := hcs c hc
    refine ⟨Or.inl (by rw [hl]; rfl), ?_⟩
    have hrn : r.nonNull = (match b.column c.1 with | some r => r.nonNull | none => 0) := by
      cases hb : b.column c.1 with
      | none =>
        rw [hb] at hr; simp only [Option.getD_none] at hr
        subst hr
        exact (placeholder_profOK placeholder_holds_no_values l a.rows b.rows).2.2
      | some r' =>
        rw [hb] at hr; simp only [Option.getD_some] at hr
        subst hr; rfl
    rw [hl, ← hrn]
    by_cases lf : Gen.TableProf.sumLeftFirst = true
    · rw [if_pos lf] at hsum; exact nonNull_add hsum
    · rw [if_neg lf] at hsum; rw [nonNull_add hsum]; ring
  · obtain ⟨r, hl, hr, hsum⟩ := hds c hc
    refine ⟨Or.inr (by rw [hr]; rfl), ?_⟩
    have h0 := (placeholderL_profOK placeholder_holds_no_values r a.rows b.rows).2.2
    rw [hl, hr]
    by_cases lf : Gen.TableProf.rightOnlyLeftFirst = true
    · rw [if_pos lf] at hsum; rw [nonNull_add hsum, h0]
    · rw [if_neg lf] at hsum; rw [nonNull_add hsum, h0]; ring

/-- **Below and above add up on every column of every reachable table profile**, and the histogram the estimates are
computed from has exactly `count - missing` values — the clause a stand-in with `count` and `missing` from different sides
breaks. -/
theorem table_estimates_add_up (h : TReach t) (hc : c ∈ t.cols) :
    sumCounts c.2.view.bins = c.2.count - c.2.missing ∧
    ∀ x b', c.2.below x = some b' → ∃ a', c.2.above x = some a' ∧ b' + a' = c.2.count - c.2.missing :=
  ⟨(reachable_profile_ok (table_columns_reachable h hc)).2,
   fun _ _ hb => reachable_below_add_above (table_columns_reachable h hc) hb⟩

end tables

/-- Non-vacuity of the table theorems: the profile of a frame with columns `a`, `b` (three rows) plus the profile of a
one-row frame with columns `c`, `a`: the sum has `a`, `b`, then `c`; `b` keeps its 3 values, `c` its single one, and every
histogram total is the column's `count - missing` — on the source as it is now every column reports 4 rows. -/
example :
    let ta : TProf ℚ := ⟨[("a", ⟨3, 0, some 1, some 4, [(1, 2), (4, 1)], none⟩), ("b", ⟨3, 0, some 0, some 7, [(0, 1), (3, 1), (7, 1)], none⟩)]⟩
    let tb : TProf ℚ := ⟨[("c", ⟨1, 0, some 5, some 5, [(5, 1)], none⟩), ("a", ⟨1, 0, some 2, some 2, [(2, 1)], none⟩)]⟩
    ∃ s, TProf.addRef ta tb = .ok s ∧
      s.cols.map (fun c => c.2.nonNull) = s.cols.map (fun c => sumCounts c.2.hist) ∧
      (s.cols.filter (fun c => c.1 == "b")).map (fun c => c.2.nonNull) = [3] := by
  refine ⟨_, rfl, ?_⟩
  decide +kernel

/-- **What goes wrong when a stand-in takes its `count` from one side and its `missing` from the other**
(`ColumnProfile(name, type, right_rows, left_rows)`, or `right_rows` with `left_column.count` before the row counts were
introduced): a left column of three values added to the stand-in of a one-row right table reports `4 - 3 = 1` non-null value
while its histogram holds 3 and `count_at` answers 3 at the maximum: `(count - missing) - count_at(maximum)`, the estimate of
the values above the maximum, is `1 - 3 = -2`. -/
theorem half_updated_placeholder_breaks_the_sum :
    let l : EProf ℚ := ⟨3, 0, some 0, some 7, [(0, 1), (3, 1), (7, 1)], none⟩
    let ph : EProf ℚ := ⟨1, 3, none, none, [], none⟩
    ∃ c, EProf.addWith true refMerge l ph = .ok c ∧
      c.count - c.missing = 1 ∧ sumCounts c.hist = 3 ∧
      countAt c.hist c.minimum c.maximum 7 = some 3 ∧ (c.count - c.missing) - 3 = -2 := by
  refine ⟨_, rfl, ?_⟩
  decide +kernel

/-- **What goes wrong when the copy keeps the attribute** (`addWith false`: `new_profile =
self.deep_copy()` and nothing else — the code before `fix: adding column profiles drops the
histogram cached by an earlier estimate`): estimate on the profile of `[0]`, add the profile of
`[1]`; the sum has maximum 1 and two non-null values, but it still carries the histogram of `[0]`
alone, which answers `None` at 1 and has a total of 1. -/
theorem stale_histogram_if_the_copy_keeps_it :
    let a : EProf ℚ := ⟨1, 0, some 0, some 0, [(0, 1)], none⟩
    let b : EProf ℚ := ⟨1, 0, some 1, some 1, [(1, 1)], none⟩
    ∃ c, EProf.addWith false refMerge a.touch b = .ok c ∧
      c.maximum = some 1 ∧ c.count - c.missing = 2 ∧ c.hist = [(0, 1), (1, 1)] ∧
      c.cache.map (·.bins) = some [(0, 1)] ∧ c.cache.map (·.max) = some (some 0) ∧
      countAt [((0 : ℚ), (1 : ℚ))] (some 0) (some 0) 1 = none ∧ sumCounts [((0 : ℚ), (1 : ℚ))] = 1 := by
  refine ⟨_, rfl, ?_⟩
  decide +kernel

/-- The C13 invariants give `HistOK`: every state reached by a history of the reference machine
with at least one bin satisfies the hypothesis of the theorems above. -/
theorem built_histOK {s : RState K} {L : List (K × K)} {B : List K} (h : Built s L B) (hne : s.bins ≠ []) :
    ∃ lo hi, s.min = some lo ∧ s.max = some hi ∧ HistOK s.bins lo hi := by
  have hi := (built_facts h).1
  cases hm : s.min with
  | none => exact absurd (hi.minNone hm) hne
  | some m =>
    cases hM : s.max with
    | none => exact absurd (hi.maxNone hM) hne
    | some M => exact ⟨m, M, rfl, rfl, hi.inc, hi.pos, hne, hi.within m M hm hM⟩

/-! ## Round 3: histogram objects — streams judged against the inserted values, operands after a `+` -/

section objects
open Gen.DistogramObj (updBounds addTarget AddTarget noneOr someAnd)

set_option linter.unusedSimpArgs false in
set_option linter.unusedTactic false in
set_option linter.unreachableTactic false in
/-- **The bounds statements of `update`, with the control flow they have in the source now**
(`Gen.DistogramObj.updBounds`: the `if` / `elif` / `else` structure is translated, not only the two
tests), **compute the running minimum and maximum of the stream from every state** — also from the
empty histogram, where the first value moves *both* bounds, and for a value that is a new minimum of
a histogram whose maximum is still missing.  `minO` / `maxO` are what the reference machine of C13
(and with it every `Built` history below) records.  With the second test chained to the first
(`elif`) this no longer checks: the first value of a stream would leave the maximum `None`. -/
theorem update_bounds_exact (mn mx : Option K) (v : K) :
    updBounds mn mx v = (some (minO mn v), some (maxO mx v)) := by
  cases mn <;> cases mx <;>
    simp only [updBounds, noneOr, someAnd, minO, maxO, Option.isNone_none, Option.isNone_some,
      Option.isSome_none, Option.isSome_some, decide_eq_true_eq, gt_iff_lt, ge_iff_le] <;>
    split_ifs <;> simp_all <;> (first | done | (exfalso; linarith) | (apply le_antisymm <;> linarith))

/-- The executable faithful machine (`Model/Distogram.lean`, `bumpBounds`) sets the bounds as those
statements do. -/
theorem faithful_bounds_follow_the_source (h : Hist K) (v : K) :
    ((bumpBounds h v).min, (bumpBounds h v).max) = updBounds h.min h.max v := by
  rw [update_bounds_exact]
  cases hm : h.min <;> cases hM : h.max <;>
    simp [bumpBounds, hm, hM, minO, maxO, Gen.DistogramFlow.bumpMin, Gen.DistogramFlow.bumpMax,
      Gen.DistogramOps.bumpChained]

set_option linter.unusedSimpArgs false in
set_option linter.unusedTactic false in
set_option linter.unreachableTactic false in
/-- **The bounds statements of `Distogram.__add__`, with their control flow** (`Gen.DistogramObj.addBounds`:
`if operand.min is not None: dgram.min = min(self.min, operand.min); dgram.max = max(self.max, operand.max)`
translated statement by statement, Python's `min` / `max` included), **set the sum's bounds to the smaller
minimum and the larger maximum** — what the reference `addRef` records (`optMin` / `optMax`) — whenever the
right operand's bounds are both there or both missing and a non-empty right operand made the sum non-empty.
A slip between the four attributes (`max(self.max, operand.min)`) or a falsy test (`if operand.min:`) breaks it. -/
theorem add_bounds_exact (mn mx omn omx : Option K) (h1 : omn.isSome → mn.isSome ∧ mx.isSome)
    (h2 : omn = none ↔ omx = none) :
    Gen.DistogramObj.addBounds mn mx omn omx = (optMin mn omn, optMax mx omx) := by
  cases mn <;> cases mx <;> cases omn <;> cases omx <;>
    simp only [Gen.DistogramObj.addBounds, noneOr, someAnd, Gen.DistogramObj.pyMin, Gen.DistogramObj.pyMax, optMin, optMax,
      Option.isNone_none, Option.isNone_some, Option.isSome_none, Option.isSome_some, decide_eq_true_eq, gt_iff_lt, ge_iff_le] <;>
    simp_all <;> (try split_ifs) <;> simp_all <;> (first | done | (exfalso; linarith) | (apply le_antisymm <;> linarith))

set_option linter.unusedSimpArgs false in
set_option linter.unusedTactic false in
set_option linter.unreachableTactic false in
/-- **The bounds statements of `Distogram.bulkload`, with their control flow** (`Gen.DistogramObj.bulkBounds`: the
`if self.min is None: … else: …` at its end), **widen the bounds to the data's** — `minO` / `maxO` of the old bound
and `values.min()` / `values.max()`, what the reference `bulkRef` records — from every state whose bounds are both
there or both missing.  Overwriting instead of widening (`self.min = values.min()` in the `else` branch) breaks it. -/
theorem bulk_bounds_exact (mn mx : Option K) (lo hi : K) (h : mn = none ↔ mx = none) :
    Gen.DistogramObj.bulkBounds mn mx lo hi = (some (minO mn lo), some (maxO mx hi)) := by
  cases mn <;> cases mx <;>
    simp only [Gen.DistogramObj.bulkBounds, noneOr, someAnd, Gen.DistogramObj.pyMin, Gen.DistogramObj.pyMax, minO, maxO,
      Option.isNone_none, Option.isNone_some, Option.isSome_none, Option.isSome_some, decide_eq_true_eq, gt_iff_lt, ge_iff_le] <;>
    simp_all <;> (try split_ifs) <;> simp_all <;> (first | done | (exfalso; linarith) | (apply le_antisymm <;> linarith))

/-- **The estimators are exact at the ends of the *inserted values*** — not merely at what the
histogram reports: for every history (`Built s L B`: `L` the inserted (value, weight) pairs, `B` the
data's bounds — for a plain `update` the value itself) that inserted anything, there are `lo`, `hi`
that *are* the minimum and the maximum of the inserted values, and `quantile(0) = lo`,
`quantile(1) = hi`, `count_at(lo) = 0`, `count_at(hi)` = the total inserted weight (when `lo < hi`),
`count_at` is `None` below `lo` and above `hi` and answers everywhere in between. -/
theorem built_exact_at_true_ends {s : RState K} {L : List (K × K)} {B : List K} (h : Built s L B)
    (hne : s.bins ≠ []) (floor : K → K) (hf : FloorLike floor (mass s.bins)) :
    ∃ lo hi, IsMinOf (some lo) B ∧ IsMaxOf (some hi) B ∧
      quantile floor s.bins s.min s.max 0 = some lo ∧ quantile floor s.bins s.min s.max 1 = some hi ∧
      countAt s.bins s.min s.max lo = some 0 ∧
      (lo < hi → countAt s.bins s.min s.max hi = some (mass L)) ∧
      (∀ x, x < lo ∨ hi < x → countAt s.bins s.min s.max x = none) ∧
      (∀ x, lo ≤ x → x ≤ hi → ∃ r, countAt s.bins s.min s.max x = some r) := by
  obtain ⟨lo, hi, hlo, hhi, ok⟩ := built_histOK h hne
  obtain ⟨_, hm, _, hmin, hmax⟩ := built_facts h
  rw [hlo] at hmin
  rw [hhi] at hmax
  refine ⟨lo, hi, hmin, hmax, ?_, ?_, ?_, ?_, ?_, ?_⟩
  · rw [hlo, hhi]; exact quantile_0 floor ok hf
  · rw [hlo, hhi]; exact quantile_1 floor ok hf
  · rw [hlo, hhi]; exact countAt_min ok
  · intro hlt; rw [hlo, hhi, ← hm]; exact countAt_max ok hlt
  · intro x hx; rw [hlo, hhi]; exact (countAt_outside (bins := s.bins) (some lo) (some hi) x).2 hx
  · intro x h1 h2; rw [hlo, hhi]; exact countAt_defined ok h1 h2

/-- **A histogram built by nothing but `update()`** — a stream of values in *any* order (ascending,
descending, the largest first, a single value, a constant stream), any positive weights, any bin
limit: the estimators are exact at the stream's own smallest and largest value and total weight. -/
theorem stream_exact_at_true_ends (cap : Nat) (hcap : 1 ≤ cap) (vs : List (K × K)) (hne : vs ≠ [])
    (hpos : ∀ u ∈ vs, 0 < u.2) (floor : K → K)
    (hf : FloorLike floor (mass (mergeRef (RState.init cap) vs).bins)) :
    let s := mergeRef (RState.init cap : RState K) vs
    ∃ lo hi, (lo ∈ vs.map (·.1) ∧ ∀ v ∈ vs.map (·.1), lo ≤ v) ∧ (hi ∈ vs.map (·.1) ∧ ∀ v ∈ vs.map (·.1), v ≤ hi) ∧
      quantile floor s.bins s.min s.max 0 = some lo ∧ quantile floor s.bins s.min s.max 1 = some hi ∧
      countAt s.bins s.min s.max lo = some 0 ∧ (lo < hi → countAt s.bins s.min s.max hi = some (mass vs)) ∧
      (∀ x, x < lo ∨ hi < x → countAt s.bins s.min s.max x = none) := by
  intro s
  have hb : Built s vs (vs.map (·.1)) := by
    have := built_mergeRef (Built.init (K := K) cap hcap) vs hpos
    simpa using this
  have hmass : mass s.bins = mass vs := (built_facts hb).2.1
  have hbins : s.bins ≠ [] := by
    intro h0
    rw [h0] at hmass
    obtain ⟨u, rest, rfl⟩ := List.exists_cons_of_ne_nil hne
    have h1 : 0 < u.2 := hpos u (by simp)
    have h2 := mass_nonneg (l := rest) (fun b hb => hpos b (by simp [hb]))
    simp only [mass, List.map_nil, List.sum_nil, List.map_cons, List.sum_cons] at hmass h2
    linarith
  obtain ⟨lo, hi, a, b, c, d, e, f, g, _⟩ := built_exact_at_true_ends hb hbins floor hf
  exact ⟨lo, hi, a, b, c, d, e, f, g⟩

/-- **For a stream that never exceeds the bin limit the count estimate is monotone and bounded
everywhere — full strength, the open finding C14-K01 does not reach it.**  A histogram built by
nothing but `update()` whose bins were never merged (`fitsFrom`: no update ever pushes the number of
bins over the limit — in particular every stream of at most `cap` values, `fitsFrom_of_length`) has
its first bin *at* its minimum, so `count_at` has no left tail: on the whole observed range it
answers, stays within `[0, total inserted weight]` and is non-decreasing.  (K01 needs a first bin
that was merged away from the minimum: a trimmed histogram, or a bulk load.) -/
theorem untrimmed_stream_countAt_full (cap : Nat) (hcap : 1 ≤ cap) (vs : List (K × K)) (hne : vs ≠ [])
    (hpos : ∀ u ∈ vs, 0 < u.2) (hfit : fitsFrom (RState.init cap : RState K) vs) :
    let s := mergeRef (RState.init cap : RState K) vs
    ∃ lo hi, s.min = some lo ∧ s.max = some hi ∧
      (∀ x, lo ≤ x → x ≤ hi → ∃ r, countAt s.bins s.min s.max x = some r ∧ 0 ≤ r ∧ r ≤ mass vs) ∧
      (∀ x y r1 r2, lo ≤ x → x ≤ y → y ≤ hi → countAt s.bins s.min s.max x = some r1 →
        countAt s.bins s.min s.max y = some r2 → r1 ≤ r2) := by
  intro s
  have hb : Built s vs (vs.map (·.1)) := by
    have := built_mergeRef (Built.init (K := K) cap hcap) vs hpos
    simpa using this
  have hmass : mass s.bins = mass vs := (built_facts hb).2.1
  have hbins : s.bins ≠ [] := by
    intro h0
    rw [h0] at hmass
    obtain ⟨u, rest, rfl⟩ := List.exists_cons_of_ne_nil hne
    have h1 : 0 < u.2 := hpos u (by simp)
    have h2 := mass_nonneg (l := rest) (fun b hb => hpos b (by simp [hb]))
    simp only [mass, List.map_nil, List.sum_nil, List.map_cons, List.sum_cons] at hmass h2
    linarith
  obtain ⟨lo, hi, hlo, hhi, ok⟩ := built_histOK hb hbins
  have hleft : LeftTailOK s.bins lo :=
    headMin_leftTailOK (mergeRef_headMin vs _ (headMin_init cap) hfit) hlo
  refine ⟨lo, hi, hlo, hhi, ?_, ?_⟩
  · intro x h1 h2
    rw [hlo, hhi, ← hmass]
    exact countAt_bounds_partial ok hleft h1 h2
  · intro x y r1 r2 h1 h2 h3 e1 e2
    rw [hlo, hhi] at e1 e2
    exact countAt_mono_partial ok hleft h1 h2 h3 e1 e2

/-- **What `Distogram.__add__` merges into** (`Gen.DistogramObj.addTarget`, regenerated from the source
on every run) **is not a shallow copy of the left operand**: `merge(self, operand)` updates the left
operand in place — the sum *is* the left operand — or a refactor works on a deep copy.  With
`merge(copy(self), operand)` the sum and the left operand are two objects sharing one bin list, this
no longer checks, and `operands_after_add_ok` goes with it. -/
theorem add_target_sound : addTarget ≠ AddTarget.shallowCopy := by decide

/-- **Every object is still a well-formed histogram after it took part in a `+`**: for histories `a`,
`b`, the sum `c = a + b`, and any further updates of `c` afterwards, the left operand — whatever the
source makes of it (`leftAfter addTarget`: the sum itself, or untouched) — and the sum are again states
of a history, so every theorem of this file applies to them: asked again, the left operand's
estimators are monotone, within *its own* minimum and maximum and exact at them.  (The right
operand is never written to.) -/
theorem operands_after_add_ok {a b : RState K} {L1 L2 : List (K × K)} {B1 B2 : List K}
    (ha : Built a L1 B1) (hb : Built b L2 B2) (us : List (K × K)) (hus : ∀ u ∈ us, 0 < u.2) :
    (∃ L B, Built (mergeRef (addRef a b) us) L B) ∧
    (∃ L B, Built (leftAfter addTarget a (mergeRef (addRef a b) us)) L B) := by
  have hsum : Built (mergeRef (addRef a b) us) (L1 ++ L2 ++ us) (B1 ++ B2 ++ us.map (·.1)) :=
    built_mergeRef (Built.add ha hb) us hus
  refine ⟨⟨_, _, hsum⟩, ?_⟩
  cases h : addTarget with
  | self => exact ⟨_, _, hsum⟩
  | shallowCopy => exact absurd h add_target_sound
  | deepCopy => exact ⟨_, _, ha⟩

/-! ## Round 5: calls the source refuses leave no trace -/

/-- **A refused `update` leaves the histogram as it was** — bins, bounds, cache.  `rejectedUpdate` is what the
object holds when `update(h, value, count)` raises at its validation: the statements of the function body that
*precede* the `if count <= 0: raise ValueError` in the source, in source order, applied to the bounds
(`Gen.DistogramObj.updBeforeReject`, regenerated from the working tree on every run — on the tree as it is nothing
precedes the validation but the cast of the value).  Python objects are changed in place: a bounds statement moved
in front of the validation ("the bounds follow every value seen") would widen the range of the histogram the caller
still holds by a value that was never stored, and this no longer checks. -/
theorem update_rejected_leaves_state (h : Hist K) (v : K) : rejectedUpdate h v = h := by
  rfl

/-- What `update` refuses: the test of the source (`Gen.DistogramFlow.updCountBad`) is "`count ≤ 0`", and the faithful
machine answers such a call with `ValueError` from every state, whatever the value. -/
theorem update_refuses_nonpositive_counts (h : Hist K) (v c : K) :
    (Gen.DistogramFlow.updCountBad c = true ↔ c ≤ 0) ∧ (c ≤ 0 → update h v c = .error "ValueError") := by
  have h1 : Gen.DistogramFlow.updCountBad c = true ↔ c ≤ 0 := by simp [Gen.DistogramFlow.updCountBad]
  refine ⟨h1, fun hc => ?_⟩
  unfold update
  rw [if_pos (h1.2 hc)]

/-- **The model's step for a refused call is the identity**: the object a caller holds after
`try: update(h, value, count) except ValueError: pass` with `count ≤ 0` is the object it held before. -/
theorem caught_rejection_is_identity (h : Hist K) (v c : K) (hc : c ≤ 0) : updateCaught h v c = h := by
  have h1 := update_refuses_nonpositive_counts h v c
  simp only [updateCaught, h1.2 hc, h1.1.2 hc, if_true, update_rejected_leaves_state]

/-- **Every observable of the property is the same after a refused call**: bins, minimum, maximum, the estimated
count at every point (in particular `None` outside the observed range) and the quantile at every level (in
particular the minimum at 0 and the maximum at 1). -/
theorem rejected_update_keeps_every_answer (h : Hist K) (v c : K) (hc : c ≤ 0) (floor : K → K) (x q : K) :
    let h' := updateCaught h v c
    h'.bins = h.bins ∧ h'.min = h.min ∧ h'.max = h.max ∧
      countAt h'.bins h'.min h'.max x = countAt h.bins h.min h.max x ∧
      quantile floor h'.bins h'.min h'.max q = quantile floor h.bins h.min h.max q := by
  simp only [caught_rejection_is_identity h v c hc, and_self]

/-- **Histories with refused calls are the histories without them.**  A stream of calls on one object in which the
caller carries on after every refusal ends in the state the accepted calls alone produce — from any state, for any
interleaving — so every theorem about histograms reached by accepted operations (`stream_exact_at_true_ends`,
`untrimmed_stream_countAt_full`, `built_exact_at_true_ends`, …) speaks about these histories as well. -/
theorem rejected_updates_leave_no_trace (h : Hist K) (ops : List (K × K)) :
    runCaught h ops = runCaught h (ops.filter fun p => !Gen.DistogramFlow.updCountBad p.2) := by
  induction ops generalizing h with
  | nil => rfl
  | cons p ps ih =>
    by_cases hb : Gen.DistogramFlow.updCountBad p.2 = true
    · have hc : p.2 ≤ 0 := (update_refuses_nonpositive_counts h p.1 p.2).1.1 hb
      simp only [runCaught, List.foldl_cons, List.filter_cons, hb, Bool.not_true, Bool.false_eq_true, if_false,
        caught_rejection_is_identity h p.1 p.2 hc]
      exact ih h
    · simp only [Bool.not_eq_true] at hb
      simp only [runCaught, List.foldl_cons, List.filter_cons, hb, Bool.not_false, if_true]
      exact ih _

/-- The same on the object heap the correspondence run drives (`Drv/C14.lean`, op `upd`): a refused call reports
`ValueError` and **no register** — the one the call went through, another name of the same object, any other
object — answers differently afterwards. -/
theorem heap_rejected_update (s s' : ObjHeap K) (r : Nat) (v c : K) (hc : c ≤ 0) (e : Option String)
    (h : s.updCaught r v c = some (s', e)) :
    e = some "ValueError" ∧ ∀ r', s'.get r' = s.get r' := by
  unfold ObjHeap.updCaught at h
  cases hg : s.get r with
  | none => simp [hg] at h
  | some p =>
    obtain ⟨o, hh⟩ := p
    simp only [hg, Option.map_some, (update_refuses_nonpositive_counts hh v c).2 hc,
      caught_rejection_is_identity hh v c hc, Option.some.injEq, Prod.mk.injEq] at h
    obtain ⟨rfl, rfl⟩ := h
    exact ⟨rfl, ObjHeap.get_put_same s r o hh hg⟩

/-- **What goes wrong when the bounds statements precede the validation**: the statements as they are in the
source (`updBounds`), run on a histogram observed on `[mn, mx]` with a value above the maximum, make that value the
maximum — so a refused `update(h, 1000, count=0)` would leave `quantile(h, 1) = 1000` and `count_at` defined up to
1000 on a histogram that never stored it. -/
theorem early_bounds_leak_the_rejected_value (mn mx v : K) (h2 : mx < v) (h1 : mn ≤ mx) :
    updBounds (some mn) (some mx) v = (some mn, some v) := by
  have : ¬ mn > v := by
    intro h
    exact absurd h (not_lt.2 (le_of_lt (lt_of_le_of_lt h1 h2)))
  simp [updBounds, noneOr, this, h2]

end objects

/-- **What goes wrong with a shallow copy** (`merge(copy(self), operand)`): `a` holds 20, `b` holds 29,
`c = a + b`.  The left operand afterwards holds the bins of the sum with its own old bounds
`[20, 20]`; its median estimate is 24.5 — outside what it reports as its range. -/
theorem shallow_copy_breaks_the_left_operand :
    let a : RState ℚ := updateRef (RState.init 8) 20 1
    let b : RState ℚ := updateRef (RState.init 8) 29 1
    let left := leftAfter Gen.DistogramObj.AddTarget.shallowCopy a (addRef a b)
    left.bins = [(20, 1), (29, 1)] ∧ left.min = some 20 ∧ left.max = some 20 ∧
    quantile (fun x => (x.floor : ℚ)) left.bins left.min left.max (1 / 2) = some (49 / 2) := by
  decide +kernel

/-- **What goes wrong when the second bounds test is chained to the first** (`if … elif …`, "a value
cannot move both bounds"): the stream 9, 2, 5 ends with maximum 5 although 9 was inserted. -/
theorem chained_bounds_lose_the_maximum :
    let chained : Option ℚ → Option ℚ → ℚ → Option ℚ × Option ℚ := fun mn mx v =>
      if Gen.DistogramObj.noneOr mn (fun m => decide (m > v)) then (some v, mx)
      else if Gen.DistogramObj.noneOr mx (fun m => decide (m < v)) then (mn, some v) else (mn, mx)
    let s1 := chained none none 9
    let s2 := chained s1.1 s1.2 2
    let s3 := chained s2.1 s2.2 5
    s1 = (some 9, none) ∧ s3 = (some 2, some 5) := by
  decide +kernel

/-- Non-vacuity: a concrete histogram satisfies the hypotheses, and the estimators take the
expected values on it (left tail, a centre, interior, right tail; quantiles at 0, 1/2, 1). -/
example :
    let bins : List (ℚ × ℚ) := [(2, 2), (5, 4), (9, 2)]
    HistOK bins 1 10 ∧
    countAt bins (some 1) (some 10) 1 = some 0 ∧ countAt bins (some 1) (some 10) (3 / 2) = some (1 / 2) ∧
    countAt bins (some 1) (some 10) 2 = some 1 ∧ countAt bins (some 1) (some 10) 5 = some 4 ∧
    countAt bins (some 1) (some 10) 10 = some 8 ∧ countAt bins (some 1) (some 10) 11 = none ∧
    quantile (fun x => (x.floor : ℚ)) bins (some 1) (some 10) 0 = some 1 ∧
    quantile (fun x => (x.floor : ℚ)) bins (some 1) (some 10) (1 / 2) = some 5 ∧
    quantile (fun x => (x.floor : ℚ)) bins (some 1) (some 10) 1 = some 10 := by
  refine ⟨⟨?_, ?_, by simp, ?_⟩, ?_⟩
  · simp [Inc]; norm_num
  · intro b hb; simp at hb; rcases hb with rfl | rfl | rfl <;> norm_num
  · intro b hb; simp at hb; rcases hb with rfl | rfl | rfl <;> norm_num
  · decide +kernel

/-! ## Unordered arguments: a level / a point that is not a number (round 6)

The guards of `quantile` and `count_at` are regenerated from the source **as written** and are polymorphic in the
carrier, so they — and the whole models built on them — can be run at `PyNum F`: numbers of `F` plus a `nan` with which
every comparison is false (Python's float comparisons).  On numbers `not (0 <= v <= 1)` and `v < 0 or v > 1` are the
same test (`quantile_outside` holds for either); at `nan` they differ, and the property's "None outside [0, 1]" /
"None outside the observed range" includes `nan` (it is not a member of the interval). -/
/-- **Sixth pass (values at the numeric limit of float64): why those histories are also run at bin limit 1.**  Of three
increasing centres inside `[lo, hi]` the closer adjacent pair is at most half the range apart.  `_trim` merges the closest
pair of `limit + 1` bins, so at every limit ≥ 2 (three or more bins: any three consecutive ones) the difference `v2 - v1` it
may form is at most `(hi - lo) / 2` — a finite float whenever `lo` and `hi` are.  A merged centre computed from that
difference can overflow only when two bins are folded into one: limit 1 (`distogram/__init__.py:211-223`). -/
theorem closest_gap_le_half_range {a b c lo hi : K} (hlo : lo ≤ a) (hab : a < b) (hbc : b < c) (hhi : c ≤ hi) :
    min (b - a) (c - b) ≤ (hi - lo) / 2 := by
  rcases le_total (b - a) (c - b) with h | h
  · rw [min_eq_left h]; linarith
  · rw [min_eq_right h]; linarith

/-- the hypotheses are satisfiable and the bound is attained: centres -1, 0, 1 in [-1, 1] -/
example : min ((0 : ℚ) - (-1)) (1 - 0) = (1 - (-1)) / 2 := by norm_num

section Unordered
variable {F : Type} [Add F] [Sub F] [Mul F] [Div F] [LT F] [LE F]
  [DecidableLT F] [DecidableLE F] [OfNat F 0] [OfNat F 1] [OfNat F 2]

/-- **The level guard of `quantile` refuses NaN** — about the generated `quantInRange`; the De Morgan rewrite
`if value < 0 or value > 1: return None` makes this `true` (seeded C14-w7s2). -/
theorem quantile_guard_refuses_nan :
    Gen.DistogramExpr.quantInRange (PyNum.nan : PyNum F) = false := by
  simp [Gen.DistogramExpr.quantInRange]

/-- **`quantile` is None at a level that is not a number**, for every histogram, every bounds, every `int()`. -/
theorem quantile_nan (floor : PyNum F → PyNum F) (bins : List (PyNum F × PyNum F)) (mn mx : Option (PyNum F)) :
    quantile floor bins mn mx PyNum.nan = none := by
  unfold quantile
  split
  · rfl
  · rw [if_pos (by simp [quantile_guard_refuses_nan])]

/-- On numbers the guard run at `PyNum F` is the guard run at `F`: the NaN carrier adds a point, it changes nothing else. -/
theorem quantile_guard_on_numbers (p : F) :
    Gen.DistogramExpr.quantInRange (PyNum.num p) = Gen.DistogramExpr.quantInRange p := by
  simp [Gen.DistogramExpr.quantInRange]

/-- **The range guard of `count_at` refuses NaN** — about the generated `countOutside` (repaired defect C14-F04: the
guard was `value < h.min or value > h.max`, which lets NaN through to the interior branch and answers NaN). -/
theorem countAt_guard_refuses_nan (lo hi : PyNum F) :
    Gen.DistogramExpr.countOutside (PyNum.nan : PyNum F) lo hi = true := by
  simp [Gen.DistogramExpr.countOutside]

/-- **`count_at` is None at a point that is not a number**, for every histogram and every bounds. -/
theorem countAt_nan (bins : List (PyNum F × PyNum F)) (mn mx : Option (PyNum F)) :
    countAt bins mn mx PyNum.nan = none := by
  unfold countAt
  split
  · rw [if_pos (countAt_guard_refuses_nan _ _)]
  · rfl

/-- …and so are the profile's two estimates (`estimate_values_below`: None; `estimate_values_above`: no number). -/
theorem estimates_nan (count missing : PyNum F) (bins : List (PyNum F × PyNum F)) (mn mx : Option (PyNum F)) :
    estimateBelow bins mn mx PyNum.nan = none ∧ estimateAbove count missing bins mn mx PyNum.nan = none := by
  simp [estimateBelow, estimateAbove, countAt_nan]

theorem countAt_guard_on_numbers (x lo hi : F) :
    Gen.DistogramExpr.countOutside (PyNum.num x) (PyNum.num lo) (PyNum.num hi) = Gen.DistogramExpr.countOutside x lo hi := by
  simp [Gen.DistogramExpr.countOutside]

/-- **What the De Morgan form does at NaN**: it is false of an unordered level, so a guard `if value < 0 or value > 1:
return None` goes on to `int(total_count * nan)`. -/
theorem de_morgan_guard_lets_nan_through :
    decide ((PyNum.nan : PyNum F) < 0 ∨ (PyNum.nan : PyNum F) > 1) = false ∧
    decide (¬ ((0 : PyNum F) ≤ PyNum.nan ∧ (PyNum.nan : PyNum F) ≤ 1)) = true := by
  simp

end Unordered

end C14
