import OrsoVerif.Lemmas.TypeName
/-!
# C06 — Type names resolve to exactly the type they denote

Property theorems only, about `Model/TypeName.lean` (`fromName` = `OrsoTypes.from_name`,
`declare` = `FlatColumn(type=<name>)`, `typeCode` = the type code of `DataFrame.description`).
The tables the model interprets (member names, alias chain, excluded element prefixes, DECIMAL
guards, the interpreter's int-digit limit, decimal context precision, type-code formats) are the
definitions of `Generated/TypeName.lean`, re-extracted from the working tree on every run, so every
theorem below is re-checked against what the source says now.

Vocabulary (defined in the model file, next to the model):
`TName`/`render`  the statement's well-formed names and their canonical spelling;
`wfName t`        base type / `0 ≤ s ≤ p ≤ 38` / scalar element / a length `int()` can read;
`denotes t d`     "that base type with exactly those parameters and element type";
`wfOut d`         "such a well-formed description", for an arbitrary result;
`columnRoundTrips t c`  the column carries the parameters and its type code resolves back.
Text is ASCII (`List Char`, `Char.toUpper`); Unicode behaviour of `str.upper`/`\d`/`\s`/`\w` is
outside the model and compared on the running code only.
-/
namespace C06
open TypeName Gen.TypeName

/-- **Well-formed names resolve exactly.**  Every base type name, `DECIMAL(p,s)` for all
`0 ≤ s ≤ p ≤ 38`, `VARCHAR[n]` and `BLOB[n]` for **every** `n` whose decimal rendering `int()` accepts
(all `n < 10^4300` under CPython's default limit, every `n` when the limit is off), and `ARRAY<T>` for
every scalar `T`, resolves to that base type with exactly those parameters and element type. -/
theorem fromName_render (t : TName) (h : wfName t = true) :
    ∃ d, fromName (render t) = .ok d ∧ denotes t d = true := by
  cases t with
  | base m =>
    exact okAnd_iff.mp (render_base_all m (by simpa [wfName] using h))
  | decimal p s =>
    have hps : s ≤ p ∧ p ≤ 38 := by simpa [wfName] using h
    exact ⟨_, fromName_decimal hps, by simp [denotes]⟩
  | varchar n => exact ⟨_, fromName_varchar (by simpa [wfName] using h), by simp [denotes]⟩
  | blob n => exact ⟨_, fromName_blob (by simpa [wfName] using h), by simp [denotes]⟩
  | array e =>
    exact okAnd_iff.mp (render_array_all e (by simpa [wfName] using h))

/-- The digit-limit side condition of `fromName_render` is met by every `n < 10^k` where `k` is the
interpreter's limit (4300 by default), and by every `n` when the limit is switched off. -/
theorem lengths_fit (n : Nat) (h : intMaxStrDigits = 0 ∨ n < 10 ^ intMaxStrDigits) :
    wfName (.varchar n) = true ∧ wfName (.blob n) = true := by
  have : digitsFit n = true := by
    rcases Nat.eq_zero_or_pos intMaxStrDigits with h0 | hk
    · simp [digitsFit, h0]
    · rcases h with h | h
      · omega
      · have := (Nat.length_toDigits_le_iff (b := 10) (n := n) (by decide) hk).mpr h
        simp [digitsFit, digits, this]
  exact ⟨this, this⟩

/-- The side condition is tight, and what lies beyond it stays inside the statement's second
sentence: a length whose decimal rendering has more digits than the interpreter's `int()` accepts
(`n ≥ 10^4300` by default) is rejected with `ValueError` — CPython's conversion limit, not an orso
rule.  The statement's "VARCHAR[n], BLOB[n]" is read as "for every `n` that `int()` can read". -/
theorem length_beyond_int_limit_rejected (n : Nat) (h : digitsFit n = false) :
    fromName (render (.varchar n)) = .error .valueError ∧
    fromName (render (.blob n)) = .error .valueError :=
  ⟨fromName_varchar_err h, fromName_blob_err h⟩

/-- The scalar element types are exactly the base types other than ARRAY (nested) and DECIMAL
(parameterised); in particular the excluded-prefix table removes nothing else. -/
theorem scalar_types_spec (m : Str) :
    m ∈ scalarTypes ↔ (m ∈ baseTypes ∧ m ≠ litArray ∧ m ≠ litDecimal) := by
  constructor
  · intro h
    have : ∀ x ∈ scalarTypes, x ∈ baseTypes ∧ x ≠ litArray ∧ x ≠ litDecimal := by decide
    exact this m h
  · rintro ⟨h1, h2, h3⟩
    have : ∀ x ∈ baseTypes, x ≠ litArray → x ≠ litDecimal → x ∈ scalarTypes := by decide
    exact this m h1 h2 h3

/-- **Case-insensitive.**  Two texts that differ only in the ASCII letter case of their characters
(any pattern, position by position) resolve identically. -/
theorem fromName_case (s t : Str) (h : List.Forall₂ (fun a b => a.toUpper = b.toUpper) s t) :
    fromName s = fromName t := by
  unfold fromName
  rw [up_eq_of_forall₂ h]

/-- **Well-formed names resolve exactly, case-insensitively**: every re-casing `s` of the canonical
spelling of a well-formed name (any ASCII letter-case pattern) resolves to what the name denotes. -/
theorem fromName_render_anycase (t : TName) (h : wfName t = true) (s : Str)
    (hs : List.Forall₂ (fun a b => a.toUpper = b.toUpper) s (render t)) :
    ∃ d, fromName s = .ok d ∧ denotes t d = true := by
  rw [fromName_case s (render t) hs]
  exact fromName_render t h

/-- … in particular the all-upper and all-lower spellings of any text. -/
theorem fromName_upper_lower (s : Str) :
    fromName (s.map Char.toUpper) = fromName s ∧ fromName (s.map Char.toLower) = fromName s := by
  constructor
  · show fromName (up s) = fromName s
    unfold fromName; rw [up_up]
  · unfold fromName; rw [up_lower]

/-- **Total.**  Any text whatsoever resolves to a well-formed description or is rejected with
`ValueError`; no other exception class is possible (the raised classes are read from the source). -/
theorem fromName_total (name : Str) :
    (∃ d, fromName name = .ok d ∧ wfOut d = true) ∨ fromName name = .error .valueError := by
  unfold fromName
  cases h : parseType (up name) with
  | error e => exact .inr (by rw [parseType_err h])
  | ok r =>
    cases r with
    | bare b => exact bareResolve_total b
    | array body => exact arrayResolve_total body
    | decimal p s => exact decimalResolve_total p s
    | varchar n => exact .inl ⟨_, rfl, by have : isMember litVarchar = true := by decide
                                          simp [wfOut, this]⟩
    | blob n => exact .inl ⟨_, rfl, by have : isMember litBlob = true := by decide
                                       simp [wfOut, this]⟩

/-- **DECIMAL parameters out of range are always rejected** — in any letter case, with zero padding,
with whitespace after the comma and whatever follows the closing parenthesis: if the upper-cased text
starts with `DECIMAL(<d1>,<ws><d2>)` and the numbers written are not `0 ≤ s ≤ p ≤ 38`, the result is
`ValueError`. -/
theorem decimal_out_of_range_rejected (name d1 ws d2 rest : Str)
    (hup : up name = litDecimal ++ '(' :: (d1 ++ ',' :: (ws ++ (d2 ++ ')' :: rest))))
    (h1 : d1 ≠ []) (h2 : d2 ≠ []) (hd1 : ∀ c ∈ d1, isD c = true) (hd2 : ∀ c ∈ d2, isD c = true)
    (hws : ∀ c ∈ ws, isS c = true)
    (hbad : ¬ (Nat.ofDigitChars 10 d2 0 ≤ Nat.ofDigitChars 10 d1 0 ∧ Nat.ofDigitChars 10 d1 0 ≤ 38)) :
    fromName name = .error .valueError := by
  rw [fromName_decimal_text hup h1 h2 hd1 hd2 hws]
  cases hp : parseInt d1 with
  | error e => simp [parseInt_err hp]
  | ok p =>
    cases hs : parseInt d2 with
    | error e => simp [parseInt_err hs]
    | ok s =>
      rw [parseInt_ok hp, parseInt_ok hs]
      exact decimalResolve_err hbad

/-- … in the canonical spelling: `DECIMAL(p,s)` is rejected for every `(p,s)` outside `0 ≤ s ≤ p ≤ 38`. -/
theorem decimal_out_of_range_rejected_canonical (p s : Nat) (hbad : ¬ (s ≤ p ∧ p ≤ 38)) :
    fromName (render (.decimal p s)) = .error .valueError := by
  have hup : up (render (.decimal p s))
      = litDecimal ++ '(' :: (digits p ++ ',' :: ([] ++ (digits s ++ ')' :: []))) := by
    rw [up_render_decimal]; rfl
  refine decimal_out_of_range_rejected _ _ _ _ _ hup (digits_ne_nil p) (digits_ne_nil s)
    (digits_isD p) (digits_isD s) (by simp) ?_
  simpa [digits, Nat.ofDigitChars_ten_toDigits] using hbad

/-- **Unknown, nested or parameterised ARRAY element types are always rejected.**  If the upper-cased
text starts with `ARRAY<` and resolves at all, then what follows is literally `T>…` for an `OrsoTypes`
member name `T` that is not ARRAY (nested) and not DECIMAL (parameterised) and starts with none of the
excluded prefixes, and the result is ARRAY with exactly that element type.  So `ARRAY<FOO>`,
`ARRAY<ARRAY<INTEGER>>`, `ARRAY<VARCHAR[10]>`, `ARRAY<DECIMAL(10,2)>`, `ARRAY<LIST>`, … are rejected
(with `ValueError`, by `fromName_total`). -/
theorem array_bad_element_rejected (name r : Str) (d : Desc)
    (hp : dropPrefix? (litArray ++ ['<']) (up name) = some r) (hok : fromName name = .ok d) :
    ∃ e rest, r = e ++ '>' :: rest ∧ d = { ty := .member litArray, elem := some e } ∧
      isMember e = true ∧ e ≠ litArray ∧ e ≠ litDecimal ∧ excludedElem e = false :=
  fromName_array_prefix hp hok

/-- **Columns carry the parameters and type codes resolve back.**  For every well-formed name, a
column declared with it has that type and exactly those parameters / element type, `description`
reports a type code for it, and the type code resolves back to the column's type with the column's
precision, scale and element type. -/
theorem typeCode_roundtrip (t : TName) (h : wfName t = true) :
    ∃ c, declare (render t) = .ok c ∧ columnRoundTrips t c = true := by
  cases t with
  | base m => exact okAnd_iff.mp (roundtrip_base m (by simpa [wfName] using h))
  | array e => exact okAnd_iff.mp (roundtrip_array e (by simpa [wfName] using h))
  | decimal p s =>
    have hps : s ≤ p ∧ p ≤ 38 := by simpa [wfName] using h
    refine ⟨_, declare_decimal hps, ?_⟩
    simp [columnRoundTrips, typeCode_decimal, fromName_decimal hps]
  | varchar n =>
    refine ⟨_, declare_varchar (by simpa [wfName] using h), ?_⟩
    have : fromName litVarchar = .ok { ty := .member litVarchar } := by decide
    simp [columnRoundTrips, typeCode_varchar, this]
  | blob n =>
    refine ⟨_, declare_blob (by simpa [wfName] using h), ?_⟩
    have : fromName litBlob = .ok { ty := .member litBlob } := by decide
    simp [columnRoundTrips, typeCode_blob, this]

/-! Non-vacuity: the hypotheses are met by concrete, non-trivial inputs, and the rejection theorems
reject concrete names. -/

example : wfName (.decimal 38 38) = true ∧ wfName (.varchar 65535) = true ∧
    wfName (.array "TIMESTAMP".toList) = true ∧ wfName (.base "JSONB".toList) = true ∧
    wfName (.array "DECIMAL".toList) = false ∧ wfName (.decimal 10 11) = false := by decide

example : fromName "decimal(10, 2) x".toList
    = .ok { ty := .member litDecimal, precision := some 10, scale := some 2 } := by decide

example : fromName "Array<TimeStamp>".toList
    = .ok { ty := .member litArray, elem := some "TIMESTAMP".toList } := by decide

example : fromName "ARRAY<ARRAY<INTEGER>>".toList = .error .valueError ∧
    fromName "ARRAY<VARCHAR[10]>".toList = .error .valueError ∧
    fromName "ARRAY<DECIMAL>".toList = .error .valueError ∧
    fromName "ARRAY<FOO>".toList = .error .valueError ∧
    fromName "DECIMAL(39,2)".toList = .error .valueError ∧
    fromName "DECIMAL(5,6)".toList = .error .valueError ∧
    fromName "STRING".toList = .error .valueError ∧
    fromName "".toList = .error .valueError := by decide

example : dropPrefix? (litArray ++ ['<']) (up "array<list>".toList) = some "LIST>".toList := by decide

example : List.Forall₂ (fun a b => a.toUpper = b.toUpper) "vArChAr[12]".toList (render (.varchar 12)) := by
  decide

end C06
