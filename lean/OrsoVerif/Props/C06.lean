import OrsoVerif.Lemmas.TypeName
import OrsoVerif.Lemmas.TypeNameSession
import OrsoVerif.Model.TypeNameDict
/-!
# C06 — Type names resolve to exactly the type they denote

Property theorems only, about `Model/TypeName.lean` (`fromName` = `OrsoTypes.from_name`,
`declare` = `FlatColumn(type=<name>)`, `typeCode` = the type code of `DataFrame.description`).
The tables the model interprets (member names, alias chain, excluded element prefixes, DECIMAL
guards, the interpreter's int-digit limit, decimal context precision, type-code formats) are the
definitions of `Generated/TypeName.lean`, re-extracted from the working tree on every run, so every
theorem below is re-checked against what the source says now.

Vocabulary (defined in the model file, next to the model):
`TName`/`render`  the statement's well-formed names and their canonical spelling;
`wfName t`        base type / `0 ≤ s ≤ p ≤ 38` / scalar element / a length `int()` can read;
`denotes t d`     "that base type with exactly those parameters and element type";
`wfOut d`         "such a well-formed description", for an arbitrary result;
`columnRoundTrips t c`  the column carries the parameters and its type code resolves back.
Text is ASCII (`List Char`, `Char.toUpper`); Unicode behaviour of `str.upper`/`\d`/`\s`/`\w` is
outside the model and compared on the running code only.
-/
namespace C06
open TypeName Gen.TypeName

/-- **Well-formed names resolve exactly.**  Every base type name, `DECIMAL(p,s)` for all
`0 ≤ s ≤ p ≤ 38`, `VARCHAR[n]` and `BLOB[n]` for **every** `n` whose decimal rendering `int()` accepts
(all `n < 10^4300` under CPython's default limit, every `n` when the limit is off), and `ARRAY<T>` for
every scalar `T`, resolves to that base type with exactly those parameters and element type. -/
theorem fromName_render (t : TName) (h : wfName t = true) :
    ∃ d, fromName (render t) = .ok d ∧ denotes t d = true := by
  cases t with
  | base m =>
    exact okAnd_iff.mp (render_base_all m (by simpa [wfName] using h))
  | decimal p s =>
    have hps : s ≤ p ∧ p ≤ 38 := by simpa [wfName] using h
    exact ⟨_, fromName_decimal hps, by simp [denotes]⟩
  | varchar n => exact ⟨_, fromName_varchar (by simpa [wfName] using h), by simp [denotes]⟩
  | blob n => exact ⟨_, fromName_blob (by simpa [wfName] using h), by simp [denotes]⟩
  | array e =>
    exact okAnd_iff.mp (render_array_all e (by simpa [wfName] using h))

/-- The digit-limit side condition of `fromName_render` is met by every `n < 10^k` where `k` is the
interpreter's limit (4300 by default), and by every `n` when the limit is switched off. -/
theorem lengths_fit (n : Nat) (h : intMaxStrDigits = 0 ∨ n < 10 ^ intMaxStrDigits) :
    wfName (.varchar n) = true ∧ wfName (.blob n) = true := by
  have : digitsFit n = true := by
    rcases Nat.eq_zero_or_pos intMaxStrDigits with h0 | hk
    · simp [digitsFit, h0]
    · rcases h with h | h
      · omega
      · have := (Nat.length_toDigits_le_iff (b := 10) (n := n) (by decide) hk).mpr h
        simp [digitsFit, digits, this]
  exact ⟨this, this⟩

/-- The side condition is tight, and what lies beyond it stays inside the statement's second
sentence: a length whose decimal rendering has more digits than the interpreter's `int()` accepts
(`n ≥ 10^4300` by default) is rejected with `ValueError` — CPython's conversion limit, not an orso
rule.  The statement's "VARCHAR[n], BLOB[n]" is read as "for every `n` that `int()` can read". -/
theorem length_beyond_int_limit_rejected (n : Nat) (h : digitsFit n = false) :
    fromName (render (.varchar n)) = .error .valueError ∧
    fromName (render (.blob n)) = .error .valueError :=
  ⟨fromName_varchar_err h, fromName_blob_err h⟩

/-- The scalar element types are exactly the base types other than ARRAY (nested) and DECIMAL
(parameterised); in particular the excluded-prefix table removes nothing else. -/
theorem scalar_types_spec (m : Str) :
    m ∈ scalarTypes ↔ (m ∈ baseTypes ∧ m ≠ litArray ∧ m ≠ litDecimal) := by
  constructor
  · intro h
    have : ∀ x ∈ scalarTypes, x ∈ baseTypes ∧ x ≠ litArray ∧ x ≠ litDecimal := by decide
    exact this m h
  · rintro ⟨h1, h2, h3⟩
    have : ∀ x ∈ baseTypes, x ≠ litArray → x ≠ litDecimal → x ∈ scalarTypes := by decide
    exact this m h1 h2 h3

/-- **Case-insensitive.**  Two texts that differ only in the ASCII letter case of their characters
(any pattern, position by position) resolve identically. -/
theorem fromName_case (s t : Str) (h : List.Forall₂ (fun a b => a.toUpper = b.toUpper) s t) :
    fromName s = fromName t := by
  rw [fromName_eq_core, fromName_eq_core]
  unfold fromNameCore
  rw [up_eq_of_forall₂ h]

/-- **Well-formed names resolve exactly, case-insensitively**: every re-casing `s` of the canonical
spelling of a well-formed name (any ASCII letter-case pattern) resolves to what the name denotes. -/
theorem fromName_render_anycase (t : TName) (h : wfName t = true) (s : Str)
    (hs : List.Forall₂ (fun a b => a.toUpper = b.toUpper) s (render t)) :
    ∃ d, fromName s = .ok d ∧ denotes t d = true := by
  rw [fromName_case s (render t) hs]
  exact fromName_render t h

/-- … in particular the all-upper and all-lower spellings of any text. -/
theorem fromName_upper_lower (s : Str) :
    fromName (s.map Char.toUpper) = fromName s ∧ fromName (s.map Char.toLower) = fromName s := by
  constructor
  · show fromName (up s) = fromName s
    rw [fromName_eq_core, fromName_eq_core]; unfold fromNameCore; rw [up_up]
  · rw [fromName_eq_core, fromName_eq_core]; unfold fromNameCore; rw [up_lower]

/-- **Total.**  Any text whatsoever resolves to a well-formed description or is rejected with
`ValueError`; no other exception class is possible (the raised classes are read from the source). -/
theorem fromName_total (name : Str) :
    (∃ d, fromName name = .ok d ∧ wfOut d = true) ∨ fromName name = .error .valueError := by
  rw [fromName_eq_core]
  unfold fromNameCore
  cases h : parseTypeCore (up name) with
  | error e => exact .inr (by rw [parseTypeCore_err h])
  | ok r =>
    cases r with
    | bare b => exact bareResolve_total b
    | array body => exact arrayResolve_total body
    | decimal p s => exact decimalResolve_total p s
    | varchar n => exact .inl ⟨_, rfl, by have : isMember litVarchar = true := by decide
                                          simp [wfOut, this]⟩
    | blob n => exact .inl ⟨_, rfl, by have : isMember litBlob = true := by decide
                                       simp [wfOut, this]⟩

/-- **Total, for every Python string** — not only ASCII.  Whatever `str.upper` does to the name (it may
change its length), whichever characters `\d`, `\s` and `\w` match, and whatever number `int()` reads from a
run of `\d` characters — as long as `int()` raises nothing but `ValueError` — the name resolves to a
well-formed description or is rejected with `ValueError`.  This holds for any order of the pattern blocks and
for `match` as well as `search`; `fromNameU Chars.ascii` is `fromName` (`fromNameU_ascii_eq`). -/
theorem fromName_total_unicode (U : Chars) (hint : ∀ ds e, U.toInt ds = .error e → e = .valueError)
    (name : Str) :
    (∃ d, fromNameU U name = .ok d ∧ wfOut d = true) ∨ fromNameU U name = .error .valueError :=
  fromNameU_total U hint name

/-- the Unicode-parametric model, at the ASCII tables, is the ASCII model. -/
theorem fromNameU_ascii_eq (name : Str) : fromNameU Chars.ascii name = fromName name :=
  fromNameU_ascii name

/-- **DECIMAL parameters out of range are always rejected** — in any letter case, with zero padding,
with whitespace after the comma and whatever follows the closing parenthesis: if the upper-cased text
starts with `DECIMAL(<d1>,<ws><d2>)` and the numbers written are not `0 ≤ s ≤ p ≤ 38`, the result is
`ValueError`. -/
theorem decimal_out_of_range_rejected (name d1 ws d2 rest : Str)
    (hup : up name = litDecimal ++ '(' :: (d1 ++ ',' :: (ws ++ (d2 ++ ')' :: rest))))
    (h1 : d1 ≠ []) (h2 : d2 ≠ []) (hd1 : ∀ c ∈ d1, isD c = true) (hd2 : ∀ c ∈ d2, isD c = true)
    (hws : ∀ c ∈ ws, isS c = true)
    (hbad : ¬ (Nat.ofDigitChars 10 d2 0 ≤ Nat.ofDigitChars 10 d1 0 ∧ Nat.ofDigitChars 10 d1 0 ≤ 38)) :
    fromName name = .error .valueError := by
  rw [fromName_decimal_text hup h1 h2 hd1 hd2 hws]
  cases hp : parseInt d1 with
  | error e => simp [parseInt_err hp]
  | ok p =>
    cases hs : parseInt d2 with
    | error e => simp [parseInt_err hs]
    | ok s =>
      rw [parseInt_ok hp, parseInt_ok hs]
      exact decimalResolve_err hbad

/-- … in the canonical spelling: `DECIMAL(p,s)` is rejected for every `(p,s)` outside `0 ≤ s ≤ p ≤ 38`. -/
theorem decimal_out_of_range_rejected_canonical (p s : Nat) (hbad : ¬ (s ≤ p ∧ p ≤ 38)) :
    fromName (render (.decimal p s)) = .error .valueError := by
  have hup : up (render (.decimal p s))
      = litDecimal ++ '(' :: (digits p ++ ',' :: ([] ++ (digits s ++ ')' :: []))) := by
    rw [up_render_decimal]; rfl
  refine decimal_out_of_range_rejected _ _ _ _ _ hup (digits_ne_nil p) (digits_ne_nil s)
    (digits_isD p) (digits_isD s) (by simp) ?_
  simpa [digits, Nat.ofDigitChars_ten_toDigits] using hbad

/-- **Unknown, nested or parameterised ARRAY element types are always rejected.**  If the upper-cased
text starts with `ARRAY<` and resolves at all, then what follows is literally `T>…` for an `OrsoTypes`
member name `T` that is not ARRAY (nested) and not DECIMAL (parameterised) and starts with none of the
excluded prefixes, and the result is ARRAY with exactly that element type.  So `ARRAY<FOO>`,
`ARRAY<ARRAY<INTEGER>>`, `ARRAY<VARCHAR[10]>`, `ARRAY<DECIMAL(10,2)>`, `ARRAY<LIST>`, … are rejected
(with `ValueError`, by `fromName_total`). -/
theorem array_bad_element_rejected (name r : Str) (d : Desc)
    (hp : dropPrefix? (litArray ++ ['<']) (up name) = some r) (hok : fromName name = .ok d) :
    ∃ e rest, r = e ++ '>' :: rest ∧ d = { ty := .member litArray, elem := some e } ∧
      isMember e = true ∧ e ≠ litArray ∧ e ≠ litDecimal ∧ excludedElem e = false :=
  fromName_array_prefix hp hok

/-- **Out-of-range DECIMAL parameters are rejected for every Python string**: whichever characters count as
digits and whitespace and whatever `int()` reads from them (`'DECIMAL(٤٠,٢)'`, `'decımal(5,٦)'`), if the
upper-cased name starts with `DECIMAL(<digits>,<spaces><digits>)` and the numbers read are not
`0 ≤ s ≤ p ≤ 38`, the result is `ValueError`.  Needs only `Chars.Sane U`: `,` and `)` are not digits, no
digit is whitespace, `int()` raises nothing but `ValueError` (all true of Python; proved for the ASCII
tables, `ascii_tables_sane`). -/
theorem decimal_out_of_range_rejected_unicode (U : Chars) (hU : U.Sane) (name d1 ws d2 rest : Str)
    (hup : U.upper name = litDecimal ++ '(' :: (d1 ++ ',' :: (ws ++ (d2 ++ ')' :: rest))))
    (h1 : d1 ≠ []) (h2 : d2 ≠ []) (hd1 : ∀ c ∈ d1, U.isD c = true) (hd2 : ∀ c ∈ d2, U.isD c = true)
    (hws : ∀ c ∈ ws, U.isS c = true)
    (hbad : ∀ p s, U.toInt d1 = .ok p → U.toInt d2 = .ok s → ¬ (s ≤ p ∧ p ≤ 38)) :
    fromNameU U name = .error .valueError :=
  fromNameU_decimal_rejected hU hup h1 h2 hd1 hd2 hws hbad

/-- **Unknown, nested or parameterised ARRAY element types are rejected for every Python string**: if the
upper-cased name starts with `ARRAY<` and resolves, what follows is literally `T>…` for a member name `T`
other than ARRAY and DECIMAL with none of the excluded prefixes (`'ARRAY<ARRAY<ınteger>>'`, `'array<lıst>'`
are rejected).  Needs only that `>` is in none of `\w`, `\s` and that upper-casing never loses a `<`. -/
theorem array_bad_element_rejected_unicode (U : Chars) (hU : U.Sane) (name r : Str) (d : Desc)
    (hp : dropPrefix? (litArray ++ ['<']) (U.upper name) = some r) (hok : fromNameU U name = .ok d) :
    ∃ e rest, r = e ++ '>' :: rest ∧ d = { ty := .member litArray, elem := some e } ∧
      isMember e = true ∧ e ≠ litArray ∧ e ≠ litDecimal ∧ excludedElem e = false :=
  fromNameU_array_prefix hU hp hok

/-- the ASCII tables satisfy the assumptions of the two theorems above. -/
theorem ascii_tables_sane : Chars.Sane Chars.ascii := Chars.ascii_sane

/-- **Columns carry the parameters and type codes resolve back.**  For every well-formed name, a
column declared with it has that type and exactly those parameters / element type, `description`
reports a type code for it, and the type code resolves back to the column's type with the column's
precision, scale and element type. -/
theorem typeCode_roundtrip (t : TName) (h : wfName t = true) :
    ∃ c, declare (render t) = .ok c ∧ columnRoundTrips t c = true := by
  cases t with
  | base m => exact okAnd_iff.mp (roundtrip_base m (by simpa [wfName] using h))
  | array e => exact okAnd_iff.mp (roundtrip_array e (by simpa [wfName] using h))
  | decimal p s =>
    have hps : s ≤ p ∧ p ≤ 38 := by simpa [wfName] using h
    refine ⟨_, declare_decimal hps, ?_⟩
    simp [columnRoundTrips, typeCode_decimal, fromName_decimal hps]
  | varchar n =>
    refine ⟨_, declare_varchar (by simpa [wfName] using h), ?_⟩
    have : fromName litVarchar = .ok { ty := .member litVarchar } := by decide
    simp [columnRoundTrips, typeCode_varchar, this]
  | blob n =>
    refine ⟨_, declare_blob (by simpa [wfName] using h), ?_⟩
    have : fromName litBlob = .ok { ty := .member litBlob } := by decide
    simp [columnRoundTrips, typeCode_blob, this]

/-- **The patterns read from the source are the reference patterns.**  `rxArray`, `rxDecimal`, `rxVarchar`,
`rxBlob` are the four regular expressions of `_parse_type` as parsed from their sources on this run (literal
characters and greedy repeats of classes).  Matched at the start of a text they compute, for every text and
over any Unicode tables, exactly the reference matchers the lemmas are proved about: `ARRAY<` + a non-empty
run of `\w \s [ ] ( )` + `>`; `DECIMAL(` digits `,` spaces digits `)`; `VARCHAR[` digits `]`; `BLOB[` digits `]`.
(A changed class, quantifier or literal makes this fail.) -/
theorem patterns_are_reference (U : Chars) (s : Str) :
    (matchItems U rxArray s).bind group1 = matchArrayU U s ∧
    (matchItems U rxDecimal s).bind group2 = matchDecimalU U s ∧
    (matchItems U rxVarchar s).bind group1 = matchBracketU U litVarchar s ∧
    (matchItems U rxBlob s).bind group1 = matchBracketU U litBlob s :=
  ⟨matchItems_array U s, matchItems_decimal U s, matchItems_varchar U s, matchItems_blob U s⟩

/-- **Greedy matching is what `re` computes for these patterns**: in none of the four patterns can a repeat take
a character that a following item needs (the classes are disjoint from what follows them), so the regular
expression engine never backtracks and the greedy reading of `matchItems` is the match. -/
theorem patterns_deterministic :
    noBacktrack rxArray = true ∧ noBacktrack rxDecimal = true ∧
    noBacktrack rxVarchar = true ∧ noBacktrack rxBlob = true := by decide

/-- **The control flow read from the source is the reference control flow.**  `fromName` follows what
the extractor found in `_parse_type` / `from_name` on this run — the four patterns themselves (`rxArray` …,
see `patterns_are_reference`), the order of the four pattern blocks
(`parseOrder`), how each pattern is applied (`anchorArray` … `anchorBlob`: `re.match` or `search`), the two
`.upper()` calls (`upperInFromName`, `upperBareReturn`), the member and slot of the VARCHAR / BLOB branches
(`lengthBranches`) and the order of `_precision, _scale = …` (`decimalTargets`).  On every text it equals
`fromNameCore`: upper-case, try ARRAY / DECIMAL / VARCHAR / BLOB at the start of the text, upper-case a
bare name, put `n` into the length.  (A pattern applied with `search`, a dropped `.upper()`, a swapped
unpack or a length stored in another slot makes this equation — and with it the theorems above — fail.) -/
theorem generated_control_flow_is_reference (name : Str) :
    fromName name = fromNameCore name ∧ parseType name = parseTypeCore name :=
  ⟨fromName_eq_core name, parseType_eq_core name⟩

/-- **Explicit constructor arguments win, zero included.**  `FlatColumn(type=<name>, precision=…,
scale=…, length=…, element_type=…)`: whatever the name says, an argument that was given — `0` too — is
what the column carries; the tests the source uses to decide that an argument is missing (`mergeRules`,
`decimalPrecisionTest`, `decimalScaleTest`) are `is None`, not truthiness. -/
theorem explicit_parameters_kept (name : Str) (x : Explicit) (c : Desc) (h : declareWith name x = .ok c) :
    (∀ v, x.precision = some v → c.precision = some v) ∧ (∀ v, x.scale = some v → c.scale = some v) ∧
    (∀ v, x.length = some v → c.length = some v) ∧ (∀ e, x.elem = some e → c.elem = some e) := by
  obtain ⟨d, hd, hc⟩ := declareWith_ok h
  subst hc
  exact merged_keeps_explicit d x

/-- … and for a column declared with an `OrsoTypes` member. -/
theorem explicit_parameters_kept_enum (m : Str) (x : Explicit) :
    (∀ v, x.precision = some v → (declareEnum m x).precision = some v) ∧
    (∀ v, x.scale = some v → (declareEnum m x).scale = some v) ∧
    (declareEnum m x).length = x.length ∧ (declareEnum m x).elem = x.elem ∧ (declareEnum m x).ty = .member m :=
  declareEnum_keeps m x

/-- **A column carries what its name says.**  When nothing is given explicitly, the column has the type the
name resolves to, its length and element type, and its precision and scale when the name has them. -/
theorem declared_parameters_carried (name : Str) (d c : Desc) (hn : fromName name = .ok d)
    (hm : d.ty ≠ .zero) (h : declare name = .ok c) :
    c.ty = d.ty ∧ c.length = d.length ∧ c.elem = d.elem ∧
    (∀ p, d.precision = some p → c.precision = some p) ∧ (∀ q, d.scale = some q → c.scale = some q) := by
  obtain ⟨d', hd', hc⟩ := declareWith_ok h
  rw [hn] at hd'
  cases hd'
  subst hc
  exact merged_carries_parsed d hm

/-- **A DECIMAL column always has both parameters**, and the defaults never replace a given value: a missing
precision becomes the context precision (`decimalDefaultPrecision`), a missing scale `⌊¾·precision⌋`
(`scaleNum/scaleDen`) — so `precision=0` alone gives `(0, 0)`, not `(28, 21)`. -/
theorem decimal_defaults (x : Explicit) :
    (declareEnum litDecimal x).precision = some (x.precision.getD decimalDefaultPrecision) ∧
    (declareEnum litDecimal x).scale =
      some (x.scale.getD (scaleNum * x.precision.getD decimalDefaultPrecision / scaleDen)) :=
  declareEnum_decimal x

/-- **The type-code statements read from the source compute the reference type code.**  `codeState` runs
the `if` statements of `DataFrame.description` as the extractor found them on this run (`descProgram`: which
tests, in which order, chained with `elif` or independent, which f-string, whether `data_precision` /
`data_scale` are filled in).  For every typed column the result is the reference `typeCode` — the member's
value, `DECIMAL(p,s)` for a DECIMAL, `ARRAY<T>` for an ARRAY with an element type, never `None` — and the
precision / scale fields are filled in exactly for a DECIMAL. -/
theorem description_statements_are_reference (c : Desc) (m : Str) (h : c.ty = .member m) :
    ∃ code, typeCode c = some code ∧ typeCodeP c = some code ∧
      codeState c = some { code := some code, params := decide (valueOf m = descDecimalKey) } := by
  obtain ⟨code, h1, h2⟩ := codeState_eq c m h
  exact ⟨code, h1, by rw [typeCodeP_eq]; exact h1, h2⟩

/-- **Every entry of `description` is built from the column in the same position.**  Whatever the names and
aliases of the columns — an alias equal to another column's name, two columns of the same name — when
`description` returns, it has one entry per column, and the `i`-th entry carries the `i`-th column's name and
the type code (and DECIMAL precision/scale) of the `i`-th column itself (`descLookup`). -/
theorem description_own_column (cols : List Col) (es : List Entry) (h : describe cols = some es) :
    es.length = cols.length ∧
    ∀ (i : Nat) (c : Col), cols[i]? = some c →
      ∃ e, es[i]? = some e ∧ e.name = c.name ∧ some e.code = typeCode c.desc ∧ entryOf c.name c.desc = some e := by
  unfold describe describeWith at h
  rw [descLookup_byPosition] at h
  obtain ⟨hl, hi⟩ := describeFrom_byPosition cols cols 0 es (by intro j c hj; simpa using hj) h
  refine ⟨hl, ?_⟩
  intro i c hc
  obtain ⟨e, he, hent⟩ := hi i c hc
  exact ⟨e, he, (entryOf_name hent).1, (entryOf_name hent).2, hent⟩

/-- Looked up by name (`find_column`: the first column bearing the name) this is false: in the schema
`[a INTEGER aliases=[b], b DECIMAL(10,2)]` the entry for `b` reports `INTEGER` (finding C06-F02, repaired). -/
theorem lookup_by_name_counterexample :
    describeWith .byName
      [{ name := ['a'], aliases := [['b']], desc := { ty := .member "INTEGER".toList } },
       { name := ['b'], desc := { ty := .member litDecimal, precision := some 10, scale := some 2 } }]
    = some [⟨['a'], "INTEGER".toList, none, none⟩, ⟨['b'], "INTEGER".toList, none, none⟩] := by decide

/-- **Type codes of a whole schema resolve back, column by column.**  Take any list of columns, each
declared with a well-formed type name, under arbitrary names and aliases (collisions included).  Then
`description` returns one entry per column, the `i`-th entry bears the `i`-th column's name, the `i`-th column
carries exactly the parameters of its type name, and the `i`-th type code resolves back, through `from_name`,
to that column's type, precision, scale and element type. -/
theorem description_roundtrip (specs : List (Str × List Str × TName)) (cols : List Col)
    (hwf : ∀ sp ∈ specs, wfName sp.2.2 = true)
    (hdecl : List.Forall₂ (fun sp c => c.name = sp.1 ∧ c.aliases = sp.2.1 ∧
      declare (render sp.2.2) = .ok c.desc) specs cols) :
    ∃ es, describe cols = some es ∧ es.length = cols.length ∧
      ∀ (i : Nat) (sp : Str × List Str × TName) (c : Col), specs[i]? = some sp → cols[i]? = some c →
        ∃ e, es[i]? = some e ∧ e.name = sp.1 ∧ some e.code = typeCode c.desc ∧
          columnRoundTrips sp.2.2 c.desc = true := by
  -- every column round-trips on its own
  have hrt : ∀ (i : Nat) (sp : Str × List Str × TName) (c : Col), specs[i]? = some sp → cols[i]? = some c →
      c.name = sp.1 ∧ columnRoundTrips sp.2.2 c.desc = true := by
    intro i sp c hs hc
    obtain ⟨hn, _, hd⟩ := forall₂_getElem? hdecl hs hc
    obtain ⟨c', hc', hr⟩ := typeCode_roundtrip sp.2.2 (hwf sp (List.mem_of_getElem? hs))
    rw [hd] at hc'
    cases hc'
    exact ⟨hn, hr⟩
  have hsome : ∀ c ∈ cols, (entryOf c.name c.desc).isSome = true := by
    intro c hc
    obtain ⟨i, hi⟩ := List.getElem?_of_mem hc
    obtain ⟨sp, hs⟩ := forall₂_getElem?_right hdecl hi
    have := (hrt i sp c hs hi).2
    exact entryOf_isSome (columnRoundTrips_code this)
  obtain ⟨es, hes⟩ := describeFrom_byPosition_some cols cols 0 (by intro j c hj; simpa using hj) hsome
  have hdesc : describe cols = some es := by
    unfold describe describeWith; rw [descLookup_byPosition]; exact hes
  obtain ⟨hl, hown⟩ := description_own_column cols es hdesc
  refine ⟨es, hdesc, hl, ?_⟩
  intro i sp c hs hc
  obtain ⟨e, he, hname, hcode, _⟩ := hown i c hc
  obtain ⟨hn, hr⟩ := hrt i sp c hs hc
  exact ⟨e, he, by rw [hname, hn], hcode, hr⟩

/-- **A read of `description` is a function of the schema as it is at that read.**  Take any number of
schemas, any number of frames over them (several frames may share one schema object, as a frame and the frames
derived from it do), and any sequence of steps: a new frame, a read of some frame's `description`, a column
of some schema redeclared with other type attributes.  On the code as it is now (`descRead`: the property
carries no result cache and its body computes the list) every read returns `description` of the schema *as
edited so far* — whatever was read before, on this frame or another one.  The tuple of names `description`
iterates over is `column_names`, which *is* kept per frame (`namesRead`, modelled: `Sess.keptNames`); the
hypothesis `NamesOK` says that a kept tuple, if any, equals the current names of its frame's columns — true of a
fresh process (`namesOK_of_none`) and maintained by every step, since a redeclaration keeps the column's name. -/
theorem session_reads_current (s : Sess) (hn : NamesOK s) (ops : List SOp)
    (hops : ∀ op ∈ ops, op.keepsNames = true) :
    session s ops = currentReads s.schemas s.frames ops := by
  unfold session
  -- read from the source on this run: no caching decorator on the property, and its body computes the list
  have hmode : descRead = .fresh := by decide
  rw [hmode]
  exact run_fresh_eq namesRead s hn ops hops

/-- **Whatever is renamed in between, the type codes of every read are current.**  The same sessions with one more
kind of step: a column renamed.  `column_names` is kept per frame (`namesRead`), so after a rename a frame that was
read before reports the *old name* (`stale_name_after_rename`, observed on the code, not judged by this property) —
but the type code, precision and scale of every entry are those of the column in that position as it is declared
at that read: the entries are built by position (`descLookup`), and no step changes the number of columns. -/
theorem session_codes_current (s : Sess) (hn : s.keptNames = none) (ops : List SOp) :
    bareReads (session s ops) = bareReads (currentReads s.schemas s.frames ops) := by
  unfold session
  have hmode : descRead = .fresh := by decide
  rw [hmode]
  exact run_fresh_bare namesRead descLookup_byPosition s (namesLenOK_of_none hn) ops

/-- the stale name, inside the model with `column_names` kept per frame (stated for that mode explicitly, so that
dropping the cache from `column_names` does not break it): `[a INTEGER]`, read, rename `a` to `z`, read on the same
frame → still `a`; a second frame over the same schema reports `z`, and after that (the single entry now belongs to
the second frame) so does the first. -/
theorem stale_name_after_rename :
    Sess.run .fresh .keptPerFrame { schemas := [[{ name := ['a'], desc := { ty := .member "INTEGER".toList } }]], frames := [0, 0] }
      [.read 0, .rename 0 0 ['z'], .read 0, .read 1, .read 0]
    = [some [⟨['a'], "INTEGER".toList, none, none⟩], some [⟨['a'], "INTEGER".toList, none, none⟩],
       some [⟨['z'], "INTEGER".toList, none, none⟩], some [⟨['z'], "INTEGER".toList, none, none⟩]] := by decide

/-- With the last answer kept per frame (`@single_item_cache` on the property, as on `column_names`) this is
false: read, redeclare `a INTEGER` as `DECIMAL(10,2)`, read again — the second read still reports `INTEGER`,
which does not resolve back to the DECIMAL the column now is. -/
theorem kept_description_counterexample :
    let dec : Desc := { ty := .member litDecimal, precision := some 10, scale := some 2 }
    let s : Sess := { schemas := [[{ name := ['a'], desc := { ty := .member "INTEGER".toList } }]], frames := [0] }
    let ops : List SOp := [.read 0, .redeclare 0 0 dec, .read 0]
    Sess.run .keptPerFrame namesRead s ops
      = [some [⟨['a'], "INTEGER".toList, none, none⟩], some [⟨['a'], "INTEGER".toList, none, none⟩]] ∧
    currentReads s.schemas s.frames ops
      = [some [⟨['a'], "INTEGER".toList, none, none⟩], some [⟨['a'], "DECIMAL(10,2)".toList, some 10, some 2⟩]] ∧
    codeResolvesTo (.decimal 10 2) "INTEGER".toList = false := by decide

/-- **After any sequence of redeclarations and reads, every read resolves to the type declared at that time.**
Schemas whose columns are declared with well-formed type names (under arbitrary names and aliases), any frames
over them, then any sequence of steps — new frames, reads, a column redeclared with another well-formed type
name (`DECIMAL(p,s)`, `VARCHAR[n]`, `BLOB[n]`, `ARRAY<T>`, a base type).  Every read of a frame returns a list with
one entry per column of its schema; entry `i` bears column `i`'s name and its type code resolves back, through
`from_name`, to the base type, DECIMAL precision/scale and element type of the name column `i` is declared with
at the time of that read (`ReadsResolve`, `codeResolvesTo`). -/
theorem session_roundtrip (D : List (List ColSpec)) (S : List (List Col)) (fr : List Nat)
    (kept : Option (Nat × List Entry)) (ops : List NOp)
    (hD : Declared D S) (hops : ∀ op ∈ ops, op.wf = true) :
    ReadsResolve D fr ops (session { schemas := S, frames := fr, kept := kept } (ops.map NOp.lower)) := by
  rw [session_reads_current _ (namesOK_of_none rfl) _ (by
    intro op hop
    obtain ⟨o, _, rfl⟩ := List.mem_map.mp hop
    cases o <;> rfl)]
  simp only
  induction ops generalizing D S fr with
  | nil => simp [ReadsResolve, currentReads]
  | cons op ops ih =>
    have hrest : ∀ op ∈ ops, op.wf = true := fun o ho => hops o (List.mem_cons_of_mem _ ho)
    cases op with
    | frame j =>
      simp only [List.map_cons, NOp.lower, currentReads, ReadsResolve]
      exact ih D S (fr ++ [j]) hD hrest
    | redeclare j i t =>
      have ht : wfName t = true := by simpa [NOp.wf] using hops _ (List.mem_cons_self ..)
      obtain ⟨c, hc, _⟩ := typeCode_roundtrip t ht
      have hdd : declaredDesc t = c := by simp [declaredDesc, hc]
      simp only [List.map_cons, NOp.lower, currentReads, ReadsResolve, hdd]
      exact ih _ _ fr ⟨setDeclAt_wf ht hD.1, setDeclAt_rel hc hD.2⟩ hrest
    | read k =>
      simp only [List.map_cons, NOp.lower, currentReads, ReadsResolve]
      refine ⟨?_, ih D S fr hD hrest⟩
      intro j sps hk hj
      obtain ⟨cols, hcols⟩ := forall₂_getElem?_left hD.2 hj
      have hrel : List.Forall₂ declRel sps cols := forall₂_getElem? hD.2 hj hcols
      obtain ⟨es, hes, hlen, hent⟩ := description_roundtrip sps cols
        (fun sp hsp => hD.1 sps (List.mem_of_getElem? hj) sp hsp) hrel
      refine ⟨es, by simp [hk, hcols, hes], by rw [hlen, forall₂_length hrel], ?_⟩
      intro i sp hsp
      obtain ⟨c, hc⟩ := forall₂_getElem?_left hrel hsp
      obtain ⟨e, he, hname, hcode, hrt⟩ := hent i sp c hsp hc
      exact ⟨e, he, hname, columnRoundTrips_resolves hrt hcode.symm⟩

/-! Non-vacuity: the hypotheses are met by concrete, non-trivial inputs, and the rejection theorems
reject concrete names. -/

/-- the hypotheses of `session_roundtrip` are met by a concrete session: `a INTEGER`, read, redeclared as
`DECIMAL(10,2)`, read, redeclared as `ARRAY<TIMESTAMP>`, read on a second frame. -/
example :
    Declared [[(['a'], [], .base "INTEGER".toList)]] [[{ name := ['a'], desc := { ty := .member "INTEGER".toList } }]] ∧
    (∀ op ∈ [NOp.read 0, .redeclare 0 0 (.decimal 10 2), .read 0, .frame 0, .redeclare 0 0 (.array "TIMESTAMP".toList),
      .read 1], op.wf = true) ∧
    session { schemas := [[{ name := ['a'], desc := { ty := .member "INTEGER".toList } }]], frames := [0] }
      ([NOp.read 0, .redeclare 0 0 (.decimal 10 2), .read 0, .frame 0, .redeclare 0 0 (.array "TIMESTAMP".toList),
        .read 1].map NOp.lower)
      = [some [⟨['a'], "INTEGER".toList, none, none⟩], some [⟨['a'], "DECIMAL(10,2)".toList, some 10, some 2⟩],
         some [⟨['a'], "ARRAY<TIMESTAMP>".toList, none, none⟩]] :=
  ⟨⟨by decide, .cons (.cons ⟨rfl, rfl, by decide⟩ .nil) .nil⟩, by decide, by decide⟩

example : wfName (.decimal 38 38) = true ∧ wfName (.varchar 65535) = true ∧
    wfName (.array "TIMESTAMP".toList) = true ∧ wfName (.base "JSONB".toList) = true ∧
    wfName (.array "DECIMAL".toList) = false ∧ wfName (.decimal 10 11) = false := by decide

example : fromName "decimal(10, 2) x".toList
    = .ok { ty := .member litDecimal, precision := some 10, scale := some 2 } := by decide

example : fromName "Array<TimeStamp>".toList
    = .ok { ty := .member litArray, elem := some "TIMESTAMP".toList } := by decide

example : fromName "ARRAY<ARRAY<INTEGER>>".toList = .error .valueError ∧
    fromName "ARRAY<VARCHAR[10]>".toList = .error .valueError ∧
    fromName "ARRAY<DECIMAL>".toList = .error .valueError ∧
    fromName "ARRAY<FOO>".toList = .error .valueError ∧
    fromName "DECIMAL(39,2)".toList = .error .valueError ∧
    fromName "DECIMAL(5,6)".toList = .error .valueError ∧
    fromName "STRING".toList = .error .valueError ∧
    fromName "".toList = .error .valueError := by decide

example : dropPrefix? (litArray ++ ['<']) (up "array<list>".toList) = some "LIST>".toList := by decide

example : List.Forall₂ (fun a b => a.toUpper = b.toUpper) "vArChAr[12]".toList (render (.varchar 12)) := by
  decide

/-! ## The dictionary routes (seventh pass)

`FlatColumn.from_dict` - which `RelationSchema.from_dict`, `FlatColumn.from_json` and the subclasses go through - rewrites
the dictionary before it calls the constructor.  Its statements are read from the source on every run
(`Gen.TypeNameDict.fromDictRewrites`).  "A column declared with the name carries them": a declaration must reach the
constructor with its type entry still the NAME, so that `from_name` resolves it as it does for `FlatColumn(type=name)`. -/

/-- *a column declared with the name carries them*, dictionary routes: a declaration `{'type': t}` without an
`element_type` key - for every text `t` other than the written form of the untyped column - is handed to the constructor
unchanged, so the column carries what `from_name t` gives (`declare`, `declared_parameters_carried`).  A rewrite that
fires on a plain declaration (C06-w9s2: `dic.get('element_type') is None` instead of "the key is there and null", which
turns the bare name `ARRAY` into the member and loses the VARCHAR element type) breaks this theorem by name. -/
theorem from_dict_declaration_keeps_name (t : List Char) (ht : t ≠ Gen.TypeNameDict.untypedValue) :
    TypeNameDict.readDict ⟨.text t, .absent⟩ = some ⟨.text t, .absent⟩ := by
  have h0 : t ≠ ['0'] := ht
  by_cases h : t = ['A', 'R', 'R', 'A', 'Y']
  · subst h; decide
  · simp [TypeNameDict.readDict, Gen.TypeNameDict.fromDictRewrites, TypeNameDict.evalTests, TypeNameDict.evalTest,
      TypeNameDict.Decl.get, TypeNameDict.Decl.set, TypeNameDict.DVal.eqText, TypeNameDict.typeKey, TypeNameDict.elemKey, h, h0]

/-- the same with an explicit null element type next to any name other than the written `ARRAY`: `ARRAY<T>`, `array`,
`LIST`, every other name keep their text (and so the element type the name resolves to). -/
theorem from_dict_null_element_keeps_name (t : List Char) (ht : t ≠ Gen.TypeNameDict.untypedValue)
    (ha : t ≠ ['A', 'R', 'R', 'A', 'Y']) :
    TypeNameDict.readDict ⟨.text t, .null⟩ = some ⟨.text t, .null⟩ := by
  have h0 : t ≠ ['0'] := ht
  simp [TypeNameDict.readDict, Gen.TypeNameDict.fromDictRewrites, TypeNameDict.evalTests, TypeNameDict.evalTest,
    TypeNameDict.Decl.get, TypeNameDict.Decl.set, TypeNameDict.DVal.eqText, TypeNameDict.typeKey, TypeNameDict.elemKey, ha, h0]

/-- the rewrites are live (non-vacuity): the written form of an element-less ARRAY column and of an untyped column are
read as the members. -/
example : TypeNameDict.readDict ⟨.text ['A', 'R', 'R', 'A', 'Y'], .null⟩ = some ⟨.member ['A', 'R', 'R', 'A', 'Y'], .null⟩ := by decide
example : TypeNameDict.readDict ⟨.text ['0'], .absent⟩
    = some ⟨.member ['_', 'M', 'I', 'S', 'S', 'I', 'N', 'G', '_', 'T', 'Y', 'P', 'E'], .absent⟩ := by decide

end C06

