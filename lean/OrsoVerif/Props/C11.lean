import OrsoVerif.Lemmas.Arrow
import OrsoVerif.Lemmas.ArrowCols
import OrsoVerif.Lemmas.ArrowFrame
import OrsoVerif.Lemmas.ArrowShare
import OrsoVerif.Lemmas.Frame
/-!
# C11 — Arrow interchange preserves rows, nulls, order and column typing

Property theorems only.  Rows: the statements quantify over every element type, every list of
tables, every chunk layout inside every table (empty chunks and empty tables anywhere), every
size limit.  Types: over every Orso type, every ARRAY element type and the whole decimal grid
`0 ≤ s ≤ p ≤ 38`, looked up in the tables regenerated from the source (`Gen.Arrow.*`).

Cell conversion (pyarrow → pandas → tuples) is *not* modelled: cells are opaque here and are
compared with `table.to_pylist()` by the harness on every run.
-/
namespace C11
open Arrow

variable {α : Type}

/-! ## Expression facts

One small theorem per expression lifted from the source (`Gen.ArrowExpr`, regenerated on every
run).  Everything below is proved from these facts and the hand-written skeleton, so a changed
operator in the source breaks exactly the fact that names it. -/

/-- `__next__`'s stop test (`self.rows_processed >= self.max_size`) holds exactly when the limit
has been reached. -/
theorem next_guard_spec (p m : Nat) : Gen.ArrowExpr.nextStopTest (p : Int) (m : Int) ↔ m ≤ p := by
  unfold Gen.ArrowExpr.nextStopTest; first | omega | trivial

/-- `__next__`'s bookkeeping (`self.rows_processed += 1`) counts one per returned row. -/
theorem next_bookkeeping_spec (p : Nat) : bump p = p + 1 := by
  unfold bump Gen.ArrowExpr.nextBump; omega

/-- `from_arrow`: for a positive size the limit is in force (`if size:`) and the batch size computed
in that branch (`min(size, BATCH_SIZE)`) is positive; the other branch makes the limit infinite.
(What a size of 0 means is outside the property and deliberately not fixed here.) -/
theorem from_arrow_size_spec (k : Nat) (hk : 0 < k) :
    Gen.ArrowExpr.sizeTest (k : Int) ∧
    0 < (Gen.ArrowExpr.limitedBatch (k : Int) (Gen.Arrow.batchSize : Int)).toNat ∧
    Gen.ArrowExpr.unlimitedIsInf = true := by
  have hb : 0 < Gen.Arrow.batchSize := by decide
  refine ⟨?_, ?_, by decide⟩
  · unfold Gen.ArrowExpr.sizeTest; first | trivial | omega
  · unfold Gen.ArrowExpr.limitedBatch; omega

/-- `to_arrow`: the frame is cut exactly for a size `≥ 0` (`size is not None and size >= 0`), and it
is cut to that size (`dataset.head(size)`). -/
theorem to_arrow_guard_spec (k : Int) :
    (Gen.ArrowExpr.toArrowLimitTest k ↔ 0 ≤ k) ∧ Gen.ArrowExpr.toArrowHeadArg k = k := by
  refine ⟨?_, ?_⟩
  · unfold Gen.ArrowExpr.toArrowLimitTest; first | omega | trivial
  · unfold Gen.ArrowExpr.toArrowHeadArg; rfl

/-- `to_arrow`: the columns are built empty (instead of by `zip(*rows)`) exactly for a frame without
rows (`dataset.rowcount == 0`). -/
theorem to_arrow_empty_guard_spec : EmptyFact := by
  intro n
  unfold Gen.ArrowExpr.toArrowEmptyTest; first | omega | trivial

/-- `arrow_field`: the arguments handed to `pyarrow.decimal128` are the column's own precision
(when it is at least 1) and the column's own scale — **including scale 0** (the repaired defect:
`self.scale or 10` does not satisfy this). -/
theorem decimal_defaulting_spec :
    (∀ p : Nat, 1 ≤ p → Gen.ArrowExpr.decimalPrecisionArg (some (p : Int)) = some (p : Int)) ∧
    (∀ s : Nat, Gen.ArrowExpr.decimalScaleArg (some (s : Int)) = some (s : Int)) := by
  refine ⟨?_, ?_⟩
  · intro p hp
    unfold Gen.ArrowExpr.decimalPrecisionArg
    first | rfl | (simp only []; split <;> first | rfl | omega) | (simp; omega)
  · intro s
    unfold Gen.ArrowExpr.decimalScaleArg
    first | rfl | (simp only []; split <;> first | rfl | omega) | (simp; omega)

/-- `__next__` fetches the next table **in a loop** (`while row is None`): a table without rows is skipped,
it does not end the stream (with `if row is None` — the code before the first repair — this is false, and
everything below that speaks about empty tables stops compiling). -/
theorem next_fetch_loop_spec : Gen.ArrowExpr.fetchLoops = true := by decide

/-- The facts in the form the skeleton lemmas take them. -/
theorem next_facts : NextFacts := ⟨next_guard_spec, next_bookkeeping_spec, next_fetch_loop_spec⟩

/-- `from_arrow` takes the first table off the stream to read the schema and hands `_RowsIterator` the
stream **with that table chained back in front** (`itertools.chain([first_table], tables)`): no table is
lost to the schema peek. -/
theorem from_arrow_stream_spec (tables : List (Table α)) : streamOf tables = tables := by
  unfold streamOf
  first | rfl | simp [Gen.ArrowExpr.streamKeepsFirst]

/-- `from_arrow`'s input dispatch (the two *generated* `isinstance` tuples): a single table, a list, a tuple
and a generator of tables all reach the row iterator as the stream of the caller's tables, in order — a single
table as the stream of that one table.  (Dropping `tuple` from either test makes a tuple raise; dropping `list`
from the second makes every list raise.) -/
theorem input_dispatch_spec (x : Input α) : inputStream x = some x.tables := by
  cases x <;> simp [inputStream, Input.shape, Input.tables, Gen.ArrowExpr.acceptedShapes, Gen.ArrowExpr.iteredShapes]

/-- The three glue sites between `frame.arrow(size)` / `frame.pandas(size)` and `to_arrow` pass the size on
unchanged (`DataFrame.arrow`: `to_arrow(self, size=size)`; `DataFrame.pandas`: `to_pandas(self, size)`;
`to_pandas`: `dataset.arrow(size)`) — `size or None` at any of them would turn `pandas(0)` into "everything". -/
theorem size_reaches_to_arrow (size : Option Int) : arrowCall size = size ∧ pandasCall size = size := by
  unfold pandasCall arrowCall Gen.ArrowExpr.frameArrowArg Gen.ArrowExpr.toPandasArrowArg Gen.ArrowExpr.framePandasArg
  cases size with
  | none => exact ⟨rfl, rfl⟩
  | some k => first | exact ⟨rfl, rfl⟩ | (refine ⟨?_, ?_⟩ <;> simp <;> omega)

/-- `FlatColumn.__init__`'s decimal block keeps a precision (≥ 1) and a scale — **including scale 0** — that
the column was given (`self.scale or int(0.75 * self.precision)` does not: DECIMAL(p, 0) would become
DECIMAL(p, ⌊0.75p⌋), in both directions of the typing round trip, because the column `FlatColumn.from_arrow`
builds passes through the same constructor). -/
theorem init_defaulting_spec :
    (∀ p : Nat, 1 ≤ p → Gen.ArrowExpr.initPrecision (some (p : Int)) = some (p : Int)) ∧
    (∀ s : Nat, ∀ p : Int, Gen.ArrowExpr.initScale (some (s : Int)) p = some (s : Int)) := by
  refine ⟨?_, ?_⟩
  · intro p hp
    unfold Gen.ArrowExpr.initPrecision
    first | rfl | (simp only []; split <;> first | rfl | omega) | (simp; omega)
  · intro s p
    unfold Gen.ArrowExpr.initScale
    first | rfl | (simp only []; split <;> first | rfl | omega) | (simp; omega)

/-- …so a DECIMAL column built with a precision ≥ 1 and a scale keeps both, and other columns are not touched. -/
theorem normalise_spec :
    (∀ p s : Nat, 1 ≤ p → normalise .DECIMAL (some p) (some s) = (some p, some s)) ∧
    (∀ t p s, t ≠ OrsoTy.DECIMAL → normalise t p s = (p, s)) := by
  refine ⟨?_, ?_⟩
  · intro p s hp
    have h1 := init_defaulting_spec.1 p hp
    have h2 := init_defaulting_spec.2 s (p : Int)
    simp only [normalise, if_true, Option.map_some, Int.ofNat_eq_natCast, h1, h2, Int.toNat_natCast]
  · intro t p s ht
    simp only [normalise, ht, if_false]

/-- `DataFrame.head(k)` — the glue `to_arrow` limits the frame with — is the first `k` rows.  `head`
is `slice(headOffset k, headLength k)` over the window arithmetic *generated* from dataframe.py
(`if offset < 0: offset = max(len + offset, 0)`, `if length == 0`, `rows[offset : offset + length]`,
`head`'s arguments `0, size`): a changed operator there breaks this fact. -/
theorem head_glue_spec : HeadFact := by
  intro β k rows
  have hoff : Frame.sliceOffset rows.length (Gen.Frame.headOffset (k : Int)) = ((0 : Nat) : Int) := by
    unfold Frame.sliceOffset Gen.Frame.headOffset Gen.Frame.sliceNegTest Gen.Frame.sliceNegStart
    first | rfl | (simp only []; split <;> omega) | (simp; omega)
  have hlen : (Gen.Frame.headLength (k : Int)).toNat = k := by
    unfold Gen.Frame.headLength; omega
  unfold head Frame.head Frame.slice
  simp only [hoff, hlen]
  by_cases hk : Gen.Frame.sliceZeroTest (k : Int)
  · have h0 : k = 0 := by unfold Gen.Frame.sliceZeroTest at hk; omega
    rw [if_pos hk, h0, List.take_zero]
  · rw [if_neg hk]
    have hstop : Gen.Frame.sliceStop ((0 : Nat) : Int) (k : Int) = ((0 : Nat) : Int) + (k : Int) := by
      unfold Gen.Frame.sliceStop; first | rfl | omega
    rw [hstop, Frame.pySlice_nonneg, List.drop_zero]

/-! ## Rows -/

/-- The size limit `from_arrow` enforces: none for `None`, the size for a positive size. -/
theorem limit_of_spec : limitOf none = none ∧ ∀ k, 0 < k → limitOf (some k) = some k := by
  refine ⟨rfl, ?_⟩
  intro k hk
  simp only [limitOf]
  rw [if_pos (from_arrow_size_spec k hk).1]

/-- `BATCH_SIZE` and `min(size, BATCH_SIZE)` are positive for every size of the property's range
(none, or positive), so `table.to_batches` is never asked for empty batches.  Mentions the extracted
`BATCH_SIZE`. -/
theorem batch_positive (size : Option Nat) (hs : size ≠ some 0) : 0 < batchOf size := by
  have hb : 0 < Gen.Arrow.batchSize := by decide
  unfold batchOf
  cases size with
  | none => simp only [limitOf]; exact hb
  | some j =>
    have hj : 0 < j := by
      rcases Nat.eq_zero_or_pos j with h0 | h0
      · exact absurd (by rw [h0]) hs
      · exact h0
    rw [limit_of_spec.2 j hj]
    exact (from_arrow_size_spec j hj).2.1

/-- **Batching is invisible.**  Whatever the chunk layout of a table and whatever the (positive)
batch size, `process_table` returns the table's rows, in order, once each. -/
theorem process_table_rows (n : Nat) (hn : 0 < n) (t : Table α) : processTable n t = t.rows :=
  processTable_eq_rows n hn t

/-- **One row per Arrow row, in order, across any number of tables and any chunking (empty tables
and chunks anywhere), cut to the requested size.**  `drain` is `list(iterator)`; the iterator is
`_RowsIterator` as repaired, assembled from the generated guard and bookkeeping expressions.  -/
theorem iterator_spec (tables : List (Table α)) :
    drain (init tables none) = (tables.map Table.rows).flatten ∧
    ∀ k, 0 < k → drain (init tables (some k)) = ((tables.map Table.rows).flatten).take k := by
  have key : ∀ size, size ≠ some 0 → (init tables size).remaining = (tables.map Table.rows).flatten := by
    intro size hs
    simp only [It.remaining, init, List.nil_append, from_arrow_stream_spec]
    congr 1
    apply List.map_congr_left
    intro t _
    exact processTable_eq_rows _ (batch_positive size hs) t
  obtain ⟨hl0, hl2⟩ := limit_of_spec
  refine ⟨?_, ?_⟩
  · have hroom : (init tables none).room = (init tables none).remaining.length := by
      simp only [It.room, init, hl0]
    rw [drain_eq next_facts, hroom, List.take_length]; exact key none (by simp)
  · intro k hk
    have hroom : (init tables (some k)).room = k := by
      simp only [It.room, init, hl2 k hk]; omega
    rw [drain_eq next_facts, key (some k) (by simp; omega), hroom]

/-- The same, against the specification function the driver and the harness use (sizes of the
property's range: none, or positive). -/
theorem from_arrow_rows_spec (tables : List (Table α)) (size : Option Nat) (hs : size ≠ some 0) :
    fromArrowRows tables size = expectedRows tables size := by
  obtain ⟨h1, h3⟩ := iterator_spec tables
  unfold fromArrowRows expectedRows
  match size, hs with
  | none, _ => simpa using h1
  | some 0, hs => exact absurd rfl hs
  | some (k + 1), _ => simpa using h3 (k + 1) (Nat.succ_pos k)

/-- **…whatever shape the argument has**: a single table, a list, a tuple or a generator of tables. -/
theorem from_arrow_any_input (x : Input α) (size : Option Nat) (hs : size ≠ some 0) :
    fromArrowInput x size = some (expectedRows x.tables size) := by
  unfold fromArrowInput
  rw [input_dispatch_spec]
  exact congrArg some (from_arrow_rows_spec x.tables size hs)

/-- **Regression lemma for the pinned tree** (before `fix: Arrow row iterator skips empty
tables …`): the old `__next__` loses the rows after an empty table, and everything after an
empty first table, while the repaired one delivers them. -/
theorem pinned_iterator_loses_rows :
    drainPinned (init [[[1, 2]], [[]], [[3]]] none) = [1, 2] ∧
    drain (init [[[1, 2]], [[]], [[3]]] none) = [1, 2, 3] ∧
    drainPinned (init [[[]], [[1, 2]]] none) = ([] : List Nat) ∧
    drain (init [[[]], [[1, 2]]] none) = [1, 2] := by decide

/-- **The repair is conservative.**  On every stream in which no table is empty the pinned
iterator and the repaired one deliver the same rows, for every size: the repair changes the
outcome only on the inputs on which the old code lost rows. -/
theorem repair_conservative (tables : List (Table α)) (size : Option Nat) (hs : size ≠ some 0)
    (h : ∀ t ∈ tables, t.rows ≠ []) : drainPinned (init tables size) = drain (init tables size) := by
  unfold drainPinned drain
  apply drainWith_pinned_eq
  intro t ht
  have : processTable (batchOf size) t = t.rows := processTable_eq_rows _ (batch_positive size hs) t
  simp only [init, from_arrow_stream_spec] at ht ⊢
  rw [this]
  exact h t ht

/-- How `arrow(size)` is meant to limit a frame (written out, independent of the generated
expressions): the first `k` rows for a size `k ≥ 0`, everything for `None` or a negative size. -/
def specLimited (rows : List (List α)) : Option Int → List (List α)
  | some (.ofNat k) => rows.take k
  | _ => rows

/-- `to_arrow`'s generated guard and `head` argument limit the frame exactly that way. -/
theorem limited_spec (rows : List (List α)) (size : Option Int) : limited rows size = specLimited rows size := by
  unfold limited limitArg specLimited
  cases size with
  | none => rfl
  | some k =>
    obtain ⟨h1, h2⟩ := to_arrow_guard_spec k
    cases k with
    | ofNat n =>
      simp only [h1, h2]
      have h0 : (0 : Int) ≤ Int.ofNat n := Int.natCast_nonneg n
      rw [if_pos h0]
      exact head_glue_spec n rows
    | negSucc n =>
      simp only [h1]
      rw [if_neg (by have := Int.negSucc_lt_zero n; omega)]

/-- **DataFrame → Arrow (optionally limited) → DataFrame returns the same rows and column
names.**  For every rectangular frame with at least one column: the Arrow table built by
`to_arrow` has the frame's column names and `min(size, n)` rows, and iterating it back gives the
frame's rows limited as `specLimited` says (a negative size is ignored).  -/
theorem to_from_roundtrip (names : List String) (rows : List (List α)) (size : Option Int)
    (hw : 0 < names.length) (hrect : ∀ r ∈ rows, r.length = names.length) :
    roundtripRows names rows size = specLimited rows size ∧
    (toArrow names rows size).names = names ∧
    (toArrow names rows size).numRows = (specLimited rows size).length := by
  have hrows := toArrow_rows head_glue_spec to_arrow_empty_guard_spec names rows size hw hrect
  rw [← limited_spec]
  refine ⟨?_, toArrow_names names rows size, toArrow_numRows head_glue_spec to_arrow_empty_guard_spec names rows size hw hrect⟩
  unfold roundtripRows fromArrowRows
  rw [(iterator_spec _).1, hrows]
  simp [Table.rows]

/-! ## The kind of object a size is (sixth pass) -/

/-- **The size guards recognise every kind of integer object.**  Whatever *type* test the guard of `from_arrow`
(`if size:`) and of `to_arrow` (`size is not None and size >= 0`) carries — *generated*: the kinds of argument
object that pass it, every kind when there is none — a built-in `int`, a `bool`, an `int` subclass and a numpy
integer scalar all pass.  (`isinstance(size, int)` does not satisfy this: a `numpy.int64` limit would silently
become "no limit".) -/
theorem size_kind_spec :
    ∀ kind ∈ demandedSizeKinds, kind ∈ Gen.ArrowExpr.sizeKinds ∧ kind ∈ Gen.ArrowExpr.toArrowSizeKinds := by
  decide

/-- Non-vacuity, and what the type test costs: a numpy integer limit of 2 behind a guard that only lets
`int`, `bool` and `int` subclasses through is not a limit at all. -/
example : sizeSeen ["int", "bool", "int-subclass"] "numpy-integer" (some 2) = (none : Option Nat) ∧
    sizeSeen Gen.ArrowExpr.sizeKinds "numpy-integer" (some 2) = some 2 ∧
    fromArrowInputKind (Input.list [[[1, 2, 3]], [[4, 5]]]) "numpy-integer" (some 2) = some [1, 2] := by decide

/-- …so a size of any of these kinds is seen by the code behind the guard as the size it is. -/
theorem size_seen_spec {β : Type} (kind : String) (hk : kind ∈ demandedSizeKinds) (size : Option β) :
    sizeSeen Gen.ArrowExpr.sizeKinds kind size = size ∧ sizeSeen Gen.ArrowExpr.toArrowSizeKinds kind size = size := by
  obtain ⟨h1, h2⟩ := size_kind_spec kind hk
  exact ⟨if_pos h1, if_pos h2⟩

/-- **Cut to the requested size, whatever kind of integer object the size is** (`from_arrow`): for every shape of
argument, every list of tables and chunk layout, every kind of the property's range and every size none or positive. -/
theorem from_arrow_any_size_object (x : Input α) (kind : String) (hk : kind ∈ demandedSizeKinds)
    (size : Option Nat) (hs : size ≠ some 0) :
    fromArrowInputKind x kind size = some (expectedRows x.tables size) := by
  unfold fromArrowInputKind
  rw [(size_seen_spec kind hk size).1]
  exact from_arrow_any_input x size hs

/-- **…and `frame.arrow(size)` / the round trip**: limited as `specLimited` says for every kind of integer object. -/
theorem to_from_roundtrip_any_size_object (names : List String) (rows : List (List α)) (kind : String)
    (hk : kind ∈ demandedSizeKinds) (size : Option Int)
    (hw : 0 < names.length) (hrect : ∀ r ∈ rows, r.length = names.length) :
    roundtripRowsKind names rows kind size = specLimited rows size ∧
    (toArrowKind names rows kind size).names = names ∧
    (toArrowKind names rows kind size).numRows = (specLimited rows size).length := by
  unfold roundtripRowsKind toArrowKind
  rw [(size_seen_spec kind hk size).2]
  exact to_from_roundtrip names rows size hw hrect

/-- **Every batch constant, every limit.**  `_RowsIterator` built with *any* positive `batch_size` and
any `max_size` (none = `float("inf")`) over any tables delivers every row with index below the limit,
in order, once: the rows do not depend on the batch constant at all (`from_arrow` uses
`min(size, BATCH_SIZE)`, the harness also drives the class directly with batch sizes 1, 2, 3, …). -/
theorem iterator_any_batch_spec (tables : List (Table α)) (b : Nat) (hb : 0 < b) (m : Option Nat) :
    drain { tables := tables, current := [], processed := 0, maxSize := m, batch := b } =
      match m with
      | none => (tables.map Table.rows).flatten
      | some k => ((tables.map Table.rows).flatten).take k := by
  have key : (It.mk tables [] 0 m b).remaining = (tables.map Table.rows).flatten := by
    simp only [It.remaining, List.nil_append]
    congr 1
    apply List.map_congr_left
    intro t _
    exact processTable_eq_rows _ hb t
  rw [drain_eq next_facts, key]
  cases m with
  | none =>
    have hroom : (It.mk tables [] 0 none b).room = (It.mk tables [] 0 none b).remaining.length := rfl
    rw [hroom, key, List.take_length]
  | some k =>
    have hroom : (It.mk tables [] 0 (some k) b).room = k := by simp only [It.room]; omega
    rw [hroom]

/-! ## One frame, converted more than once

`Model/ArrowFrame.lean`: a frame is lazily backed (its `_rows` *is* the `_RowsIterator` / generator,
and so is its cursor) or eager; `step` is one call, `run` a history of calls.  `Fr.listRows` is the
list the frame materialises to — the rows it holds. -/

/-- Nothing on the conversion path (`DataFrame.arrow`, `DataFrame.pandas`, `to_arrow`, `to_pandas`) stores anything on the
frame it converts (generated from the source: no attribute of `self` / `dataset` is assigned there).  This is what makes
`arrow(size)` a function of the rows held — the hypothesis under which `step` translates it as `toArrow`. -/
theorem conversion_writes_nothing_spec : Gen.ArrowExpr.conversionWritesFrame = false := by decide

/-- **A conversion does not change the frame and depends only on the rows it holds.**  For every
frame state (lazily backed with any iterator state, or eager with any cursor) and every size:
`arrow(size)` returns the table `to_arrow` builds from the frame's rows, and afterwards the frame
holds the same rows (now as a list). -/
theorem arrow_keeps_frame (names : List String) (f : Fr (List α)) (size : Option Int) :
    (step names f (.arrow size)).2 = .table (toArrow names f.listRows size) ∧
    (step names f (.arrow size)).1.listRows = f.listRows ∧
    (step names f (.arrow size)).1.isLazy = false := by
  refine ⟨?_, materialize_listRows f, materialize_not_lazy f⟩
  simp [step, convert, conversion_writes_nothing_spec, materialize_listRows]

/-- What each call does to the rows a frame holds (`rowsAfter`, written out in
`Lemmas/ArrowFrame.lean`): a cursor fetch on a frame that is *still lazy* takes the fetched rows out
of the frame (cursor and row source are one object), `append` adds a row (materialising a lazy frame), every
other call — conversions, `len`, iteration, `head`, fetches on an eager frame — leaves them alone. -/
theorem call_effect_on_rows (names : List String) (f : Fr (List α)) (op : Op (List α)) :
    (step names f op).1.listRows = rowsAfter f.isLazy f.listRows op :=
  step_listRows next_facts names f op

/-- **Conversion is repeatable.**  In every history of calls without `append` and without a fetch on
a still-lazy frame (`Quiet`), whatever the frame's state at the start: the frame holds the same rows
at the end, and *every* `arrow(size)` in the history — the first, the second, after a `len`, after
another conversion with another size — returns the table built from those same rows. -/
theorem conversion_repeatable (names : List String) :
    ∀ (ops : List (Op (List α))) (f : Fr (List α)), Quiet names f ops →
      (run names f ops).2.listRows = f.listRows ∧
      ∀ (i : Nat) (size : Option Int), ops[i]? = some (.arrow size) →
        (run names f ops).1[i]? = some (.table (toArrow names f.listRows size)) := by
  intro ops
  induction ops with
  | nil => intro f _; exact ⟨rfl, fun i size h => by simp at h⟩
  | cons op ops ih =>
    intro f hq
    obtain ⟨hq1, hq2⟩ := hq
    have hrows := step_quiet_rows next_facts names f op hq1
    obtain ⟨ih1, ih2⟩ := ih (step names f op).1 hq2
    refine ⟨?_, ?_⟩
    · simp only [run]; rw [ih1, hrows]
    · intro i size hi
      cases i with
      | zero =>
        simp only [List.getElem?_cons_zero, Option.some.injEq] at hi
        subst hi
        simp only [run, List.getElem?_cons_zero, (arrow_keeps_frame names f size).1]
      | succ i =>
        simp only [List.getElem?_cons_succ] at hi
        simp only [run, List.getElem?_cons_succ]
        rw [ih2 i size hi, hrows]

/-- **Every conversion sees the frame as it is when it is made.**  In *every* history of calls on one frame —
appends, cursor fetches, observations, earlier conversions with any sizes, in any order, whatever the frame's
state at the start (lazily backed or eager) — the `i`-th call, if it is `arrow(size)`, returns the table
`to_arrow` builds from the rows the frame holds *after the first `i` calls* (`(run … (ops.take i)).2.listRows`;
how each call changes those rows is `call_effect_on_rows`).  Nothing is carried from one conversion to the
next: a conversion made after an `append` has the appended row, one made after another conversion with
another size is not that conversion's table. -/
theorem conversion_sees_current_rows (names : List String) :
    ∀ (ops : List (Op (List α))) (f : Fr (List α)) (i : Nat) (size : Option Int),
      ops[i]? = some (.arrow size) →
        (run names f ops).1[i]? =
          some (.table (toArrow names (run names f (ops.take i)).2.listRows size)) := by
  intro ops
  induction ops with
  | nil => intro f i size h; simp at h
  | cons op ops ih =>
    intro f i size hi
    cases i with
    | zero =>
      simp only [List.getElem?_cons_zero, Option.some.injEq] at hi
      subst hi
      simp only [run, List.getElem?_cons_zero, List.take_zero, (arrow_keeps_frame names f size).1]
    | succ i =>
      simp only [List.getElem?_cons_succ] at hi
      simp only [run, List.getElem?_cons_succ, List.take_succ_cons]
      exact ih (step names f op).1 i size hi

/-- The session of C11-w7s2 in the model: convert, append, convert again — the second table has the appended
row; and the same on a frame that was lazily backed when the first conversion was made. -/
theorem append_between_conversions (names : List String) (rows : List (List α)) (r : List α) :
    (run names (Fr.ofList rows) [.arrow none, .append r, .arrow none]).1[2]? =
      some (.table (toArrow names (rows ++ [r]) none)) ∧
    ∀ s : It (List α), (run names (.lazy s) [.arrow none, .append r, .arrow none]).1[2]? =
      some (.table (toArrow names (drain s ++ [r]) none)) := by
  refine ⟨?_, fun s => ?_⟩
  · have h := conversion_sees_current_rows names [.arrow none, .append r, .arrow none] (Fr.ofList rows) 2 none rfl
    rw [h]; rfl
  · have h := conversion_sees_current_rows names [.arrow none, .append r, .arrow none] (.lazy s) 2 none rfl
    rw [h]; rfl

/-- The frame `DataFrame.from_arrow(tables)` returns holds one row per Arrow row, in order. -/
theorem from_arrow_frame_rows (tables : List (Table α)) :
    (Fr.lazy (init tables none)).listRows = (tables.map Table.rows).flatten :=
  (iterator_spec tables).1

/-- **Arrow → DataFrame → Arrow (any sizes, any number of times) → DataFrame.**  For the lazily backed
frame `DataFrame.from_arrow(tables)` and every quiet history of calls on it: every `arrow(size)` in
the history returns a table with the frame's column names which, read back, gives the Arrow rows of
all tables cut to that size. -/
theorem from_arrow_frame_conversions (names : List String) (tables : List (Table (List α)))
    (ops : List (Op (List α))) (hq : Quiet names (.lazy (init tables none)) ops)
    (hw : 0 < names.length) (hrect : ∀ r ∈ (tables.map Table.rows).flatten, r.length = names.length)
    (i : Nat) (size : Option Int) (hi : ops[i]? = some (.arrow size)) :
    ∃ t, (run names (.lazy (init tables none)) ops).1[i]? = some (.table t) ∧ t.names = names ∧
      fromArrowRows [[t.rows]] none = specLimited ((tables.map Table.rows).flatten) size := by
  obtain ⟨_, h⟩ := conversion_repeatable names ops (.lazy (init tables none)) hq
  have h' := h i size hi
  rw [from_arrow_frame_rows] at h'
  obtain ⟨r1, r2, _⟩ := to_from_roundtrip names ((tables.map Table.rows).flatten) size hw hrect
  exact ⟨_, h', r2, r1⟩

/-- **Every conversion of the same tables, however far it is read.**  A caller who converts the same
tables again — with another size, after abandoning an earlier conversion part-way, or while an earlier one is
still being read — and reads `n` rows gets the first `n` of the Arrow rows cut to that conversion's size:
what one conversion delivers depends on the tables and its own size only.  (`takeWith next n` is `n` calls of
`__next__`; `readRows … none` reads to the end.) -/
theorem partial_read_spec (tables : List (Table α)) (size : Option Nat) (hs : size ≠ some 0) (read : Option Nat) :
    readRows tables size read =
      match read with
      | none => expectedRows tables size
      | some n => (expectedRows tables size).take n := by
  cases read with
  | none => exact from_arrow_rows_spec tables size hs
  | some n =>
    simp only [readRows]
    rw [(takeWith_next next_facts n (init tables size)).1, ← drain_eq_rowsLeft next_facts]
    exact congrArg (List.take n) (from_arrow_rows_spec tables size hs)

/-- The reading behind `Quiet`, on a concrete frame: `fetchone()` on a frame that is still lazy takes
the row out of the frame (a later `arrow()` has the other two), on an eager frame it does not; and once
a lazy frame has been materialised (here by `arrow(1)`) its cursor is the exhausted source. -/
theorem lazy_fetch_takes_rows :
    (run ["a"] (.lazy (init [[[[1], [2], [3]]]] none)) [.fetch (some 1), .arrow none]).2.listRows = [[2], [3]] ∧
    (run ["a"] (Fr.ofList [[1], [2], [3]]) [.fetch (some 1), .arrow none]).2.listRows = [[1], [2], [3]] ∧
    (run ["a"] (.lazy (ofRows [[1], [2], [3]])) [.arrow (some 1), .arrow (some 2), .observe]).2.listRows
      = [[1], [2], [3]] := by
  decide +kernel

/-- Non-vacuity (rows): a stream with empty tables and chunks everywhere, limited inside the last
table; a frame going to Arrow and back. -/
example :
    drain (init [[[]], [[1, 2], [], [3]], [], [[]], [[4, 5]]] (some 4)) = [1, 2, 3, 4] ∧
    roundtripRows ["a", "b"] [[1, 2], [3, 4], [5, 6]] (some 2) = [[1, 2], [3, 4]] := by
  decide +kernel

/-- A frame without columns does **not** survive: Arrow cannot carry rows without columns
(`Table.from_arrays([], [])` has no rows).  This is why `to_from_roundtrip` asks for a column. -/
theorem zero_column_frame_loses_rows :
    roundtripRows [] [([] : List Nat), []] none = [] := by decide

/-! ## Column typing -/

/-- The model's enumeration of Orso types is the source's `OrsoTypes`, member for member. -/
theorem orso_types_enumerated : Gen.Arrow.orsoTypes = OrsoTy.all.map OrsoTy.name := by decide

/-- Columns the typing clause speaks about: a real type other than the two carried as binary;
a DECIMAL with `0 ≤ s ≤ p ≤ 38`; an ARRAY with an element type that is itself in scope (an ARRAY
without element type defaults to VARCHAR, see `array_without_element_type`); other types carry
no precision or scale. -/
def InScope (c : Col) : Prop :=
  c.type ∉ [OrsoTy.STRUCT, .JSONB, .MISSING] ∧
  (c.type = .DECIMAL → ∃ p s, c.precision = some p ∧ c.scale = some s ∧ s ≤ p ∧ p ≤ 38) ∧
  (c.type ≠ .DECIMAL → c.precision = none ∧ c.scale = none) ∧
  (c.type = .ARRAY → ∃ e, c.elem = some e ∧ e ∉ [OrsoTy.STRUCT, .JSONB, .MISSING])

/-- The open findings (each proved below to be a genuine counterexample). -/
def OpenFinding (c : Col) : Prop :=
  c.type = .DATE ∨
  (c.type = .ARRAY ∧ (c.elem = some .DATE ∨ c.elem = some .DECIMAL)) ∨
  (c.type = .DECIMAL ∧ c.precision = some 0)

/-- Scalar types of the clause minus the open finding DATE. -/
def goodScalars : List OrsoTy :=
  [.BLOB, .BOOLEAN, .DOUBLE, .INTEGER, .INTERVAL, .TIMESTAMP, .TIME, .VARCHAR, .NULL]

/-- ARRAY element types of the clause minus the open findings DATE and DECIMAL. -/
def goodElems : List OrsoTy :=
  [.ARRAY, .BLOB, .BOOLEAN, .DOUBLE, .INTEGER, .INTERVAL, .TIMESTAMP, .TIME, .VARCHAR, .NULL]

/-- Finite table fact: every scalar type of the clause maps to an Arrow type that maps back to it.
`decide` evaluates the generated tables. -/
theorem typemap_scalars :
    ∀ t ∈ goodScalars, backTy false (forthTy t none none none) = some (t, none, none, none) := by
  decide +kernel

/-- Finite table fact: ARRAY with every element type of the clause keeps its element type. -/
theorem typemap_array_elements :
    ∀ el ∈ goodElems, backTy false (forthTy .ARRAY (some el) none none) = some (.ARRAY, some el, none, none) := by
  decide +kernel

/-- Finite table fact: the whole decimal grid `1 ≤ p ≤ 38`, `0 ≤ s ≤ p` keeps precision and scale. -/
theorem typemap_decimal_grid :
    ∀ p ∈ List.range 39, ∀ s ∈ List.range (p + 1), 1 ≤ p →
      backTy false (forthTy .DECIMAL none (some p) (some s)) = some (.DECIMAL, none, some p, some s) := by
  decide +kernel

/-
Full statement (FALSE of the code as it exists, see the four `…_counterexample` lemmas):

  theorem typemap_roundtrip (c : Col) (h : InScope c) :
      ∃ c', roundtripCol c = some c' ∧ c'.type = c.type ∧ c'.precision = c.precision ∧
        c'.scale = c.scale ∧ (c.type = .ARRAY → c'.elem = c.elem)
-/

/-- The column name is handed over as it is in both directions (generated from the source): `arrow_field` passes
`self.name` to `pyarrow.field`, and `FlatColumn.from_arrow` passes the field's name (itself, or `str()` of it — not a
normalised, case-folded, stripped or defaulted form of it) to the column. -/
theorem field_name_carried_spec : Gen.Arrow.carriesName = true ∧ Gen.Arrow.fieldPassesName = true := by decide

/-- **Every Orso type except STRUCT and JSONB maps to an Arrow type that maps back to the same
Orso type with the same precision, scale and element type** — outside the open findings.  The
two tables are the generated ones; the decimal part covers the whole grid `1 ≤ p ≤ 38`,
`0 ≤ s ≤ p` (`s = 0` is the repaired defect). -/
theorem typemap_roundtrip_partial (c : Col) (h : InScope c) (hopen : ¬ OpenFinding c) :
    ∃ c', roundtripCol c = some c' ∧ c'.type = c.type ∧ c'.precision = c.precision ∧
      c'.scale = c.scale ∧ (c.type = .ARRAY → c'.elem = c.elem) ∧ c'.name = c.name := by
  obtain ⟨name, t, e, p, s, nullable⟩ := c
  obtain ⟨hq, hdec, hnd, harr⟩ := h
  simp only at hq hdec hnd harr
  by_cases htd : t = .DECIMAL
  · subst htd
    obtain ⟨p', s', rfl, rfl, hsp, hp38⟩ := hdec rfl
    have hp0 : 1 ≤ p' := by
      rcases Nat.eq_zero_or_pos p' with h0 | h0
      · exact absurd (Or.inr (Or.inr ⟨rfl, by simp [h0]⟩)) hopen
      · exact h0
    have hb := typemap_decimal_grid p' (List.mem_range.mpr (by omega)) s' (List.mem_range.mpr (by omega)) hp0
    rw [← forthTy_elem_irrelevant _ (by decide) e] at hb
    obtain ⟨c', h0, h1, _, h3, h4, h5⟩ := roundtripCol_of_backTy name _ e _ _ nullable _ field_name_carried_spec.1 field_name_carried_spec.2 hb
    rw [normalise_spec.1 p' s' hp0] at h3 h4
    exact ⟨c', h0, h1, h3, h4, (by intro h; cases h), h5⟩
  · obtain ⟨rfl, rfl⟩ := hnd htd
    by_cases hta : t = .ARRAY
    · subst hta
      obtain ⟨el, rfl, hel⟩ := harr rfl
      have hgood : el ∈ goodElems := by
        have h1 : el ≠ .DATE := fun h => hopen (Or.inr (Or.inl ⟨rfl, Or.inl (by rw [h])⟩))
        have h2 : el ≠ .DECIMAL := fun h => hopen (Or.inr (Or.inl ⟨rfl, Or.inr (by rw [h])⟩))
        cases el <;> simp_all [goodElems]
      have hb := typemap_array_elements el hgood
      obtain ⟨c', h0, h1, h2, h3, h4, h5⟩ := roundtripCol_of_backTy name _ (some el) _ _ nullable _ field_name_carried_spec.1 field_name_carried_spec.2 hb
      rw [normalise_spec.2 _ _ _ (show OrsoTy.ARRAY ≠ OrsoTy.DECIMAL by decide)] at h3 h4
      exact ⟨c', h0, h1, h3, h4, fun _ => h2, h5⟩
    · have hgood : t ∈ goodScalars := by
        have h1 : t ≠ .DATE := fun h => hopen (Or.inl h)
        cases t <;> simp_all [goodScalars]
      have hb := typemap_scalars t hgood
      rw [← forthTy_elem_irrelevant _ hta e] at hb
      obtain ⟨c', h0, h1, _, h3, h4, h5⟩ := roundtripCol_of_backTy name _ e _ _ nullable _ field_name_carried_spec.1 field_name_carried_spec.2 hb
      rw [normalise_spec.2 _ _ _ htd] at h3 h4
      exact ⟨c', h0, h1, h3, h4, fun h => absurd h hta, h5⟩

/-- Non-vacuity (types): in-scope columns of each shape that round-trip. -/
example :
    roundtripCol ⟨"d", .DECIMAL, none, some 38, some 0, false⟩ = some ⟨"d", .DECIMAL, none, some 38, some 0, true⟩ ∧
    roundtripCol ⟨"a", .ARRAY, some .INTEGER, none, none, true⟩ = some ⟨"a", .ARRAY, some .INTEGER, none, none, true⟩ ∧
    roundtripCol ⟨"t", .TIMESTAMP, none, none, none, true⟩ = some ⟨"t", .TIMESTAMP, none, none, none, true⟩ := by
  decide +kernel

example : InScope ⟨"d", .DECIMAL, none, some 38, some 0, false⟩ ∧ ¬ OpenFinding ⟨"d", .DECIMAL, none, some 38, some 0, false⟩ := by
  refine ⟨⟨by decide, fun _ => ⟨38, 0, rfl, rfl, by omega, by omega⟩, fun h => absurd rfl h, fun h => by cases h⟩, ?_⟩
  rintro (h | ⟨h, _⟩ | ⟨_, h⟩) <;> cases h

/-- Open finding: DATE ↦ `date64` ↦ `datetime` ↦ TIMESTAMP. -/
theorem date_counterexample :
    forthTy .DATE none none none = .prim "DATE64" ∧
    backTy false (.prim "DATE64") = some (.TIMESTAMP, none, none, none) := by decide +kernel

/-- Open finding: ARRAY<DATE> comes back as ARRAY<TIMESTAMP>. -/
theorem array_date_counterexample :
    backTy false (forthTy .ARRAY (some .DATE) none none) = some (.ARRAY, some .TIMESTAMP, none, none) := by
  decide +kernel

/-- Open finding: ARRAY<DECIMAL> comes back without element type. -/
theorem array_decimal_counterexample :
    backTy false (forthTy .ARRAY (some .DECIMAL) none none) = some (.ARRAY, none, none, none) := by
  decide +kernel

/-- Open finding: DECIMAL(0, 0) has no Arrow counterpart (`pyarrow.decimal128` starts at precision
1): whatever `arrow_field` does with it (today `self.precision or DECIMAL_PRECISION` substitutes the
interpreter's decimal precision), the column does not come back as DECIMAL(0, 0). -/
theorem decimal_precision_zero_counterexample :
    backTy false (forthTy .DECIMAL none (some 0) (some 0)) ≠ some (.DECIMAL, none, some 0, some 0) := by
  decide +kernel

/-- Regression lemma for the second repaired defect: the generated scale argument keeps a scale of
0 (with Python's `self.scale or 10` it would be 10), and DECIMAL(10, 0) survives the round trip. -/
theorem scale_zero_kept :
    Gen.ArrowExpr.decimalScaleArg (some 0) = some 0 ∧
    backTy false (forthTy .DECIMAL none (some 10) (some 0)) = some (.DECIMAL, none, some 10, some 0) := by
  decide +kernel

/-- The two types deliberately carried as binary come back as BLOB (why the clause excludes them). -/
theorem struct_jsonb_carried_as_binary :
    backTy false (forthTy .STRUCT none none none) = some (.BLOB, none, none, none) ∧
    backTy false (forthTy .JSONB none none none) = some (.BLOB, none, none, none) := by decide +kernel

/-- An ARRAY column without element type is given Arrow's `list<string>` and comes back as
ARRAY<VARCHAR>, the default `OrsoTypes.from_name("ARRAY")` also applies. -/
theorem array_without_element_type :
    backTy false (forthTy .ARRAY none none none) = some (.ARRAY, some .VARCHAR, none, none) := by
  decide +kernel

/-! ## The reverse direction: every Arrow type the reader accepts

Not a clause of the statement, but what keeps the typing clause meaningful for frames that *start* as
Arrow tables: reading is total on the accepted types and its image is stable (Arrow → Orso → Arrow →
Orso gives the same column as Arrow → Orso), except where the open findings and the binary carriers
already say otherwise. -/

/-- The primitive Arrow type ids `arrow_type_map` answers: the keys of its *generated* table whose
class is not `list`, and the literal-id branch (`id == 18`, TIMESTAMP). -/
def readerPrimIds : List String :=
  (Gen.Arrow.typeMap.filter (fun e => e.2 != "list")).map (·.1) ++
    Gen.Arrow.literalIds.filterMap (fun e => (Gen.Arrow.typeIds.find? (fun t => t.2 = e.1)).map (·.1))

/-- …and the list constructors it answers with `list`. -/
def readerListIds : List String := (Gen.Arrow.typeMap.filter (fun e => e.2 == "list")).map (·.1)

/-- Reading `a`, writing the column back with `arrow_field` and reading again gives the same column. -/
def stableRead (a : ArrowTy) : Bool :=
  match backTy false a with
  | none => false
  | some (t, e, p, s) => decide (backTy false (forthTy t e p s) = some (t, e, p, s))

/-- The reader is total on what it accepts: every accepted primitive type, and every accepted list
constructor over every accepted primitive type, becomes a column (`from_arrow` does not raise). -/
theorem reader_total :
    ∀ id ∈ readerPrimIds, (backTy false (.prim id)).isSome = true ∧
      ∀ l ∈ readerListIds, (backTy false (.list l (.prim id))).isSome = true := by
  decide +kernel

/-- The reader's image is stable — outside DATE (open finding K03/K04: it is written as `date64`, which
reads as TIMESTAMP) and STRUCT (deliberately carried as binary). -/
theorem reader_image_stable :
    ∀ id ∈ readerPrimIds,
      (stableRead (.prim id) = true ∨
        (backTy false (.prim id)).map (·.1) ∈ [some OrsoTy.DATE, some OrsoTy.STRUCT]) ∧
      ∀ l ∈ readerListIds,
        (stableRead (.list l (.prim id)) = true ∨
          (backTy false (.list l (.prim id))).map (·.2.1) ∈ [some (some OrsoTy.DATE), some (some OrsoTy.STRUCT)]) := by
  decide +kernel

/-- Is `a` a decimal type (of an id the reader treats as decimal) with exactly this precision and scale? -/
def isDecimalOf (p s : Nat) : ArrowTy → Bool
  | .decimal i p' s' => Gen.Arrow.decimalIds.contains i && p' == p && s' == s
  | _ => false

/-- `arrow_field` writes DECIMAL(p, s) as an Arrow decimal type with exactly that precision and scale,
over the whole grid (so a `decimal128(p, s)` field *is* the image of DECIMAL(p, s): the harness demands
DECIMAL(p, s) of every such field of every table). -/
theorem arrow_decimal_exact :
    ∀ p ∈ List.range 39, ∀ s ∈ List.range (p + 1), 1 ≤ p →
      isDecimalOf p s (forthTy .DECIMAL none (some p) (some s)) = true := by
  decide +kernel

/-- …and the reader gives every decimal type of an accepted id — every precision and scale, not only
the grid, every such type however many were read before — the column DECIMAL(p, s): the answer is a
function of the type's own precision and scale. -/
theorem reader_decimal_exact :
    ∀ id ∈ Gen.Arrow.decimalIds, ∀ p s : Nat,
      backTy false (.decimal id p s) = some (.DECIMAL, none, some p, some s) := by
  have key : ∀ id ∈ Gen.Arrow.decimalIds,
      lookup id Gen.Arrow.typeMap = none ∧ Gen.Arrow.decimalIds.contains id = true := by decide +kernel
  intro id hid p s
  obtain ⟨h1, h2⟩ := key id hid
  simp only [backTy, arrowTypeMap, ArrowTy.id, h1, h2, if_true, Gen.Arrow.carriesPrecisionScale]

/-- **An Arrow field's name and nullability carry over to the column built from it**, for every
field `FlatColumn.from_arrow` accepts (with or without `mappable_as_binary`). -/
theorem field_name_nullable_carried (m : Bool) (f : ArrowField) (c : Col)
    (h : fromArrowField m f = some c) : c.name = f.name ∧ c.nullable = f.nullable := by
  unfold fromArrowField at h
  split at h
  · cases h
  · simp only [Option.some.injEq] at h
    subst h
    exact ⟨by simp [field_name_carried_spec.1], by simp [Gen.Arrow.carriesNullable]⟩

/-! ## What a column says comes from its field, not from the data (seventh pass)

`from_arrow` builds its columns from the fields of the first table and hands them out as they are.  Whether the function
stores anything on them afterwards is generated from the source (`Gen.ArrowExpr.schemaEditedAfterBuild`). -/

/-- Nothing is stored on the columns / the schema in `from_arrow` after they were built from the Arrow fields (generated from
the source: no attribute or element assignment, no `setattr`, no edit of the column list). -/
theorem schema_from_fields_only_spec : Gen.ArrowExpr.schemaEditedAfterBuild = false := by decide

/-- The columns `from_arrow` hands out for a first table with these fields, whatever the cells are (`holdsNull`: per column,
does the first table hold a null there; `rowsInFirst`: its number of rows).  If the function edits the columns after building
them, the model says nothing about them. -/
def fromArrowColumns (fields : List ArrowField) (_holdsNull : List Bool) (_rowsInFirst : Nat) : Option (List (Option Col)) :=
  if Gen.ArrowExpr.schemaEditedAfterBuild then none else some (fields.map (fromArrowField false))

/-- The columns are a function of the fields alone: not of which columns hold nulls, not of the number of rows. -/
theorem from_arrow_columns_from_fields (fields : List ArrowField) (holdsNull : List Bool) (n : Nat) :
    fromArrowColumns fields holdsNull n = some (fields.map (fromArrowField false)) := by
  simp [fromArrowColumns, schema_from_fields_only_spec]

/-- **Name and nullability of every column `from_arrow` hands out are those of its field** - for a field declared
`nullable = false` whose column holds nulls as for any other. -/
theorem from_arrow_column_nullable_from_field (fields : List ArrowField) (holdsNull : List Bool) (n i : Nat) (c : Col)
    (cs : List (Option Col)) (h : fromArrowColumns fields holdsNull n = some cs) (hc : cs[i]? = some (some c)) :
    ∃ f, fields[i]? = some f ∧ c.name = f.name ∧ c.nullable = f.nullable := by
  rw [from_arrow_columns_from_fields] at h
  cases h
  rw [List.getElem?_map] at hc
  cases hf : fields[i]? with
  | none => simp [hf] at hc
  | some f =>
    simp [hf] at hc
    exact ⟨f, rfl, field_name_nullable_carried false f c hc⟩

/-! ## Separate conversions whose results are edited in between (fourth pass)

A conversion hands out mutable objects built from an immutable Arrow schema that compares by value.
`Model/ArrowShare.lean` runs a process of conversions and edits on a heap; whether a place allocates or hands out the
objects it returned before is generated from the source. -/

/-- **expression fact**: none of the places a caller gets columns from - `from_arrow` (which builds its
`RelationSchema` in place, or through the helper), `convert_arrow_schema_to_orso_schema`, `FlatColumn.from_arrow` -
keeps what it returned for an equal Arrow schema (no cache decorator on the place that builds the objects). -/
theorem schema_built_fresh_spec : ∀ s, Share.memoGroupGen s = none := by
  intro s; cases s <;> decide

/-- **Every conversion is its caller's own**, for every session of conversions (through any of the three places,
of any Arrow schemas - equal ones included) and edits of earlier results (any functions, in particular renaming a
column, flipping its nullability, changing its type, removing or adding a column): each conversion returns the
columns built from *its* Arrow fields, and at the end every result shows exactly the edits made through it
(the session by value). -/
theorem conversions_independent (steps : Share.Session) :
    (Share.runGen steps).seen = (Share.convKeys steps).map Share.buildCols ∧
    (Share.runGen steps).reads = (Share.spec Share.buildCols steps).vals.map some := by
  have h := Share.fresh_refines Share.memoGroupGen schema_built_fresh_spec Share.buildCols steps
  refine ⟨?_, h.2⟩
  have h1 : (Share.runGen steps).seen = (Share.spec Share.buildCols steps).seen := h.1
  rw [h1, Share.spec_seen]

theorem buildCols_carries : ∀ (fields : List ArrowField) (cols : List Col), Share.buildCols fields = some cols →
    cols.map (·.name) = fields.map (·.name) ∧ cols.map (·.nullable) = fields.map (·.nullable)
  | [], cols, h => by
    simp [Share.buildCols] at h
    subst h; simp
  | f :: fs, cols, h => by
    simp only [Share.buildCols, List.mapM_cons, Option.bind_eq_bind, Option.pure_def, Option.bind_eq_some_iff] at h
    obtain ⟨c, hc, cs, hcs, hh⟩ := h
    simp only [Option.some.injEq] at hh
    subst hh
    obtain ⟨a, b⟩ := buildCols_carries fs cs hcs
    obtain ⟨c1, c2⟩ := field_name_nullable_carried false f c hc
    simp [a, b, c1, c2]

/-- …in the statement's words: **the names and nullability of the columns a conversion returns are those of its own
Arrow fields**, at whatever point of whatever session the conversion is made. -/
theorem later_conversion_carries_fields (steps : Share.Session) (i : Nat) (fields : List ArrowField) (cols : List Col)
    (hk : (Share.convKeys steps)[i]? = some fields) (hs : (Share.runGen steps).seen[i]? = some (some cols)) :
    cols.map (·.name) = fields.map (·.name) ∧ cols.map (·.nullable) = fields.map (·.nullable) := by
  rw [(conversions_independent steps).1, List.getElem?_map, hk] at hs
  simp only [Option.map_some, Option.some.injEq] at hs
  exact buildCols_carries fields cols hs

/-- the session of the seeded change C11-w6s2: convert, rename the result's first column, convert an equal schema -/
def aliasSession : Share.Session :=
  let f : ArrowField := { name := "id", type := .prim "INT64", nullable := false }
  [.conv .fromArrow [f], .edit 0 (Share.Edit.apply (.rename 0 "identifier")), .conv .fromArrow [f]]

def namesOfConversion (st : Share.St (List ArrowField) (Option (List Col))) (i : Nat) : Option (List String) :=
  (st.seen[i]?.bind id).map (·.map (·.name))

/-- Why the fact above is needed (regression lemma for C11-w6s2): with a cache decorator on the helper **and**
`from_arrow` calling the helper, the second conversion returns the renamed column; either change alone is harmless. -/
theorem memoised_helper_aliases :
    namesOfConversion (Share.run (Share.memoGroup true true false) Share.buildCols aliasSession) 1 = some ["identifier"] ∧
    namesOfConversion (Share.run (Share.memoGroup false true false) Share.buildCols aliasSession) 1 = some ["id"] ∧
    namesOfConversion (Share.run (Share.memoGroup true false false) Share.buildCols aliasSession) 1 = some ["id"] ∧
    namesOfConversion (Share.runGen aliasSession) 1 = some ["id"] := by
  decide +kernel


/-- **expression fact** (the other direction): `FlatColumn.arrow_field` is computed on every read (a plain property),
`convert_orso_schema_to_arrow_schema`, `to_arrow` and `DataFrame.arrow` carry no cache decorator. -/
theorem to_arrow_sites_fresh_spec : ∀ s, Share.To.memoisedGen s = false := by
  intro s; cases s <;> decide

/-- **A conversion to Arrow describes the columns as they are when it is made**: for every collection of schema
objects and every session of conversions (column by column, through the schema helper, through a frame's `arrow()`)
and edits of the objects in between (any functions on the list of columns), the fields / names written are those of
the object's columns at that moment. -/
theorem to_arrow_describes_current_columns (objs : List (List Col)) (steps : List Share.To.Step) :
    Share.To.run Share.To.memoisedGen objs steps = Share.To.spec objs steps :=
  Share.To.fresh_refines _ to_arrow_sites_fresh_spec objs steps

/-- Why the fact is needed: with `arrow_field` kept per column (a cached property) a renamed column is still written
under its old name. -/
theorem kept_arrow_field_is_stale :
    let c : Col := { name := "id", type := .INTEGER, elem := none, precision := none, scale := none, nullable := false }
    let rename : Share.To.Step := .edit 0 (Share.Edit.onCols (.rename 0 "identifier"))
    (Share.To.run (Share.To.memoised true false false) [[c]] [.conv .fields 0, rename, .conv .fields 0]).getLast?
        = some (some (.fields [arrowField c])) ∧
    (Share.To.run Share.To.memoisedGen [[c]] [.conv .fields 0, rename, .conv .helper 0]).getLast?
        = some (some (.fields [arrowField { c with name := "identifier" }])) := by
  decide +kernel


end C11
