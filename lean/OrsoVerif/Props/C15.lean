import OrsoVerif.Lemmas.Profile
import OrsoVerif.Lemmas.ProfileOrder
import OrsoVerif.Lemmas.ProfileTime
import OrsoVerif.Lemmas.ProfileGlue
/-!
# C15 — Column profiles report exact counts, extremes and frequencies

Property theorems only (helper lemmas are in `Lemmas/Profile.lean`).  A column is a
`List (Option α)` (`none` = null) of any length.  The element order, the integer a value is reported
as (`key`), and the hash function of the sketch are parameters of the model; the hypotheses under
which each clause holds are stated explicitly:

* `TotalPreorder le` — Python's `<=` on the column's values is total and transitive (true of floats
  without NaN, of text, of epoch seconds);
* `StrictTotal lt` — `<` is asymmetric and any two different values are comparable;
* `Monotone le key` — the reported integer is monotone in the order (truncation toward zero of a
  number, the identity on epoch seconds, the repaired `string_to_int64` on text);
* **no** hypothesis on the hash function: below the sketch size the sketch keeps one entry per distinct
  value even when hashes collide; above it the sketch is the `KVM_SIZE` smallest hashes.

The model is assembled from `Gen.ProfileExpr` (expressions translated from the source on every run).  The
theorems whose names end in `_expressions` / `_source` say what those generated expressions compute; they
are the ones that stop checking when an operator, operand, constant, statement order or data source in
`profiler.py` changes meaning.
-/
namespace C15
open Profile

variable {α : Type}

structure TotalPreorder (le : α → α → Bool) : Prop where
  total : ∀ a b, le a b = true ∨ le b a = true
  trans : ∀ a b c, le a b = true → le b c = true → le a c = true

structure StrictTotal (lt : α → α → Bool) : Prop where
  asymm : ∀ a b, lt a b = true → lt b a = false
  connected : ∀ a b, a ≠ b → lt a b = true ∨ lt b a = true

def Monotone (le : α → α → Bool) (key : α → Int) : Prop := ∀ a b, le a b = true → key a ≤ key b

/-- An ascent / a descent somewhere between neighbours. -/
def Ascends (lt : α → α → Bool) (vs : List α) : Prop := ∃ p ∈ adj vs, lt p.1 p.2 = true
def Descends (lt : α → α → Bool) (vs : List α) : Prop := ∃ p ∈ adj vs, lt p.2 p.1 = true

/-! ## non-vacuity (kept ahead of the theorems: an `example` that stops evaluating is reported on its own,
not as the failure of the theorem that happens to precede it) -/

/-- The order hypotheses are satisfiable (integers), the monotone key too. -/
example : TotalPreorder (fun a b : Int => decide (a ≤ b)) ∧ StrictTotal (fun a b : Int => decide (a < b))
    ∧ Monotone (fun a b : Int => decide (a ≤ b)) id :=
  ⟨⟨by intro a b; simp only [decide_eq_true_eq]; omega, by intro a b c; simp only [decide_eq_true_eq]; omega⟩,
   ⟨by intro a b; simp only [decide_eq_true_eq, decide_eq_false_iff_not]; omega,
    by intro a b; simp only [decide_eq_true_eq]; omega⟩,
   by intro a b; simp⟩

/-- A concrete column with a null, a zero and a negative; a cut; frequencies with a tie; the order
indicators of ascending, descending, constant and unsorted data. -/
example :
    core (fun a b : Int => decide (a ≤ b)) id [some 3, none, some 0, some (-2), some 3]
      = { count := 5, missing := 1, minimum := some (-2), maximum := some 3 } ∧
    addCore (core (fun a b : Int => decide (a ≤ b)) id [some 0, some 5])
        (core (fun a b : Int => decide (a ≤ b)) id [none, some 3])
      = core (fun a b : Int => decide (a ≤ b)) id [some 0, some 5, none, some 3] ∧
    mfv 2 [1, 2, 2, 3, 3, 1, 3] = [(3, 3), (1, 2)] ∧
    kmv (fun _ : Nat => 7) 4 [5, 6, 5] = [7, 7] ∧
    estimateCardinality 4 (kmv (fun _ : Nat => 7) 4 [5, 6, 5]) = some 2 ∧
    orderAndTransitions (fun a b : Int => decide (a < b)) [1, 1, 2, 5] = some (some 1, 2) ∧
    orderAndTransitions (fun a b : Int => decide (a < b)) [5, 2, 2] = some (some (-1), 1) ∧
    orderAndTransitions (fun a b : Int => decide (a < b)) [4, 4] = some (none, 0) ∧
    orderAndTransitions (fun a b : Int => decide (a < b)) [1, 3, 2] = some (some 0, 2) ∧
    batched (core (fun a b : Int => decide (a ≤ b)) id) 2 [some 1, none, some 0, some 4, some (-1)]
      = some { count := 5, missing := 1, minimum := some (-1), maximum := some 4 } := by decide

/-- Numbers as the driver instantiates them: truncation toward zero on both sides of zero. -/
example :
    truncRat (mkRat (-7) 2) = -3 ∧ truncRat (mkRat 7 2) = 3 ∧ truncRat (mkRat (-1) 2) = 0 ∧
    (profileNumeric { le := ratLe, lt := ratLt, key := truncRat, hash := fun _ => 1 }
        [some (mkRat (-7) 2), none, some 0]).core
      = { count := 3, missing := 1, minimum := some (-3), maximum := some 0 } := by decide

/-- The generated `__add__` expressions on a present 0, the byte order and the key on short strings
("ab" < "b"), the heap loop above the sketch size. -/
example :
    optMin (some 0) (some 3) = some 0 ∧ optMin none (some 3) = some 3 ∧ optMax (some (-5)) (some 0) = some 0 ∧
    optMin none none = none ∧
    bytesLe [97, 98] [98] = true ∧ bytesLt [97] [97, 0] = true ∧ keyVal 8 [97, 98] < keyVal 8 [98] ∧
    kmv (fun n : Nat => 100 - n) 2 [5, 60, 7, 30] = [40, 70] := by decide

/-- The histogram comprehension (a zero count is dropped, the mass stays), `to_batches` by index arithmetic,
the states of one frame object under `append` and the reads of its profile, ties in the most-frequent list, a
hash-de-duplicating sketch next to the source's. -/
example :
    histogramOf [2, 0, 3] [10, 20, 30, 40] = [(10, 2), (30, 3)] ∧ histMass (histogramOf [2, 0, 3] [10, 20, 30, 40]) = 5 ∧
    toBatches 2 [1, 2, 3, 4, 5] = [[1, 2], [3, 4], [5]] ∧ toBatches 2 ([] : List Nat) = [] ∧
    frameStates [1] [[2], [], [3, 4]] = [[1], [1, 2], [1, 2], [1, 2, 3, 4]] ∧
    profileReads List.length [1] [[2], [], [3, 4]] = [1, 2, 2, 4] ∧
    mfv 2 [5, 7, 9, 7, 5, 9] = [(5, 2), (7, 2)] ∧
    kmvByHashes (fun n : Nat => n % 2) 4 [1, 3, 2] = [0, 1] ∧ kmv (fun n : Nat => n % 2) 4 [1, 3, 2] = [0, 1, 1] := by decide

/-! ## how the per-type profilers are wired to the helpers -/

/-- **What `DateProfiler` copies from the numeric profile of the epoch seconds** (the generated table of its
`self.profile.F = numeric_profile.G` statements): minimum from minimum, maximum from maximum, the most-frequent
list (values and counts) and the sketch; count and missing are its own.  (Swap or drop one of the two extreme
copies and this stops checking.  The order and transition indicators are not copied on the repaired tree; the
statement does not cover them for temporal columns, so copying them too changes nothing here.) -/
theorem temporal_copies_expressions [DecidableEq α] (p : Ops α) (xs : List (Option α)) :
    (profileTemporal p xs).core = { (profileNumeric p xs).core with
      count := xs.length, missing := xs.length - (present xs).length } ∧
    (profileTemporal p xs).mfv = (profileNumeric p xs).mfv ∧
    (profileTemporal p xs).kmv = (profileNumeric p xs).kmv := by
  have hx : ∀ c : Core, copiedExtreme c "minimum" = c.minimum ∧ copiedExtreme c "maximum" = c.maximum :=
    fun c => ⟨rfl, rfl⟩
  have hc : copiesField "most_frequent_values" = true ∧ copiesField "most_frequent_counts" = true ∧
      copiesField "kmv_hashes" = true := by
    decide
  obtain ⟨a, b, c⟩ := hc
  refine ⟨?_, ?_, ?_⟩ <;> simp [profileTemporal, hx, a, b, c]

/-- The shape of every typed profiler's core, whatever the generated sources of the extremes are. -/
theorem profilers_core_shape [DecidableEq α] (p : Ops α) (cut : α → α) (xs : List (Option α)) :
    (profileNumeric p xs).core
      = coreFrom Gen.ProfileExpr.numericMinimumSource Gen.ProfileExpr.numericMaximumSource p.le p.key xs ∧
    (profileTemporal p xs).core
      = coreFrom Gen.ProfileExpr.numericMinimumSource Gen.ProfileExpr.numericMaximumSource p.le p.key xs ∧
    (profileText p cut xs).core
      = coreFrom Gen.ProfileExpr.textMinimumSource Gen.ProfileExpr.textMaximumSource p.le p.key
          (xs.map (Option.map cut)) := by
  have hpm : present (xs.map (Option.map cut)) = (present xs).map cut := by
    induction xs with
    | nil => simp [present]
    | cons x xs ih => cases x <;> simp_all [present]
  refine ⟨?_, ?_, ?_⟩
  · cases hp : present xs <;> simp [profileNumeric, orderAndTransitions, hp]
  · rw [(temporal_copies_expressions p xs).1]
    cases hp : present xs <;> simp [profileNumeric, orderAndTransitions, hp, coreFrom]
  · unfold profileText
    cases hp : present xs with
    | nil =>
      simp only [List.map_nil, orderAndTransitions]
      cases Gen.ProfileExpr.textMinimumSource <;> cases Gen.ProfileExpr.textMaximumSource <;>
        simp [coreFrom, coreCounts, hpm, hp, pickExtreme, minBy, maxBy]
    | cons v vs => simp [orderAndTransitions]

/-- **The reported extremes are computed from the data** (`int(numpy.min(column_data))`,
`int(numpy.max(column_data))`, `string_to_int64(min(column_data))`, `string_to_int64(max(column_data))` in
the source as it is now): minimum from the minimum, maximum from the maximum. -/
theorem extremes_source (le : α → α → Bool) (key : α → Int) (xs : List (Option α)) :
    coreFrom Gen.ProfileExpr.numericMinimumSource Gen.ProfileExpr.numericMaximumSource le key xs = core le key xs ∧
    coreFrom Gen.ProfileExpr.textMinimumSource Gen.ProfileExpr.textMaximumSource le key xs = core le key xs := by
  constructor <;> rfl

/-- **Wiring.** Every per-type profiler reports the core of its column (text: of the prefixes of
`textCutWidth` characters), and — when some value is not null — the most-frequent list, the sketch and the
order indicators of the helper functions at the extracted sizes.  The text sketch sees *whole* values:
hashing comes before the cut in the source (`textHashBeforeCut`). -/
theorem profilers_wiring [DecidableEq α] (p : Ops α) (cut : α → α) (xs : List (Option α)) :
    (profileNumeric p xs).core = core p.le p.key xs ∧
    (profileTemporal p xs).core = core p.le p.key xs ∧
    (profileText p cut xs).core = core p.le p.key (xs.map (Option.map cut)) ∧
    (present xs ≠ [] →
      (profileNumeric p xs).mfv = mfv Gen.Profile.mfvSize (present xs) ∧
      (profileNumeric p xs).kmv = kmv p.hash Gen.Profile.kvmSize (present xs) ∧
      some ((profileNumeric p xs).order, (profileNumeric p xs).transitions) = orderAndTransitions p.lt (present xs) ∧
      (profileTemporal p xs).mfv = mfv Gen.Profile.mfvSize (present xs) ∧
      (profileTemporal p xs).kmv = kmv p.hash Gen.Profile.kvmSize (present xs) ∧
      (profileText p cut xs).mfv = mfv Gen.Profile.mfvSize ((present xs).map cut) ∧
      (profileText p cut xs).kmv = kmv p.hash Gen.Profile.kvmSize (present xs) ∧
      some ((profileText p cut xs).order, (profileText p cut xs).transitions)
        = orderAndTransitions p.lt ((present xs).map cut)) := by
  obtain ⟨h1, h2, h3⟩ := profilers_core_shape p cut xs
  refine ⟨?_, ?_, ?_, ?_⟩
  · rw [h1]; exact (extremes_source _ _ _).1
  · rw [h2]; exact (extremes_source _ _ _).1
  · rw [h3]; exact (extremes_source _ _ _).2
  · intro hne
    have hcut : Gen.ProfileExpr.textHashBeforeCut = true := rfl
    obtain ⟨_, tm, tk⟩ := temporal_copies_expressions p xs
    rw [tm, tk]
    cases hp : present xs with
    | nil => exact absurd hp hne
    | cons v vs =>
      simp [profileNumeric, profileText, orderAndTransitions, hp, hcut]

/-! ## the generated pieces of `get_kvm_hashes`, `find_mfvs` and `DataFrame.to_batches` -/

/-- **`get_kvm_hashes` as it stands in the source**: duplicates are removed from the *values*
(`data = list(set(data))`; `sketchDedup = .values`), the heap is seeded with `data[:size]`, the loop runs over
`data[size:]`, and the replacement test replaces only a hash that is not above the largest kept one and keeps
the heap only when the hash is not below it (`<` as it stands; `<=` would do as well).  (A rewrite that collects
the hashes in a set makes `sketchDedup = .hashes` and this theorem, with every theorem below that rests on it,
stops checking.) -/
theorem sketch_expressions [DecidableEq α] (h : α → Nat) (size : Nat) (vs : List α) :
    Gen.ProfileExpr.sketchDedup = .values ∧
    (∀ hv top, (Gen.ProfileExpr.sketchReplaceTest hv top → hv ≤ top) ∧
      (¬ Gen.ProfileExpr.sketchReplaceTest hv top → top ≤ hv)) ∧
    Gen.ProfileExpr.sketchInitCount size = size ∧ Gen.ProfileExpr.sketchLoopFrom size = size ∧
    kmv h size vs = kmvG (fun hv top => decide (Gen.ProfileExpr.sketchReplaceTest hv top)) size size h vs := by
  refine ⟨rfl, ?_, rfl, rfl, rfl⟩
  intro hv top
  unfold Gen.ProfileExpr.sketchReplaceTest
  omega

/-- The replacement test in the Boolean form the loop lemmas take. -/
theorem sketch_replace_ok (hv m : Nat) :
    (decide (Gen.ProfileExpr.sketchReplaceTest hv m) = true → hv ≤ m) ∧
    (decide (Gen.ProfileExpr.sketchReplaceTest hv m) = false → m ≤ hv) := by
  have := (sketch_expressions (α := Nat) id 0 []).2.1 hv m
  simpa using this

/-- **`find_mfvs` as it stands in the source**: `Counter(data).most_common(top_n)` keeps `top_n` entries. -/
theorem mfv_expressions [DecidableEq α] (n : Nat) (vs : List α) :
    Gen.ProfileExpr.mfvTakeCount n = n ∧ mfv n vs = (sortDesc (tally vs)).take n :=
  ⟨rfl, rfl⟩

/-- **`DataFrame.to_batches` as it stands in the source** (`for i in range(0, self.rowcount, batch_size):
yield rows[i : i + batch_size]`, range and slice bounds generated): for a positive batch size the batches
are the consecutive cuts of `batch_size` rows — their concatenation is the frame, none is empty, none is
longer than `batch_size`. -/
theorem to_batches_expressions {β : Type} (b : Nat) (hb : 0 < b) (xs : List β) :
    toBatches b xs = chunks b xs ∧ (toBatches b xs).flatten = xs ∧
    ∀ c ∈ toBatches b xs, c ≠ [] ∧ c.length ≤ b := by
  have h1 : toBatches b xs = chunks b xs := by
    have := slices_eq_chunksAux b hb xs xs.length 0
    simpa [toBatches, chunks, pyRange, Gen.ProfileExpr.batchRangeStart, Gen.ProfileExpr.batchRangeStop,
      Gen.ProfileExpr.batchRangeStep, Gen.ProfileExpr.batchSliceLo, Gen.ProfileExpr.batchSliceHi] using this
  refine ⟨h1, ?_, ?_⟩
  · rw [h1]; exact chunksAux_flatten b xs.length xs hb (Nat.le_refl _)
  · rw [h1]; exact chunksAux_nonempty b xs.length xs

/-- **The histogram comprehension as it stands in the source** keeps every non-zero count: the filter drops only
zero counts, every count is paired with an edge (`bin_edges[:-1]` has as many entries as `hist_counts`) and the
kept pair carries the count.  So — for the counts and edges of `numpy.histogram` (a parameter; its contract is
`len(edges) = len(counts) + 1` and `sum(counts) = number of values`) — **the histogram counts sum to the number
of non-null values**. -/
theorem histogram_mass {β : Type} (counts : List Nat) (edges : List β) (hlen : edges.length = counts.length + 1) :
    (∀ c, ¬ Gen.ProfileExpr.histKeep c → c = 0) ∧ Gen.ProfileExpr.histKeepsCount = true ∧
    histMass (histogramOf counts edges) = counts.sum := by
  have hk : ∀ c, ¬ Gen.ProfileExpr.histKeep c → c = 0 := by
    intro c; unfold Gen.ProfileExpr.histKeep; omega
  refine ⟨hk, rfl, ?_⟩
  have hes : counts.length ≤ ((edges.drop Gen.ProfileExpr.histEdgesFrom).take
      (edges.length - Gen.ProfileExpr.histEdgesFrom - Gen.ProfileExpr.histEdgesDropRight)).length := by
    simp [Gen.ProfileExpr.histEdgesFrom, Gen.ProfileExpr.histEdgesDropRight, List.length_take]; omega
  unfold histMass histogramOf
  generalize ((edges.drop Gen.ProfileExpr.histEdgesFrom).take
      (edges.length - Gen.ProfileExpr.histEdgesFrom - Gen.ProfileExpr.histEdgesDropRight)) = es at hes
  have hkc : Gen.ProfileExpr.histKeepsCount = true := rfl
  simp only [hkc, if_true, List.map_map]
  have h1 : (((counts.zip es).filter (fun p => decide (Gen.ProfileExpr.histKeep p.1))).map
      (Prod.snd ∘ fun p => (p.2, p.1))) = ((counts.zip es).map Prod.fst).filter (fun c => decide (Gen.ProfileExpr.histKeep c)) := by
    rw [List.filter_map]; rfl
  rw [h1, List.map_fst_zip hes]
  exact sum_filter_of_zero_dropped _ (fun c hc => hk c (by simpa using hc)) counts

/-- **`DataFrame.profile` recomputes on every read** (`@property` alone around `return
TableProfile.from_dataframe(self)`: no cache, nothing stored): successive reads on one frame object, with rows
appended in between, return the profile of the rows the frame holds at each read — the first read included, a
read with nothing appended included. -/
theorem entry_point_recomputes {β γ : Type} (prof : List β → γ) (rows : List β) (appends : List (List β)) :
    Gen.ProfileExpr.profileEntryRecomputes = true ∧
    profileReads prof rows appends = (frameStates rows appends).map prof ∧
    (frameStates rows appends).length = appends.length + 1 ∧
    (frameStates rows appends).getLast? = some (rows ++ appends.flatten) := by
  refine ⟨rfl, rfl, ?_, ?_⟩
  · induction appends generalizing rows with
    | nil => rfl
    | cons c cs ih => simp [frameStates, ih]
  · induction appends generalizing rows with
    | nil => simp [frameStates]
    | cons c cs ih =>
      have hne : frameStates (rows ++ c) cs ≠ [] := by cases cs <;> simp [frameStates]
      simp only [frameStates, List.flatten_cons]
      rw [List.getLast?_cons_of_ne_nil hne, ih, List.append_assoc]

/-! ## count and missing -/

/-- **count = number of rows**, for every profiler (numeric, temporal, text, boolean, list/struct and
untyped). -/
theorem count_eq_length [DecidableEq α] (p : Ops α) (cut : α → α) (xs : List (Option α))
    (bs : List (Option Bool)) :
    (profileNumeric p xs).core.count = xs.length ∧
    (profileTemporal p xs).core.count = xs.length ∧
    (profileText p cut xs).core.count = xs.length ∧
    (profileBoolean bs).core.count = bs.length ∧
    (profileCounts xs).core.count = xs.length := by
  obtain ⟨h1, h2, h3⟩ := profilers_core_shape p cut xs
  rw [h1, h2, h3]
  simp [coreFrom, profileBoolean, profileCounts, coreCounts]

/-- **missing = number of nulls**, for every profiler. -/
theorem missing_eq_nulls [DecidableEq α] (p : Ops α) (cut : α → α) (xs : List (Option α))
    (bs : List (Option Bool)) :
    (profileNumeric p xs).core.missing = xs.countP (fun x => x.isNone) ∧
    (profileTemporal p xs).core.missing = xs.countP (fun x => x.isNone) ∧
    (profileText p cut xs).core.missing = xs.countP (fun x => x.isNone) ∧
    (profileBoolean bs).core.missing = bs.countP (fun x => x.isNone) ∧
    (profileCounts xs).core.missing = xs.countP (fun x => x.isNone) := by
  obtain ⟨h1, h2, h3⟩ := profilers_core_shape p cut xs
  rw [h1, h2, h3]
  have e1 := length_present_add_nulls xs
  have e2 := length_present_add_nulls bs
  have e3 := length_present_add_nulls (xs.map (Option.map cut))
  have e4 : (xs.map (Option.map cut)).countP (fun x => x.isNone) = xs.countP (fun x => x.isNone) := by
    rw [List.countP_map]; congr 1; funext x; cases x <;> rfl
  simp only [coreFrom, profileBoolean, profileCounts, coreCounts, List.length_map] at *
  omega

/-! ## extremes -/

/-- **minimum and maximum are the true extremes**, reported through `key` (for numbers: truncation
toward zero, `truncRat`; for instants: the epoch seconds themselves): when every value is null both
are absent; otherwise some non-null value `lo` is below and some `hi` above every non-null value, and
the profile reports `key lo` and `key hi`. -/
theorem minmax_true (le : α → α → Bool) (key : α → Int) (h : TotalPreorder le)
    (xs : List (Option α)) :
    (present xs = [] → (core le key xs).minimum = none ∧ (core le key xs).maximum = none) ∧
    (present xs ≠ [] → ∃ lo ∈ present xs, ∃ hi ∈ present xs,
      (∀ x ∈ present xs, le lo x = true ∧ le x hi = true) ∧
      (core le key xs).minimum = some (key lo) ∧ (core le key xs).maximum = some (key hi)) := by
  constructor
  · intro he; simp [core, coreFrom, pickExtreme, he, minBy, maxBy]
  · intro hne
    cases hlo : minBy le (present xs) with
    | none => exact absurd ((minBy_eq_none_iff le _).mp hlo) hne
    | some lo =>
      cases hhi : maxBy le (present xs) with
      | none => exact absurd ((maxBy_eq_none_iff le _).mp hhi) hne
      | some hi =>
        obtain ⟨m1, l1⟩ := minBy_spec le h.total h.trans hlo
        obtain ⟨m2, l2⟩ := maxBy_spec le h.total h.trans hhi
        exact ⟨lo, m1, hi, m2, fun x hx => ⟨l1 x hx, l2 x hx⟩, by simp [core, coreFrom, pickExtreme, hlo],
          by simp [core, coreFrom, pickExtreme, hhi]⟩

/-! ## most frequent values -/

/-- **Listed counts are exact**: every listed pair is a value of the column with its exact number of
occurrences, no value is listed twice, and the list has `min(MOST_FREQUENT_VALUE_SIZE, #distinct)`
entries. -/
theorem mfv_counts_exact [DecidableEq α] (vs : List α) :
    (∀ v c, (v, c) ∈ mfv Gen.Profile.mfvSize vs → v ∈ vs ∧ c = vs.count v) ∧
    ((mfv Gen.Profile.mfvSize vs).map Prod.fst).Nodup ∧
    (mfv Gen.Profile.mfvSize vs).length = min Gen.Profile.mfvSize (distinct vs).length := by
  refine ⟨?_, ?_, ?_⟩
  · intro v c hm
    have h1 := List.mem_of_mem_take hm
    have h2 := (sortDesc_perm (tally vs)).mem_iff.mp h1
    exact mem_tally.mp h2
  · unfold mfv
    rw [List.map_take]
    have hp : ((sortDesc (tally vs)).map Prod.fst).Perm (distinct vs) := by
      rw [← map_fst_tally]; exact (sortDesc_perm _).map _
    exact (hp.nodup_iff.mpr (nodup_distinct vs)).sublist (List.take_sublist _ _)
  · rw [(mfv_expressions _ vs).2, List.length_take, (sortDesc_perm _).length_eq]
    simp [tally]

/-- **The listed values are the most frequent ones**: no value of the column that is not listed occurs
more often than a listed one. -/
theorem mfv_are_most_frequent [DecidableEq α] (vs : List α) (v : α) (c : Nat)
    (hl : (v, c) ∈ mfv Gen.Profile.mfvSize vs) (w : α) (hw : w ∈ vs)
    (hu : w ∉ (mfv Gen.Profile.mfvSize vs).map Prod.fst) : vs.count w ≤ c := by
  rw [(mfv_expressions _ vs).2] at hl hu
  have hs := sortDesc_sorted (tally vs)
  rw [← List.take_append_drop Gen.Profile.mfvSize (sortDesc (tally vs))] at hs
  have hpw := List.pairwise_append.mp hs
  have hwt : (w, vs.count w) ∈ sortDesc (tally vs) :=
    (sortDesc_perm (tally vs)).mem_iff.mpr (mem_tally.mpr ⟨hw, rfl⟩)
  rw [← List.take_append_drop Gen.Profile.mfvSize (sortDesc (tally vs))] at hwt
  rcases List.mem_append.mp hwt with h | h
  · exact absurd (List.mem_map.mpr ⟨_, h, rfl⟩) hu
  · exact hpw.2.2 (v, c) hl (w, vs.count w) h

/-- **Ties keep the order of first occurrence** (`Counter.most_common` sorts stably): of two values with the
same number of occurrences the one that occurs first in the column is listed first, and whenever the later one
makes it into the list of `n` entries so does the earlier one. -/
theorem mfv_ties_first_occurrence [DecidableEq α] (vs : List α) (v w : α) (hc : vs.count v = vs.count w)
    (hb : [v, w].Sublist (distinct vs)) (n : Nat) :
    [(v, vs.count v), (w, vs.count w)].Sublist (sortDesc (tally vs)) ∧
    ((w, vs.count w) ∈ mfv n vs → (v, vs.count v) ∈ mfv n vs) := by
  have h1 : [(v, vs.count v), (w, vs.count w)].Sublist (sortDesc (tally vs)) := by
    apply sortDesc_stable _ _ _ hc
    have := hb.map (fun v => (v, vs.count v))
    simpa [tally] using this
  refine ⟨h1, ?_⟩
  intro hw
  rw [(mfv_expressions n vs).2] at hw ⊢
  have hnd : (sortDesc (tally vs)).Nodup := by
    have hp : ((sortDesc (tally vs)).map Prod.fst).Nodup := by
      have : ((sortDesc (tally vs)).map Prod.fst).Perm (distinct vs) := by
        rw [← map_fst_tally]; exact (sortDesc_perm _).map _
      exact this.nodup_iff.mpr (nodup_distinct vs)
    unfold List.Nodup at hp ⊢
    rw [List.pairwise_map] at hp
    exact hp.imp (fun hne e => hne (by rw [e]))
  exact mem_take_of_sublist_pair _ n _ _ hnd h1 hw

/-! ## distinct-count estimate -/

/-- `distinct` lists every value of the column exactly once, so its length is the number of distinct
values. -/
theorem distinct_spec [DecidableEq α] (vs : List α) :
    (distinct vs).Nodup ∧ ∀ a, a ∈ distinct vs ↔ a ∈ vs :=
  ⟨nodup_distinct vs, fun a => mem_distinct a vs⟩

/-- **The exact branch of `estimate_cardinality`** (generated guard `len(self.kmv_hashes) < KVM_SIZE`): a sketch
with fewer than `KVM_SIZE` entries is answered with its length. -/
theorem estimate_exact_branch (hs : List Nat) (hlt : hs.length < Gen.Profile.kvmSize) :
    estimateCardinality Gen.Profile.kvmSize hs = some hs.length := by
  unfold estimateCardinality
  by_cases he : hs.isEmpty = true
  · have : hs.length = 0 := by rw [List.isEmpty_iff] at he; rw [he]; rfl
    simp [he, this]
  · have hg : Gen.ProfileExpr.estimateExactGuard hs.length Gen.Profile.kvmSize := by
      unfold Gen.ProfileExpr.estimateExactGuard; exact hlt
    simp [he, hg]

/-- **Why the values, not the hashes, must be de-duplicated.**  For a sketch that removes duplicate *hashes*
(`kmvByHashes`: `heapq.nsmallest(size, {hash(v) for v in set(data)})`, the shape the model follows the source
into when `sketchDedup = .hashes`) the estimate below the sketch size is exact **iff the hash is injective on
the column**: with a collision between two different values it is strictly too small.  The source's own shape
needs no such hypothesis (`cardinality_exact_below_k`). -/
theorem hash_set_sketch_exact_iff_injective [DecidableEq α] (h : α → Nat) (vs : List α)
    (hlt : (distinct vs).length < Gen.Profile.kvmSize) :
    ((∀ a ∈ vs, ∀ b ∈ vs, h a = h b → a = b) →
      estimateCardinality Gen.Profile.kvmSize (kmvByHashes h Gen.Profile.kvmSize vs) = some (distinct vs).length) ∧
    (¬ (∀ a ∈ vs, ∀ b ∈ vs, h a = h b → a = b) →
      ∃ n, estimateCardinality Gen.Profile.kvmSize (kmvByHashes h Gen.Profile.kvmSize vs) = some n ∧
        n < (distinct vs).length) := by
  have hle : (distinct ((distinct vs).map h)).length ≤ (distinct vs).length := by
    have := length_distinct_le ((distinct vs).map h); simpa using this
  have hk : kmvByHashes h Gen.Profile.kvmSize vs = sortAsc (distinct ((distinct vs).map h)) := by
    unfold kmvByHashes
    apply List.take_of_length_le
    rw [length_sortAsc]; omega
  have hest : estimateCardinality Gen.Profile.kvmSize (kmvByHashes h Gen.Profile.kvmSize vs)
      = some (distinct ((distinct vs).map h)).length := by
    rw [hk, estimate_exact_branch _ (by rw [length_sortAsc]; omega), length_sortAsc]
  constructor
  · intro hinj
    have hnd : ((distinct vs).map h).Nodup := by
      unfold List.Nodup
      rw [List.pairwise_map]
      refine List.Pairwise.imp_of_mem ?_ (nodup_distinct vs)
      intro a b ha hb hab e
      exact hab (hinj a ((mem_distinct a vs).mp ha) b ((mem_distinct b vs).mp hb) e)
    rw [hest, distinct_of_nodup _ hnd, List.length_map]
  · intro hninj
    refine ⟨_, hest, ?_⟩
    have hnn : ¬ ((distinct vs).map h).Nodup := by
      intro hnd
      apply hninj
      intro a ha b hb e
      apply Classical.byContradiction
      intro hab
      unfold List.Nodup at hnd
      rw [List.pairwise_map] at hnd
      have hpw : (distinct vs).Pairwise (fun x y => x ≠ y ∧ h x ≠ h y) :=
        (List.Pairwise.and (nodup_distinct vs) hnd)
      have hsym : ∀ x ∈ distinct vs, ∀ y ∈ distinct vs, x ≠ y → h x ≠ h y := by
        intro x hx y hy hxy
        have hR : (distinct vs).Pairwise (fun x y => x ≠ y → h x ≠ h y) := hpw.imp (fun hh _ => hh.2)
        have hF : (distinct vs).Pairwise (flip (fun x y => x ≠ y → h x ≠ h y)) :=
          hpw.imp (fun hh _ e => hh.2 e.symm)
        exact List.Pairwise.forall_of_forall_of_flip (fun x _ hxx => absurd rfl hxx) hR hF hx hy hxy
      exact hsym a ((mem_distinct a vs).mpr ha) b ((mem_distinct b vs).mpr hb) hab e
    have := length_distinct_lt_of_not_nodup _ hnn
    simpa using this

/-- The smallest instance: two different values with one hash — a hash-de-duplicating sketch reports 1. -/
theorem hash_set_sketch_undercounts :
    (distinct [1, 2]).length = 2 ∧
    estimateCardinality Gen.Profile.kvmSize (kmvByHashes (fun _ : Nat => 7) Gen.Profile.kvmSize [1, 2]) = some 1 ∧
    estimateCardinality Gen.Profile.kvmSize (kmvSpec (fun _ : Nat => 7) Gen.Profile.kvmSize [1, 2]) = some 2 := by
  decide

/-- **The distinct-count estimate is exact below the sketch size** — for ANY hash function `h`
(collisions included): with fewer than `KVM_SIZE` distinct values the sketch holds the hash of each
distinct value once and `estimate_cardinality` (generated guard `len(self.kmv_hashes) < KVM_SIZE`)
returns their number. -/
theorem cardinality_exact_below_k [DecidableEq α] (h : α → Nat) (vs : List α)
    (hlt : (distinct vs).length < Gen.Profile.kvmSize) :
    estimateCardinality Gen.Profile.kvmSize (kmv h Gen.Profile.kvmSize vs) = some (distinct vs).length ∧
    (kmv h Gen.Profile.kvmSize vs).Perm ((distinct vs).map h) := by
  rw [(sketch_expressions h _ vs).2.2.2.2, kmvG_below _ h _ vs (Nat.le_of_lt hlt)]
  refine ⟨?_, sortAsc_perm _⟩
  unfold estimateCardinality
  by_cases he : (sortAsc ((distinct vs).map h)).isEmpty = true
  · have : (sortAsc ((distinct vs).map h)).length = 0 := by
      rw [List.isEmpty_iff] at he; rw [he]; rfl
    rw [length_sortAsc, List.length_map] at this
    simp [he, this]
  · have hg : Gen.ProfileExpr.estimateExactGuard (distinct vs).length Gen.Profile.kvmSize := by
      unfold Gen.ProfileExpr.estimateExactGuard; exact hlt
    simp [he, hg, length_sortAsc]

/-- **The sketch is full from `KVM_SIZE` distinct values on** (for any hash function): it always holds
`min(KVM_SIZE, #distinct)` hashes, so the exact branch of `estimate_cardinality` is taken exactly when
the column has fewer than `KVM_SIZE` distinct values. -/
theorem sketch_size [DecidableEq α] (h : α → Nat) (vs : List α) :
    (kmv h Gen.Profile.kvmSize vs).length = min Gen.Profile.kvmSize (distinct vs).length := by
  rw [(sketch_expressions h _ vs).2.2.2.2]; exact length_kmvG _ h _ vs

/-- **The heap loop of `get_kvm_hashes` yields the `KVM_SIZE` smallest hashes of the distinct values**,
for ANY hash function and any number of distinct values: the sketch is ascending, together with some
list of discarded hashes it is a rearrangement of the hashes of all distinct values, and no discarded
hash is below a kept one.  (Two distinct values with the same hash count twice, as in the code.) -/
theorem kmv_k_smallest [DecidableEq α] (h : α → Nat) (vs : List α) :
    ∃ dropped : List Nat,
      SortedAsc (kmv h Gen.Profile.kvmSize vs) ∧
      (kmv h Gen.Profile.kvmSize vs ++ dropped).Perm ((distinct vs).map h) ∧
      (∀ x ∈ dropped, ∀ y ∈ kmv h Gen.Profile.kvmSize vs, y ≤ x) ∧
      (kmv h Gen.Profile.kvmSize vs).length = min Gen.Profile.kvmSize (distinct vs).length := by
  rw [(sketch_expressions h _ vs).2.2.2.2]
  have hinv := kmvLoopG_inv (fun hv top => decide (Gen.ProfileExpr.sketchReplaceTest hv top)) sketch_replace_ok
    (((distinct vs).drop Gen.Profile.kvmSize).map h)
    (sortAsc (((distinct vs).take Gen.Profile.kvmSize).map h)) []
    (((distinct vs).take Gen.Profile.kvmSize).map h) (sortAsc_sorted _)
    (by simpa using sortAsc_perm _) (by intro x hx; simp at hx)
  obtain ⟨dropped, h1, h2, h3⟩ := hinv
  refine ⟨dropped, h1, ?_, h3, length_kmvG _ h _ vs⟩
  have : ((distinct vs).take Gen.Profile.kvmSize).map h ++ ((distinct vs).drop Gen.Profile.kvmSize).map h
      = (distinct vs).map h := by
    rw [← List.map_append, List.take_append_drop]
  rw [this] at h2
  exact h2

/-- **The input of the estimate is the `KVM_SIZE`-th smallest hash**: with at least `KVM_SIZE` distinct
values the last entry of the sketch (`kth_min_value = self.kmv_hashes[-1]`) is the order statistic of
rank `KVM_SIZE` among the hashes of the distinct values — fewer than `KVM_SIZE` of them are smaller and at
least `KVM_SIZE` are not larger. -/
theorem estimate_input_is_kth [DecidableEq α] (h : α → Nat) (vs : List α)
    (hge : Gen.Profile.kvmSize ≤ (distinct vs).length) :
    ∃ kth, (kmv h Gen.Profile.kvmSize vs).getLast? = some kth ∧
      ((distinct vs).map h).countP (fun x => decide (x < kth)) < Gen.Profile.kvmSize ∧
      Gen.Profile.kvmSize ≤ ((distinct vs).map h).countP (fun x => decide (x ≤ kth)) := by
  obtain ⟨dropped, hs, hp, hb, hl⟩ := kmv_k_smallest h vs
  have hK : 0 < Gen.Profile.kvmSize := by decide
  rw [Nat.min_eq_left hge] at hl
  generalize kmv h Gen.Profile.kvmSize vs = R at hs hp hb hl
  have hne : R ≠ [] := by intro e; rw [e] at hl; simp at hl; omega
  have hsplit : R.dropLast ++ [R.getLast hne] = R := List.dropLast_concat_getLast hne
  have hlast : R.getLast? = some (R.getLast hne) := List.getLast?_eq_some_getLast hne
  have hmem : R.getLast hne ∈ R := List.getLast_mem hne
  have hlen : R.dropLast.length = Gen.Profile.kvmSize - 1 := by rw [List.length_dropLast, hl]
  generalize R.getLast hne = m at hsplit hlast hmem
  refine ⟨m, hlast, ?_, ?_⟩
  · rw [← hp.countP_eq, List.countP_append]
    have hd : dropped.countP (fun x => decide (x < m)) = 0 := by
      rw [List.countP_eq_zero]
      intro x hx
      have := hb x hx m hmem
      simp; omega
    have hr : R.countP (fun x => decide (x < m)) ≤ R.dropLast.length := by
      conv => lhs; rw [← hsplit]
      rw [List.countP_append]
      have : [m].countP (fun x => decide (x < m)) = 0 := by simp
      rw [this]
      exact Nat.le_trans (Nat.le_of_eq (Nat.add_zero _)) (List.countP_le_length)
    omega
  · rw [← hp.countP_eq, List.countP_append]
    have hall : R.countP (fun x => decide (x ≤ m)) = R.length := by
      rw [List.countP_eq_length]
      intro x hx
      rw [← hsplit] at hx hs
      rcases List.mem_append.mp hx with hx | hx
      · have := (List.pairwise_append.mp hs).2.2 x hx m (by simp)
        simpa using this
      · simp at hx; simp [hx]
    omega

/-- **The estimation formula as it stands in the source** (`int((KVM_SIZE - 1) / (kth_min_value / 2**32))`,
translated into `Gen.ProfileExpr.estimateFormula`): on a full sketch whose last entry `kth` is not 0,
`estimate_cardinality` returns `⌊(KVM_SIZE - 1)·2³² / kth⌋`. -/
theorem estimate_expressions (hs : List Nat) (kth : Nat) (hfull : hs.length = Gen.Profile.kvmSize)
    (hlast : hs.getLast? = some kth) (hk : kth ≠ 0) :
    estimateCardinality Gen.Profile.kvmSize hs = some ((Gen.Profile.kvmSize - 1) * 2 ^ 32 / kth) := by
  have hK : 0 < Gen.Profile.kvmSize := by decide
  have hne : hs.isEmpty = false := by
    cases hs with
    | nil => simp at hfull; omega
    | cons a as => rfl
  have hg : ¬ Gen.ProfileExpr.estimateExactGuard hs.length Gen.Profile.kvmSize := by
    unfold Gen.ProfileExpr.estimateExactGuard; omega
  unfold estimateCardinality
  simp only [hne, hg, if_false, hlast, Bool.false_eq_true]
  cases kth with
  | zero => exact absurd rfl hk
  | succ k =>
    have hpos : (0 : ℚ) < ((k + 1 : ℕ) : ℚ) := by exact_mod_cast Nat.succ_pos k
    have hform : Gen.ProfileExpr.estimateFormula (Gen.Profile.kvmSize : ℚ) ((k + 1 : ℕ) : ℚ)
        = (((Gen.Profile.kvmSize - 1) * 2 ^ 32 : ℕ) : ℚ) / ((k + 1 : ℕ) : ℚ) := by
      unfold Gen.ProfileExpr.estimateFormula
      have : ((Gen.Profile.kvmSize - 1 : ℕ) : ℚ) = (Gen.Profile.kvmSize : ℚ) - 1 := by
        rw [Nat.cast_sub hK]; simp
      push_cast
      rw [this]
      field_simp
    have hnn : (0 : ℚ) ≤ (((Gen.Profile.kvmSize - 1) * 2 ^ 32 : ℕ) : ℚ) / ((k + 1 : ℕ) : ℚ) :=
      div_nonneg (Nat.cast_nonneg _) (le_of_lt hpos)
    rw [hform, truncRat_of_nonneg hnn, Rat.floor_natCast_div_natCast]
    congr 1

/-! ## order and transitions -/

/-- **The comparisons and updates of `get_ordered_and_transitions` as they stand in the source**: the
transition test is inequality, `transitions += 1` adds one, and on a transition the update of `ordered`
records an ascent (`last < value`) or a descent (`value < last`) — written with the encoding of `ordered`
as (ascent seen, descent seen). -/
theorem order_scan_expressions [DecidableEq α] (lt : α → α → Bool) (h : StrictTotal lt) :
    (∀ a b : α, decide (Gen.ProfileExpr.orderNe lt a b) = true ↔ a ≠ b) ∧
    (∀ t, Gen.ProfileExpr.transitionsNext t = t + 1) ∧
    (∀ u d v last, v ≠ last →
      otStep lt (encOrder u d) v last = encOrder (u || lt last v) (d || lt v last)) := by
  refine ⟨?_, ?_, ?_⟩
  · intro a b; unfold Gen.ProfileExpr.orderNe; exact decide_eq_true_iff
  · intro t; rfl
  · intro u d v last hv
    rcases h.connected v last hv with hl | hl
    · have hl' : lt last v = false := h.asymm _ _ hl
      cases u <;> cases d <;>
        simp [otStep, encOrder, Gen.ProfileExpr.orderFirst, Gen.ProfileExpr.orderFlip,
          Gen.ProfileExpr.orderFlipValue, hl, hl']
    · have hl' : lt v last = false := h.asymm _ _ hl
      cases u <;> cases d <;>
        simp [otStep, encOrder, Gen.ProfileExpr.orderFirst, Gen.ProfileExpr.orderFlip,
          Gen.ProfileExpr.orderFlipValue, hl, hl']

/-- **transitions** = the number of neighbouring pairs that differ. -/
theorem transitions_spec [DecidableEq α] (lt : α → α → Bool) (h : StrictTotal lt) (vs : List α)
    (o : Option Int) (t : Nat) (hr : orderAndTransitions lt vs = some (o, t)) :
    t = (adj vs).countP (fun p => decide (¬ p.1 = p.2)) := by
  obtain ⟨e1, e2, e3⟩ := order_scan_expressions lt h
  cases vs with
  | nil => simp [orderAndTransitions] at hr
  | cons x xs =>
    simp only [orderAndTransitions, otLoop, Option.some.injEq] at hr
    have := otLoopG_spec lt _ _ _ h.asymm e1 e2 e3 xs false false 0 x
    rw [show encOrder false false = none from rfl, hr] at this
    simpa using (Prod.mk.inj this).2

/-- **order**: absent exactly for constant data, `1` exactly for non-constant data that never descends,
`-1` exactly for non-constant data that never ascends, `0` exactly when the data both ascends and
descends. -/
theorem order_spec [DecidableEq α] (lt : α → α → Bool) (h : StrictTotal lt) (vs : List α)
    (o : Option Int) (t : Nat) (hr : orderAndTransitions lt vs = some (o, t)) :
    (o = none ↔ ∀ p ∈ adj vs, p.1 = p.2) ∧
    (o = some 1 ↔ Ascends lt vs ∧ ¬ Descends lt vs) ∧
    (o = some (-1) ↔ Descends lt vs ∧ ¬ Ascends lt vs) ∧
    (o = some 0 ↔ Ascends lt vs ∧ Descends lt vs) := by
  obtain ⟨e1, e2, e3⟩ := order_scan_expressions lt h
  cases vs with
  | nil => simp [orderAndTransitions] at hr
  | cons x xs =>
    simp only [orderAndTransitions, otLoop, Option.some.injEq] at hr
    have hs := otLoopG_spec lt _ _ _ h.asymm e1 e2 e3 xs false false 0 x
    rw [show encOrder false false = none from rfl, hr] at hs
    have ho := (Prod.mk.inj hs).1
    simp only [Bool.false_or] at ho
    have hup : (adj (x :: xs)).any (fun p => lt p.1 p.2) = true ↔ Ascends lt (x :: xs) := by
      simp [Ascends, List.any_eq_true]
    have hdn : (adj (x :: xs)).any (fun p => lt p.2 p.1) = true ↔ Descends lt (x :: xs) := by
      simp [Descends, List.any_eq_true]
    have hconst : (∀ p ∈ adj (x :: xs), p.1 = p.2) ↔ ¬ Ascends lt (x :: xs) ∧ ¬ Descends lt (x :: xs) := by
      constructor
      · intro hc
        have hirr : ∀ a, lt a a = false := by
          intro a
          cases hh : lt a a with
          | false => rfl
          | true => have := h.asymm a a hh; simp [hh] at this
        constructor
        · rintro ⟨p, hp, hl⟩; have := hc p hp; rw [this, hirr] at hl; exact Bool.noConfusion hl
        · rintro ⟨p, hp, hl⟩; have := hc p hp; rw [this, hirr] at hl; exact Bool.noConfusion hl
      · rintro ⟨hu, hd⟩ p hp
        apply Classical.byContradiction
        intro hne
        rcases h.connected p.1 p.2 hne with hl | hl
        · exact hu ⟨p, hp, hl⟩
        · exact hd ⟨p, hp, hl⟩
    rw [hconst, ← hup, ← hdn, ho]
    cases (adj (x :: xs)).any (fun p => lt p.1 p.2) <;>
      cases (adj (x :: xs)).any (fun p => lt p.2 p.1) <;> simp [encOrder]

/-! ## additivity -/

/-- **The updates of `ColumnProfile.__add__` as they stand in the source**: all four are executed (no
earlier `return`), `count +=` and `missing +=` add, and the minimum / maximum combination (`min([INFINITY if … is None else …, …])` with its
`== INFINITY → None` guard) is the smaller / larger of the extremes that are present — a present extreme
of 0 included. -/
theorem add_expressions :
    Gen.ProfileExpr.addUpdatesStraightLine = true ∧
    (∀ a b, Gen.ProfileExpr.addCount a b = a + b) ∧
    (∀ a b, Gen.ProfileExpr.addMissing a b = a + b) ∧
    (∀ a b, optMin a b = optMinSpec a b) ∧
    (∀ a b, optMax a b = optMaxSpec a b) := by
  refine ⟨rfl, fun _ _ => rfl, fun _ _ => rfl, ?_, ?_⟩
  · intro a b
    cases a <;> cases b <;>
      simp [optMin, optMinSpec, Gen.ProfileExpr.addMinimum, Gen.ProfileExpr.addMinimumAbsent, EInt.ofOption,
        EInt.toOption, Min.min, EInt.lt]
    rename_i x y
    by_cases hxy : y < x
    · have : ¬ x ≤ y := by omega
      simp [hxy, this]
    · have : x ≤ y := by omega
      simp [hxy, this]
  · intro a b
    cases a <;> cases b <;>
      simp [optMax, optMaxSpec, Gen.ProfileExpr.addMaximum, Gen.ProfileExpr.addMaximumAbsent, EInt.ofOption,
        EInt.toOption, Max.max, EInt.lt]
    rename_i x y
    by_cases hxy : x < y
    · have : x ≤ y := by omega
      simp [hxy, this]
    · by_cases hyx : x = y
      · subst hyx; simp
      · have : ¬ x ≤ y := by omega
        simp [hxy, this]

/-- **Profiles are additive** in count, missing, minimum and maximum: profiling a concatenation gives
the sum (`ColumnProfile.__add__`) of the profiles of the two batches — for batches of any length,
all-null ones included. -/
theorem add_core (le : α → α → Bool) (key : α → Int) (h : TotalPreorder le) (hm : Monotone le key)
    (a b : List (Option α)) :
    core le key (a ++ b) = addCore (core le key a) (core le key b) := by
  obtain ⟨e0, e1, e2, e3, e4⟩ := add_expressions
  have h1 := length_present_le a
  have h2 := length_present_le b
  simp only [core, coreFrom, pickExtreme, addCore, e0, if_true, e1, e2, e3, e4, present_append, List.length_append,
    minBy_append_key le key h.total h.trans hm, maxBy_append_key le key h.total h.trans hm]
  congr 1
  omega

/-- Additivity for the profilers without extremes (BOOLEAN, ARRAY/STRUCT, untyped). -/
theorem add_core_counts (a b : List (Option α)) :
    coreCounts (a ++ b) = addCore (coreCounts a) (coreCounts b) := by
  obtain ⟨e0, e1, e2, e3, e4⟩ := add_expressions
  have h1 := length_present_le a
  have h2 := length_present_le b
  simp only [coreCounts, addCore, e0, if_true, e1, e2, e3, e4, present_append, List.length_append, optMinSpec, optMaxSpec]
  congr 1
  omega

/-- **Batching in `from_dataframe`**: for any additive per-batch profile, cutting a non-empty frame into
batches of `batchSize` rows (the extracted 25000) and adding the batch profiles left to right gives the
profile of the whole frame. -/
theorem batched_eq_whole (prof : List (Option α) → Core)
    (hadd : ∀ a b, prof (a ++ b) = addCore (prof a) (prof b))
    (xs : List (Option α)) (hne : xs ≠ []) :
    batched prof Gen.Profile.batchSize xs = some (prof xs) := by
  have hn : 0 < Gen.Profile.batchSize := by decide
  have hfl := chunksAux_flatten Gen.Profile.batchSize xs.length xs hn (Nat.le_refl _)
  have hfold : ∀ (bs : List (List (Option α))) (b : List (Option α)),
      bs.foldl (fun acc c => addCore acc (prof c)) (prof b) = prof (b ++ bs.flatten) := by
    intro bs
    induction bs with
    | nil => intro b; simp
    | cons c cs ih => intro b; simp only [List.foldl_cons, ← hadd, ih, List.flatten_cons, List.append_assoc]
  unfold batched
  rw [(to_batches_expressions Gen.Profile.batchSize hn xs).1]
  unfold chunks
  cases hc : chunksAux Gen.Profile.batchSize xs.length xs with
  | nil => rw [hc] at hfl; simp at hfl; exact absurd hfl.symm hne.symm
  | cons b bs =>
    rw [hc] at hfl
    simp only [List.flatten_cons] at hfl
    simp only [hfold, hfl]

/-! ## sums beyond count / missing / minimum / maximum (the open finding K06, in the model)

The property's additivity clause covers count, missing, minimum and maximum (above).  `ColumnProfile.__add__`
also combines the most-frequent lists, the sketches and the order indicators; `from_dataframe` uses those sums for
every frame above the batch size, and there the per-column clauses do NOT all survive.  What holds and what
fails, of the model that follows the code: -/

/-- **The updates of `transitions` and `order` in `__add__` as they stand in the source.** -/
theorem sum_expressions (t u : Nat) (o q : Option Int) :
    Gen.ProfileExpr.addTransitions t u = t + u + 1 ∧
    Gen.ProfileExpr.addOrder o q = (if o = q then some 0 else o) := by
  constructor
  · unfold Gen.ProfileExpr.addTransitions; omega
  · rfl

/-- **A frame above the batch size still reports exact count, missing, minimum and maximum**: the core of
`from_dataframe`'s fold over whole batch profiles (`batchedProf`, the model the harness compares frames above the
batch size with, field by field) is the fold over the cores, hence — by `batched_eq_whole` — the core of the whole
column. -/
theorem batched_prof_core [DecidableEq α] (prof : List (Option α) → Prof α)
    (hadd : ∀ a b, (prof (a ++ b)).core = addCore (prof a).core (prof b).core)
    (xs : List (Option α)) (hne : xs ≠ []) :
    (batchedProf prof Gen.Profile.batchSize xs).map (·.core) = some (prof xs).core := by
  have hfold : ∀ (bs : List (List (Option α))) (p0 : Prof α),
      (bs.foldl (fun acc c => addProf acc (prof c)) p0).core
        = bs.foldl (fun acc c => addCore acc (prof c).core) p0.core := by
    intro bs
    induction bs with
    | nil => intro p0; rfl
    | cons c cs ih => intro p0; simp only [List.foldl_cons, ih]; rfl
  have hb := batched_eq_whole (fun c => (prof c).core) hadd xs hne
  unfold batched at hb
  unfold batchedProf
  cases hc : toBatches Gen.Profile.batchSize xs with
  | nil => rw [hc] at hb; simp at hb
  | cons b bs =>
    rw [hc] at hb
    simp only [Option.map_some, hfold]
    exact hb

/-- **The `elif` chain of `__add__`'s most-frequent merge as it stands in the source** (generated from the branches under
`if self.most_frequent_values and profile.most_frequent_values:`): when not both sides list values the sum keeps the
left side's list if the other side holds no value, takes the other side's list if the left side holds no value, and
lists nothing when both hold values — whether or not one of them lists something.  (A side can hold values and
list none: the sum of two batches that share no listed value.) -/
theorem sum_mfv_one_sided_expressions (mineEmpty theirsEmpty mineLists theirsLists : Bool) :
    Gen.ProfileExpr.addMfvOneSided mineEmpty theirsEmpty mineLists theirsLists
      = (if theirsEmpty = true then MfvPick.mine else if mineEmpty = true then MfvPick.theirs else MfvPick.nothing) := by
  cases mineEmpty <;> cases theirsEmpty <;> cases mineLists <;> cases theirsLists <;> rfl

/-- `addMfv` with the generated chain spelled out. -/
theorem addMfv_cases [DecidableEq α] (a b : Prof α) :
    addMfv a b =
      if (!a.mfv.isEmpty && !b.mfv.isEmpty) = true then
        a.mfv.filterMap (fun vc => (b.mfv.find? (fun q => q.1 = vc.1)).map (fun q => (vc.1, vc.2 + q.2)))
      else if b.core.count = b.core.missing then a.mfv
      else if a.core.count = a.core.missing then b.mfv
      else [] := by
  unfold addMfv addMfvWith
  rw [sum_mfv_one_sided_expressions]
  by_cases h1 : (!a.mfv.isEmpty && !b.mfv.isEmpty) = true
  · simp only [h1, if_true]
  · by_cases hb : b.core.count = b.core.missing
    · simp [h1, hb]
    · by_cases ha : a.core.count = a.core.missing
      · simp [h1, hb, ha]
      · simp [h1, hb, ha]

/-- A profile that counts the rows and nulls of `xs` and whose listed counts are exact occurrence counts in `xs`
(it may list few values, or none). -/
def ListsExact [DecidableEq α] (q : Prof α) (xs : List (Option α)) : Prop :=
  q.core.count = xs.length ∧ q.core.missing = xs.countP (fun x => x.isNone) ∧
  ∀ w d, (w, d) ∈ q.mfv → d = (present xs).count w

/-- **Adding keeps listed counts exact** (the inductive step for any number of batches in any grouping): if each of two
profiles counts its rows and nulls and lists only exact counts, so does their sum for the concatenation. -/
theorem sum_keeps_listed_counts_exact [DecidableEq α] (a b : Prof α) (xs ys : List (Option α))
    (ha : ListsExact a xs) (hb : ListsExact b ys) : ListsExact (addProf a b) (xs ++ ys) := by
  obtain ⟨ha1, ha2, ha3⟩ := ha
  obtain ⟨hb1, hb2, hb3⟩ := hb
  have hnx : a.core.count = a.core.missing → present xs = [] := by
    intro h
    have h3 := length_present_add_nulls xs
    exact List.eq_nil_of_length_eq_zero (by omega)
  have hny : b.core.count = b.core.missing → present ys = [] := by
    intro h
    have h3 := length_present_add_nulls ys
    exact List.eq_nil_of_length_eq_zero (by omega)
  have hsl : Gen.ProfileExpr.addUpdatesStraightLine = true := rfl
  refine ⟨?_, ?_, ?_⟩
  · simp only [addProf, addCore, hsl, if_true, Gen.ProfileExpr.addCount, List.length_append]; omega
  · simp only [addProf, addCore, hsl, if_true, Gen.ProfileExpr.addMissing, List.countP_append]; omega
  · intro v c hl
    rw [present_append, List.count_append]
    have hl' : (v, c) ∈ addMfv a b := hl
    rw [addMfv_cases] at hl'
    split at hl'
    · rw [List.mem_filterMap] at hl'
      obtain ⟨⟨w, d⟩, hw, hq⟩ := hl'
      cases hf : b.mfv.find? (fun q => q.1 = w) with
      | none => simp [hf] at hq
      | some q =>
        simp only [hf, Option.map_some, Option.some.injEq, Prod.mk.injEq] at hq
        have hqm := List.mem_of_find?_eq_some hf
        have hqk : q.1 = w := by simpa using List.find?_some hf
        obtain ⟨e1, e2⟩ := hq
        subst e1
        rw [← e2, ha3 _ _ hw, hb3 q.1 q.2 hqm, hqk]
    · split at hl'
      · rename_i hbe
        rw [hny hbe]; simp [ha3 v c hl']
      · split at hl'
        · rename_i hae
          rw [hnx hae]; simp [hb3 v c hl']
        · simp at hl'

/-- The numeric and the text profiler list exact counts (of the values as profiled: text through its window). -/
theorem profilers_lists_exact [DecidableEq α] (p : Ops α) (cut : α → α) (xs : List (Option α)) :
    ListsExact (profileNumeric p xs) xs ∧ ListsExact (profileText p cut xs) (xs.map (Option.map cut)) := by
  constructor
  · refine ⟨(count_eq_length p id xs []).1, (missing_eq_nulls p id xs []).1, ?_⟩
    intro w d hm
    by_cases hp : present xs = []
    · simp [profileNumeric, orderAndTransitions, hp] at hm
    · rw [((profilers_wiring p id xs).2.2.2 hp).1] at hm
      exact ((mfv_counts_exact (present xs)).1 w d hm).2
  · have e4 : (xs.map (Option.map cut)).countP (fun x => x.isNone) = xs.countP (fun x => x.isNone) := by
      rw [List.countP_map]; congr 1; funext x; cases x <;> rfl
    refine ⟨by rw [(count_eq_length p cut xs []).2.2.1, List.length_map],
            by rw [(missing_eq_nulls p cut xs []).2.2.1, e4], ?_⟩
    intro w d hm
    have hpm : ∀ zs : List (Option α), present (zs.map (Option.map cut)) = (present zs).map cut := by
      intro zs
      induction zs with
      | nil => rfl
      | cons x zs ih => cases x <;> simp_all [present]
    rw [hpm]
    by_cases hp : present xs = []
    · simp [profileText, orderAndTransitions, hp] at hm
    · rw [((profilers_wiring p cut xs).2.2.2 hp).2.2.2.2.2.1] at hm
      exact ((mfv_counts_exact ((present xs).map cut)).1 w d hm).2

/-- **Listed counts of a sum are exact** (`_partial`: what survives of the most-frequent clause): every value the
sum of two numeric batch profiles lists carries its exact number of occurrences in the concatenation. -/
theorem sum_mfv_counts_exact_partial [DecidableEq α] (p : Ops α) (xs ys : List (Option α)) (v : α) (c : Nat)
    (hl : (v, c) ∈ (addProf (profileNumeric p xs) (profileNumeric p ys)).mfv) :
    c = (present (xs ++ ys)).count v :=
  (sum_keeps_listed_counts_exact _ _ xs ys (profilers_lists_exact p id xs).1 (profilers_lists_exact p id ys).1).2.2 v c hl

/-- **…for any number of batches, in either grouping, and for `from_dataframe`'s fold over any number of morsels**: the
sum `(a + b) + c`, the sum `a + (b + c)` and the left fold over a list of morsels all count the rows and nulls of the
concatenation and list only exact occurrence counts — for every profiler that does so on a single batch (the numeric
and the text profiler: `profilers_lists_exact`).  In particular a sum that holds values and lists none (two batches
without a listed value in common) never adopts a later batch's list with that batch's counts. -/
theorem sum_tree_listed_counts_exact [DecidableEq α] (prof : List (Option α) → Prof α)
    (hp : ∀ zs, ListsExact (prof zs) zs) (a b c : List (Option α)) (ms : List (List (Option α))) :
    ListsExact (addProf (addProf (prof a) (prof b)) (prof c)) (a ++ b ++ c) ∧
    ListsExact (addProf (prof a) (addProf (prof b) (prof c))) (a ++ (b ++ c)) ∧
    ListsExact (ms.foldl (fun acc m => addProf acc (prof m)) (prof a)) (a ++ ms.flatten) := by
  refine ⟨?_, ?_, ?_⟩
  · exact sum_keeps_listed_counts_exact _ _ _ _ (sum_keeps_listed_counts_exact _ _ _ _ (hp a) (hp b)) (hp c)
  · exact sum_keeps_listed_counts_exact _ _ _ _ (hp a) (sum_keeps_listed_counts_exact _ _ _ _ (hp b) (hp c))
  · have gen : ∀ (ms : List (List (Option α))) (q : Prof α) (zs : List (Option α)), ListsExact q zs →
        ListsExact (ms.foldl (fun acc m => addProf acc (prof m)) q) (zs ++ ms.flatten) := by
      intro ms
      induction ms with
      | nil => intro q zs h; simpa using h
      | cons m ms ih =>
        intro q zs h
        have := ih (addProf q (prof m)) (zs ++ m) (sum_keeps_listed_counts_exact _ _ _ _ h (hp m))
        simpa [List.flatten_cons, List.append_assoc] using this
    exact gen ms (prof a) a (hp a)

/-- **Counterexample: "keep whichever list there is"** (the chain collapsed to: the other side's list when it has one,
else ours): batches `[1,1]`, `[2,2]`, `[1]` — the first two share no value, their sum holds four values and lists none;
adding the third batch then lists `1` once, although `1` occurs three times.  With the chain of the source the sum
lists nothing. -/
theorem one_sided_adoption_undercounts :
    let ops : Ops Int := { le := intLe, lt := intLt, key := id, hash := fun _ => 1 }
    let pa := profileNumeric ops [some 1, some 1]
    let pb := profileNumeric ops [some 2, some 2]
    let pc := profileNumeric ops [some 1]
    let keepAny : Bool → Bool → Bool → Bool → MfvPick := fun _ _ _ tl => if tl then .theirs else .mine
    let ab : Prof Int := { addProf pa pb with mfv := addMfvWith keepAny pa pb }
    ab.mfv = [] ∧ ab.core.count = 4 ∧ ab.core.missing = 0 ∧
    addMfvWith keepAny ab pc = [(1, 1)] ∧
    (addProf (addProf pa pb) pc).mfv = [] := by
  decide

/-- **…but the most frequent value can be missing from a sum** (counterexample; finding K06): batches `[1,1,1,2]`
and `[2]` — the sum lists only `2` (twice), the column's most frequent value `1` (three times) is not listed. -/
theorem sum_mfv_misses_most_frequent :
    (addProf (profileNumeric { le := intLe, lt := intLt, key := id, hash := fun _ => 1 } [some 1, some 1, some 1, some 2])
        (profileNumeric { le := intLe, lt := intLt, key := id, hash := fun _ => 1 } [some 2])).mfv = [(2, 2)] ∧
    (profileNumeric { le := intLe, lt := intLt, key := id, hash := fun _ => 1 }
        [some 1, some 1, some 1, some 2, some 2]).mfv = [(1, 3), (2, 2)] := by
  decide

/-- **Transitions of a sum** (`_partial` + counterexample): the sum adds one for the boundary between the batches
whether or not the values there differ — it is exact iff the last value of the left batch differs from the first of
the right one, and one too many otherwise (a constant column cut in two reports 1 transition). -/
theorem sum_transitions_partial [DecidableEq α] (a : α) (as : List α) (b : α) (bs : List α) :
    (adj ((a :: as) ++ b :: bs)).countP (fun p => decide (¬ p.1 = p.2))
        + (if (a :: as).getLast (by simp) = b then 1 else 0)
      = Gen.ProfileExpr.addTransitions ((adj (a :: as)).countP (fun p => decide (¬ p.1 = p.2)))
          ((adj (b :: bs)).countP (fun p => decide (¬ p.1 = p.2))) := by
  rw [(sum_expressions _ _ none none).1, adj_append_cons, List.countP_append, List.countP_cons]
  by_cases h : (a :: as).getLast (by simp) = b
  · simp [h]
  · simp [h]; omega

/-- **Order of a sum** (counterexamples; finding K06): two ascending batches give `0` (unsorted) though their
concatenation `[1,2,3,4]` is ascending, and an all-null batch followed by a constant one gives `0` though the
column is constant. -/
theorem sum_order_wrong :
    Gen.ProfileExpr.addOrder (some 1) (some 1) = some 0 ∧
    orderAndTransitions intLt [1, 2, 3, 4] = some (some 1, 3) ∧
    Gen.ProfileExpr.addOrder none none = some 0 := by
  decide

/-- **The sketch of a sum is exact below the sketch size iff no two values collide** (`_partial`): for non-empty
batches with fewer than `KVM_SIZE` distinct values overall and a hash that is injective on them, the estimate of
the summed sketch is the number of distinct values of the concatenation. -/
theorem sum_sketch_exact_of_injective_partial [DecidableEq α] (h : α → Nat) (as bs : List α)
    (ha : as ≠ []) (hb : bs ≠ [])
    (hinj : ∀ x ∈ as ++ bs, ∀ y ∈ as ++ bs, h x = h y → x = y)
    (hlt : (distinct (as ++ bs)).length < Gen.Profile.kvmSize) :
    estimateCardinality Gen.Profile.kvmSize
        (addKmv Gen.Profile.kvmSize (kmv h Gen.Profile.kvmSize as) (kmv h Gen.Profile.kvmSize bs))
      = some (distinct (as ++ bs)).length := by
  -- both batches are below the sketch size
  have hsub : ∀ cs : List α, (∀ x ∈ cs, x ∈ as ++ bs) → (distinct cs).length ≤ (distinct (as ++ bs)).length := by
    intro cs hcs
    have hnd := nodup_distinct cs
    have hss : ∀ x ∈ distinct cs, x ∈ distinct (as ++ bs) := by
      intro x hx; exact (mem_distinct x _).mpr (hcs x ((mem_distinct x cs).mp hx))
    exact List.Nodup.length_le_of_subset hnd hss
  have hA : kmv h Gen.Profile.kvmSize as = sortAsc ((distinct as).map h) := by
    rw [(sketch_expressions h _ as).2.2.2.2, kmvG_below]
    have := hsub as (fun x hx => List.mem_append_left _ hx); omega
  have hB : kmv h Gen.Profile.kvmSize bs = sortAsc ((distinct bs).map h) := by
    rw [(sketch_expressions h _ bs).2.2.2.2, kmvG_below]
    have := hsub bs (fun x hx => List.mem_append_right _ hx); omega
  rw [hA, hB]
  have hAne : (sortAsc ((distinct as).map h)).isEmpty = false := by
    cases hc : sortAsc ((distinct as).map h) with
    | nil =>
      have := congrArg List.length hc
      rw [length_sortAsc, List.length_map] at this
      exact absurd ((distinct_eq_nil_iff as).mp (List.eq_nil_of_length_eq_zero this)) ha
    | cons _ _ => rfl
  have hBne : (sortAsc ((distinct bs).map h)).isEmpty = false := by
    cases hc : sortAsc ((distinct bs).map h) with
    | nil =>
      have := congrArg List.length hc
      rw [length_sortAsc, List.length_map] at this
      exact absurd ((distinct_eq_nil_iff bs).mp (List.eq_nil_of_length_eq_zero this)) hb
    | cons _ _ => rfl
  -- the set of hashes of the sum is the set of hashes of the distinct values of the concatenation
  have hperm : (distinct (sortAsc ((distinct as).map h) ++ sortAsc ((distinct bs).map h))).Perm
      ((distinct (as ++ bs)).map h) := by
    apply (List.perm_ext_iff_of_nodup (nodup_distinct _) ?_).mpr
    · intro x
      rw [mem_distinct, List.mem_append, (sortAsc_perm _).mem_iff, (sortAsc_perm _).mem_iff]
      simp only [List.mem_map, mem_distinct, List.mem_append]
      constructor
      · rintro (⟨v, hv, rfl⟩ | ⟨v, hv, rfl⟩)
        · exact ⟨v, Or.inl hv, rfl⟩
        · exact ⟨v, Or.inr hv, rfl⟩
      · rintro ⟨v, hv | hv, rfl⟩
        · exact Or.inl ⟨v, hv, rfl⟩
        · exact Or.inr ⟨v, hv, rfl⟩
    · unfold List.Nodup
      rw [List.pairwise_map]
      refine List.Pairwise.imp_of_mem ?_ (nodup_distinct (as ++ bs))
      intro x y hx hy hxy e
      exact hxy (hinj x ((mem_distinct x _).mp hx) y ((mem_distinct y _).mp hy) e)
  have hlen : (distinct (sortAsc ((distinct as).map h) ++ sortAsc ((distinct bs).map h))).length
      = (distinct (as ++ bs)).length := by
    rw [hperm.length_eq, List.length_map]
  unfold addKmv addKmvWith
  simp only [hAne, hBne, Bool.not_false, Bool.and_self, if_true, Gen.ProfileExpr.sumSketchOrder]
  rw [List.take_of_length_le (by rw [length_sortAsc, hlen]; omega),
    estimate_exact_branch _ (by rw [length_sortAsc, hlen]; exact hlt), length_sortAsc, hlen]

/-- **The sketch of a sum is the `KVM_SIZE` smallest *distinct* hashes of both sides: duplicates go first, the cut
second** (`new_profile.kmv_hashes = sorted(set(self.kmv_hashes + profile.kmv_hashes))[:KVM_SIZE]`; the order of the two
steps is extracted: `Gen.ProfileExpr.sumSketchOrder`).  For any two non-empty sketches: the sum is the ascending list
of the distinct hashes of `a ++ b` cut to `KVM_SIZE`; it holds `min KVM_SIZE (number of distinct hashes)` entries, no
hash twice, ascending, and every hash of either side that it leaves out is at least as large as every hash it keeps.
(Cutting first — `sorted(set(heapq.nsmallest(KVM_SIZE, a + b)))` — makes `sumSketchOrder = .cutThenDedup` and this
theorem fail: see `cut_then_dedup_undercounts`.) -/
theorem sum_sketch_is_k_smallest_distinct (a b : List Nat) (ha : a ≠ []) (hb : b ≠ []) :
    Gen.ProfileExpr.sumSketchOrder = .dedupThenCut ∧
    addKmv Gen.Profile.kvmSize a b = (sortAsc (distinct (a ++ b))).take Gen.Profile.kvmSize ∧
    (addKmv Gen.Profile.kvmSize a b).length = min Gen.Profile.kvmSize (distinct (a ++ b)).length ∧
    (addKmv Gen.Profile.kvmSize a b).Nodup ∧ SortedAsc (addKmv Gen.Profile.kvmSize a b) ∧
    (∀ x ∈ a ++ b, x ∉ addKmv Gen.Profile.kvmSize a b → ∀ y ∈ addKmv Gen.Profile.kvmSize a b, y ≤ x) := by
  have hA : a.isEmpty = false := by cases a with | nil => exact absurd rfl ha | cons _ _ => rfl
  have hB : b.isEmpty = false := by cases b with | nil => exact absurd rfl hb | cons _ _ => rfl
  have heq : addKmv Gen.Profile.kvmSize a b = (sortAsc (distinct (a ++ b))).take Gen.Profile.kvmSize := by
    unfold addKmv addKmvWith
    simp only [hA, hB, Bool.not_false, Bool.and_self, if_true, Gen.ProfileExpr.sumSketchOrder]
  refine ⟨rfl, heq, ?_, ?_, ?_, ?_⟩
  · rw [heq, List.length_take, length_sortAsc]
  · rw [heq]
    exact ((sortAsc_perm _).nodup_iff.mpr (nodup_distinct _)).sublist (List.take_sublist _ _)
  · rw [heq]
    exact List.Pairwise.sublist (List.take_sublist _ _) (sortAsc_sorted _)
  · rw [heq]
    intro x hx hnot y hy
    have hxs : x ∈ sortAsc (distinct (a ++ b)) := (sortAsc_perm _).mem_iff.mpr ((mem_distinct x _).mpr hx)
    rw [← List.take_append_drop Gen.Profile.kvmSize (sortAsc (distinct (a ++ b))), List.mem_append] at hxs
    have hxd : x ∈ (sortAsc (distinct (a ++ b))).drop Gen.Profile.kvmSize := hxs.resolve_left hnot
    have hs := sortAsc_sorted (distinct (a ++ b))
    unfold SortedAsc at hs
    rw [← List.take_append_drop Gen.Profile.kvmSize (sortAsc (distinct (a ++ b))), List.pairwise_append] at hs
    exact hs.2.2 y hy x hxd

/-- **Why the duplicates must go before the cut** (counterexample for the other order, at sketch size 4): two
sketches `[1, 2, 3]` of batches that hold the same three values — cutting the concatenation to its 4 smallest
entries `[1, 1, 2, 2]` and then removing duplicates leaves `[1, 2]`: the estimate is 2 for 3 distinct values, below
the sketch size.  De-duplicating first keeps `[1, 2, 3]`. -/
theorem cut_then_dedup_undercounts :
    addKmvWith .cutThenDedup 4 [1, 2, 3] [1, 2, 3] = [1, 2] ∧
    estimateCardinality 4 (addKmvWith .cutThenDedup 4 [1, 2, 3] [1, 2, 3]) = some 2 ∧
    addKmvWith .dedupThenCut 4 [1, 2, 3] [1, 2, 3] = [1, 2, 3] ∧
    estimateCardinality 4 (addKmvWith .dedupThenCut 4 [1, 2, 3] [1, 2, 3]) = some 3 := by
  decide

/-- **…and too small when two different values collide** (counterexample; finding K06): the sum keeps a *set* of
hashes. -/
theorem sum_sketch_collision :
    estimateCardinality Gen.Profile.kvmSize
        (addKmv Gen.Profile.kvmSize (kmv (fun _ : Nat => 7) Gen.Profile.kvmSize [1]) (kmv (fun _ : Nat => 7) Gen.Profile.kvmSize [2]))
      = some 1 ∧ (distinct ([1] ++ [2])).length = 2 := by
  decide

/-! ## the concrete orders and keys of the driver satisfy the hypotheses -/

/-- **Numbers**: `<=`/`<` on exact numbers are a total preorder / strict total order and `int(x)`
(`truncRat`) is monotone, so `minmax_true`, `order_spec`, `transitions_spec` and `add_core` apply to
INTEGER, DOUBLE and DECIMAL columns as instantiated by the driver. -/
theorem numbers_ordered :
    TotalPreorder ratLe ∧ StrictTotal ratLt ∧ Monotone ratLe truncRat := by
  unfold ratLe ratLt
  refine ⟨⟨?_, ?_⟩, ⟨?_, ?_⟩, ?_⟩
  · intro a b; simpa using le_total a b
  · intro a b c h1 h2; simp only [decide_eq_true_eq] at *; exact le_trans h1 h2
  · intro a b h; simp only [decide_eq_true_eq, decide_eq_false_iff_not, not_lt] at *; exact le_of_lt h
  · intro a b h; simpa using lt_or_gt_of_ne h
  · intro a b h; exact truncRat_mono (by simpa using h)

/-- **Truncation toward zero**: the integer reported for a number lies between zero and the number and
is less than one away from it. -/
theorem trunc_toward_zero (q : Rat) :
    (0 ≤ q → 0 ≤ truncRat q ∧ (truncRat q : Rat) ≤ q ∧ q < truncRat q + 1) ∧
    (q ≤ 0 → truncRat q ≤ 0 ∧ q ≤ (truncRat q : Rat) ∧ (truncRat q : Rat) - 1 < q) := by
  constructor
  · intro h
    rw [truncRat_of_nonneg h]
    exact ⟨Int.floor_nonneg.mpr h, Int.floor_le q, Int.lt_floor_add_one q⟩
  · intro h
    rw [truncRat_of_nonpos h]
    refine ⟨Int.ceil_le.mpr (by simpa using h), Int.le_ceil q, ?_⟩
    have := Int.ceil_lt_add_one q
    linarith

/-- **Instants** (epoch seconds, reported as they are) and **text** (byte-lexicographic order of the
UTF-8 encodings, which is Python's code-point order) are ordered as required. -/
theorem instants_and_text_ordered :
    TotalPreorder intLe ∧ StrictTotal intLt ∧ Monotone intLe id ∧
    TotalPreorder strLe ∧ StrictTotal strLt := by
  unfold intLe intLt strLe strLt
  refine ⟨⟨?_, ?_⟩, ⟨?_, ?_⟩, ?_, ⟨?_, ?_⟩, ⟨?_, ?_⟩⟩
  · intro a b; simp only [decide_eq_true_eq]; omega
  · intro a b c; simp only [decide_eq_true_eq]; omega
  · intro a b; simp only [decide_eq_true_eq, decide_eq_false_iff_not]; omega
  · intro a b; simp only [decide_eq_true_eq]; omega
  · intro a b; simp
  · intro a b; exact bytesLe_total _ _
  · intro a b c; exact bytesLe_trans _ _ _
  · intro a b; exact bytesLt_asymm _ _
  · intro a b h; exact bytesLt_connected _ _ (fun e => h (utf8Bytes_inj e))

/-- **The text key is monotone**: `string_to_int64` as it stands in the source — the first
`keySliceWidth` UTF-8 *bytes* (`keySliceOnBytes`), NUL padded to the same width, read big endian, through
the generated clamp — never decreases along the text order.  (On the pinned tree the window was cut from
characters and padded with four NULs; this theorem does not hold of that shape.) -/
theorem text_key_monotone : Monotone strLe stringToInt64 := by
  intro a b h
  have hw : ∀ s, keyWindow s = (utf8Bytes s).take 8 ++ List.replicate (8 - ((utf8Bytes s).take 8).length) 0 := by
    intro s; rfl
  have hbe : Gen.ProfileExpr.keyBigEndian = true := rfl
  unfold stringToInt64
  simp only [hw, hbe, if_true, beVal_window]
  have hk := keyVal_mono 8 _ _ (utf8Bytes_lt a) (utf8Bytes_lt b) h
  have hk' : (Int.ofNat (keyVal 8 (utf8Bytes a))) ≤ Int.ofNat (keyVal 8 (utf8Bytes b)) := Int.ofNat_le.mpr hk
  unfold Gen.ProfileExpr.keyClamp
  split <;> split <;> omega

/-- Additivity and batching for number columns as the driver instantiates them, with no hypothesis left. -/
theorem numeric_additive (a b : List (Option Rat)) (xs : List (Option Rat)) (hne : xs ≠ []) :
    core ratLe truncRat (a ++ b) = addCore (core ratLe truncRat a) (core ratLe truncRat b) ∧
    batched (core ratLe truncRat) Gen.Profile.batchSize xs = some (core ratLe truncRat xs) :=
  ⟨add_core _ _ numbers_ordered.1 numbers_ordered.2.2 a b,
   batched_eq_whole _ (add_core _ _ numbers_ordered.1 numbers_ordered.2.2) xs hne⟩

/-- **Additivity and batching for text columns**, with no hypothesis left: the core `VarcharProfiler`
reports (extremes of the cut values through `string_to_int64`) of a concatenation is the sum of the cores
of the batches, and `from_dataframe`'s fold over batches of `batchSize` rows gives the core of the whole
column. -/
theorem text_additive (p : Ops String) (hle : p.le = strLe) (hkey : p.key = stringToInt64)
    (a b : List (Option String)) (xs : List (Option String)) (hne : xs ≠ []) :
    (profileText p cutText (a ++ b)).core
      = addCore (profileText p cutText a).core (profileText p cutText b).core ∧
    batched (fun c => (profileText p cutText c).core) Gen.Profile.batchSize xs
      = some (profileText p cutText xs).core := by
  have hadd : ∀ a b : List (Option String), (profileText p cutText (a ++ b)).core
      = addCore (profileText p cutText a).core (profileText p cutText b).core := by
    intro a b
    rw [(profilers_wiring p cutText (a ++ b)).2.2.1, (profilers_wiring p cutText a).2.2.1,
      (profilers_wiring p cutText b).2.2.1, List.map_append, hle, hkey]
    exact add_core _ _ instants_and_text_ordered.2.2.2.1 text_key_monotone _ _
  exact ⟨hadd a b, batched_eq_whole _ hadd xs hne⟩

/-! ## temporal cells: "instants as epoch seconds" (`DateProfiler`, `Model/ProfileTime.lean`) -/

/-- Non-vacuity: the last microsecond of year 9999, the first second of year 1 seen from UTC+05:30, a pandas
Timestamp of microsecond resolution beyond 64-bit nanoseconds are covered cells; and the conversion with the
chains of the repaired tree (written out here, so that this example never depends on the source) reports the
epoch seconds of a column holding them, a null, a `datetime64[D]` before the epoch and the microsecond after
1969-12-31T23:59:59. -/
example :
    (DateCell.civil ⟨9999, 12, 31, 23, 59, 59, 999999⟩ 0).inRange ∧
    (DateCell.civil ⟨1, 1, 1, 5, 30, 0, 0⟩ 330).inRange ∧
    (DateCell.stamp .us 253402300799999999).inRange ∧
    dateSecondsWith [.dt .s, .i64] [.i64, .dt .ns, .dt .s, .i64] ["AttributeError", "OverflowError"] (-9223372036854775808)
        [some (.civil ⟨9999, 12, 31, 23, 59, 59, 999999⟩ 0), none, some (.civil ⟨1, 1, 1, 5, 30, 0, 0⟩ 330),
        some (.stamp .us 253402300799999999), some (.ticks .D (-1)), some (.civil ⟨1969, 12, 31, 23, 59, 59, 1⟩ 0)]
      = .ok [some 253402300799, none, some (-62135596800), some 253402300799, some (-86400), some (-1)] := by
  refine ⟨⟨by decide, by decide, by decide⟩, ⟨by decide, by decide, by decide⟩, ⟨by decide, by decide⟩, by rfl⟩

set_option linter.unusedSimpArgs false in
/-- **The conversions of `DateProfiler` as they stand in the source.**  The general path
(`numpy.array(column_data, dtype=…)` and the `.astype(…)` calls that follow: `datePlainChain`) leaves the whole
seconds of every instant within a day of year 1..9999; the pandas path (`datePandasChain`) leaves the whole
seconds of every `.value` a Timestamp can have; both exceptions `.value` can raise lead to the general path
(`dateFallbackCaught`); the null sentinel is not a second of that range.  (A nanosecond intermediate on the
general path — `dtype="datetime64[ns]"` — wraps outside 1677..2262 and this theorem stops checking; so does a
minute or millisecond target, an uncaught `OverflowError`, a sentinel of 0.) -/
theorem date_conversion_expressions :
    (∀ t, instantLo ≤ t → t < instantHi → runChain Gen.ProfileTime.datePlainChain t = t / 1000000000) ∧
    (∀ v, -9223372036854775808 ≤ v → v ≤ 9223372036854775807 →
      runChain Gen.ProfileTime.datePandasChain v = v / 1000000000) ∧
    Gen.ProfileTime.dateFallbackCaught.contains "OverflowError" = true ∧
    Gen.ProfileTime.dateFallbackCaught.contains "AttributeError" = true ∧
    (Gen.ProfileTime.dateSentinel < -62135596800 - 86400 ∨ 253402300799 + 86400 ≤ Gen.ProfileTime.dateSentinel) := by
  refine ⟨?_, ?_, by decide, by decide, by decide⟩
  · intro t h1 h2
    simp only [Gen.ProfileTime.datePlainChain, runChain, List.foldl, castFirst, castStep, recast, TUnit.nanos,
      wrap64, instantLo, instantHi] at *
    omega
  · intro v h1 h2
    simp only [Gen.ProfileTime.datePandasChain, runChain, List.foldl, castFirst, castStep, recast, TUnit.nanos,
      wrap64] at *
    omega

/-- **Instants as epoch seconds, for every date-time of year 1..9999.**  Whatever mixture of `date`,
`datetime` (naive or with a UTC offset), `numpy.datetime64` and `pandas.Timestamp` cells and nulls a DATE /
TIMESTAMP column holds, in any order and of any length: `DateProfiler` does not raise, a null stays a null,
and every other cell is handed to the numeric profiler as the whole seconds elapsed since 1970-01-01T00:00:00Z
(floor of the exact instant). -/
theorem temporal_epoch_seconds (cells : List (Option DateCell)) (h : ∀ c ∈ present cells, c.inRange) :
    dateSeconds cells = .ok (cells.map (Option.map DateCell.trueSeconds)) := by
  obtain ⟨h1, h2, h3, h4, h5⟩ := date_conversion_expressions
  exact dateSecondsWith_spec _ _ _ _ h1 h2 h3 h4 h5 cells h

/-- **What "epoch seconds" are**, in exact integer arithmetic (the calendar of C08): for a valid calendar
date-time of year 1..9999 at UTC offset `off` minutes, the days since 1970-01-01 by CPython's proleptic
Gregorian ordinal, times 86400, plus the time of day, minus the offset — microseconds floored away; naive
date-times range over exactly 0001-01-01T00:00:00 (−62135596800) .. 9999-12-31T23:59:59 (253402300799).  A
`datetime64` / Timestamp of `n` seconds is `n`, of `n` days `86400·n`, of `n` nanoseconds `⌊n/10⁹⌋`. -/
theorem calendar_epoch_seconds (dt : Iso.DateTime) (off : Int) (h : Iso.validDateTime dt = true) :
    (DateCell.civil dt off).trueSeconds
      = ((Iso.toOrdinal dt.year dt.month dt.day : Int) - 719163) * 86400
        + dt.hour * 3600 + dt.minute * 60 + dt.second - 60 * off ∧
    -62135596800 ≤ (DateCell.civil dt 0).trueSeconds ∧ (DateCell.civil dt 0).trueSeconds ≤ 253402300799 ∧
    (∀ n : Int, (DateCell.ticks .s n).trueSeconds = n ∧ (DateCell.ticks .D n).trueSeconds = 86400 * n ∧
      (DateCell.stamp .ns n).trueSeconds = n / 1000000000) := by
  have hr := toEpoch_range dt h
  refine ⟨?_, ?_, ?_, ?_⟩
  · rw [civil_trueSeconds dt off h]; rfl
  · rw [civil_trueSeconds dt 0 h]; omega
  · rw [civil_trueSeconds dt 0 h]; omega
  · intro n
    simp only [DateCell.trueSeconds, DateCell.instant, TUnit.nanos]
    omega

/-- **Temporal minimum and maximum are the true extremes, as epoch seconds** — the clause of the statement,
from the cells to the profile: for a column of covered cells `DateProfiler` reports count = rows, missing =
nulls, no extremes when every cell is null, and otherwise the epoch seconds of a cell no cell precedes and of
a cell no cell follows. -/
theorem temporal_extremes_epoch_seconds (p : Ops Int) (hle : p.le = intLe) (hkey : p.key = id)
    (cells : List (Option DateCell)) (h : ∀ c ∈ present cells, c.inRange) :
    ∃ prof, profileDateCells p cells = .ok prof ∧
      prof.core.count = cells.length ∧ prof.core.missing = cells.length - (present cells).length ∧
      (present cells = [] → prof.core.minimum = none ∧ prof.core.maximum = none) ∧
      (present cells ≠ [] → ∃ lo ∈ present cells, ∃ hi ∈ present cells,
        (∀ c ∈ present cells, lo.trueSeconds ≤ c.trueSeconds ∧ c.trueSeconds ≤ hi.trueSeconds) ∧
        prof.core.minimum = some lo.trueSeconds ∧ prof.core.maximum = some hi.trueSeconds) := by
  have hp : ∀ l : List (Option DateCell),
      present (l.map (Option.map DateCell.trueSeconds)) = (present l).map DateCell.trueSeconds := by
    intro l
    induction l with
    | nil => rfl
    | cons a l ih => cases a <;> simp_all [present]
  refine ⟨profileTemporal p (cells.map (Option.map DateCell.trueSeconds)), ?_, ?_, ?_, ?_, ?_⟩
  · simp only [profileDateCells, temporal_epoch_seconds cells h]; rfl
  all_goals rw [(profilers_wiring p id _).2.1, hle, hkey]
  · simp [core, coreFrom]
  · simp [core, coreFrom, hp]
  · intro he
    exact (minmax_true intLe id instants_and_text_ordered.1 _).1 (by rw [hp, he]; rfl)
  · intro hne
    obtain ⟨lo, hlo, hi, hhi, hall, hmin, hmax⟩ :=
      (minmax_true intLe id instants_and_text_ordered.1 (cells.map (Option.map DateCell.trueSeconds))).2
        (by rw [hp]; simpa using hne)
    rw [hp] at hlo hhi hall
    obtain ⟨clo, hclo, rfl⟩ := List.mem_map.mp hlo
    obtain ⟨chi, hchi, rfl⟩ := List.mem_map.mp hhi
    refine ⟨clo, hclo, chi, hchi, ?_, hmin, hmax⟩
    intro c hc
    have := hall c.trueSeconds (List.mem_map.mpr ⟨c, hc, rfl⟩)
    simpa [intLe] using this

/-- **Why the intermediate unit matters**: a general path that builds `datetime64[ns]` first (both paths
through one nanosecond array) leaves the whole seconds of an instant *exactly when* the instant fits 64-bit
nanoseconds, 1677-09-21T00:12:43.145224192 .. 2262-04-11T23:47:16.854775807; the customary end-of-time date
9999-12-31 comes out as −4852202632 (1816-03-29), 1600-01-01 as a day of 2184. -/
theorem nanosecond_intermediate_exact_iff (t : Int) :
    runChain [.dt .ns, .dt .s, .i64] t = t / 1000000000
      ↔ (-9223372036854775808 ≤ t ∧ t ≤ 9223372036854775807) := by
  simp only [runChain, List.foldl, castFirst, castStep, recast, TUnit.nanos, wrap64]
  constructor <;> intro h <;> omega

theorem nanosecond_intermediate_wraps :
    dateSecondsWith [.dt .ns, .dt .s, .i64] Gen.ProfileTime.datePandasChain Gen.ProfileTime.dateFallbackCaught
        Gen.ProfileTime.dateSentinel
        [some (.civil ⟨9999, 12, 31, 0, 0, 0, 0⟩ 0), some (.civil ⟨1600, 1, 1, 0, 0, 0, 0⟩ 0), some (.civil ⟨2021, 6, 1, 0, 0, 0, 0⟩ 0)]
      = .ok [some (-4852202632), some 6770648073, some 1622505600] ∧
    (DateCell.civil ⟨9999, 12, 31, 0, 0, 0, 0⟩ 0).trueSeconds = 253402214400 ∧
    (DateCell.civil ⟨1600, 1, 1, 0, 0, 0, 0⟩ 0).trueSeconds = -11676096000 := by
  refine ⟨by rfl, by rfl, by rfl⟩

/-! ## `TableProfile.__add__` around the column sums: a batch without rows -/

/-- **Adding the profile of a batch without rows** (a cut at 0 or at the end; the table profile of such a batch has
no columns, so `TableProfile.__add__` puts a stand-in `ColumnProfile(name, type, count, missing)` in its place — the
stand-in comes from the source, `Gen.ProfileTable`): with no rows on the right the sum of a column is the column's
own profile, with no rows on the left likewise (the columns only the right side has are kept), and with both
sides present it is `ColumnProfile.__add__` — in each case the profile of the concatenation.  (The pinned tree
used the rows of the *other* side for the stand-in and dropped the columns only the right side has:
`profile(rows) + profile(no rows)` doubled count and missing, `profile(no rows) + profile(rows)` had no columns.) -/
theorem table_add_expressions (le : α → α → Bool) (key : α → Int) (h : TotalPreorder le) (hm : Monotone le key)
    (a b : List (Option α)) :
    addColumnOpt a.length 0 (some (core le key a)) none = some (core le key (a ++ [])) ∧
    addColumnOpt 0 b.length none (some (core le key b)) = some (core le key ([] ++ b)) ∧
    addColumnOpt a.length b.length (some (core le key a)) (some (core le key b)) = some (core le key (a ++ b)) := by
  have hnil : core le key ([] : List (Option α)) = standIn (0, 0) := by
    simp [core, coreFrom, standIn, present, pickExtreme, minBy, maxBy]
  have ha := add_core le key h hm a []
  have hb := add_core le key h hm [] b
  rw [hnil] at ha hb
  have hk : Gen.ProfileTable.keepsRightOnly = true := rfl
  refine ⟨?_, ?_, ?_⟩
  · simp only [addColumnOpt, Gen.ProfileTable.rightMissing]
    rw [ha]
  · simp only [addColumnOpt, Gen.ProfileTable.leftMissing, hk, if_true]
    rw [hb]
  · simp only [addColumnOpt]; rw [add_core le key h hm a b]

/-! ## The glue: operands of a sum stay what they were; morsel profiles are matched up by column name -/

/-- **Morsel loop, generated key** (`Gen.ProfileGlue.accumulatorKey`, from `profiles[K]` in
`TableProfile.from_dataframe`): the accumulator of a column is found again in the next morsel whatever the identity of
the column object that morsel brings (same name ⇒ same key), two columns never share one (different names ⇒
different keys).  (Whether a column without cells is passed over — `Gen.ProfileGlue.skipsEmptyColumn` — does not matter
to the theorems below: `to_batches` yields no morsel without rows.) -/
theorem morsel_accumulator_expressions (c d : MCol α) :
    (c.name = d.name → keyOf Gen.ProfileGlue.accumulatorKey c = keyOf Gen.ProfileGlue.accumulatorKey d) ∧
    (c.name ≠ d.name → keyOf Gen.ProfileGlue.accumulatorKey c ≠ keyOf Gen.ProfileGlue.accumulatorKey d) := by
  refine ⟨fun h => ?_, fun h h' => ?_⟩
  · show Key.byName c.name = Key.byName d.name
    rw [h]
  · have h'' : Key.byName c.name = Key.byName d.name := h'
    exact h (Key.byName.inj h'')

/-- Non-vacuity of the morsel theorems: two morsels of a frame whose schema is a list of names — the loop makes new
column objects (identities 1, 2 then 3, 4) for each — end in one entry per column, the counts added up. -/
example :
    fromDataframe Gen.ProfileGlue.accumulatorKey Gen.ProfileGlue.skipsEmptyColumn (fun c : MCol Nat => c.data.length) (· + ·)
      [[⟨"a", 1, [some 0, none]⟩, ⟨"b", 2, [none, none]⟩], [⟨"a", 3, [some 5]⟩, ⟨"b", 4, [some 7]⟩]]
      = [(Key.byName "a", 3), (Key.byName "b", 3)] := by decide

/-- **Count = number of rows above the morsel size, for every way a frame is bound to its schema** (clause 1 through
`from_dataframe`'s loop).  For every number of morsels, every list of distinct column names and *any* identities of the
column objects the morsels bring (shared, as for a `RelationSchema`, or new in every morsel, as for a schema that is a
list of names): the loop ends with exactly one entry per column, in column order, and each entry holds the profiles of
that column's morsels added up in morsel order (`columnSums`). -/
theorem from_dataframe_one_entry_per_column (prof : MCol α → P) (add : P → P → P) (names : List String)
    (hn : names.Nodup) (m : List (MCol α)) (ms : List (List (MCol α)))
    (hshape : ∀ m' ∈ m :: ms, m'.map (·.name) = names)
    (hrows : ∀ m' ∈ m :: ms, ∀ c ∈ m', c.data ≠ []) :
    fromDataframe Gen.ProfileGlue.accumulatorKey Gen.ProfileGlue.skipsEmptyColumn prof add (m :: ms)
      = List.zipWith Prod.mk (names.map Key.byName) (columnSums prof add m ms) :=
  fromDataframe_by_name Gen.ProfileGlue.skipsEmptyColumn prof add names hn m ms hshape hrows

/-- … and the count of every entry is the number of rows of the frame: `rows m'` cells in every column of morsel
`m'`, no morsel without rows (`to_batches_expressions`). -/
theorem from_dataframe_counts_rows (rows : List (MCol α) → Nat) (names : List String)
    (hn : names.Nodup) (m : List (MCol α)) (ms : List (List (MCol α)))
    (hshape : ∀ m' ∈ m :: ms, m'.map (·.name) = names)
    (hcells : ∀ m' ∈ m :: ms, ∀ c ∈ m', c.data.length = rows m')
    (hpos : ∀ m' ∈ m :: ms, 0 < rows m') :
    fromDataframe Gen.ProfileGlue.accumulatorKey Gen.ProfileGlue.skipsEmptyColumn (fun c : MCol α => c.data.length) (· + ·) (m :: ms)
      = names.map (fun nm => (Key.byName nm, rows m + (ms.map rows).sum)) := by
  have hrows : ∀ m' ∈ m :: ms, ∀ c ∈ m', c.data ≠ [] := by
    intro m' hm' c hc hnil
    have h1 := hcells m' hm' c hc
    have h2 := hpos m' hm'
    rw [hnil] at h1
    simp at h1
    omega
  rw [from_dataframe_one_entry_per_column _ _ names hn m ms hshape hrows]
  rw [columnSums_counts rows names.length m ms
    (fun m' hm' => by have := congrArg List.length (hshape m' hm'); simpa using this) hcells]
  apply List.ext_getElem (by simp)
  intro i h1 h2
  simp

/-- **What a key by identity does** (the seeded change C15-w6s3): the same two morsels of a frame whose schema is a
list of names, accumulators keyed by `column.identity` — no morsel profile is ever added to another: two entries per
column, each with the count of one morsel. -/
theorem identity_key_splits_morsels :
    fromDataframe KeyKind.identity true (fun c : MCol Nat => c.data.length) (· + ·)
      [[⟨"a", 1, [some 0, none]⟩], [⟨"a", 2, [some 5]⟩]] = [(Key.byIdent 1, 2), (Key.byIdent 2, 1)] ∧
    fromDataframe KeyKind.name true (fun c : MCol Nat => c.data.length) (· + ·)
      [[⟨"a", 1, [some 0, none]⟩], [⟨"a", 2, [some 5]⟩]] = [(Key.byName "a", 3)] := by decide

/-- **Operands of a sum are not changed** (additivity, the profiles being used again).  The histogram part of
`ColumnProfile.__add__` over a heap of list objects, with what the source copies **generated**
(`Gen.ProfileGlue.loadCopiesBins`: `distogram.load` makes its own list; `sumStartsFromCopy`: the sum starts from
`self.deep_copy()`; `sumCopiesOtherHistogram` may be either — a kept histogram that is shared but never written to is
harmless) and whatever `distogram.merge` writes into its first argument (`mrg`): no list that existed before the
addition — the operands' histograms among them — is changed, and the sum's histogram holds the merge into the longer
histogram, or the only histogram there is. -/
theorem sum_leaves_operands (mrg : β → β → β) (len : β → Nat) (h : Heap β) (self other : Nat)
    (hs : self < h.next) (ho : other < h.next) :
    let r := addHist Gen.ProfileGlue.loadCopiesBins Gen.ProfileGlue.sumStartsFromCopy
      Gen.ProfileGlue.sumCopiesOtherHistogram mrg len h self other
    (∀ q, q < h.next → r.2.get q = h.get q) ∧
    r.2.get r.1 = addHistSpec mrg len (h.get self) (h.get other) := by
  have := addHist_copies Gen.ProfileGlue.sumCopiesOtherHistogram mrg len h self other hs ho
  exact ⟨this.1, this.2.2.2⟩

/-- … so the same two profiles added a second time give the same histogram. -/
theorem sum_twice_same (mrg : β → β → β) (len : β → Nat) (h : Heap β) (self other : Nat)
    (hs : self < h.next) (ho : other < h.next) :
    let r1 := addHist Gen.ProfileGlue.loadCopiesBins Gen.ProfileGlue.sumStartsFromCopy
      Gen.ProfileGlue.sumCopiesOtherHistogram mrg len h self other
    let r2 := addHist Gen.ProfileGlue.loadCopiesBins Gen.ProfileGlue.sumStartsFromCopy
      Gen.ProfileGlue.sumCopiesOtherHistogram mrg len r1.2 self other
    r2.2.get r2.1 = r1.2.get r1.1 ∧ r2.2.get r1.1 = r1.2.get r1.1 := by
  have a := addHist_copies Gen.ProfileGlue.sumCopiesOtherHistogram mrg len h self other hs ho
  have hs' := Nat.lt_of_lt_of_le hs a.2.1
  have ho' := Nat.lt_of_lt_of_le ho a.2.1
  have b := addHist_copies Gen.ProfileGlue.sumCopiesOtherHistogram mrg len
    (addHist true true Gen.ProfileGlue.sumCopiesOtherHistogram mrg len h self other).2 self other hs' ho'
  refine ⟨?_, ?_⟩
  · have e := b.2.2.2
    rw [a.1 self hs, a.1 other ho, ← a.2.2.2] at e
    exact e
  · exact b.1 _ a.2.2.1

/-- **What a `load` that keeps the list does** (the seeded change C15-w6s1): two batches of one value each, merge =
"the bins of both"; after the addition the left operand's own histogram counts both batches, and the same two profiles
added again count one batch twice. -/
theorem aliased_load_changes_operand :
    let h : Heap (List (Int × Nat)) := { next := 2, get := fun r => if r = 0 then [(0, 1)] else if r = 1 then [(5, 1)] else [] }
    let r1 := addHist false true true (· ++ ·) List.length h 0 1
    let r2 := addHist false true true (· ++ ·) List.length r1.2 0 1
    r1.2.get r1.1 = [(0, 1), (5, 1)] ∧ r1.2.get 0 = [(0, 1), (5, 1)] ∧ h.get 0 = [(0, 1)] ∧
    r2.2.get r2.1 = [(0, 1), (5, 1), (5, 1)] := by decide

/-! ## The profiled window of a text value: characters, not bytes -/

/-- **The window of `VarcharProfiler` as it stands in the source** (generated: the unit of the cut — `col[:W]` slices
characters — and its width): the profiled part of a value is its first `textCutWidth` *characters*, whatever their
UTF-8 length.  So a value of at most that many characters is profiled whole, and two values that differ within their
first `textCutWidth` characters stay two values for the most-frequent list, the order and the transitions. -/
theorem text_window_expressions (s t : String) :
    Gen.ProfileExpr.textCutOnBytes = false ∧
    (cutText s).toList = s.toList.take Gen.ProfileExpr.textCutWidth ∧
    (s.toList.length ≤ Gen.ProfileExpr.textCutWidth → cutText s = s) ∧
    (s.toList.take Gen.ProfileExpr.textCutWidth ≠ t.toList.take Gen.ProfileExpr.textCutWidth → cutText s ≠ cutText t) := by
  have hu : Gen.ProfileExpr.textCutOnBytes = false := rfl
  have hc : ∀ u : String, (cutText u).toList = u.toList.take Gen.ProfileExpr.textCutWidth := by
    intro u
    simp [cutText, cutTextWith, hu]
  refine ⟨hu, hc s, ?_, ?_⟩
  · intro hl
    apply String.toList_injective
    rw [hc s, List.take_of_length_le hl]
  · intro hne heq
    exact hne (by rw [← hc s, ← hc t, heq])

/-- **Counterexample: a window of bytes folds different values** (`encode()[:W].decode(errors="ignore")` in place of
`[:W]`): with a window of 4, the three-letter Greek words `αβγ` and `αβδ` (6 bytes each) are both cut to `αβ`, although
they have no more than 4 characters and differ within them; the window of characters keeps them apart. -/
theorem byte_window_folds_values :
    takeBytes 4 ['α', 'β', 'γ'] = ['α', 'β'] ∧ takeBytes 4 ['α', 'β', 'δ'] = ['α', 'β'] ∧
    ['α', 'β', 'γ'].take 4 ≠ ['α', 'β', 'δ'].take 4 ∧ ['α', 'β', 'γ'].length ≤ 4 := by
  decide

/-! ## `column_names` through `single_item_cache`: every frame is answered with its own names -/

/-- **A single-item cache is transparent when equal arguments have equal results**: for any set `S` of arguments on which
`eq a b = true` implies `f a = f b`, every sequence of calls with arguments from `S`, from any entry that is itself a
computed result, is answered as if the function were called each time. -/
theorem single_item_cache_transparent {σ τ : Type} (eq : σ → σ → Bool) (f : σ → τ) (S : σ → Prop)
    (h : ∀ a b, S a → S b → eq a b = true → f a = f b) :
    ∀ (as : List σ) (e : Option (σ × τ)), (∀ a ∈ as, S a) → (∀ p, e = some p → S p.1 ∧ p.2 = f p.1) →
      cachedCalls eq f e as = as.map f := by
  intro as
  induction as with
  | nil => intro e _ _; rfl
  | cons a as ih =>
    intro e hS he
    have hSa : S a := hS a List.mem_cons_self
    have hrest : ∀ b ∈ as, S b := fun b hb => hS b (List.mem_cons_of_mem _ hb)
    cases e with
    | none =>
      simp only [cachedCalls, cachedCall, List.map_cons]
      rw [ih _ hrest (by intro p hp; cases hp; exact ⟨hSa, rfl⟩)]
    | some p =>
      obtain ⟨a0, r0⟩ := p
      obtain ⟨hS0, hr0⟩ := he (a0, r0) rfl
      by_cases hq : eq a0 a = true
      · simp only [cachedCalls, cachedCall, hq, if_true, List.map_cons]
        rw [ih _ hrest (by intro p hp; cases hp; exact ⟨hS0, hr0⟩)]
        have : r0 = f a := Eq.trans hr0 (h a0 a hS0 hSa hq)
        rw [this]
      · simp only [cachedCalls, cachedCall, hq, List.map_cons]
        rw [ih _ hrest (by intro p hp; cases hp; exact ⟨hSa, rfl⟩)]
        rfl

/-- **`DataFrame.column_names` answers every frame with its own names** — with the cache and the equality of frames as
they stand in the source (generated: `column_names` is wrapped in `single_item_cache`; the class defines no `__eq__`,
so two frames are equal only when they are one object): for any sequence of frame objects, holding whatever rows (equal
rows included), in which one object has one list of names. -/
theorem column_names_of_own_frame {ρ ν : Type} [DecidableEq ρ] (fs : List (FrameObj ρ ν))
    (hobj : ∀ x ∈ fs, ∀ y ∈ fs, x.obj = y.obj → x.names = y.names) :
    columnNamesAnswers Gen.ProfileGlue.columnNamesCached Gen.ProfileGlue.frameEqIsIdentity fs = fs.map (·.names) := by
  have hid : Gen.ProfileGlue.frameEqIsIdentity = true := rfl
  unfold columnNamesAnswers
  split
  · refine single_item_cache_transparent _ _ (· ∈ fs) ?_ fs none (fun a ha => ha) (by intro p hp; cases hp)
    intro a b ha hb hq
    simp only [frameEq, hid, Bool.not_true, Bool.false_and, Bool.or_false, decide_eq_true_eq] at hq
    exact hobj a ha b hb hq
  · rfl

/-- **Counterexample: frames that compare equal by their rows** (a `DataFrame.__eq__` in step with `__hash__`): two frame
objects holding the same rows, their columns named `[0, 1]` and `[1, 0]` — the second is answered with the first one's
names (and so every column of its profile is computed from the cells of the other column); by identity each gets its
own. -/
theorem rows_equality_serves_another_frames_names :
    let a : FrameObj Nat Nat := ⟨1, [10, 20], [0, 1]⟩
    let b : FrameObj Nat Nat := ⟨2, [10, 20], [1, 0]⟩
    columnNamesAnswers true false [a, b, a] = [[0, 1], [0, 1], [0, 1]] ∧
    columnNamesAnswers true true [a, b, a] = [[0, 1], [1, 0], [0, 1]] := by
  decide

end C15
