import OrsoVerif.Model.Encodings
import OrsoVerif.Lemmas.Encodings
/-!
# C09 — Compressed column encodings are lossless

Property theorems only.  Every statement quantifies over all element types, all
sequences (any length), all defaults, all lengths.  The comparison used by the run
detection and by the sparse scan is a parameter (`eq`, `ne`): for floats it is IEEE
equality, under which NaN is unequal to itself, so the only assumption made about it is
soundness (`eq a b = true → a = b`, resp. `ne a d = false → a = d`) — never reflexivity.
-/
namespace C09
open Enc

variable {α β : Type}

/-! ## Run-length -/

/-- The source still compares with `==` in the run detection and with `!=` in the sparse scan,
and starts every run at length one (extracted from `orso/schema.py` on every run; the model's
`rleEncode` uses `Gen.Encodings.runStart`, so the length theorems below depend on it). -/
theorem source_comparisons :
    Gen.Encodings.rleCompareIsEq = true ∧ Gen.Encodings.sparseCompareIsNe = true ∧
    Gen.Encodings.runStart = 1 := by decide

/-- **RLE round trip.**  Expanding the stored runs reproduces the input, element for element. -/
theorem rle_roundtrip (eq : α → α → Bool) (heq : ∀ a b, eq a b = true → a = b) (xs : List α) :
    rleDecode (rleEncode eq xs) = xs := by
  cases xs with
  | nil => rfl
  | cons x t =>
    show rleDecode ⟨(rleLoop eq x 1 t).map (·.1), (rleLoop eq x 1 t).map (·.2)⟩ = x :: t
    rw [rleDecode_runs, rleLoop_expand eq heq]
    rfl

/-- **Adjacent runs differ**: consecutive stored values are unequal under the very comparison
the loop uses (`value == prev_value`), for every input and every comparison. -/
theorem rle_adjacent_differ (eq : α → α → Bool) (xs : List α) (i : Nat)
    (hi : i + 1 < (rleEncode eq xs).values.length) :
    eq (rleEncode eq xs).values[i + 1] (rleEncode eq xs).values[i] = false := by
  cases xs with
  | nil => simp [rleEncode] at hi
  | cons x t => exact adjDiffer_getElem eq _ (rleLoop_adjDiffer eq t x 1) i hi

/-- **Run lengths sum to the input length**, and there is one length per stored value. -/
theorem rle_lengths_sum (eq : α → α → Bool) (xs : List α) :
    (rleEncode eq xs).lengths.sum = xs.length ∧
    (rleEncode eq xs).lengths.length = (rleEncode eq xs).values.length := by
  cases xs with
  | nil => simp [rleEncode]
  | cons x t =>
    refine ⟨?_, by simp [rleEncode]⟩
    show ((rleLoop eq x 1 t).map (·.2)).sum = (x :: t).length
    rw [rleLoop_lengths_sum]; simp; omega

/-- **Every run length is positive** (no empty run is stored). -/
theorem rle_lengths_pos (eq : α → α → Bool) (xs : List α) :
    ∀ n ∈ (rleEncode eq xs).lengths, 0 < n := by
  cases xs with
  | nil => simp [rleEncode]
  | cons x t =>
    intro n hn
    obtain ⟨q, hq, rfl⟩ := List.mem_map.mp (show n ∈ (rleLoop eq x 1 t).map (·.2) from hn)
    exact rleLoop_lengths_pos eq t x 1 (by omega) q hq

/-- **Map commutes with RLE expansion**, for every stored form (not only encoder outputs). -/
theorem map_commutes_rle (f : α → β) (e : RLE α) :
    rleDecode (e.mapValues f) = (rleDecode e).map f := by
  obtain ⟨vs, ls⟩ := e
  simp only [rleDecode, RLE.mapValues]
  induction vs generalizing ls with
  | nil => simp
  | cons v t ih =>
    cases ls with
    | nil => simp
    | cons l ls' => simp [List.flatMap_cons, ih ls']

/-! ## Dictionary -/

/-- **Dictionary round trip.**  Gathering the entries by the codes reproduces the input (in
particular no code is out of range: the gather does not fail).  Holds for every order `le`. -/
theorem dict_roundtrip [DecidableEq α] (le : α → α → Bool) (xs : List α) :
    dictDecode (dictEncode le xs) = some xs := by
  unfold dictDecode dictEncode
  exact gather_idxOf _ xs fun x hx => List.mem_mergeSort.mpr ((mem_dedup x xs).mpr hx)

/-- **Dictionary entries are unique.** -/
theorem dict_values_nodup [DecidableEq α] (le : α → α → Bool) (xs : List α) :
    (dictEncode le xs).values.Nodup :=
  (List.mergeSort_perm (dedup xs) le).symm.nodup (nodup_dedup xs)

/-- **Codes index the dictionary**: one code per element, each within range, each pointing at
an entry equal to its element. -/
theorem dict_codes_in_range [DecidableEq α] (le : α → α → Bool) (xs : List α) :
    (dictEncode le xs).codes.length = xs.length ∧
    (∀ c ∈ (dictEncode le xs).codes, c < (dictEncode le xs).values.length) ∧
    (∀ i (h : i < xs.length), (dictEncode le xs).values[((dictEncode le xs).codes[i]?).getD 0]? = some xs[i]) := by
  have hmem : ∀ x ∈ xs, x ∈ (dedup xs).mergeSort le :=
    fun x hx => List.mem_mergeSort.mpr ((mem_dedup x xs).mpr hx)
  refine ⟨by simp [dictEncode], ?_, ?_⟩
  · intro c hc
    obtain ⟨x, hx, rfl⟩ := List.mem_map.mp (show c ∈ xs.map _ from hc)
    exact List.idxOf_lt_length_of_mem (hmem x hx)
  · intro i h
    simp only [dictEncode, List.getElem?_map, List.getElem?_eq_getElem h, Option.map_some,
      Option.getD_some]
    exact getElem?_idxOf_of_mem _ _ (hmem _ (List.getElem_mem h))

/-- The dictionary holds exactly the values that occur in the input. -/
theorem dict_values_complete [DecidableEq α] (le : α → α → Bool) (xs : List α) (v : α) :
    v ∈ (dictEncode le xs).values ↔ v ∈ xs := by
  simp [dictEncode, List.mem_mergeSort, mem_dedup]

/-- The dictionary is sorted whenever `le` is a total preorder (as `numpy.unique` sorts). -/
theorem dict_values_sorted [DecidableEq α] (le : α → α → Bool)
    (trans : ∀ a b c, le a b → le b c → le a c) (total : ∀ a b, le a b || le b a) (xs : List α) :
    (dictEncode le xs).values.Pairwise (fun a b => le a b) :=
  List.pairwise_mergeSort trans total (dedup xs)

/-- **Map commutes with dictionary expansion**, for every stored form. -/
theorem map_commutes_dict (f : α → β) (e : Dict α) :
    dictDecode (e.mapValues f) = (dictDecode e).map (List.map f) := by
  unfold dictDecode Dict.mapValues
  exact gather_map f e.values e.codes

/-! ## Sparse -/

/-- **Sparse round trip.**  Filling a default array of the total length and scattering the
stored values over it reproduces the input (in particular the scatter does not fail). -/
theorem sparse_roundtrip (ne : α → α → Bool) (d : α) (hne : ∀ a, ne a d = false → a = d)
    (xs : List α) : sparseDecode d (sparseEncode ne d xs) = some xs := by
  have h := scatter_scan ne d id xs (fun x _ hx => hne x hx) []
  simp only [List.nil_append, List.length_nil, List.map_id_fun, id_eq] at h
  unfold sparseDecode sparseEncode
  simp only [List.length_map, if_true]
  rw [zip_map_fst_snd]
  simpa using h

/-- **Sparse storage excludes the default**: every stored value is unequal to the default
under the comparison the scan uses; the indices are the strictly increasing positions of the
stored values in the input. -/
theorem sparse_excludes_default (ne : α → α → Bool) (d : α) (xs : List α) :
    (∀ v ∈ (sparseEncode ne d xs).values, ne v d = true) ∧
    (sparseEncode ne d xs).indices.Pairwise (· < ·) ∧
    (sparseEncode ne d xs).indices.length = (sparseEncode ne d xs).values.length ∧
    (sparseEncode ne d xs).total = xs.length ∧
    (∀ p ∈ (sparseEncode ne d xs).indices.zip (sparseEncode ne d xs).values,
      p.1 < xs.length ∧ xs[p.1]? = some p.2) := by
  refine ⟨?_, sparseScan_increasing ne d xs 0, by simp [sparseEncode], rfl, ?_⟩
  · intro v hv
    obtain ⟨p, hp, rfl⟩ := List.mem_map.mp (show v ∈ (sparseScan ne d 0 xs).map (·.2) from hv)
    exact sparseScan_ne ne d xs 0 p hp
  · intro p hp
    have hp' : p ∈ sparseScan ne d 0 xs := by
      have : (sparseEncode ne d xs).indices.zip (sparseEncode ne d xs).values
          = sparseScan ne d 0 xs := zip_map_fst_snd _
      rw [this] at hp; exact hp
    obtain ⟨_, h2, h3⟩ := sparseScan_range ne d xs 0 p hp'
    exact ⟨by omega, by simpa using h3⟩

/-- **Map commutes with sparse expansion** for functions that fix the default, for every
stored form.  (The stored form does not contain the default, so nothing can be demanded of
functions that move it: see `map_sparse_needs_fixed_default`.) -/
theorem map_commutes_sparse (f : α → α) (d : α) (hf : f d = d) (e : Sparse α) :
    sparseDecode d (e.mapValues f) = (sparseDecode d e).map (List.map f) := by
  have := sparseDecode_map f d e
  rwa [hf] at this

/-- The hypothesis `f d = d` is necessary: for any function that moves the default, the
one-element column `[d]` expands to `[d]` after mapping, not to `[f d]`. -/
theorem map_sparse_needs_fixed_default (ne : α → α → Bool) (f : α → α) (d : α)
    (hd : ne d d = false) (hf : f d ≠ d) :
    sparseDecode d ((sparseEncode ne d [d]).mapValues f) = some [d] ∧ [d] ≠ [d].map f := by
  constructor
  · simp [sparseEncode, sparseScan, hd, Sparse.mapValues, sparseDecode, scatter]
  · intro h; apply hf; simpa using h.symm

/-! ## Constant and function columns -/

/-- **A constant column expands to its value repeated to its length**; it stores one value. -/
theorem constant_expand (v : α) (n : Nat) :
    constDecode (constEncode v n) = some (List.replicate n v) ∧ (constEncode v n).values = [v] :=
  ⟨rfl, rfl⟩

/-- Spelled out: the expansion has the requested length and every element is the value. -/
theorem constant_expand_elements (v : α) (n : Nat) (out : List α)
    (h : constDecode (constEncode v n) = some out) : out.length = n ∧ ∀ x ∈ out, x = v := by
  have : out = List.replicate n v := by
    have h' : some (List.replicate n v) = some out := h
    exact (Option.some.inj h').symm
  subst this
  exact ⟨by simp, fun x hx => (List.mem_replicate.mp hx).2⟩

/-- **Map commutes with constant expansion**, for every stored form. -/
theorem map_commutes_constant (f : α → β) (e : Const α) :
    constDecode (e.mapValues f) = (constDecode e).map (List.map f) := by
  obtain ⟨vs, n⟩ := e
  cases vs with
  | nil => rfl
  | cons v t =>
    cases t with
    | nil => simp [constDecode, Const.mapValues]
    | cons w t' => rfl

/-- **A function column expands to its bound function's value repeated to its length.** -/
theorem function_expand {γ : Type} (binding : γ → α) (cfg : γ) (n : Nat) :
    (functionExpand binding cfg n).length = n ∧
    ∀ x ∈ functionExpand binding cfg n, x = binding cfg :=
  ⟨by simp [functionExpand], fun x hx => (List.mem_replicate.mp hx).2⟩

/-! ## The result dtype of the repaired `SparseColumn.materialize` -/

/-- The result dtype is an upper bound of the stored values' dtype and of the default's dtype. -/
theorem sparse_dtype_is_join (vdt ddt : DType) :
    DType.le vdt (DType.join vdt ddt) = true ∧ DType.le ddt (DType.join vdt ddt) = true :=
  ⟨DType.le_join_left vdt ddt, DType.le_join_right vdt ddt⟩

/-- Storing a value into an array of a dtype above its own never fails, never truncates text
and changes a number at most by widening it along `bool → int → float`. -/
theorem cast_into_wider (i2f : Int → UInt64) (t rt : DType) (v : PyVal)
    (hv : holds t v = true) (hle : DType.le t rt = true) :
    ∃ w, castInto i2f rt v = some w ∧ Widened i2f v w := by
  cases t <;> cases v <;> simp [holds] at hv <;> cases rt <;>
    simp [DType.le, DType.rank] at hle <;>
    simp [castInto, Widened] <;> omega

/-- **Casting into the join is injective** on the values of one dtype (given that the
integer-to-double conversion is, which holds up to 2^53): two different stored values can
never come out of the expansion as the same value. -/
theorem cast_into_wider_injective (i2f : Int → UInt64) (hi : ∀ a b, i2f a = i2f b → a = b)
    (t rt : DType) (v v' : PyVal) (hv : holds t v = true) (hv' : holds t v' = true)
    (hle : DType.le t rt = true) (h : castInto i2f rt v = castInto i2f rt v') : v = v' := by
  have hb : ∀ b b' : Bool, (if b then (1 : Int) else 0) = (if b' then 1 else 0) → b = b' := by
    intro b b'; cases b <;> cases b' <;> simp
  cases t <;> cases v <;> simp [holds] at hv <;> cases v' <;> simp [holds] at hv' <;>
    cases rt <;> simp [DType.le, DType.rank] at hle <;>
    simp [castInto] at h ⊢ <;>
    first
      | exact hb _ _ h
      | exact hi _ _ h
      | exact hb _ _ (hi _ _ h)
      | omega
      | (split at h <;> split at h <;> simp_all <;> omega)
      | simp_all

/-- **The repaired sparse expansion is lossless in the dtype lattice.**  For every input whose
elements are of dtype `vdt`, every default of dtype `ddt`: `materialize` succeeds, its result
dtype is the join, and the expansion is the input element for element (`xs.map c`), each element at most
widened by `c` (never truncated, never narrowed).  `hne` says what the scan's comparison means: an element
it treats as the default is indistinguishable from the default once both are in the result
dtype (for `0.0` against the default `0`: both are `0.0` in `float64`). -/
theorem sparse_dtype_lossless (i2f : Int → UInt64) (ne : PyVal → PyVal → Bool)
    (d : PyVal) (vdt ddt : DType) (xs : List PyVal)
    (hd : scalarDType d = some ddt) (hdd : holds ddt d = true)
    (hx : ∀ x ∈ xs, holds vdt x = true)
    (hne : ∀ x ∈ xs, ne x d = false →
      castInto i2f (DType.join vdt ddt) x = castInto i2f (DType.join vdt ddt) d) :
    ∃ c : PyVal → PyVal, (∀ x ∈ xs, Widened i2f x (c x)) ∧
      sparseMaterialize i2f d vdt (sparseEncode ne d xs) = some (DType.join vdt ddt, xs.map c) := by
  let rt := DType.join vdt ddt
  let c : PyVal → PyVal := fun v => (castInto i2f rt v).getD v
  have hcx : ∀ x ∈ xs, castInto i2f rt x = some (c x) ∧ Widened i2f x (c x) := by
    intro x hxm
    obtain ⟨w, hw, hW⟩ := cast_into_wider i2f vdt rt x (hx x hxm) (DType.le_join_left vdt ddt)
    simp only [c, hw, Option.getD_some]; exact ⟨trivial, hW⟩
  have hcd : castInto i2f rt d = some (c d) := by
    obtain ⟨w, hw, _⟩ := cast_into_wider i2f ddt rt d hdd (DType.le_join_right vdt ddt)
    simp only [c, hw, Option.getD_some]
  have hmem : ∀ v ∈ (sparseEncode ne d xs).values, v ∈ xs := by
    intro v hv
    obtain ⟨p, hp, rfl⟩ := List.mem_map.mp (show v ∈ (sparseScan ne d 0 xs).map (·.2) from hv)
    have := (sparseScan_range ne d xs 0 p hp).2.2
    exact List.mem_of_getElem? this
  have hvals : (sparseEncode ne d xs).values.mapM (castInto i2f rt)
      = some ((sparseEncode ne d xs).values.map c) :=
    mapM_some_of_forall _ fun v hv => (hcx v (hmem v hv)).1
  have hdec : sparseDecode (c d) ((sparseEncode ne d xs).mapValues c) = some (xs.map c) := by
    have h := scatter_scan ne d c xs (fun x hxm hx0 => by
      have h1 := (hcx x hxm).1
      have h2 := hne x hxm hx0
      rw [show DType.join vdt ddt = rt from rfl, h1, hcd] at h2
      exact Option.some.inj h2) []
    simp only [List.nil_append, List.length_nil] at h
    unfold sparseDecode sparseEncode Sparse.mapValues
    simp only [List.length_map, if_true]
    rw [List.zip_map_right, zip_map_fst_snd]
    have e : (Prod.map id c : Nat × PyVal → Nat × PyVal) = fun p => (p.1, c p.2) := by
      funext p; cases p; rfl
    rw [e]
    simpa using h
  refine ⟨c, fun x hxm => (hcx x hxm).2, ?_⟩
  unfold sparseMaterialize
  simp only [hd, Option.bind_eq_bind, Option.bind_some, show DType.join vdt ddt = rt from rfl, hcd, hvals]
  have : ({ sparseEncode ne d xs with values := (sparseEncode ne d xs).values.map c } : Sparse PyVal)
      = (sparseEncode ne d xs).mapValues c := rfl
  rw [this, hdec]
  rfl

/-- The defect of the pinned tree, on the model: taking the dtype of the default alone narrows
a float to an integer (default `0`: `1.5 ↦ 1`) and cuts text to the width of the default
(default `""`, dtype `<U1`: at most one character survives). -/
theorem pinned_cast_narrows (f2i : UInt64 → Int) (b : UInt64) (s : String) (w : Nat) :
    castPinned f2i .int (.float b) = some (.int (f2i b)) ∧
    castPinned f2i (.str w) (.str s) = some (.str (String.ofList (s.toList.take w))) ∧
    (s.toList.take w).length ≤ w :=
  ⟨rfl, rfl, by simp [List.length_take]; omega⟩

/-! ## Non-vacuity -/

example : (rleEncode (fun a b : Nat => a == b) [3, 3, 5, 3]).values = [3, 5, 3] ∧
    (rleEncode (fun a b : Nat => a == b) [3, 3, 5, 3]).lengths = [2, 1, 1] := by decide
example : rleDecode (rleEncode (fun a b : Nat => a == b) [3, 3, 5, 3]) = [3, 3, 5, 3] := by decide
/-- (`List.mergeSort` is defined by well-founded recursion and does not reduce under `decide`;
the concrete dictionary `[1, 2, 3]` / codes `[2, 0, 1, 0]` of this input is what the native
driver computes and the correspondence compares with `numpy.unique`.) -/
example : dictDecode (dictEncode (fun a b : Nat => a ≤ b) [3, 1, 2, 1]) = some [3, 1, 2, 1] ∧
    (dictEncode (fun a b : Nat => a ≤ b) [3, 1, 2, 1]).values.Pairwise (fun a b => a ≤ b) :=
  ⟨dict_roundtrip _ _, by
    simpa using dict_values_sorted (fun a b : Nat => a ≤ b)
      (fun a b c h1 h2 => by simp at *; omega) (fun a b => by simp; omega) [3, 1, 2, 1]⟩
example : (sparseEncode (fun a b : Nat => a != b) 0 [7, 0, 9]).indices = [0, 2] ∧
    (sparseEncode (fun a b : Nat => a != b) 0 [7, 0, 9]).values = [7, 9] := by decide
example : sparseDecode 0 (sparseEncode (fun a b : Nat => a != b) 0 [7, 0, 9]) = some [7, 0, 9] := by
  decide
example : sparseDecode 0 ((sparseEncode (fun a b : Nat => a != b) 0 [7, 0, 9]).mapValues (· * 2))
    = some ([7, 0, 9].map (· * 2)) := by decide
/-- the hypotheses of `sparse_dtype_lossless` are satisfiable: floats with an integer default -/
example : scalarDType (.int 0) = some .int ∧ holds .int (.int 0) = true ∧
    holds .float (.float 0x3FF8000000000000) = true ∧ DType.join .float .int = .float := by decide

end C09
