import OrsoVerif.Model.Encodings
import OrsoVerif.Lemmas.Encodings
import OrsoVerif.Lemmas.EncodingsGen
import OrsoVerif.Lemmas.EncodingsUnique
import OrsoVerif.Lemmas.EncodingsDType
import OrsoVerif.Lemmas.EncodingsMapped
import OrsoVerif.Lemmas.EncodingsHeap
/-!
# C09 — Compressed column encodings are lossless

Property theorems only.  Every statement quantifies over all element types, all
sequences (any length), all defaults, all lengths.  The comparison used by the run
detection and by the sparse scan is a parameter (`eq`, `ne`): for floats it is IEEE
equality, under which NaN is unequal to itself, so the only assumption made about it is
soundness (`eq a b = true → a = b`, resp. `ne a d = false → a = d`) — never reflexivity.
-/
namespace C09
open Enc

variable {α β : Type}

/-! ## Run-length -/

/-- The source still compares with `==` in the run detection and with `!=` in the sparse scan,
and starts every run at length one (extracted from `orso/schema.py` on every run; the model's
`rleEncode` uses `Gen.Encodings.runStart`, so the length theorems below depend on it). -/
theorem source_comparisons :
    Gen.Encodings.rleCompareIsEq = true ∧ Gen.Encodings.sparseCompareIsNe = true ∧
    Gen.Encodings.runStart = 1 := by decide

/-- **RLE round trip.**  Expanding the stored runs reproduces the input, element for element. -/
theorem rle_roundtrip (eq : α → α → Bool) (heq : ∀ a b, eq a b = true → a = b) (xs : List α) :
    rleDecode (rleEncode eq xs) = xs := by
  cases xs with
  | nil => rfl
  | cons x t =>
    show rleDecode ⟨(rleLoop eq x 1 t).map (·.1), (rleLoop eq x 1 t).map (·.2)⟩ = x :: t
    rw [rleDecode_runs, rleLoop_expand eq heq]
    rfl

/-- **Adjacent runs differ**: consecutive stored values are unequal under the very comparison
the loop uses (`value == prev_value`), for every input and every comparison. -/
theorem rle_adjacent_differ (eq : α → α → Bool) (xs : List α) (i : Nat)
    (hi : i + 1 < (rleEncode eq xs).values.length) :
    eq (rleEncode eq xs).values[i + 1] (rleEncode eq xs).values[i] = false := by
  cases xs with
  | nil => simp [rleEncode] at hi
  | cons x t => exact adjDiffer_getElem eq _ (rleLoop_adjDiffer eq t x 1) i hi

/-- **Run lengths sum to the input length**, and there is one length per stored value. -/
theorem rle_lengths_sum (eq : α → α → Bool) (xs : List α) :
    (rleEncode eq xs).lengths.sum = xs.length ∧
    (rleEncode eq xs).lengths.length = (rleEncode eq xs).values.length := by
  cases xs with
  | nil => simp [rleEncode]
  | cons x t =>
    refine ⟨?_, by simp [rleEncode]⟩
    show ((rleLoop eq x 1 t).map (·.2)).sum = (x :: t).length
    rw [rleLoop_lengths_sum]; simp; omega

/-- **Every run length is positive** (no empty run is stored). -/
theorem rle_lengths_pos (eq : α → α → Bool) (xs : List α) :
    ∀ n ∈ (rleEncode eq xs).lengths, 0 < n := by
  cases xs with
  | nil => simp [rleEncode]
  | cons x t =>
    intro n hn
    obtain ⟨q, hq, rfl⟩ := List.mem_map.mp (show n ∈ (rleLoop eq x 1 t).map (·.2) from hn)
    exact rleLoop_lengths_pos eq t x 1 (by omega) q hq

/-- **Map commutes with RLE expansion**, for every stored form (not only encoder outputs). -/
theorem map_commutes_rle (f : α → β) (e : RLE α) :
    rleDecode (e.mapValues f) = (rleDecode e).map f := by
  obtain ⟨vs, ls⟩ := e
  simp only [rleDecode, RLE.mapValues]
  induction vs generalizing ls with
  | nil => simp
  | cons v t ih =>
    cases ls with
    | nil => simp
    | cons l ls' => simp [List.flatMap_cons, ih ls']

/-! ## Dictionary -/

/-- **Dictionary round trip.**  Gathering the entries by the codes reproduces the input (in
particular no code is out of range: the gather does not fail).  Holds for every order `le`. -/
theorem dict_roundtrip [DecidableEq α] (le : α → α → Bool) (xs : List α) :
    dictDecode (dictEncode le xs) = some xs := by
  unfold dictDecode dictEncode
  exact gather_idxOf _ xs fun x hx => List.mem_mergeSort.mpr ((mem_dedup x xs).mpr hx)

/-- **Dictionary entries are unique.** -/
theorem dict_values_nodup [DecidableEq α] (le : α → α → Bool) (xs : List α) :
    (dictEncode le xs).values.Nodup :=
  (List.mergeSort_perm (dedup xs) le).symm.nodup (nodup_dedup xs)

/-- **Codes index the dictionary**: one code per element, each within range, each pointing at
an entry equal to its element. -/
theorem dict_codes_in_range [DecidableEq α] (le : α → α → Bool) (xs : List α) :
    (dictEncode le xs).codes.length = xs.length ∧
    (∀ c ∈ (dictEncode le xs).codes, c < (dictEncode le xs).values.length) ∧
    (∀ i (h : i < xs.length), (dictEncode le xs).values[((dictEncode le xs).codes[i]?).getD 0]? = some xs[i]) := by
  have hmem : ∀ x ∈ xs, x ∈ (dedup xs).mergeSort le :=
    fun x hx => List.mem_mergeSort.mpr ((mem_dedup x xs).mpr hx)
  refine ⟨by simp [dictEncode], ?_, ?_⟩
  · intro c hc
    obtain ⟨x, hx, rfl⟩ := List.mem_map.mp (show c ∈ xs.map _ from hc)
    exact List.idxOf_lt_length_of_mem (hmem x hx)
  · intro i h
    simp only [dictEncode, List.getElem?_map, List.getElem?_eq_getElem h, Option.map_some,
      Option.getD_some]
    exact getElem?_idxOf_of_mem _ _ (hmem _ (List.getElem_mem h))

/-- The dictionary holds exactly the values that occur in the input. -/
theorem dict_values_complete [DecidableEq α] (le : α → α → Bool) (xs : List α) (v : α) :
    v ∈ (dictEncode le xs).values ↔ v ∈ xs := by
  simp [dictEncode, List.mem_mergeSort, mem_dedup]

/-- The dictionary is sorted whenever `le` is a total preorder (as `numpy.unique` sorts). -/
theorem dict_values_sorted [DecidableEq α] (le : α → α → Bool)
    (trans : ∀ a b c, le a b → le b c → le a c) (total : ∀ a b, le a b || le b a) (xs : List α) :
    (dictEncode le xs).values.Pairwise (fun a b => le a b) :=
  List.pairwise_mergeSort trans total (dedup xs)

/-- **Map commutes with dictionary expansion**, for every stored form. -/
theorem map_commutes_dict (f : α → β) (e : Dict α) :
    dictDecode (e.mapValues f) = (dictDecode e).map (List.map f) := by
  unfold dictDecode Dict.mapValues
  exact gather_map f e.values e.codes

/-! ## Sparse -/

/-- **Sparse round trip.**  Filling a default array of the total length and scattering the
stored values over it reproduces the input (in particular the scatter does not fail). -/
theorem sparse_roundtrip (ne : α → α → Bool) (d : α) (hne : ∀ a, ne a d = false → a = d)
    (xs : List α) : sparseDecode d (sparseEncode ne d xs) = some xs := by
  have h := scatter_scan ne d id xs (fun x _ hx => hne x hx) []
  simp only [List.nil_append, List.length_nil, List.map_id_fun, id_eq] at h
  unfold sparseDecode sparseEncode
  simp only [List.length_map, if_true]
  rw [zip_map_fst_snd]
  simpa using h

/-- **Sparse storage excludes the default**: every stored value is unequal to the default
under the comparison the scan uses; the indices are the strictly increasing positions of the
stored values in the input. -/
theorem sparse_excludes_default (ne : α → α → Bool) (d : α) (xs : List α) :
    (∀ v ∈ (sparseEncode ne d xs).values, ne v d = true) ∧
    (sparseEncode ne d xs).indices.Pairwise (· < ·) ∧
    (sparseEncode ne d xs).indices.length = (sparseEncode ne d xs).values.length ∧
    (sparseEncode ne d xs).total = xs.length ∧
    (∀ p ∈ (sparseEncode ne d xs).indices.zip (sparseEncode ne d xs).values,
      p.1 < xs.length ∧ xs[p.1]? = some p.2) := by
  refine ⟨?_, sparseScan_increasing ne d xs 0, by simp [sparseEncode], rfl, ?_⟩
  · intro v hv
    obtain ⟨p, hp, rfl⟩ := List.mem_map.mp (show v ∈ (sparseScan ne d 0 xs).map (·.2) from hv)
    exact sparseScan_ne ne d xs 0 p hp
  · intro p hp
    have hp' : p ∈ sparseScan ne d 0 xs := by
      have : (sparseEncode ne d xs).indices.zip (sparseEncode ne d xs).values
          = sparseScan ne d 0 xs := zip_map_fst_snd _
      rw [this] at hp; exact hp
    obtain ⟨_, h2, h3⟩ := sparseScan_range ne d xs 0 p hp'
    exact ⟨by omega, by simpa using h3⟩

/-- **Map commutes with sparse expansion** for functions that fix the default, for every
stored form.  (The stored form does not contain the default, so nothing can be demanded of
functions that move it: see `map_sparse_needs_fixed_default`.) -/
theorem map_commutes_sparse (f : α → α) (d : α) (hf : f d = d) (e : Sparse α) :
    sparseDecode d (e.mapValues f) = (sparseDecode d e).map (List.map f) := by
  have := sparseDecode_map f d e
  rwa [hf] at this

/-- The hypothesis `f d = d` is necessary: for any function that moves the default, the
one-element column `[d]` expands to `[d]` after mapping, not to `[f d]`. -/
theorem map_sparse_needs_fixed_default (ne : α → α → Bool) (f : α → α) (d : α)
    (hd : ne d d = false) (hf : f d ≠ d) :
    sparseDecode d ((sparseEncode ne d [d]).mapValues f) = some [d] ∧ [d] ≠ [d].map f := by
  constructor
  · simp [sparseEncode, sparseScan, hd, Sparse.mapValues, sparseDecode, scatter]
  · intro h; apply hf; simpa using h.symm

/-! ## Constant and function columns -/

/-- **A constant column expands to its value repeated to its length**; it stores one value. -/
theorem constant_expand (v : α) (n : Nat) :
    constDecode (constEncode v n) = some (List.replicate n v) ∧ (constEncode v n).values = [v] :=
  ⟨rfl, rfl⟩

/-- Spelled out: the expansion has the requested length and every element is the value. -/
theorem constant_expand_elements (v : α) (n : Nat) (out : List α)
    (h : constDecode (constEncode v n) = some out) : out.length = n ∧ ∀ x ∈ out, x = v := by
  have : out = List.replicate n v := by
    have h' : some (List.replicate n v) = some out := h
    exact (Option.some.inj h').symm
  subst this
  exact ⟨by simp, fun x hx => (List.mem_replicate.mp hx).2⟩

/-- **Map commutes with constant expansion**, for every stored form. -/
theorem map_commutes_constant (f : α → β) (e : Const α) :
    constDecode (e.mapValues f) = (constDecode e).map (List.map f) := by
  obtain ⟨vs, n⟩ := e
  cases vs with
  | nil => rfl
  | cons v t =>
    cases t with
    | nil => simp [constDecode, Const.mapValues]
    | cons w t' => rfl

/-- **A function column expands to its bound function's value repeated to its length.** -/
theorem function_expand {γ : Type} (binding : γ → α) (cfg : γ) (n : Nat) :
    (functionExpand binding cfg n).length = n ∧
    ∀ x ∈ functionExpand binding cfg n, x = binding cfg :=
  ⟨by simp [functionExpand], fun x hx => (List.mem_replicate.mp hx).2⟩

/-! ## The code as it stands: the statement-by-statement translations of `orso/schema.py`

`Generated/Encodings.lean` is rewritten from the working tree on every run (`harness/pystmt.py`):
the loops, guards, appends, `[value] * length`, the order of the statements and the numpy calls of the
nine methods are *in* these definitions.  The theorems below say that the translated code computes
exactly what the recursive model computes (so every theorem above is a theorem about the code as
extracted), and restate the property's main clauses directly on the translated code. -/

set_option linter.unusedSimpArgs false in
open Gen.Encodings in
/-- One step of the generated run-detection loop, whatever the order of its assignments: a value for which
the source's run test holds (`Gen.Encodings.rleExtends`: the test of the loop's `if`, translated from the
working tree together with the loop) extends the run, any other value closes it. -/
theorem gen_rle_loop_step (eq sc : α → α → Bool) (p : α) (n : Nat) (rl : List Nat) (rv : List α) (v : α) :
    rleInit_loop1 eq sc (p, n, rl, rv) v =
      if rleExtends eq sc v p then (p, n + 1, rl, rv) else (v, Gen.Encodings.runStart, rl ++ [n], rv ++ [p]) := by
  cases h : eq v p <;> cases h' : sc v p <;> simp [rleInit_loop1, rleExtends, h, h', Gen.Encodings.runStart]

/-- **The run test implies equality**: a value extends a run only if it is `==` the run's value (whatever else
the test looks at, e.g. the classes of the two values).  This is what the round trip needs. -/
theorem gen_rle_extends_sound (eq sc : α → α → Bool) (a b : α) (h : Gen.Encodings.rleExtends eq sc a b = true) :
    eq a b = true := by
  cases h1 : eq a b <;> cases h2 : sc a b <;> simp_all [Gen.Encodings.rleExtends]

/-- **Every equal neighbour extends the run**: the run test holds for *every* pair of `==` values, of whatever
classes.  This is what "adjacent runs differ" needs: the run values are stored in one numpy array, i.e. one
dtype, where `2` and `2.0`, `True` and `1` are the same value; a test that splits a run between two equal
values of different classes (`value.__class__ is prev_value.__class__ and value == prev_value`) stores that
value twice in a row. -/
theorem gen_rle_extends_complete (eq sc : α → α → Bool) (a b : α) (h : eq a b = true) :
    Gen.Encodings.rleExtends eq sc a b = true := by
  simp [Gen.Encodings.rleExtends, h]

open Gen.Encodings in
/-- The generated fold, followed by the two final appends, is the recursive run detection under the source's
run test. -/
theorem gen_rle_loop_fold (eq sc : α → α → Bool) (vs : List α) (p : α) (n : Nat) (rl : List Nat) (rv : List α) :
    rleFinish (List.foldl (rleInit_loop1 eq sc) (p, n, rl, rv) vs) =
    (rv ++ (rleLoop (rleExtends eq sc) p n vs).map (·.1), rl ++ (rleLoop (rleExtends eq sc) p n vs).map (·.2)) := by
  induction vs generalizing p n rl rv with
  | nil => simp [rleLoop, rleFinish]
  | cons v vs ih =>
    rw [List.foldl_cons, gen_rle_loop_step]
    cases h : rleExtends eq sc v p
    · simp only [Bool.false_eq_true, if_false]
      rw [ih]
      simp [rleLoop, h, Gen.Encodings.runStart]
    · simp only [if_true]
      rw [ih]
      simp [rleLoop, h]

open Gen.Encodings in
/-- The translated expansion loop (`materialized.extend([value] * length)` over the zipped runs). -/
theorem gen_rle_materialize_fold (acc : List α) (ps : List (α × Nat)) :
    List.foldl rleMaterialize_loop1 acc ps = acc ++ ps.flatMap fun p => List.replicate p.2 p.1 := by
  induction ps generalizing acc with
  | nil => simp
  | cons p t ih =>
    obtain ⟨v, l⟩ := p
    rw [List.foldl_cons, ih]
    simp [rleMaterialize_loop1]


/-- The translated `RLEColumn.__init__` is the model's encoder under the source's run test (incl. the
empty-input early return; it never raises). -/
theorem gen_rle_init_refines (eq sc : α → α → Bool) (xs : List α) :
    Gen.Encodings.rleInit eq sc xs =
      some ((rleEncode (Gen.Encodings.rleExtends eq sc) xs).values, (rleEncode (Gen.Encodings.rleExtends eq sc) xs).lengths) := by
  cases xs with
  | nil => simp [Gen.Encodings.rleInit, rleEncode]
  | cons x t =>
    have h := gen_rle_loop_fold eq sc t x Gen.Encodings.runStart [] []
    simp only [rleFinish, List.nil_append] at h
    simp [Gen.Encodings.rleInit, rleEncode, Gen.Encodings.runStart] at h ⊢
    exact h

theorem gen_rle_materialize_refines (vs : List α) (ls : List Nat) :
    Gen.Encodings.rleMaterialize vs ls = some (rleDecode ⟨vs, ls⟩) := by
  simp [Gen.Encodings.rleMaterialize, gen_rle_materialize_fold, rleDecode]

/-- the translated code runs: `RLEColumn([3,3,5,3])` stores `[3,5,3]` / `[2,1,1]` and expands back -/
example : Gen.Encodings.rleInit (fun a b : Nat => a == b) (fun _ _ => true) [3, 3, 5, 3] = some ([3, 5, 3], [2, 1, 1]) ∧
    Gen.Encodings.rleMaterialize [3, 5, 3] [2, 1, 1] = some [3, 3, 5, 3] := by decide

theorem gen_function_materialize_refines {γ : Type} (binding : γ → α) (cfg : γ) (n : Nat) :
    Gen.Encodings.functionMaterialize binding cfg n = some (functionExpand binding cfg n) := by
  simp [Gen.Encodings.functionMaterialize, functionExpand]

theorem gen_const_init_refines (v : α) (n : Nat) :
    Gen.Encodings.constInit v = some (constEncode v n).values := by
  simp [Gen.Encodings.constInit, constEncode]

theorem gen_const_materialize_refines (n : Nat) (vs : List α) :
    Gen.Encodings.constMaterialize n vs = constDecode ⟨vs, n⟩ := by
  simp only [Gen.Encodings.constMaterialize, Np.fullFrom, constDecode]
  rfl

theorem gen_sparse_init_refines (ne : α → α → Bool) (isPyNumber : α → Bool) (xs : List α) (d : α) :
    Gen.Encodings.sparseInit ne isPyNumber xs d =
      some ((sparseEncode ne d xs).indices, (sparseEncode ne d xs).values, (sparseEncode ne d xs).total) := by
  have h1 := whereFrom_scan ne d xs 0
  have h2 := take_scan ne d xs []
  simp only [List.length_nil, List.nil_append] at h2
  cases hp : isPyNumber d <;>
    simp [Gen.Encodings.sparseInit, hp, Np.where, h1, h2, sparseEncode]

example : Gen.Encodings.sparseInit (fun a b : Nat => a != b) (fun _ => true) [7, 0, 9] 0 = some ([0, 2], [7, 9], 3) := by
  decide

theorem gen_sparse_materialize_refines {DT : Type} (cast : DT → α → Option α) (t : DT) (vs : List α)
    (d : α) (idx : List Nat) (n : Nat) :
    Gen.Encodings.sparseMaterialize cast t vs d idx n =
      (cast t d).bind fun d' => (vs.mapM (cast t)).bind fun vs' => sparseDecode d' ⟨idx, vs', n⟩ := by
  simp only [Gen.Encodings.sparseMaterialize, Np.fullCast, Np.putCast, sparseDecode]
  cases cast t d <;> simp

theorem gen_dict_init_refines [DecidableEq α] (le : α → α → Bool) (xs : List α) :
    Gen.Encodings.dictInit le xs = some ((dictEncode le xs).values, (dictEncode le xs).codes) := by
  simp [Gen.Encodings.dictInit, dictEncode, Np.uniqueValues, Np.uniqueInverse]

theorem gen_dict_materialize_refines (vs : List α) (cs : List Nat) :
    Gen.Encodings.dictMaterialize vs cs = dictDecode ⟨vs, cs⟩ := by
  simp [Gen.Encodings.dictMaterialize, Np.take, dictDecode]

/-- The model's `sparseMaterialize` is the translated `SparseColumn.materialize` run with numpy's cast
into the result dtype. -/
theorem model_sparse_materialize_is_generated (i2f : Int → UInt64) (d : PyVal) (vdt : DType)
    (e : Sparse PyVal) :
    sparseMaterialize i2f d vdt e = (scalarDType d).bind fun ddt =>
      (Gen.Encodings.sparseMaterialize (castInto i2f) (DType.join vdt ddt) e.values d e.indices e.total).map
        fun out => (DType.join vdt ddt, out) := by
  unfold sparseMaterialize
  cases scalarDType d with
  | none => rfl
  | some ddt =>
    simp only [Option.bind_eq_bind, Option.bind_some, gen_sparse_materialize_refines]
    cases castInto i2f (DType.join vdt ddt) d with
    | none => rfl
    | some d' =>
      simp only [Option.bind_some]
      cases e.values.mapM (castInto i2f (DType.join vdt ddt)) with
      | none => rfl
      | some vs => simp only [Option.bind_some]; cases sparseDecode d' _ <;> rfl

/-- **RLE, on the translated code**: `RLEColumn(values=xs).materialize()` is `xs`. -/
theorem source_rle_roundtrip (eq sc : α → α → Bool) (heq : ∀ a b, eq a b = true → a = b) (xs : List α) :
    ((Gen.Encodings.rleInit eq sc xs).bind fun e => Gen.Encodings.rleMaterialize e.1 e.2) = some xs := by
  rw [gen_rle_init_refines, Option.bind_some, gen_rle_materialize_refines]
  exact congrArg some (rle_roundtrip _ (fun a b h => heq a b (gen_rle_extends_sound eq sc a b h)) xs)

/-- **Adjacent runs differ, on the values as stored, on the translated code.**  The run values are collected
into one numpy array: `store` is what that does to a value (bring it to the common dtype), `eqS` equality of
stored values.  Whenever storing does not identify values that `==` tells apart (`hstore`; for numpy's
promotion: up to 2^53, `cast_into_reflects_pyEq`), two neighbouring stored run values are different -- for
every input, of whatever mixture of classes (`sc` is arbitrary).  The proof needs the run test to hold for
*every* pair of equal values (`gen_rle_extends_complete`). -/
theorem source_rle_adjacent_stored_differ {β : Type} (eq sc : α → α → Bool) (store : α → β) (eqS : β → β → Bool)
    (hstore : ∀ a b, eqS (store a) (store b) = true → eq a b = true)
    (xs vs : List α) (ls : List Nat) (h : Gen.Encodings.rleInit eq sc xs = some (vs, ls))
    (i : Nat) (hi : i + 1 < vs.length) :
    eqS (store vs[i + 1]) (store vs[i]) = false := by
  rw [gen_rle_init_refines] at h
  obtain ⟨rfl, -⟩ := Prod.mk.inj (Option.some.inj h)
  have hd := rle_adjacent_differ (Gen.Encodings.rleExtends eq sc) xs i hi
  cases hs : eqS (store (rleEncode (Gen.Encodings.rleExtends eq sc) xs).values[i + 1])
      (store (rleEncode (Gen.Encodings.rleExtends eq sc) xs).values[i]) with
  | false => rfl
  | true => rw [gen_rle_extends_complete eq sc _ _ (hstore _ _ hs)] at hd; exact absurd hd (by simp)

/-- **Run lengths on the translated code**: one positive length per stored value, summing to the input length. -/
theorem source_rle_lengths (eq sc : α → α → Bool) (xs vs : List α) (ls : List Nat)
    (h : Gen.Encodings.rleInit eq sc xs = some (vs, ls)) :
    ls.sum = xs.length ∧ ls.length = vs.length ∧ ∀ n ∈ ls, 0 < n := by
  rw [gen_rle_init_refines] at h
  obtain ⟨rfl, rfl⟩ := Prod.mk.inj (Option.some.inj h)
  exact ⟨(rle_lengths_sum _ xs).1, (rle_lengths_sum _ xs).2, rle_lengths_pos _ xs⟩

/-- **A class-aware run test stores a value twice in a row** (the counterexample for the class of change):
under `sameClass a b && eq a b` -- complete for no mixture -- the list `[2.0, 2]` (`eq`: numeric equality;
elements tagged with their class) gives two runs whose values are equal. -/
theorem rle_class_split_stores_equal_neighbours :
    let eq : (Nat × Bool) → (Nat × Bool) → Bool := fun a b => a.1 == b.1   -- the value; the flag is the class
    let ext : (Nat × Bool) → (Nat × Bool) → Bool := fun a b => a.2 == b.2 && eq a b
    (rleEncode ext [(2, true), (2, false)]).values = [(2, true), (2, false)] ∧
    eq (2, false) (2, true) = true ∧ (rleEncode ext [(2, true), (2, false)]).lengths = [1, 1] := by decide

/-- **Dictionary, on the translated code.** -/
theorem source_dict_roundtrip [DecidableEq α] (le : α → α → Bool) (xs : List α) :
    ((Gen.Encodings.dictInit le xs).bind fun e => Gen.Encodings.dictMaterialize e.1 e.2) = some xs := by
  rw [gen_dict_init_refines, Option.bind_some, gen_dict_materialize_refines]
  exact dict_roundtrip le xs

/-- **Sparse, on the translated code** (values held as they are: the identity cast; the dtype layer is
`sparse_dtype_lossless`). -/
theorem source_sparse_roundtrip (ne : α → α → Bool) (isPyNumber : α → Bool) (d : α)
    (hne : ∀ a, ne a d = false → a = d) (xs : List α) :
    ((Gen.Encodings.sparseInit ne isPyNumber xs d).bind fun e =>
      Gen.Encodings.sparseMaterialize (fun (_ : Unit) v => some v) () e.2.1 d e.1 e.2.2) = some xs := by
  rw [gen_sparse_init_refines, Option.bind_some, gen_sparse_materialize_refines]
  have hm : ∀ l : List α, l.mapM (fun v => some v) = some l := by
    intro l; induction l with
    | nil => rfl
    | cons a t ih => simp [List.mapM_cons, ih]
  simp only [Option.bind_some, hm]
  exact sparse_roundtrip ne d hne xs

/-- **Constant and function columns, on the translated code.** -/
theorem source_constant_function_expand {γ : Type} (v : α) (n : Nat) (binding : γ → α) (cfg : γ) :
    ((Gen.Encodings.constInit v).bind fun vs => Gen.Encodings.constMaterialize n vs) = some (List.replicate n v) ∧
    Gen.Encodings.functionMaterialize binding cfg n = some (List.replicate n (binding cfg)) := by
  refine ⟨?_, gen_function_materialize_refines binding cfg n⟩
  rw [gen_const_init_refines v n, Option.bind_some, gen_const_materialize_refines]
  rfl

/-- **Map commutes with expansion, on the translated `materialize` methods** (for every stored form). -/
theorem source_map_commutes (f : α → β) (vs : List α) (ls cs : List Nat) (n : Nat) :
    Gen.Encodings.rleMaterialize (vs.map f) ls = (Gen.Encodings.rleMaterialize vs ls).map (List.map f) ∧
    Gen.Encodings.dictMaterialize (vs.map f) cs = (Gen.Encodings.dictMaterialize vs cs).map (List.map f) ∧
    Gen.Encodings.constMaterialize n (vs.map f) = (Gen.Encodings.constMaterialize n vs).map (List.map f) := by
  refine ⟨?_, ?_, ?_⟩
  · rw [gen_rle_materialize_refines, gen_rle_materialize_refines]
    exact congrArg some (map_commutes_rle f ⟨vs, ls⟩)
  · rw [gen_dict_materialize_refines, gen_dict_materialize_refines]
    exact map_commutes_dict f ⟨vs, cs⟩
  · rw [gen_const_materialize_refines, gen_const_materialize_refines]
    exact map_commutes_constant f ⟨vs, n⟩

/-! ## The shared constructor (`FlatColumn.__init__`): keywords against the parameters of a type name

Every column class is built by `FlatColumn.__init__`.  When the type is given by *name*
(`'VARCHAR[20]'`, `'BLOB[8]'`, `'DECIMAL(10,2)'`, `'ARRAY<INTEGER>'`) the parameters written in the name
are copied into `element_type`, `precision`, `scale`, `length` -- each only `if self.<attr> is None`.
`ConstantColumn` / `FunctionColumn` reuse `length` as the number of rows, so this guard is what keeps the
declared width of `'VARCHAR[20]'` out of the row count.  `Gen.Encodings.ctorResolve` is that block of
four statements translated from the working tree; `constLengthDefault` / `functionLengthDefault` are the
field defaults `length: int = 1` of the two classes. -/

section Ctor
variable {ET : Type}

/-- What the translated block does to `length` (the only one of the four attributes an encoding reads): it
keeps the keyword and takes the width written in the type name only when no keyword was given -- whatever
happens to `element_type`, `precision` and `scale`. -/
theorem gen_ctor_length (et det : Option ET) (p s n dp ds dn : Option Nat) :
    (Gen.Encodings.ctorResolve et p s n det dp ds dn).map (·.2.2.2) = some (n.or dn) := by
  cases n <;> simp [Gen.Encodings.ctorResolve]

/-- **The `length` keyword is never overwritten by the type name**, whatever the name declares. -/
theorem gen_ctor_keeps_length (n : Nat) (et det : Option ET) (p s dp ds dn : Option Nat) :
    (Gen.Encodings.ctorResolve et p s (some n) det dp ds dn).map (·.2.2.2) = some (some n) := by
  rw [gen_ctor_length]; rfl

/-- **The row count of a constant / function column never comes from the type name**: with the keyword
it is the keyword, without it the class's own default (`length: int = 1`, which is not `None`) -- for
every declared width `dn`. -/
theorem gen_ctor_row_count (kw : Option Nat) (et det : Option ET) (p s dp ds dn : Option Nat) :
    (Gen.Encodings.ctorResolve et p s (kw.or Gen.Encodings.constLengthDefault) det dp ds dn).map (·.2.2.2)
      = some (some (kw.getD 1)) ∧
    (Gen.Encodings.ctorResolve et p s (kw.or Gen.Encodings.functionLengthDefault) det dp ds dn).map (·.2.2.2)
      = some (some (kw.getD 1)) := by
  rw [gen_ctor_length, gen_ctor_length]
  cases kw <;> simp [Gen.Encodings.constLengthDefault, Gen.Encodings.functionLengthDefault]

/-- **Constant and function columns, declared by any type name, on the translated code**: the shared
constructor (keyword `length = n`, any parameters parsed from the name, any other keywords) followed by
the class's own `__init__` / `materialize` expands to `n` copies -- same length, whatever width the type
name declares. -/
theorem source_constant_function_expand_declared {γ : Type} (v : α) (n : Nat) (binding : γ → α) (cfg : γ)
    (et det : Option ET) (p s dp ds dn : Option Nat) :
    ((Gen.Encodings.ctorResolve et p s (some n) det dp ds dn).bind fun r => r.2.2.2.bind fun len =>
        (Gen.Encodings.constInit v).bind fun vs => Gen.Encodings.constMaterialize len vs)
      = some (List.replicate n v) ∧
    ((Gen.Encodings.ctorResolve et p s (some n) det dp ds dn).bind fun r => r.2.2.2.bind fun len =>
        Gen.Encodings.functionMaterialize binding cfg len)
      = some (List.replicate n (binding cfg)) := by
  have h := source_constant_function_expand v n binding cfg
  have hl := gen_ctor_keeps_length n et det p s dp ds dn
  obtain ⟨r, hr, hr2⟩ := Option.map_eq_some_iff.mp hl
  rw [hr]
  simp only [Option.bind_some, hr2]
  exact h

/-- the translated block runs: `ConstantColumn(type='VARCHAR[20]', length=5)` keeps 5 rows; a flat
column without the keyword takes the declared width -/
example : (Gen.Encodings.ctorResolve (none : Option Unit) none none (some 5) none none none (some 20)).map (·.2.2.2)
      = some (some 5) ∧
    (Gen.Encodings.ctorResolve (none : Option Unit) none none none none none none (some 20)).map (·.2.2.2)
      = some (some 20) := by decide

end Ctor

/-! ## `numpy.unique` the way numpy computes it

`DictionaryColumn.__init__` is one call of `numpy.unique(values, return_inverse=True)`; the model's
`Np.uniqueValues` is its specification (the distinct values, sorted).  numpy itself sorts the array and
then keeps every element that differs from its predecessor (`Np.uniqueSortMerge`).  The theorems below
prove "dictionary entries are unique" and "exactly the values that occur" of that algorithm, identify it
with the specification whenever the order is total and antisymmetric, and prove the counterexample for
an order that is not (Python's `<` on an object array holding a NaN: open finding C09-K02). -/

/-- **Dictionary entries are unique -- of numpy's sort-then-merge**, for every total antisymmetric order
and `ne` = inequality. -/
theorem numpy_unique_nodup (le ne : α → α → Bool) (hne : ∀ a b, ne a b = false ↔ a = b)
    (trans : ∀ a b c, le a b → le b c → le a c) (total : ∀ a b, le a b || le b a)
    (antisymm : ∀ a b, le a b = true → le b a = true → a = b) (xs : List α) :
    (Np.uniqueSortMerge le ne xs).Nodup := by
  unfold Np.uniqueSortMerge
  have hs := List.pairwise_mergeSort trans total xs
  cases hm : xs.mergeSort le with
  | nil => simp [Np.keepFirsts]
  | cons x t =>
    rw [hm] at hs
    obtain ⟨hnd, hx⟩ := keepFirstsFrom_nodup le ne hne antisymm x t hs
    exact List.nodup_cons.mpr ⟨fun h => hx x h rfl, hnd⟩

/-- **The dictionary holds exactly the values that occur -- of numpy's sort-then-merge** (only soundness
of `!=` is needed: what is dropped equals its predecessor). -/
theorem numpy_unique_complete (le ne : α → α → Bool) (hsound : ∀ a b, ne a b = false → a = b)
    (xs : List α) (v : α) : v ∈ Np.uniqueSortMerge le ne xs ↔ v ∈ xs := by
  unfold Np.uniqueSortMerge
  constructor
  · intro h
    exact List.mem_mergeSort.mp ((keepFirsts_sublist ne _).subset h)
  · intro h
    have h' : v ∈ xs.mergeSort le := List.mem_mergeSort.mpr h
    cases hm : xs.mergeSort le with
    | nil => rw [hm] at h'; cases h'
    | cons x t =>
      rw [hm] at h'
      simp only [Np.keepFirsts, List.mem_cons]
      rcases List.mem_cons.mp h' with rfl | ht
      · exact Or.inl rfl
      · exact keepFirstsFrom_mem ne hsound x t v ht

/-- **numpy's algorithm computes the model's dictionary**: for a total antisymmetric order, sort-then-merge
is the sorted list of distinct values -- `Np.uniqueValues`, the first component of the translated
`DictionaryColumn.__init__`, the dictionary `dict_values_nodup` / `dict_values_sorted` are about. -/
theorem numpy_unique_is_model [DecidableEq α] (le ne : α → α → Bool) (hne : ∀ a b, ne a b = false ↔ a = b)
    (trans : ∀ a b c, le a b → le b c → le a c) (total : ∀ a b, le a b || le b a)
    (antisymm : ∀ a b, le a b = true → le b a = true → a = b) (xs : List α) :
    Np.uniqueSortMerge le ne xs = (dictEncode le xs).values ∧
    (Gen.Encodings.dictInit le xs).map (·.1) = some (Np.uniqueSortMerge le ne xs) := by
  have key : Np.uniqueSortMerge le ne xs = (dictEncode le xs).values := by
    apply List.Perm.eq_of_pairwise (le := fun a b => le a b = true)
    · intro a b _ _ hab hba; exact antisymm a b hab hba
    · exact List.Pairwise.sublist (keepFirsts_sublist ne _) (List.pairwise_mergeSort trans total xs)
    · exact dict_values_sorted le trans total xs
    · refine (List.perm_ext_iff_of_nodup (numpy_unique_nodup le ne hne trans total antisymm xs)
        (dict_values_nodup le xs)).mpr fun a => ?_
      rw [numpy_unique_complete le ne (fun a b h => (hne a b).mp h) xs a, dict_values_complete]
  exact ⟨key, by rw [gen_dict_init_refines, key]; rfl⟩

/-- **Without a total order the merge step keeps duplicates** (the open finding C09-K02 on the model):
when the sort leaves an unordered value `n` between two occurrences of `a` -- as Python's `<` does with a
NaN in an object array, where every comparison with it is false -- both occurrences are kept. -/
theorem numpy_unique_unordered_keeps_duplicates (ne : α → α → Bool) (hne : ∀ a b, ne a b = false ↔ a = b)
    (a n : α) (h : a ≠ n) :
    Np.keepFirsts ne [a, n, a] = [a, n, a] ∧ ¬ (Np.keepFirsts ne [a, n, a]).Nodup := by
  have h1 : ne n a = true := by
    cases e : ne n a
    · exact absurd ((hne n a).mp e).symm h
    · rfl
  have h2 : ne a n = true := by
    cases e : ne a n
    · exact absurd ((hne a n).mp e) h
    · rfl
  have hk : Np.keepFirsts ne [a, n, a] = [a, n, a] := by simp [Np.keepFirsts, Np.keepFirstsFrom, h1, h2]
  exact ⟨hk, by rw [hk]; simp⟩

/-- the merge step runs: sorted `[1, 1, 2, 3, 3]` keeps `[1, 2, 3]` -/
example : Np.keepFirsts (fun a b : Nat => a != b) [1, 1, 2, 3, 3] = [1, 2, 3] := by decide

/-! ## The dtype `numpy.array(list)` infers: RLE, dictionary, constant and function columns never cast

These four encodings hold their values in the array `numpy.array(<list>)` builds and expand by
repeating / gathering its elements; the only place a value could be truncated or narrowed is that
array's dtype (`arrayDType`: one numeric kind as it is, text at the width of the widest element,
anything with a null as objects). -/

/-- **The inferred dtype holds every element natively** -- the numeric kind of the elements itself (never
a smaller one), text at least as wide as every element, objects when there is a null. -/
theorem array_dtype_holds (xs : List PyVal) (t : DType) (h : arrayDType xs = some t) :
    ∀ x ∈ xs, holds t x = true := by
  cases xs with
  | nil => intro x hx; cases hx
  | cons x0 rest =>
    simp only [arrayDType, Option.bind_eq_bind] at h
    cases h0 : scalarDType x0 with
    | none => simp [h0] at h
    | some t0 =>
      simp only [h0, Option.bind_some] at h
      obtain ⟨i1, i2⟩ := foldlM_arrayStep_holds rest t0 t h
      intro x hx
      rcases List.mem_cons.mp hx with rfl | hx
      · exact i2 x (by simp [Scalar, h0]) (scalarDType_holds x t0 h0)
      · exact i1 x hx

/-- **Values neither truncated nor narrowed (RLE, dictionary, constant, function)**: storing the
elements of a sequence into the array numpy builds for it returns every element itself -- no width
cut, no change of numeric type, for every sequence of the property's kinds. -/
theorem array_dtype_lossless (i2f : Int → UInt64) (xs : List PyVal) (t : DType)
    (h : arrayDType xs = some t) : xs.mapM (castInto i2f t) = some xs := by
  have hh := array_dtype_holds xs t h
  have : xs.mapM (castInto i2f t) = some (xs.map id) :=
    mapM_some_of_forall xs fun x hx => castInto_of_holds i2f t x (hh x hx)
  simpa using this

example : arrayDType [.str "a", .str "abcd", .str ""] = some (.str 4) ∧
    arrayDType [.int 1, .none] = some .object ∧ arrayDType [.int 1, .float 0] = none := by decide

/-! ## Text in a fixed-width numpy array (open finding C09-K03)

Every encoding holds text in a `<U`n array.  The value-level model takes `numpy.array(list)` to hold
its elements exactly; for text that is true exactly of strings that do not end in a NUL character. -/

/-- Text that does not end in NUL is read back from a fixed-width text array as it was stored. -/
theorem np_text_exact (cs : List Char) (h : cs.getLast? ≠ some '\x00') : Np.textRead cs = cs := by
  obtain ⟨r, rfl⟩ : ∃ r, cs = r.reverse := ⟨cs.reverse, by simp⟩
  unfold Np.textRead
  rw [List.reverse_reverse]
  cases r with
  | nil => rfl
  | cons x t =>
    have hx : (x == '\x00') = false := by
      cases e : (x == '\x00')
      · rfl
      · exfalso; apply h; simp at e; simp [e]
    simp [List.dropWhile, hx]

/-- **The counterexample** (C09-K03): text that ends in NUL is never read back as stored -- the full
statement "values are not truncated" is false of numpy's text dtype, whatever the encoding. -/
theorem np_text_trailing_nul_lossy (cs : List Char) : Np.textRead (cs ++ ['\x00']) ≠ cs ++ ['\x00'] := by
  intro h
  have hl := congrArg List.length h
  unfold Np.textRead at hl
  simp only [List.reverse_append, List.reverse_cons, List.reverse_nil, List.nil_append,
    List.singleton_append, List.dropWhile, beq_self_eq_true, List.length_reverse,
    List.length_append, List.length_cons, List.length_nil] at hl
  have := (List.dropWhile_sublist (l := cs.reverse) (fun c => c == '\x00')).length_le
  simp only [List.length_reverse] at this
  omega

/-- The model's element kinds exclude exactly that text: every string `scalarDType` accepts is read back
from a text array as stored (so `castInto`'s "text is returned as it is" is numpy's behaviour on the
model's inputs). -/
theorem scalar_text_read_exact (s : String) (t : DType) (h : scalarDType (.str s) = some t) :
    Np.textRead s.toList = s.toList := by
  apply np_text_exact
  intro hn
  simp [scalarDType, endsNul, hn] at h

example : Np.textRead "a\x00".toList = "a".toList ∧ Np.textRead "a\x00b".toList = "a\x00b".toList := by decide

/-! ## The result dtype of the repaired `SparseColumn.materialize` -/

/-- The result dtype is an upper bound of the stored values' dtype and of the default's dtype. -/
theorem sparse_dtype_is_join (vdt ddt : DType) :
    DType.le vdt (DType.join vdt ddt) = true ∧ DType.le ddt (DType.join vdt ddt) = true :=
  ⟨DType.le_join_left vdt ddt, DType.le_join_right vdt ddt⟩

/-- Storing a value into an array of a dtype above its own never fails, never truncates text
and changes a number at most by widening it along `bool → int → float`. -/
theorem cast_into_wider (i2f : Int → UInt64) (t rt : DType) (v : PyVal)
    (hv : holds t v = true) (hle : DType.le t rt = true) :
    ∃ w, castInto i2f rt v = some w ∧ Widened i2f v w := by
  cases t <;> cases v <;> simp [holds] at hv <;> cases rt <;>
    simp [DType.le, DType.rank] at hle <;>
    simp [castInto, Widened] <;> omega

/-- **Casting into the join is injective** on the values of one dtype, given that the integer-to-double
conversion is injective *on the integers that occur* (`S`; for the real conversion: any set within
±2^53 -- beyond, numpy's promotion rounds, C09-K01): two different stored values can never come out of the
expansion as the same value.  (Restated in the fourth pass: the hypothesis used to ask injectivity on *all*
integers, which no function into 64 bits satisfies.) -/
theorem cast_into_wider_injective (i2f : Int → UInt64) (S : Int → Prop)
    (hi : ∀ a b, S a → S b → i2f a = i2f b → a = b)
    (t rt : DType) (v v' : PyVal) (hv : holds t v = true) (hv' : holds t v' = true)
    (hS : ∀ i, intOf v = some i → S i) (hS' : ∀ i, intOf v' = some i → S i)
    (hle : DType.le t rt = true) (h : castInto i2f rt v = castInto i2f rt v') : v = v' := by
  have hb : ∀ b b' : Bool, (if b then (1 : Int) else 0) = (if b' then 1 else 0) → b = b' := by
    intro b b'; cases b <;> cases b' <;> simp
  cases t <;> cases v <;> simp [holds] at hv <;> cases v' <;> simp [holds] at hv' <;>
    cases rt <;> simp [DType.le, DType.rank] at hle <;>
    simp [castInto] at h ⊢ <;>
    first
      | exact hb _ _ h
      | exact hi _ _ (hS _ rfl) (hS' _ rfl) h
      | exact hb _ _ (hi _ _ (hS _ rfl) (hS' _ rfl) h)
      | omega
      | (split at h <;> split at h <;> simp_all <;> omega)
      | simp_all

/-- the hypotheses of `cast_into_wider_injective` are satisfiable with a non-trivial set of integers -/
example : ∃ (i2f : Int → UInt64) (S : Int → Prop), S 0 ∧ S 1 ∧ S 7 ∧ ∀ a b, S a → S b → i2f a = i2f b → a = b :=
  ⟨fun i => if i = 0 then 0 else if i = 1 then 1 else 7, fun i => i = 0 ∨ i = 1 ∨ i = 7, by simp, by simp, by simp, by
    intro a b ha hb
    rcases ha with rfl | rfl | rfl <;> rcases hb with rfl | rfl | rfl <;> decide⟩

/-- **Bringing values to one dtype does not make different values equal** (the `hstore` of
`source_rle_adjacent_stored_differ` for numpy's unification `Enc.castInto`, whatever the classes of the two
values): if two values stored into one array of dtype `rt` compare equal there, they compare equal as Python
values (`pyEq`: numbers after promotion).  `S`: a set of integers on which the integer-to-double conversion
tells integers apart (within ±2^53 for the real one; beyond, `[2**53 + 1, 2.0**53]` is stored as two equal
doubles -- the class of C09-K01). -/
theorem cast_into_reflects_pyEq (i2f : Int → UInt64) (S : Int → Prop)
    (hi : ∀ a b, S a → S b → floatEq (i2f a) (i2f b) = true → a = b)
    (rt : DType) (a b a' b' : PyVal) (hS : ∀ i, intOf a = some i → S i) (hS' : ∀ i, intOf b = some i → S i)
    (ha : castInto i2f rt a = some a') (hb : castInto i2f rt b = some b') (h : pyEq i2f a' b' = true) :
    pyEq i2f a b = true := by
  have hbb : ∀ x y : Bool, (if x then (1 : Int) else 0) = (if y then 1 else 0) → x = y := by
    intro x y; cases x <;> cases y <;> simp
  cases rt <;> cases a <;> simp [castInto] at ha <;> cases b <;> simp [castInto] at hb <;>
    subst_vars <;> simp [pyEq] at h ⊢ <;>
    first
      | exact h
      | exact hbb _ _ h
      | (obtain ⟨-, rfl⟩ := ha; obtain ⟨-, rfl⟩ := hb; simpa [pyEq] using h)
      | exact hi _ _ (hS _ rfl) (hS' _ rfl) h
      | exact hbb _ _ (hi _ _ (hS _ rfl) (hS' _ rfl) h)
      | (have := hi _ _ (hS _ rfl) (hS' _ rfl) h; simp_all)
      | (have := hi _ _ (hS _ rfl) (hS' _ rfl) h; omega)
      | simp_all

/-- **The repaired sparse expansion is lossless in the dtype lattice.**  For every input whose
elements are of dtype `vdt`, every default of dtype `ddt`: `materialize` succeeds, its result
dtype is the join, and the expansion is the input element for element (`xs.map c`), each element at most
widened by `c` (never truncated, never narrowed).  `hne` says what the scan's comparison means: an element
it treats as the default is indistinguishable from the default once both are in the result
dtype (for `0.0` against the default `0`: both are `0.0` in `float64`). -/
theorem sparse_dtype_lossless (i2f : Int → UInt64) (ne : PyVal → PyVal → Bool)
    (d : PyVal) (vdt ddt : DType) (xs : List PyVal)
    (hd : scalarDType d = some ddt) (hdd : holds ddt d = true)
    (hx : ∀ x ∈ xs, holds vdt x = true)
    (hne : ∀ x ∈ xs, ne x d = false →
      castInto i2f (DType.join vdt ddt) x = castInto i2f (DType.join vdt ddt) d) :
    ∃ c : PyVal → PyVal, (∀ x ∈ xs, Widened i2f x (c x)) ∧
      sparseMaterialize i2f d vdt (sparseEncode ne d xs) = some (DType.join vdt ddt, xs.map c) := by
  let rt := DType.join vdt ddt
  let c : PyVal → PyVal := fun v => (castInto i2f rt v).getD v
  have hcx : ∀ x ∈ xs, castInto i2f rt x = some (c x) ∧ Widened i2f x (c x) := by
    intro x hxm
    obtain ⟨w, hw, hW⟩ := cast_into_wider i2f vdt rt x (hx x hxm) (DType.le_join_left vdt ddt)
    simp only [c, hw, Option.getD_some]; exact ⟨trivial, hW⟩
  have hcd : castInto i2f rt d = some (c d) := by
    obtain ⟨w, hw, _⟩ := cast_into_wider i2f ddt rt d hdd (DType.le_join_right vdt ddt)
    simp only [c, hw, Option.getD_some]
  have hmem : ∀ v ∈ (sparseEncode ne d xs).values, v ∈ xs := by
    intro v hv
    obtain ⟨p, hp, rfl⟩ := List.mem_map.mp (show v ∈ (sparseScan ne d 0 xs).map (·.2) from hv)
    have := (sparseScan_range ne d xs 0 p hp).2.2
    exact List.mem_of_getElem? this
  have hvals : (sparseEncode ne d xs).values.mapM (castInto i2f rt)
      = some ((sparseEncode ne d xs).values.map c) :=
    mapM_some_of_forall _ fun v hv => (hcx v (hmem v hv)).1
  have hdec : sparseDecode (c d) ((sparseEncode ne d xs).mapValues c) = some (xs.map c) := by
    have h := scatter_scan ne d c xs (fun x hxm hx0 => by
      have h1 := (hcx x hxm).1
      have h2 := hne x hxm hx0
      rw [show DType.join vdt ddt = rt from rfl, h1, hcd] at h2
      exact Option.some.inj h2) []
    simp only [List.nil_append, List.length_nil] at h
    unfold sparseDecode sparseEncode Sparse.mapValues
    simp only [List.length_map, if_true]
    rw [List.zip_map_right, zip_map_fst_snd]
    have e : (Prod.map id c : Nat × PyVal → Nat × PyVal) = fun p => (p.1, c p.2) := by
      funext p; cases p; rfl
    rw [e]
    simpa using h
  refine ⟨c, fun x hxm => (hcx x hxm).2, ?_⟩
  unfold sparseMaterialize
  simp only [hd, Option.bind_eq_bind, Option.bind_some, show DType.join vdt ddt = rt from rfl, hcd, hvals]
  have : ({ sparseEncode ne d xs with values := (sparseEncode ne d xs).values.map c } : Sparse PyVal)
      = (sparseEncode ne d xs).mapValues c := rfl
  rw [this, hdec]
  rfl

/-- **Dtype-changing maps on a sparse column** (`values / 2` on integers, `values.astype(str)`, wider text):
a function `f` applied to the stored values, whose results are of dtype `vdt'` -- any dtype, not the one the
column was built with -- and which fixes the default in the result dtype (`hfix`: at a position the scan
dropped, `f x` and the default are the same value there; `f 0 = 0.0` against the default `0` counts).  Then
`materialize` of the mapped stored form succeeds, its dtype is the join of the *mapped* values' dtype and the
default's, and the expansion is `f` applied to every element of the original, each at most widened. -/
theorem sparse_dtype_lossless_mapped (i2f : Int → UInt64) (ne : PyVal → PyVal → Bool) (f : PyVal → PyVal)
    (d : PyVal) (vdt' ddt : DType) (xs : List PyVal)
    (hd : scalarDType d = some ddt) (hdd : holds ddt d = true)
    (hx : ∀ x ∈ xs, holds vdt' (f x) = true)
    (hfix : ∀ x ∈ xs, ne x d = false →
      castInto i2f (DType.join vdt' ddt) (f x) = castInto i2f (DType.join vdt' ddt) d) :
    ∃ c : PyVal → PyVal, (∀ x ∈ xs, Widened i2f (f x) (c (f x))) ∧
      sparseMaterialize i2f d vdt' ((sparseEncode ne d xs).mapValues f)
        = some (DType.join vdt' ddt, xs.map fun x => c (f x)) := by
  let rt := DType.join vdt' ddt
  let c : PyVal → PyVal := fun v => (castInto i2f rt v).getD v
  have hcx : ∀ x ∈ xs, castInto i2f rt (f x) = some (c (f x)) ∧ Widened i2f (f x) (c (f x)) := by
    intro x hxm
    obtain ⟨w, hw, hW⟩ := cast_into_wider i2f vdt' rt (f x) (hx x hxm) (DType.le_join_left vdt' ddt)
    simp only [c, hw, Option.getD_some]; exact ⟨trivial, hW⟩
  have hcd : castInto i2f rt d = some (c d) := by
    obtain ⟨w, hw, _⟩ := cast_into_wider i2f ddt rt d hdd (DType.le_join_right vdt' ddt)
    simp only [c, hw, Option.getD_some]
  have hmem : ∀ v ∈ (sparseEncode ne d xs).values, v ∈ xs := by
    intro v hv
    obtain ⟨p, hp, rfl⟩ := List.mem_map.mp (show v ∈ (sparseScan ne d 0 xs).map (·.2) from hv)
    have := (sparseScan_range ne d xs 0 p hp).2.2
    exact List.mem_of_getElem? this
  have hvals : ((sparseEncode ne d xs).mapValues f).values.mapM (castInto i2f rt)
      = some (((sparseEncode ne d xs).mapValues f).values.map c) :=
    mapM_some_of_forall _ fun v hv => by
      obtain ⟨u, hu, rfl⟩ := List.mem_map.mp (show v ∈ (sparseEncode ne d xs).values.map f from hv)
      exact (hcx u (hmem u hu)).1
  have hdec : sparseDecode (c d) ((sparseEncode ne d xs).mapValues fun x => c (f x)) = some (xs.map fun x => c (f x)) := by
    have h := scatter_scan_to ne d (fun x => c (f x)) (c d) xs (fun x hxm hx0 => by
      have h1 := (hcx x hxm).1
      have h2 := hfix x hxm hx0
      rw [show DType.join vdt' ddt = rt from rfl, h1, hcd] at h2
      exact Option.some.inj h2) []
    simp only [List.nil_append, List.length_nil] at h
    unfold sparseDecode sparseEncode Sparse.mapValues
    simp only [List.length_map, if_true]
    rw [List.zip_map_right, zip_map_fst_snd]
    have e : (Prod.map id (fun x => c (f x)) : Nat × PyVal → Nat × PyVal) = fun p => (p.1, c (f p.2)) := by
      funext p; cases p; rfl
    rw [e]
    simpa using h
  refine ⟨c, fun x hxm => (hcx x hxm).2, ?_⟩
  unfold sparseMaterialize
  simp only [hd, Option.bind_eq_bind, Option.bind_some, show DType.join vdt' ddt = rt from rfl, hcd, hvals]
  have : ({ (sparseEncode ne d xs).mapValues f with values := ((sparseEncode ne d xs).mapValues f).values.map c } : Sparse PyVal)
      = (sparseEncode ne d xs).mapValues fun x => c (f x) := by
    simp [Sparse.mapValues, List.map_map, Function.comp_def]
  rw [this, hdec]
  rfl

/-- The defect of the pinned tree, on the model: taking the dtype of the default alone narrows
a float to an integer (default `0`: `1.5 ↦ 1`) and cuts text to the width of the default
(default `""`, dtype `<U1`: at most one character survives). -/
theorem pinned_cast_narrows (f2i : UInt64 → Int) (b : UInt64) (s : String) (w : Nat) :
    castPinned f2i .int (.float b) = some (.int (f2i b)) ∧
    castPinned f2i (.str w) (.str s) = some (.str (String.ofList (s.toList.take w))) ∧
    (s.toList.take w).length ≤ w :=
  ⟨rfl, rfl, by simp [List.length_take]; omega⟩

/-! ## numpy's real promotion table (asked of the installed numpy on every run)

`Generated/NpDtypes.lean` holds `dtype.kind`, `iinfo`, `finfo` and all 196 entries of
`numpy.promote_types` for bool, int8..int64, uint8..uint64, float16..float64, complex64/128;
`Gen.Encodings.sparseResultDType` is the dtype decision of `SparseColumn.materialize` as written in
the source (the test over the dtype kinds and both branches).  The theorems are over the whole
table. -/

open Gen.NpDtypes in
/-- numpy's promotion is symmetric and idempotent on the whole table. -/
theorem promote_table_comm (a b : Num) : promote a b = promote b a ∧ promote a a = a := by
  constructor
  · cases a <;> cases b <;> rfl
  · cases a <;> rfl

open Gen.NpDtypes in
/-- **The promoted dtype holds every value of either argument exactly, with one exception**: a
64-bit integer dtype promoted to a float / complex dtype (`int64` with any float, `uint64` with a
signed integer or a float).  Decided on all 196 entries from numpy's `iinfo` / `finfo`. -/
theorem promote_table_exact_iff (a b : Num) :
    a.exactInto (promote a b) = !(a.lossy64 (promote a b)) := by
  cases a <;> cases b <;> decide

open Gen.NpDtypes in
/-- What `exactInto` means for integers: every integer value of `a` is a value of `b` (for a float
dtype: representable with its precision and exponent range). -/
theorem exactInto_sound_int (a b : Num) (h : a.exactInto b = true) (i : Int) (hi : a.holdsInt i) :
    b.holdsInt i := by
  cases a <;> cases b <;> first
    | (exfalso; revert h; decide)
    | (simp only [Num.holdsInt, intRange, floatFormat] at hi ⊢; omega)
    | (simp only [Num.holdsInt, intRange, floatFormat] at hi ⊢
       exact ⟨i, 0, by simp, by omega, by omega, by omega⟩)
    | (simp only [Num.holdsInt, intRange, floatFormat] at hi ⊢
       obtain ⟨m, e, h1, h2, h3, h4⟩ := hi
       exact ⟨m, e, h1, by omega, by omega, by omega⟩)

open Gen.NpDtypes in
/-- The exception is real (this is the open finding C09-K01 on the table): numpy promotes `int64`
with `float64` to `float64`, `2^53 + 1` is an `int64` and is not a `float64`. -/
theorem promote_int64_float64_lossy :
    promote .i64 .f64 = .f64 ∧ Num.holdsInt .i64 (2 ^ 53 + 1) ∧ ¬ Num.holdsInt .f64 (2 ^ 53 + 1) := by
  refine ⟨rfl, by simp [Num.holdsInt, intRange], ?_⟩
  simp only [Num.holdsInt, intRange, floatFormat]
  rintro ⟨m, e, h, h1, h2, _⟩
  cases e with
  | zero => simp at h; omega
  | succ k =>
    have h2' : (m * 2 ^ (k + 1)) % 2 = 0 := by
      rw [Int.pow_succ, ← Int.mul_assoc]; exact Int.mul_emod_left _ 2
    omega

open Gen.NpDtypes in
/-- **The result dtype chosen by the source holds the stored values and the default** — for every
pair of dtypes (all numeric dtypes, text of every width, object), except the 64-bit-integer-into-
float promotions.  Text is never cut (`w ≤ max w w'`), numbers against text or nulls go to `object`. -/
theorem sparse_result_dtype_holds (v d : NpDType) :
    (v.holdsAll (Gen.Encodings.sparseResultDType v d) = true ∨
      v.lossy64 (Gen.Encodings.sparseResultDType v d) = true) ∧
    (d.holdsAll (Gen.Encodings.sparseResultDType v d) = true ∨
      d.lossy64 (Gen.Encodings.sparseResultDType v d) = true) := by
  cases v with
  | num a =>
    cases d with
    | num b => cases a <;> cases b <;> decide
    | str w => cases a <;> simp [Gen.Encodings.sparseResultDType, NpDType.kind, kind, distinctCount, NpDType.holdsAll]
    | object => cases a <;> simp [Gen.Encodings.sparseResultDType, NpDType.kind, kind, distinctCount, NpDType.holdsAll]
  | str w =>
    cases d with
    | num b => cases b <;> simp [Gen.Encodings.sparseResultDType, NpDType.kind, kind, distinctCount, NpDType.holdsAll]
    | str w' =>
      simp [Gen.Encodings.sparseResultDType, NpDType.kind, distinctCount, NpDType.promote, NpDType.holdsAll] <;> omega
    | object => simp [Gen.Encodings.sparseResultDType, NpDType.kind, distinctCount, NpDType.holdsAll]
  | object =>
    cases d with
    | num b => cases b <;> simp [Gen.Encodings.sparseResultDType, NpDType.kind, kind, distinctCount, NpDType.holdsAll]
    | str w => simp [Gen.Encodings.sparseResultDType, NpDType.kind, distinctCount, NpDType.holdsAll]
    | object => simp [Gen.Encodings.sparseResultDType, NpDType.kind, distinctCount, NpDType.holdsAll]

example : Gen.Encodings.sparseResultDType (.num .i64) (.num .f64) = .num .f64 ∧
    Gen.Encodings.sparseResultDType (.str 2) (.str 5) = .str 5 ∧
    Gen.Encodings.sparseResultDType (.num .i8) (.str 5) = .object ∧
    Gen.Encodings.sparseResultDType (.num .u8) (.num .i8) = .num .i16 := by decide

open Gen.NpDtypes in
/-- **The five-point lattice of the model is a sound abstraction of the source's decision over
numpy's real table**: forgetting the widths, the extracted `sparseResultDType` is `DType.join` —
for all dtypes except `uint64` against a signed integer dtype (see the next theorem).  This is what
ties `sparse_dtype_lossless` (stated with `DType.join`) to the code and to numpy. -/
theorem sparse_result_dtype_abstracts (v d : NpDType) (tv td : DType)
    (hv : v.abs = some tv) (hd : d.abs = some td) (hmix : v.mixedU64 d = false) :
    (Gen.Encodings.sparseResultDType v d).abs = some (DType.join tv td) := by
  cases v with
  | num a =>
    cases d with
    | num b =>
      cases a <;> cases b <;> simp [NpDType.abs, kind] at hv hd <;> subst hv <;> subst hd <;>
        first | decide | (exfalso; revert hmix; decide)
    | str w =>
      cases a <;> simp [NpDType.abs, kind] at hv hd <;> subst hv <;> subst hd <;>
        simp [Gen.Encodings.sparseResultDType, NpDType.kind, kind, distinctCount, NpDType.abs, DType.join]
    | object =>
      cases a <;> simp [NpDType.abs, kind] at hv hd <;> subst hv <;> subst hd <;>
        simp [Gen.Encodings.sparseResultDType, NpDType.kind, kind, distinctCount, NpDType.abs, DType.join]
  | str w =>
    cases d with
    | num b =>
      cases b <;> simp [NpDType.abs, kind] at hv hd <;> subst hv <;> subst hd <;>
        simp [Gen.Encodings.sparseResultDType, NpDType.kind, kind, distinctCount, NpDType.abs, DType.join]
    | str w' =>
      simp [NpDType.abs] at hv hd; subst hv; subst hd
      simp [Gen.Encodings.sparseResultDType, NpDType.kind, distinctCount, NpDType.promote, NpDType.abs, DType.join] <;> omega
    | object =>
      simp [NpDType.abs] at hv hd; subst hv; subst hd
      simp [Gen.Encodings.sparseResultDType, NpDType.kind, distinctCount, NpDType.abs, DType.join]
  | object =>
    simp [NpDType.abs] at hv; subst hv
    cases d with
    | num b =>
      cases b <;> simp [NpDType.abs, kind] at hd <;> subst hd <;>
        simp [Gen.Encodings.sparseResultDType, NpDType.kind, kind, distinctCount, NpDType.abs, DType.join]
    | str w =>
      simp [NpDType.abs] at hd; subst hd
      simp [Gen.Encodings.sparseResultDType, NpDType.kind, distinctCount, NpDType.abs, DType.join]
    | object =>
      simp [NpDType.abs] at hd; subst hd
      simp [Gen.Encodings.sparseResultDType, NpDType.kind, distinctCount, NpDType.abs, DType.join]

/-- `uint64` against a signed integer dtype: no integer dtype holds both; the source's decision gives
`float64` (the abstraction `int ⊔ int = int` does not describe this pair — it is outside the
property's integers, which lie within `int64`, and is of the class of C09-K01 beyond `2^53`). -/
theorem sparse_result_dtype_mixed_u64 (a b : Num) (h : a.mixedU64 b = true) :
    Gen.Encodings.sparseResultDType (.num a) (.num b) = .num .f64 := by
  cases a <;> cases b <;> first | decide | (exfalso; revert h; decide)

/-! ## Families of function columns: every expansion is judged against *its* column's configuration

Several function columns over one binding (a query carries `f(1)`, `f(1.0)`, `f(True)` side by side), the
same column expanded again after its configuration was reassigned: whatever an earlier expansion computed
must not show in a later one. -/

/-- **History independence, on the translated code**: in every history of expansions -- any number of
column objects, bindings, configurations, lengths, in any order -- each expansion is the value of *that*
use's binding on *that* use's configuration, repeated to *that* use's length.  (The translated
`FunctionColumn.materialize` reads nothing but the column's three fields; a `materialize` that consults
module-level state is outside the translated subset and degrades.) -/
theorem gen_function_family_independent {γ : Type} (us : List (FnUse γ α)) :
    familyRun us = (familyExpand us).map some ∧
    familyExpand us = us.map fun u => List.replicate u.length (u.binding u.configuration) := by
  refine ⟨?_, rfl⟩
  unfold familyRun familyExpand
  rw [List.map_map]
  exact List.map_congr_left fun u _ => gen_function_materialize_refines u.binding u.configuration u.length

/-- **A function column declared without a configuration calls its binding with no arguments** (the
dataclass default `configuration: Tuple = field(default_factory=tuple)`, extracted on every run): its
expansion is the value of `binding()` repeated to its length. -/
theorem gen_function_default_configuration (binding : List β → α) (pad : β) (n : Nat) :
    Gen.Encodings.functionConfigurationArity = 0 ∧
    Gen.Encodings.functionMaterialize binding (List.replicate Gen.Encodings.functionConfigurationArity pad) n
      = some (List.replicate n (binding [])) := by
  refine ⟨rfl, ?_⟩
  rw [gen_function_materialize_refines]
  rfl

/-- The same, position by position: what stands before and after a use in the history is irrelevant to it. -/
theorem gen_function_family_at {γ : Type} (pre post : List (FnUse γ α)) (u : FnUse γ α) :
    (familyRun (pre ++ u :: post))[pre.length]? = some (some (List.replicate u.length (u.binding u.configuration))) := by
  rw [(gen_function_family_independent _).1, (gen_function_family_independent _).2]
  simp

/-- **When a memo in front of the binding is admissible**: if the key comparison only identifies
configurations on which the binding agrees (identity does; Python's `==` does not, see below), then every
history evaluated through the memo -- starting from any memo that holds only values of the binding -- equals
the history evaluated directly. -/
theorem memo_family_exact {γ : Type} (keq : γ → γ → Bool) (binding : γ → α)
    (hk : ∀ a b, keq a b = true → binding a = binding b)
    (memo : List (γ × α)) (hm : ∀ e ∈ memo, e.2 = binding e.1) (us : List (γ × Nat)) :
    memoFamily keq binding memo us = us.map fun u => List.replicate u.2 (binding u.1) := by
  induction us generalizing memo with
  | nil => rfl
  | cons u rest ih =>
    obtain ⟨c, n⟩ := u
    simp only [memoFamily, List.map_cons]
    cases hf : memo.find? (fun e => keq e.1 c) with
    | some e =>
      have he := List.find?_some hf
      have hmem := List.mem_of_find?_eq_some hf
      have hv : e.2 = binding c := by rw [hm e hmem]; exact hk _ _ he
      simp only [memoLookup, hf, hv]
      rw [ih memo hm]
    | none =>
      simp only [memoLookup, hf]
      rw [ih (memo ++ [(c, binding c)])]
      intro e he
      rcases List.mem_append.mp he with h | h
      · exact hm e h
      · simp at h; subst h; rfl

/-- **The condition is necessary** (the full statement "a memo keyed by any comparison is lossless" is
false): two configurations the comparison identifies and the binding tells apart give a history of two
expansions whose second one is the value computed for the *other* column. -/
theorem memo_family_inexact {γ : Type} (keq : γ → γ → Bool) (binding : γ → α) (a b : γ)
    (hab : keq a b = true) (hne : binding a ≠ binding b) :
    memoFamily keq binding [] [(a, 1), (b, 1)] = [[binding a], [binding a]] ∧
    memoFamily keq binding [] [(a, 1), (b, 1)] ≠ [(a, 1), (b, 1)].map fun u => List.replicate u.2 (binding u.1) := by
  have h : memoFamily keq binding [] [(a, 1), (b, 1)] = [[binding a], [binding a]] := by
    simp [memoFamily, memoLookup, hab]
  refine ⟨h, ?_⟩
  rw [h]
  simp
  exact hne

/-- The counterexample on Python values (the seeded class: a memo keyed by `==` / `hash`): `1 == True`, so
the column over `True` expands to the integer computed for the column over `1` -- a value of another type. -/
theorem memo_python_eq_mixes_kinds (i2f : Int → UInt64) :
    pyEq i2f (.int 1) (.bool true) = true ∧
    memoFamily (pyEq i2f) id [] [(.int 1, 2), (.bool true, 1)] = [[.int 1, .int 1], [.int 1]] := by
  simp [memoFamily, memoLookup, pyEq]

/-! ## An expansion is an array of its own

The clauses above speak of contents.  `materialize` hands out an *object*; the property's last clause
("applying an element-wise function to the stored values and then expanding") is a session on one column
object, and the repository's own idiom for the function is in place (`constant_col.values *= 2`).  If the
expansion were a window onto the stored array (`numpy.broadcast_to(self.values, (n,))`: right length, dtype
and elements), the expansion of the *original* would turn into the expansion of the mapped values the moment
the function is applied.  `Enc.Heap` / `Enc.materializeAt` model arrays as objects; the `Origin` of each
`materialize` result is read off the source on every run (`Gen.Encodings.*MaterializeOrigin`). -/

section Fresh

/-- **A fresh expansion is a new array**: its address is not one of the heap before the call, every array that
existed keeps its content, and it reads the decoded stored values. -/
theorem fresh_expansion_is_new_array (decode : List α → List α) (h : Heap α) (s : Nat) :
    (materializeAt .fresh decode h s).2 = .owned h.cells.length ∧
    (∀ a, a < h.cells.length → (materializeAt .fresh decode h s).1.read a = h.read a) ∧
    (materializeAt .fresh decode h s).1.deref (materializeAt .fresh decode h s).2 = decode (h.read s) := by
  rw [materializeAt_fresh]
  exact ⟨rfl, fun a ha => heap_read_alloc_old h _ a ha, heap_read_alloc_new h _⟩

/-- **A fresh expansion does not follow the column**: after *any* sequence of in-place operations on arrays
that existed when it was handed out (the stored values, the codes, the indices, earlier expansions) it still
reads what it read -- the decoded values as they were stored at the time. -/
theorem fresh_expansion_survives_writes (decode : List α → List α) (h : Heap α) (s : Nat)
    (ws : List (Nat × List α)) (hws : ∀ w ∈ ws, w.1 < h.cells.length) :
    ((materializeAt .fresh decode h s).1.writes ws).deref (materializeAt .fresh decode h s).2 = decode (h.read s) := by
  rw [materializeAt_fresh]
  show (Heap.writes _ ws).read h.cells.length = _
  rw [heap_read_writes_off _ ws _ (fun w hw => Nat.ne_of_lt (hws w hw))]
  exact heap_read_alloc_new h _

/-- **The session of the map clause with a fresh expansion**: the first expansion still is the expansion of the
original after the stored values were mapped in place, the second is the expansion of the mapped values. -/
theorem session_fresh (decode : List α → List α) (f : α → α) (h : Heap α) (s : Nat) (hs : s < h.cells.length) :
    session .fresh decode f h s = (decode (h.read s), decode ((h.read s).map f)) := by
  simp only [session, materializeAt_fresh, Heap.deref]
  -- the heap after the first expansion, and after the in-place map
  have hr1 : (h.alloc (decode (h.read s))).1.read s = h.read s := heap_read_alloc_old h _ s hs
  have hs1 : s < (h.alloc (decode (h.read s))).1.cells.length := by rw [heap_alloc_length]; omega
  rw [hr1]
  have hr2 : ((h.alloc (decode (h.read s))).1.write s ((h.read s).map f)).read s = (h.read s).map f :=
    heap_read_write_self _ s _ hs1
  have hl2 : ((h.alloc (decode (h.read s))).1.write s ((h.read s).map f)).cells.length = h.cells.length + 1 := by
    rw [heap_write_length, heap_alloc_length]
  rw [hr2, hl2]
  refine Prod.ext ?_ ?_
  · show (Heap.alloc _ _).1.read h.cells.length = _
    rw [heap_read_alloc_old _ _ _ (by rw [hl2]; omega), heap_read_write_ne _ _ _ _ (Nat.ne_of_lt hs)]
    exact heap_read_alloc_new h _
  · show (Heap.alloc _ _).1.read (h.cells.length + 1) = _
    rw [← hl2]
    exact heap_read_alloc_new _ _

/-- **The session with a window onto the stored array**: both readings are the expansion of the *mapped* values. -/
theorem session_alias (decode : List α → List α) (f : α → α) (h : Heap α) (s : Nat) (hs : s < h.cells.length) :
    session .aliasStored decode f h s = (decode ((h.read s).map f), decode ((h.read s).map f)) := by
  simp only [session, materializeAt, Heap.deref]
  rw [heap_read_write_self h s _ hs]

/-- The class of change, on the constant column: with `numpy.broadcast_to(self.values, (n,))` (a window, decode =
the one stored cell repeated `n` times) the expansion of `[v] * n` handed out *before* `values` was mapped in place
reads `[f v] * n` afterwards -- it no longer reproduces the original whenever `n ≥ 1` and `f v ≠ v`. -/
theorem alias_expansion_follows_map (f : α → α) (v : α) (n : Nat) (hn : 0 < n) (hf : f v ≠ v) :
    (session .aliasStored (fun vs => (Np.fullFrom n vs).getD []) f ⟨[[v]]⟩ 0).1 ≠ List.replicate n v := by
  rw [session_alias _ _ _ _ (by simp)]
  obtain ⟨m, rfl⟩ : ∃ m, n = m + 1 := ⟨n - 1, by omega⟩
  simp [Heap.read, Np.fullFrom, List.replicate_succ, hf]

/-- **The caller's edits stay the caller's**: with a fresh expansion, overwriting the expansion leaves the stored
array as it was, and the next expansion is again the decoded stored values. -/
theorem edit_session_fresh (decode : List α → List α) (xs : List α) (h : Heap α) (s : Nat) (hs : s < h.cells.length) :
    editSession .fresh decode xs h s = (h.read s, decode (h.read s)) := by
  simp only [editSession, materializeAt_fresh, Heap.deref]
  have hl2 : ((h.alloc (decode (h.read s))).1.write h.cells.length xs).cells.length = h.cells.length + 1 := by
    rw [heap_write_length, heap_alloc_length]
  have hr2 : ((h.alloc (decode (h.read s))).1.write h.cells.length xs).read s = h.read s := by
    rw [heap_read_write_ne _ _ _ _ (Nat.ne_of_gt hs)]
    exact heap_read_alloc_old h _ s hs
  rw [hr2, hl2]
  refine Prod.ext ?_ ?_
  · show (Heap.alloc _ _).1.read s = _
    rw [heap_read_alloc_old _ _ _ (by rw [hl2]; omega), hr2]
  · show (Heap.alloc _ _).1.read (h.cells.length + 1) = _
    rw [← hl2]
    exact heap_read_alloc_new _ _

open Gen.Encodings in
/-- **Every `materialize` of the source hands out an array built anew** (the origins the extractor read off the
`return` expressions of the working tree: `numpy.array(<list>)`, `self.values[self.encoding]`, `numpy.full(...)` +
item assignment, `numpy.full(self.length, self.values)`, `numpy.array([value] * self.length)`). -/
theorem source_expansions_are_fresh :
    rleMaterializeOrigin = .fresh ∧ dictMaterializeOrigin = .fresh ∧ sparseMaterializeOrigin = .fresh ∧
    constMaterializeOrigin = .fresh ∧ functionMaterializeOrigin = .fresh := by
  decide

open Gen.Encodings in
/-- **The map clause as a session on one column object, on the translated code**: expand, apply `f` to the stored
values in place, look at the first expansion again, expand again -- the first expansion still is the expansion of
the original, the second is `f` applied to every element of it (run-length, dictionary, constant columns: the
translated `materialize` bodies with the origins read off the source; `ls` / `cs` / `n` are the run lengths / codes /
length the column holds besides its values). -/
theorem source_map_session (f : α → α) (h : Heap α) (s : Nat) (hs : s < h.cells.length) (ls cs : List Nat) (n : Nat) :
    session rleMaterializeOrigin (fun vs => (rleMaterialize vs ls).getD []) f h s
      = ((rleMaterialize (h.read s) ls).getD [], ((rleMaterialize (h.read s) ls).getD []).map f) ∧
    session dictMaterializeOrigin (fun vs => (dictMaterialize vs cs).getD []) f h s
      = ((dictMaterialize (h.read s) cs).getD [], ((dictMaterialize (h.read s) cs).getD []).map f) ∧
    session constMaterializeOrigin (fun vs => (constMaterialize n vs).getD []) f h s
      = ((constMaterialize n (h.read s)).getD [], ((constMaterialize n (h.read s)).getD []).map f) := by
  obtain ⟨h1, h2, _, h4, _⟩ := source_expansions_are_fresh
  obtain ⟨m1, m2, m3⟩ := source_map_commutes f (h.read s) ls cs n
  rw [h1, h2, h4, session_fresh _ _ _ _ hs, session_fresh _ _ _ _ hs, session_fresh _ _ _ _ hs, m1, m2, m3]
  refine ⟨?_, ?_, ?_⟩
  · cases rleMaterialize (h.read s) ls <;> rfl
  · cases dictMaterialize (h.read s) cs <;> rfl
  · cases constMaterialize n (h.read s) <;> rfl

open Gen.Encodings in
/-- **Sparse and function columns, and every encoding under the caller's edits**: with the origins read off the
source, the first expansion of a session is what was decoded when it was handed out (whatever `decode` is: the
sparse `materialize` with its dtype decision, the binding's value repeated), and an expansion overwritten by the
caller changes neither the stored array nor the next expansion. -/
theorem source_expansions_independent (decode : List α → List α) (f : α → α) (xs : List α) (h : Heap α) (s : Nat)
    (hs : s < h.cells.length) :
    (∀ o ∈ [rleMaterializeOrigin, dictMaterializeOrigin, sparseMaterializeOrigin, constMaterializeOrigin,
        functionMaterializeOrigin],
      session o decode f h s = (decode (h.read s), decode ((h.read s).map f)) ∧
      editSession o decode xs h s = (h.read s, decode (h.read s))) := by
  obtain ⟨h1, h2, h3, h4, h5⟩ := source_expansions_are_fresh
  intro o ho
  have : o = .fresh := by
    simp only [h1, h2, h3, h4, h5, List.mem_cons, List.not_mem_nil, or_false, or_self] at ho
    exact ho
  subst this
  exact ⟨session_fresh decode f h s hs, edit_session_fresh decode xs h s hs⟩

/-! ### The stored form is the column's own

The other direction: the arrays a constructor *stores*.  Were the stored values the caller's input array
(`numpy.asarray(self.values)` kept when nothing had to be left out), the function applied in place to one
column's stored values would rewrite the input sequence and the stored values of every other column built from
it: a column nobody touched would stop expanding to the original. -/

/-- **Stored values built anew are a new array**: the address is not one of the heap before the constructor ran,
every array that existed (the input among them) keeps its content, and it reads the encoded input. -/
theorem own_stored_is_new_array (encode : List α → List α) (h : Heap α) (i : Nat) :
    (constructAt .own encode h i).2 = h.cells.length ∧
    (∀ a, a < h.cells.length → (constructAt .own encode h i).1.read a = h.read a) ∧
    (constructAt .own encode h i).1.read (constructAt .own encode h i).2 = encode (h.read i) := by
  rw [constructAt_own]
  exact ⟨rfl, fun a ha => heap_read_alloc_old h _ a ha, heap_read_alloc_new h _⟩

/-- **Stored values built anew do not follow the input** (`fresh_stored_survives_maps`): after *any* sequence of
in-place operations on arrays that existed when the column was built -- the input array, the stored arrays of
every column built before -- the column's stored values still read the encoded input as it was. -/
theorem fresh_stored_survives_maps (encode : List α → List α) (h : Heap α) (i : Nat)
    (ws : List (Nat × List α)) (hws : ∀ w ∈ ws, w.1 < h.cells.length) :
    ((constructAt .own encode h i).1.writes ws).read (constructAt .own encode h i).2 = encode (h.read i) := by
  rw [constructAt_own]
  show (Heap.writes _ ws).read h.cells.length = _
  rw [heap_read_writes_off _ ws _ (fun w hw => Nat.ne_of_lt (hws w hw))]
  exact heap_read_alloc_new h _

/-- **Two columns over one input, stored values of their own**: after `f` was applied in place to the stored
values of the first, the first expands to the decoding of the mapped stored values, the second -- untouched --
still expands to the decoding of the encoded input, and the input reads what it read. -/
theorem twin_session_own (encode decode : List α → List α) (f : α → α) (h : Heap α) (i : Nat) (hi : i < h.cells.length) :
    twinSession .own encode decode f h i =
      (decode ((encode (h.read i)).map f), decode (encode (h.read i)), h.read i) := by
  simp only [twinSession, constructAt_own]
  have hl : (h.alloc (encode (h.read i))).1.cells.length = h.cells.length + 1 := heap_alloc_length h _
  have hi1 : ((h.alloc (encode (h.read i))).1).read i = h.read i := heap_read_alloc_old h _ i hi
  rw [hi1, hl]
  have r1 : ((h.alloc (encode (h.read i))).1.alloc (encode (h.read i))).1.read h.cells.length = encode (h.read i) := by
    rw [heap_read_alloc_old _ _ _ (by omega)]
    exact heap_read_alloc_new h _
  have r2 : ((h.alloc (encode (h.read i))).1.alloc (encode (h.read i))).1.read (h.cells.length + 1) = encode (h.read i) := by
    have := heap_read_alloc_new (h.alloc (encode (h.read i))).1 (encode (h.read i))
    rwa [hl] at this
  have r3 : ((h.alloc (encode (h.read i))).1.alloc (encode (h.read i))).1.read i = h.read i := by
    rw [heap_read_alloc_old _ _ _ (by omega), hi1]
  have l2 : ((h.alloc (encode (h.read i))).1.alloc (encode (h.read i))).1.cells.length = h.cells.length + 2 := by
    rw [heap_alloc_length, hl]
  generalize ((h.alloc (encode (h.read i))).1.alloc (encode (h.read i))).1 = h2 at *
  refine Prod.ext ?_ (Prod.ext ?_ ?_)
  · show decode ((h2.write h.cells.length _).read h.cells.length) = _
    rw [heap_read_write_self h2 _ _ (by omega), r1]
  · show decode ((h2.write h.cells.length _).read (h.cells.length + 1)) = _
    rw [heap_read_write_ne h2 _ _ _ (by omega), r2]
  · show (h2.write h.cells.length _).read i = _
    rw [heap_read_write_ne h2 _ _ _ (by omega), r3]

/-- **The statement is false when the stored values are the input array**: all three readings follow the map --
the untouched column expands to the decoding of the *mapped* input, and the input itself reads mapped. -/
theorem twin_session_alias (encode decode : List α → List α) (f : α → α) (h : Heap α) (i : Nat) (hi : i < h.cells.length) :
    twinSession .aliasInput encode decode f h i =
      (decode ((h.read i).map f), decode ((h.read i).map f), (h.read i).map f) := by
  simp only [twinSession, constructAt_alias]
  rw [heap_read_write_self _ _ _ hi]

/-- **The seeded change on the model**: a dense sparse column (nothing equals the default: the stored values are the
whole sequence, `encode = decode = id`) whose stored values are the input array -- the untouched twin no longer
expands to the original whenever `f` moves an element. -/
theorem alias_stored_follows_map (f : α → α) (xs : List α) (hf : xs.map f ≠ xs) :
    (twinSession .aliasInput id id f ⟨[xs]⟩ 0).2.1 ≠ xs := by
  rw [twin_session_alias _ _ _ _ _ (by simp)]
  simpa [Heap.read] using hf

open Gen.Encodings in
/-- **Every constructor of the source stores arrays built anew** (the origins the extractor read off the assignments
of the working tree: `numpy.array(run_values)` / `numpy.array([])`, `numpy.unique(...)`, `numpy.where(...)` and
`numpy.array(self.values)[self.indices]`, `numpy.array([self.value])`; a function column stores no array). -/
theorem stored_values_are_fresh :
    rleStoredOrigin = .own ∧ dictStoredOrigin = .own ∧ sparseStoredOrigin = .own ∧ constStoredOrigin = .own := by
  decide

open Gen.Encodings in
/-- **Two columns over one input, on the origins read off the source**: for each of the four storing encoders and any
lossless pair (`decode (encode xs) = xs`: the round-trip theorems above), after an in-place map of the first column's
stored values the untouched second column still expands to the original sequence and the input is unchanged. -/
theorem source_twin_session (encode decode : List α → List α) (f : α → α) (h : Heap α) (i : Nat) (hi : i < h.cells.length)
    (hrt : decode (encode (h.read i)) = h.read i) (o : StoredOrigin)
    (ho : o ∈ [rleStoredOrigin, dictStoredOrigin, sparseStoredOrigin, constStoredOrigin]) :
    (twinSession o encode decode f h i).2 = (h.read i, h.read i) := by
  obtain ⟨h1, h2, h3, h4⟩ := stored_values_are_fresh
  have : o = .own := by
    simp only [List.mem_cons, List.not_mem_nil, or_false] at ho
    rcases ho with rfl | rfl | rfl | rfl <;> assumption
  subst this
  rw [twin_session_own _ _ _ _ _ hi, hrt]

end Fresh

/-! ## Non-vacuity -/

example : (rleEncode (fun a b : Nat => a == b) [3, 3, 5, 3]).values = [3, 5, 3] ∧
    (rleEncode (fun a b : Nat => a == b) [3, 3, 5, 3]).lengths = [2, 1, 1] := by decide
example : rleDecode (rleEncode (fun a b : Nat => a == b) [3, 3, 5, 3]) = [3, 3, 5, 3] := by decide
/-- (`List.mergeSort` is defined by well-founded recursion and does not reduce under `decide`;
the concrete dictionary `[1, 2, 3]` / codes `[2, 0, 1, 0]` of this input is what the native
driver computes and the correspondence compares with `numpy.unique`.) -/
example : dictDecode (dictEncode (fun a b : Nat => a ≤ b) [3, 1, 2, 1]) = some [3, 1, 2, 1] ∧
    (dictEncode (fun a b : Nat => a ≤ b) [3, 1, 2, 1]).values.Pairwise (fun a b => a ≤ b) :=
  ⟨dict_roundtrip _ _, by
    simpa using dict_values_sorted (fun a b : Nat => a ≤ b)
      (fun a b c h1 h2 => by simp at *; omega) (fun a b => by simp; omega) [3, 1, 2, 1]⟩
example : (sparseEncode (fun a b : Nat => a != b) 0 [7, 0, 9]).indices = [0, 2] ∧
    (sparseEncode (fun a b : Nat => a != b) 0 [7, 0, 9]).values = [7, 9] := by decide
example : sparseDecode 0 (sparseEncode (fun a b : Nat => a != b) 0 [7, 0, 9]) = some [7, 0, 9] := by
  decide
example : sparseDecode 0 ((sparseEncode (fun a b : Nat => a != b) 0 [7, 0, 9]).mapValues (· * 2))
    = some ([7, 0, 9].map (· * 2)) := by decide
/-- the hypotheses of `sparse_dtype_lossless` are satisfiable: floats with an integer default -/
example : scalarDType (.str "a\x00") = none ∧ scalarDType (.str "a\x00b") = some (.str 3) := by decide
example : scalarDType (.int 0) = some .int ∧ holds .int (.int 0) = true ∧
    holds .float (.float 0x3FF8000000000000) = true ∧ DType.join .float .int = .float := by decide

/-- the hypotheses of `sparse_dtype_lossless_mapped` are satisfiable by a dtype-changing map: booleans with the
default `False`, mapped to integers (`astype(int64)`): the expansion is the integers, the default position `0` -/
example : sparseMaterialize (fun _ => 0) (.bool false) .int
    ((sparseEncode (pyNe (fun _ => 0)) (.bool false) [.bool true, .bool false, .bool true]).mapValues
      fun v => match v with | .bool b => .int (if b then 1 else 0) | v => v)
    = some (.int, [.int 1, .int 0, .int 1]) := by decide
example : familyRun [⟨fun x : Nat => x * 3, 1, 2⟩, ⟨fun x : Nat => x + 1, 1, 0⟩, ⟨fun x : Nat => x * 3, 2, 1⟩]
    = [some [3, 3], some [], some [6]] := by decide
example : memoFamily (fun a b : Nat => a == b) (· * 3) [] [(1, 2), (2, 1), (1, 1)] = [[3, 3], [6], [3]] := by decide

example : Num.exactInto .i32 .f64 = true ∧ Num.exactInto .i64 .f64 = false ∧ Num.exactInto .f32 .f64 = true ∧
    Num.exactInto .f64 .f32 = false ∧ Num.exactInto .u8 .i8 = false := by decide

/-- a session on a heap holding the stored array of the constant 3 (and another array): the first expansion stays
`[3, 3]` after `values *= 2`, the second is `[6, 6]`; through a window both read `[6, 6]` -/
example : session .fresh (fun vs => (Np.fullFrom 2 vs).getD []) (· * 2) ⟨[[7], [3]]⟩ 1 = ([3, 3], [6, 6]) ∧
    session .aliasStored (fun vs => (Np.fullFrom 2 vs).getD []) (· * 2) ⟨[[7], [3]]⟩ 1 = ([6, 6], [6, 6]) ∧
    editSession .fresh (fun vs => (Np.fullFrom 2 vs).getD []) [0, 0] (⟨[[7], [3]]⟩ : Heap Nat) 1 = ([3], [3, 3]) := by decide

/-- two columns over the input `[3, 1]` at address 1: with stored values of their own the untouched twin still expands
to `[3, 1]` and the input reads `[3, 1]` after `values *= 2` on the first; with the input array as stored values both
read `[6, 2]` -/
example : twinSession .own id id (· * 2) (⟨[[7], [3, 1]]⟩ : Heap Nat) 1 = ([6, 2], [3, 1], [3, 1]) ∧
    twinSession .aliasInput id id (· * 2) (⟨[[7], [3, 1]]⟩ : Heap Nat) 1 = ([6, 2], [6, 2], [6, 2]) := by decide

end C09
