import OrsoVerif.Lemmas.Cast
/-!
# C07 — Casting to a column type is exact on canonical renderings

Property theorems only; the model is `Model/Cast.lean` (tables from `Gen.Cast`, re-extracted on
every run), helper lemmas are in `Lemmas/Cast.lean`.  `float(text)` is a *parameter* `fot` of the
model: the DOUBLE theorem is stated under the hypothesis that it inverts the float rendering
(CPython's shortest-repr guarantee), which the harness samples on ≥ 10⁵ doubles per run.
-/
namespace C07
open Cast

/-- **Null gives null** for every type, parameters and `float(text)` behaviour. -/
theorem parse_null (fot : List Char → Option UInt64) (t : Ty) : parse fot t none = .ok none := rfl

/-- **Booleans per the documented truthy words**: the seven documented words (pinned here) are
in the extracted table for text and for bytes; every text entry of the extracted
`BOOLEAN_STRINGS` table casts to `True` in upper and lower case, as text and (ASCII) bytes; the
renderings of `True`/`False` and the typed values cast to themselves. -/
theorem bool_roundtrip :
    (∀ w ∈ ["TRUE", "ON", "YES", "1", "1.0", "T", "Y"], w ∈ Gen.Cast.boolStrings ∧ w ∈ Gen.Cast.boolBytes) ∧
    (∀ w ∈ Gen.Cast.boolStrings,
      parseBoolean (.str w.toList) = .ok (.bool true) ∧
      parseBoolean (.str (w.toList.map Char.toLower)) = .ok (.bool true)) ∧
    (∀ w ∈ Gen.Cast.boolBytes,
      parseBoolean (.bytes (w.toList.map fun c => UInt8.ofNat c.toNat)) = .ok (.bool true)) ∧
    (∀ b : Bool, parseBoolean (.bool b) = .ok (.bool b) ∧
      parseBoolean (.str (renderBool b)) = .ok (.bool b) ∧
      parseBoolean (.bytes ((renderBool b).map fun c => UInt8.ofNat c.toNat)) = .ok (.bool b)) := by
  decide

/-- **Integers of any size**: the decimal rendering of every integer (up to CPython's
4300-digit limit for `int`/`str` conversion) casts back to that integer, and an `int` casts to itself. -/
theorem int_roundtrip (n : Int) (h : (Nat.toDigits 10 n.natAbs).length ≤ Iso.maxStrDigits) :
    parseInteger (.str (renderInt n)) = .ok (.int n) ∧ parseInteger (.int n) = .ok (.int n) := by
  refine ⟨?_, rfl⟩
  simp only [parseInteger, pyInt_renderInt n h, liftIso, Cast.bind_ok]

/-- **Floats via their repr** — under the parameter that `float(text)` inverts the rendering `rep`. -/
theorem double_roundtrip (fot : List Char → Option UInt64) (rep : UInt64 → List Char)
    (hparam : ∀ f, fot (rep f) = some f) (f : UInt64) :
    parseDouble fot (.str (rep f)) = .ok (.float f) ∧ parseDouble fot (.float f) = .ok (.float f) := by
  simp [parseDouble, hparam]

/-- **Text with an optional maximum length**: the result is the longest prefix within `n` code
points (no limit for `None` and, by `if length:`, for 0); UTF-8 bytes are decoded first. -/
theorem varchar_prefix (s : List Char) (n : Option Nat) :
    ∃ r, parseVarchar n (.str s) = .ok (.str r) ∧ r <+: s ∧
      (match n with
       | none => r = s
       | some 0 => r = s
       | some (k + 1) => r.length ≤ k + 1 ∧ ∀ q, q <+: s → q.length ≤ k + 1 → q <+: r) := by
  refine ⟨limit Gen.Cast.varcharLengthGuard n s, rfl, limit_prefix _ _ _, limit_longest _ _ (by decide)⟩

theorem varchar_utf8 (s : String) (n : Option Nat) :
    parseVarchar n (.bytes s.toUTF8.data.toList) = parseVarchar n (.str s.toList) := by
  simp only [parseVarchar, Iso.decodeUtf8_toUTF8, strOf]

/-- **Binary with an optional maximum length**: the longest prefix within `n` bytes; text is
encoded as UTF-8 first. -/
theorem blob_prefix (b : List UInt8) (n : Option Nat) :
    ∃ r, parseBlob n (.bytes b) = .ok (.bytes r) ∧ r <+: b ∧
      (match n with
       | none => r = b
       | some 0 => r = b
       | some (k + 1) => r.length ≤ k + 1 ∧ ∀ q, q <+: b → q.length ≤ k + 1 → q <+: r) := by
  refine ⟨limit Gen.Cast.blobLengthGuard n b, rfl, limit_prefix _ _ _, limit_longest _ _ (by decide)⟩

/-- **Arrays element-wise with nulls kept**: the result has the same length, `null` stays `null`
at its position and every other element is the element type's cast of that element; if any
element's cast raises, the array cast raises. -/
theorem array_elementwise (fot : List Char → Option UInt64) (t : Ty) (xs : List (Option Val)) :
    (∀ rs, parseArray fot (some t) xs = .ok rs →
      rs.length = xs.length ∧
      ∀ i (h : i < xs.length) (h' : i < rs.length), parse fot t xs[i] = .ok rs[i] ∧ (xs[i] = none → rs[i] = none)) ∧
    ((∃ x ∈ xs, ∃ e, parse fot t x = .error e) → ∃ e, parseArray fot (some t) xs = .error e) :=
  ⟨fun rs h => parseArray_spec fot t xs rs h, parseArray_raises fot t xs⟩

/-- **DATE / TIMESTAMP reuse the C08 parser**: already-typed values are kept (timestamps to whole
seconds), a date casts to its midnight. -/
theorem temporal_identity (y m d : Nat) (dt : Iso.DateTime) :
    parseTemporal .date (.date y m d) = .ok (.date y m d) ∧
    parseTemporal .timestamp (.datetime dt) = .ok (.datetime (Iso.truncSeconds dt)) ∧
    parseTemporal .date (.datetime dt) = .ok (.date dt.year dt.month dt.day) ∧
    parseTemporal .timestamp (.date y m d) = .ok (.datetime ⟨y, m, d, 0, 0, 0, 0⟩) := ⟨rfl, rfl, rfl, rfl⟩

/-- **Never a value of another Python class**: whatever the input, a cast that returns a non-null
value returns one whose class is the one `ORSO_TO_PYTHON_MAP` (extracted) gives for the type. -/
theorem result_class (fot : List Char → Option UInt64) (t : Ty) (v : Val) (r : Val)
    (h : parseWith fot t v = .ok r) : r.cls = t.cls := by
  cases t with
  | boolean => exact parseBoolean_cls v r h
  | integer => exact parseInteger_cls v r h
  | double => exact parseDouble_cls fot v r h
  | decimal p s => exact parseDecimal_cls p s v r h
  | varchar n => exact parseVarchar_cls n v r h
  | blob n => exact parseBlob_cls n v r h
  | date => exact parseTemporal_cls .date v r h (by decide)
  | timestamp => exact parseTemporal_cls .timestamp v r h (by decide)

/-- **Decimals are exact whenever they fit.**  A finite decimal `(-1)^neg · c · 10^e` with at most
`s ≤ 28` fractional digits (`-s ≤ e`) whose coefficient, rescaled to exponent `-s`, has at most `p`
digits is returned as exactly that value, quantised to `s` places: coefficient `c · 10^(e+s)` at
exponent `-s` (same sign, so `-0` stays `-0`).  It holds for an already-typed `Decimal` and for any
text (or, by `parseDecimal`, bytes / integer rendering) that `Decimal` reads as that number, except
all-digit text, whose zero padding is compared by correspondence only. -/
theorem decimal_exact (p s : Nat) (neg : Bool) (c : Nat) (e : Int) (hp : 1 ≤ p)
    (hs : s ≤ Gen.Cast.maxQuantScale) (he : -(s : Int) ≤ e) (hc : numDigits c ≤ p)
    (hd : numDigits (c * 10 ^ (e + s).toNat) ≤ p) :
    parseDecimal (some p) (some s) (.dec (.fin neg c e))
      = .ok (.dec (.fin neg (c * 10 ^ (e + s).toNat) (-(s : Int)))) ∧
    ∀ t : List Char, (!(stripD t).isEmpty && allDigits (stripD t)) = false →
      decOfText (stripD (stripD t)) = some (.fin neg c e) →
      parseDecimal (some p) (some s) (.str t)
        = .ok (.dec (.fin neg (c * 10 ^ (e + s).toNat) (-(s : Int)))) := by
  have h1 := factory_fits p s neg c e hp hs he hc hd
  refine ⟨h1, ?_⟩
  intro t hnd ht
  simp only [parseDecimal, Option.getD_some]
  rw [factory_text p s (stripD t) hnd _ ht hp]
  exact h1

/-- The quantisation bound of the source covers the statement's "scale of at most 28". -/
theorem scale_bound_covers_statement : 28 ≤ Gen.Cast.maxQuantScale ∧ Gen.Cast.rounding = "ROUND_HALF_EVEN" := by
  decide

/-- **Casting the result again changes nothing** (idempotence on already-typed decimals that are
quantised to the column's scale and fit its precision). -/
theorem decimal_idempotent (p s : Nat) (neg : Bool) (c : Nat) (hp : 1 ≤ p)
    (hs : s ≤ Gen.Cast.maxQuantScale) (hc : numDigits c ≤ p) :
    parseDecimal (some p) (some s) (.dec (.fin neg c (-(s : Int)))) = .ok (.dec (.fin neg c (-(s : Int)))) := by
  have e0 : (-(s : Int) + s).toNat = 0 := by omega
  have h := factory_fits p s neg c (-(s : Int)) hp hs (Int.le_refl _) hc
    (by rw [e0]; simpa using hc)
  rw [e0] at h
  simpa [parseDecimal] using h

/-! Non-vacuity (concrete inputs through the whole text path, including rounding and the fallback). -/

example : parseDecimal (some 5) (some 2) (.str "123.45".toList) = .ok (.dec (.fin false 12345 (-2))) := by decide
example : parseDecimal (some 5) (some 2) (.str " -1.5 ".toList) = .ok (.dec (.fin true 150 (-2))) := by decide
example : parseDecimal (some 5) (some 2) (.str "15".toList) = .ok (.dec (.fin false 1500 (-2))) := by decide
example : parseDecimal (some 5) (some 2) (.str "1E+2".toList) = .ok (.dec (.fin false 10000 (-2))) := by decide
/-- half-even rounding to the scale, and to the precision -/
example : parseDecimal (some 5) (some 2) (.str "0.125".toList) = .ok (.dec (.fin false 12 (-2))) := by decide
example : parseDecimal (some 5) (some 2) (.str "123.456".toList) = .ok (.dec (.fin false 12346 (-2))) := by decide
/-- does not fit: the `InvalidOperation` fallback returns the rounded, unquantised value -/
example : parseDecimal (some 5) (some 2) (.str "123456".toList) = .ok (.dec (.fin false 12346 1)) := by decide
example : parseDecimal (some 5) (some 2) (.str "abc".toList) = .error .invalidOperation := by decide
example : parseInteger (.str " -12_000 ".toList) = .ok (.int (-12000)) := by decide
example : parseVarchar (some 3) (.str "héllo".toList) = .ok (.str "hél".toList) := by decide

end C07
