import OrsoVerif.Lemmas.Cast
import OrsoVerif.Lemmas.CastDecimal
import OrsoVerif.Lemmas.CastJson
import OrsoVerif.Lemmas.CastFns
import OrsoVerif.Lemmas.CastText
import OrsoVerif.Generated.CastFns
import OrsoVerif.Props.C08
/-!
# C07 — Casting to a column type is exact on canonical renderings

Property theorems only; the model is `Model/Cast.lean` (tables from `Gen.Cast`, re-extracted on
every run), helper lemmas are in `Lemmas/Cast.lean`.  `float(text)` is a *parameter* `fot` of the
model: the DOUBLE theorem is stated under the hypothesis that it inverts the float rendering
(CPython's shortest-repr guarantee), which the harness samples on ≥ 10⁵ doubles per run.
-/
set_option linter.unusedSimpArgs false
namespace C07
open Cast

/-- **The early `return None` of `OrsoTypes.parse`** (its test is lifted from the source on this run:
`value is None` today): it is taken for `None` and for no other value, whatever the value's
truthiness — `0`, `0.0`, `''`, `b''`, `False`, `Decimal(0)` reach their parser. -/
theorem null_guard : NullFacts where
  onNone := by unfold Gen.Cast.nullGuard; trivial
  onlyNone := by intro f; unfold Gen.Cast.nullGuard; exact not_false

/-- **Null gives null for every column type.**  The guard precedes the table dispatch, so it holds
around *any* parser `run` (the types outside the model included: ARRAY, TIME, INTERVAL, STRUCT,
JSONB, NULL), in particular for every modelled type and parameters; every member of the extracted
`OrsoTypes` enum has an entry in the extracted parser and class tables, and the method dispatches
through `ORSO_TO_PYTHON_PARSER`; a non-null value always reaches the parser. -/
theorem parse_null :
    (∀ run : Val → Except Exc Val, parseVia run none = .ok none) ∧
    (∀ (fot : List Char → Option UInt64) (t : Ty), parse fot t none = .ok none) ∧
    (∀ n ∈ Gen.Cast.typeNames, (Gen.Cast.parserOf.lookup n).isSome ∧ (Gen.Cast.pythonClass.lookup n).isSome) ∧
    Gen.Cast.dispatchTable = "ORSO_TO_PYTHON_PARSER" ∧
    (∀ (run : Val → Except Exc Val) (v : Val), parseVia run (some v) = (run v).bind fun r => .ok (some r)) :=
  ⟨parseVia_none null_guard, fun fot t => parseVia_none null_guard _, by decide, rfl, parseVia_some null_guard⟩

/-- **The dispatch table** `ORSO_TO_PYTHON_PARSER` (extracted on this run) sends each of the eight
value types to its own parser, with the keywords the type carries: a swapped or dropped entry
breaks this theorem. -/
theorem dispatch_table (fot : List Char → Option UInt64) (t : Ty) (v : Val) :
    parseWith fot t v =
      match t with
      | .boolean => parseBoolean v
      | .integer => parseInteger v
      | .double => parseDouble fot v
      | .decimal p s => parseDecimal p s v
      | .varchar n => parseVarchar n v
      | .blob n => parseBlob n v
      | .date => parseTemporal .date v
      | .timestamp => parseTemporal .timestamp v := by
  cases t <;> rfl

/-- **Booleans per the documented truthy words**: the seven documented words (pinned here) are
in the extracted table for text and for bytes; every text entry of the extracted
`BOOLEAN_STRINGS` table casts to `True` in upper and lower case, as text and (ASCII) bytes; the
renderings of `True`/`False` and the typed values cast to themselves. -/
theorem bool_roundtrip :
    (∀ w ∈ ["TRUE", "ON", "YES", "1", "1.0", "T", "Y"], w ∈ Gen.Cast.boolStrings ∧ w ∈ Gen.Cast.boolBytes) ∧
    (∀ w ∈ Gen.Cast.boolStrings,
      parseBoolean (.str w.toList) = .ok (.bool true) ∧
      parseBoolean (.str (w.toList.map Char.toLower)) = .ok (.bool true)) ∧
    (∀ w ∈ Gen.Cast.boolBytes,
      parseBoolean (.bytes (w.toList.map fun c => UInt8.ofNat c.toNat)) = .ok (.bool true)) ∧
    (∀ b : Bool, parseBoolean (.bool b) = .ok (.bool b) ∧
      parseBoolean (.str (renderBool b)) = .ok (.bool b) ∧
      parseBoolean (.bytes ((renderBool b).map fun c => UInt8.ofNat c.toNat)) = .ok (.bool b)) := by
  decide

/-- **Integers of any size**: the decimal rendering of every integer (up to CPython's
4300-digit limit for `int`/`str` conversion) casts back to that integer — as text and as the
(ASCII) bytes that spell it — and an `int` casts to itself. -/
theorem int_roundtrip (n : Int) (h : (Nat.toDigits 10 n.natAbs).length ≤ Iso.maxStrDigits) :
    parseInteger (.str (renderInt n)) = .ok (.int n) ∧ parseInteger (.int n) = .ok (.int n) ∧
    parseInteger (.bytes (asciiBytes (renderInt n))) = .ok (.int n) := by
  refine ⟨?_, rfl, ?_⟩
  · simp only [parseInteger, pyInt_renderInt n h, liftIso, Cast.bind_ok]
  · simp only [parseInteger, asciiBytes_all _ (renderInt_ascii n), if_true,
      asciiChars_asciiBytes _ (renderInt_ascii n), pyInt_renderInt n h, liftIso, Cast.bind_ok]

/-- **Floats via their repr.**  `parse_double` is `float(x)`; the text-to-float function `fot`
and the rendering `rep` (`repr`) are parameters.  ASSUMED, exactly: `∀ f, fot (rep f) = some f`
(CPython: `float(repr(f))` gives `f` back, bit for bit; NaN as the canonical NaN).  PROVED from
it: the text rendering casts to `f`; so does its ASCII bytes rendering (bytes are read as the text
they spell); a float casts to itself with every bit kept (NaN payloads, `-0.0`). -/
theorem double_roundtrip (fot : List Char → Option UInt64) (rep : UInt64 → List Char)
    (hparam : ∀ f, fot (rep f) = some f) (f : UInt64) :
    parseDouble fot (.str (rep f)) = .ok (.float f) ∧ parseDouble fot (.float f) = .ok (.float f) ∧
    ((∀ c ∈ rep f, c.toNat < 128) →
      parseDouble fot (.bytes (asciiBytes (rep f))) = .ok (.float f)) := by
  refine ⟨by simp [parseDouble, hparam], rfl, ?_⟩
  intro hascii
  simp only [parseDouble, asciiBytes_all _ hascii, if_true, asciiChars_asciiBytes _ hascii, hparam]

/-- **Padded renderings of integers**: ASCII white space (space, tab, LF, CR, VT, FF — what `int()` skips) before and
after the decimal rendering of any integer does not change the cast: text and the ASCII bytes that spell it. -/
theorem int_padded_roundtrip (n : Int) (h : (Nat.toDigits 10 n.natAbs).length ≤ Iso.maxStrDigits) (pre post : List Char)
    (hpre : ∀ c ∈ pre, Iso.isWs c = true) (hpost : ∀ c ∈ post, Iso.isWs c = true) :
    parseInteger (.str (pre ++ (renderInt n ++ post))) = .ok (.int n) ∧
    ((∀ c ∈ pre ++ (renderInt n ++ post), c.toNat < 128) →
      parseInteger (.bytes (asciiBytes (pre ++ (renderInt n ++ post)))) = .ok (.int n)) := by
  refine ⟨?_, fun hascii => ?_⟩
  · simp only [parseInteger, pyInt_padded n h pre post hpre hpost, liftIso, Cast.bind_ok]
  · simp only [parseInteger, asciiBytes_all _ hascii, if_true, asciiChars_asciiBytes _ hascii,
      pyInt_padded n h pre post hpre hpost, liftIso, Cast.bind_ok]

/-- **Floats from text at the boundaries, and padded.**  ASSUMED, exactly: `FloatTextParam fot rep` (`float(repr f) = f`;
white space around a text is skipped; the boundary table `Cast.floatSpecials` — NaN / infinity spellings, ±1e308, overflow
to infinity, subnormals and underflow to ±0, `-0.0`, underscores — each sampled or compared with the interpreter on
every run).  PROVED from it: the padded `repr` casts back to the double bit for bit; every boundary text casts to the
tabulated double, also padded, also as the ASCII bytes that spell it; the table is not vacuous and contains the limits. -/
theorem double_text_forms (fot : List Char → Option UInt64) (rep : UInt64 → List Char) (P : FloatTextParam fot rep) :
    (∀ (f : UInt64) (pre post : List Char), (∀ c ∈ pre, Iso.isWs c = true) → (∀ c ∈ post, Iso.isWs c = true) →
      parseDouble fot (.str (pre ++ (rep f ++ post))) = .ok (.float f)) ∧
    (∀ p ∈ floatSpecials, ∀ (pre post : List Char), (∀ c ∈ pre, Iso.isWs c = true) → (∀ c ∈ post, Iso.isWs c = true) →
      parseDouble fot (.str (pre ++ (p.1.toList ++ post))) = .ok (.float p.2) ∧
      parseDouble fot (.str p.1.toList) = .ok (.float p.2) ∧
      ((∀ c ∈ p.1.toList, c.toNat < 128) → parseDouble fot (.bytes (asciiBytes p.1.toList)) = .ok (.float p.2))) ∧
    (("1.7976931348623157e308", 0x7FEFFFFFFFFFFFFF) ∈ floatSpecials ∧ ("1e309", 0x7FF0000000000000) ∈ floatSpecials ∧
      ("5e-324", 0x1) ∈ floatSpecials ∧ ("-0.0", 0x8000000000000000) ∈ floatSpecials ∧
      ("nan", 0x7FF8000000000000) ∈ floatSpecials ∧ ("-inf", 0xFFF0000000000000) ∈ floatSpecials) := by
  refine ⟨?_, ?_, by decide⟩
  · intro f pre post hpre hpost
    simp only [parseDouble, P.padding pre (rep f) post hpre hpost, P.reprInverse]
  · intro p hp pre post hpre hpost
    refine ⟨?_, ?_, fun hascii => ?_⟩
    · simp only [parseDouble, P.padding pre p.1.toList post hpre hpost, P.specials p hp]
    · simp only [parseDouble, P.specials p hp]
    · simp only [parseDouble, asciiBytes_all _ hascii, if_true, asciiChars_asciiBytes _ hascii, P.specials p hp]

/-- **The generated `if length:` tests and `[:length]` slices** of `parse_varchar` and
`parse_bytes` (expressions lifted from the source on this run): length 0 is "no limit", a positive
length `n` slices to exactly `[:n]`. -/
theorem limit_expressions :
    LimitFacts (fun k => decide (Gen.Cast.varcharLimitTest k)) Gen.Cast.varcharStop ∧
    LimitFacts (fun k => decide (Gen.Cast.blobLimitTest k)) Gen.Cast.blobStop := by
  refine ⟨⟨by decide, fun k => ⟨decide_eq_true ?_, ?_⟩⟩, ⟨by decide, fun k => ⟨decide_eq_true ?_, ?_⟩⟩⟩
  · unfold Gen.Cast.varcharLimitTest; omega
  · unfold Gen.Cast.varcharStop; rfl
  · unfold Gen.Cast.blobLimitTest; omega
  · unfold Gen.Cast.blobStop; rfl

/-- **Text with an optional maximum length**: the result is the longest prefix within `n` code
points (no limit for `None` and, by `if length:`, for 0); UTF-8 bytes are decoded first. -/
theorem varchar_prefix (s : List Char) (n : Option Nat) :
    ∃ r, parseVarchar n (.str s) = .ok (.str r) ∧ r <+: s ∧
      (match n with
       | none => r = s
       | some 0 => r = s
       | some (k + 1) => r.length ≤ k + 1 ∧ ∀ q, q <+: s → q.length ≤ k + 1 → q <+: r) := by
  exact ⟨limitVarchar n s, rfl, limitWith_prefix _ _ _ _, limitWith_longest limit_expressions.1 n s⟩

theorem varchar_utf8 (s : String) (n : Option Nat) :
    parseVarchar n (.bytes s.toUTF8.data.toList) = parseVarchar n (.str s.toList) := by
  simp only [parseVarchar, Iso.decodeUtf8_toUTF8, strOf]

/-- **Binary with an optional maximum length**: the longest prefix within `n` bytes; text is
encoded as UTF-8 first. -/
theorem blob_prefix (b : List UInt8) (n : Option Nat) :
    ∃ r, parseBlob n (.bytes b) = .ok (.bytes r) ∧ r <+: b ∧
      (match n with
       | none => r = b
       | some 0 => r = b
       | some (k + 1) => r.length ≤ k + 1 ∧ ∀ q, q <+: b → q.length ≤ k + 1 → q <+: r) := by
  exact ⟨limitBlob n b, rfl, limitWith_prefix _ _ _ _, limitWith_longest limit_expressions.2 n b⟩

/-- Text cast to BLOB is the cast of its UTF-8 bytes. -/
theorem blob_utf8 (s : List Char) (n : Option Nat) :
    parseBlob n (.str s) = parseBlob n (.bytes (utf8 s)) := rfl

/-- **Arrays element-wise with nulls kept** (`parseArray` is written from the comprehension
`[parser(v) for v in x]`, `parser = element_type.parse`, whose source text is extracted and pinned here): the result has the same length, `null` stays `null`
at its position and every other element is the element type's cast of that element; if any
element's cast raises, the array cast raises. -/
theorem array_elementwise (fot : List Char → Option UInt64) (t : Ty) (xs : List (Option Val)) :
    (Gen.Cast.arrayComprehension = "[parser(v) for v in x]" ∧ Gen.Cast.arrayParser = "element_type.parse") ∧
    (∀ rs, parseArray fot (some t) xs = .ok rs →
      rs.length = xs.length ∧
      ∀ i (h : i < xs.length) (h' : i < rs.length), parse fot t xs[i] = .ok rs[i] ∧ (xs[i] = none → rs[i] = none)) ∧
    ((∃ x ∈ xs, ∃ e, parse fot t x = .error e) → ∃ e, parseArray fot (some t) xs = .error e) :=
  ⟨⟨rfl, rfl⟩, fun rs h => parseArray_spec null_guard fot t xs rs h, parseArray_raises fot t xs⟩

/-- **Element `i` of the result is the cast of element `i` alone** (seventh pass): two arrays that hold the same
element at position `i` — whatever stands before or after it, equal-comparing elements of another class
(`1`, `1.0`, `True`), repetitions of it, or nothing — get the same result at position `i`, and that result is the
element type's cast of that one element.  A cast remembered under the element as a dictionary key would break
this (`1 == 1.0 == True` share a key); the comprehension the model is written from (`array_elementwise`) cannot. -/
theorem array_element_alone (fot : List Char → Option UInt64) (t : Ty) (xs ys rs rs' : List (Option Val))
    (hx : parseArray fot (some t) xs = .ok rs) (hy : parseArray fot (some t) ys = .ok rs')
    (i j : Nat) (hi : i < xs.length) (hj : j < ys.length) (same : xs[i] = ys[j]) :
    rs[i]? = rs'[j]? ∧ ∃ r, rs[i]? = some r ∧ parse fot t xs[i] = .ok r := by
  obtain ⟨hl, hs⟩ := (array_elementwise fot t xs).2.1 rs hx
  obtain ⟨hl', hs'⟩ := (array_elementwise fot t ys).2.1 rs' hy
  have hi' : i < rs.length := by omega
  have hj' : j < rs'.length := by omega
  have h1 := (hs i hi hi').1
  have h2 := (hs' j hj hj').1
  rw [← same, h1] at h2
  have e : rs[i] = rs'[j] := by injection h2
  refine ⟨?_, rs[i], ?_, h1⟩
  · rw [List.getElem?_eq_getElem hi', List.getElem?_eq_getElem hj', e]
  · exact List.getElem?_eq_getElem hi'

/-- Equal numbers of different classes are different elements for the model: `[1, True, 1]` as `ARRAY<VARCHAR>`. -/
example :
    parseArray (fun _ => none) (some (.varchar none)) [some (.int 1), some (.bool true), none, some (.int 1)]
      = .ok [some (.str ['1']), some (.str ['T', 'r', 'u', 'e']), none, some (.str ['1'])] := by
  decide

/-- **DATE / TIMESTAMP reuse the C08 parser**: already-typed values are kept (timestamps to whole
seconds), a date casts to its midnight. -/
theorem temporal_identity (y m d : Nat) (dt : Iso.DateTime) :
    parseTemporal .date (.date y m d) = .ok (.date y m d) ∧
    parseTemporal .timestamp (.datetime dt) = .ok (.datetime (Iso.truncSeconds dt)) ∧
    parseTemporal .date (.datetime dt) = .ok (.date dt.year dt.month dt.day) ∧
    parseTemporal .timestamp (.date y m d) = .ok (.datetime ⟨y, m, d, 0, 0, 0, 0⟩) := ⟨rfl, rfl, rfl, rfl⟩

/-- **Never a value of another Python class**: whatever the input, a cast that returns a non-null
value returns one whose class is the one `ORSO_TO_PYTHON_MAP` (extracted) gives for the type. -/
theorem result_class (fot : List Char → Option UInt64) (t : Ty) (v : Val) (r : Val)
    (h : parseWith fot t v = .ok r) : r.cls = t.cls := by
  rw [dispatch_table] at h
  cases t with
  | boolean => exact parseBoolean_cls v r h
  | integer => exact parseInteger_cls v r h
  | double => exact parseDouble_cls fot v r h
  | decimal p s => exact parseDecimal_cls p s v r h
  | varchar n => exact parseVarchar_cls n v r h
  | blob n => exact parseBlob_cls n v r h
  | date => exact parseTemporal_cls .date v r h (by decide)
  | timestamp => exact parseTemporal_cls .timestamp v r h (by decide)

/-- **Arrays of them**: every non-null element of the result of an array cast has the element
type's class; and an array whose elements each cast to themselves (already-typed values, nulls)
casts to itself. -/
theorem array_result_class (fot : List Char → Option UInt64) (t : Ty) (xs rs : List (Option Val))
    (h : parseArray fot (some t) xs = .ok rs) :
    (∀ r, some r ∈ rs → r.cls = t.cls) ∧
    ((∀ x ∈ xs, parse fot t x = .ok x) → rs = xs) := by
  obtain ⟨hl, hi⟩ := parseArray_spec null_guard fot t xs rs h
  refine ⟨?_, fun hid => ?_⟩
  · intro r hr
    obtain ⟨i, hi', e⟩ := List.getElem_of_mem hr
    obtain ⟨h1, _⟩ := hi i (by omega) hi'
    rw [e] at h1
    cases hx : xs[i]'(by omega) with
    | none => rw [hx, parse, parseVia_none null_guard] at h1; cases h1
    | some v =>
      rw [hx, parse, parseVia_some null_guard] at h1
      cases hw : parseWith fot t v with
      | error e' => rw [hw] at h1; cases h1
      | ok r' =>
        rw [hw] at h1
        have : r' = r := by simpa [Except.bind, bind] using h1
        subst this
        exact result_class fot t v r' hw
  · rw [parseArray_identity fot t xs hid] at h
    cases h; rfl

/-- **DATE / TIMESTAMP from their canonical renderings** (through C08's `iso_roundtrip` /
`date_form`): `isoformat()` of a valid date-time — separator `T` or space, any number of fraction
digits — casts back to it in whole seconds; `isoformat()` of a valid date casts back to the date;
the UTF-8 bytes of any text cast like the text. -/
theorem temporal_text_roundtrip (dt : Iso.DateTime) (hv : Iso.validDateTime dt = true) (sep : Char)
    (hsep : sep = 'T' ∨ sep = ' ') (k : Nat) (y m d : Nat) (hd : Iso.validDate y m d = true) :
    parseTemporal .timestamp (.str (Iso.render dt sep k .none)) = .ok (.datetime (Iso.truncSeconds dt)) ∧
    parseTemporal .date (.str (Iso.renderDate y m d)) = .ok (.date y m d) ∧
    (∀ (kind : Iso.CastKind) (s : String),
      parseTemporal kind (.bytes s.toUTF8.data.toList) = parseTemporal kind (.str s.toList)) := by
  refine ⟨?_, ?_, ?_⟩
  · have h := C08.iso_roundtrip dt hv sep hsep k .none
    simp only [parseTemporal, isoInput, Iso.cast, h]
  · have h := C08.date_form y m d hd .none rfl
    simp only [Iso.Suffix.text, List.append_nil] at h
    simp only [parseTemporal, isoInput, Iso.cast, h]
  · intro kind s
    have h := C08.utf8_bytes_as_text s
    cases kind <;> simp only [parseTemporal, isoInput, Iso.cast, h, Iso.decodeUtf8_toUTF8]

/-- **The generated factory expressions** (`decimal.Context(prec=…)`, `safe_scale = …`,
`Decimal(10) ** …`, lifted from `DecimalFactory.__call__` on this run) cover the statement: the
context precision is the declared precision, every scale up to 28 is quantised to exactly that
many places, rounding is half-even; and the context is built inside the call (`contextScope`): one
module-level context whose `prec` is assigned per call — state shared by every DECIMAL cast of the
process, so that a cast can round with the precision another thread's cast has just stored — is
recognised by the extractor and fails here. -/
theorem factory_expressions : FactoryFacts where
  prec := by intro p; rfl
  scale := by intro s hs; unfold Gen.Cast.quantExp Gen.Cast.quantScale; omega
  rounding := by decide
  pad := by intro s; unfold Gen.Cast.padCount; omega
  privateContext := by decide
  ambientFree := by decide

/-- **A cast reads nothing but its arguments.**  The statement gives the value of a cast from the value and the declared
type alone, so it must hold whatever the calling thread's decimal context is (`decimal.localcontext()` with a precision of 3
or 50, another rounding mode, a narrow exponent range, traps enabled), whatever the locale, the environment, the clock or the
`sys` settings are.  The extractor lists every read of such state in `DecimalFactory.__call__` / `new_factory` /
`parse_decimal` (`Gen.Cast.factoryAmbient`: `decimal.getcontext()`, Decimal operators such as `Decimal("10") ** -k`, which
compute in the *ambient* context, context-sensitive Decimal methods called without `context=`) and in the other parsers and
`OrsoTypes.parse` (`Gen.Cast.parserAmbient`); both lists are empty, which is why `Cast.parse` / `Cast.factory` take no
ambient argument and every theorem of this file holds under every ambient state.  A cap `min(self.scale,
decimal.getcontext().prec)` in place of the constant 28 fails here (and, through `FactoryFacts.ambientFree`, in
`factory_expressions`). -/
theorem cast_reads_no_ambient_state :
    Gen.Cast.factoryAmbient = [] ∧ Gen.Cast.parserAmbient = [] := by
  constructor <;> decide

/-- **Decimals are exact whenever they fit.**  A finite decimal `(-1)^neg · c · 10^e` with at most
`s ≤ 28` fractional digits (`-s ≤ e`) whose coefficient, rescaled to exponent `-s`, has at most `p`
digits is returned as exactly that value, quantised to `s` places: coefficient `c · 10^(e+s)` at
exponent `-s` (same sign, so `-0` stays `-0`).  It holds for an already-typed `Decimal` and for any
text (or, by `parseDecimal`, bytes / integer rendering) that `Decimal` reads as that number, except
all-digit text, whose zero padding is compared by correspondence only. -/
theorem decimal_exact (p s : Nat) (neg : Bool) (c : Nat) (e : Int) (hp : 1 ≤ p)
    (hs : s ≤ 28) (he : -(s : Int) ≤ e) (hc : numDigits c ≤ p)
    (hd : numDigits (c * 10 ^ (e + s).toNat) ≤ p) :
    parseDecimal (some p) (some s) (.dec (.fin neg c e))
      = .ok (.dec (.fin neg (c * 10 ^ (e + s).toNat) (-(s : Int)))) ∧
    ∀ t : List Char, (!(stripD t).isEmpty && allDigits (stripD t)) = false →
      decOfText (stripD (stripD t)) = some (.fin neg c e) →
      parseDecimal (some p) (some s) (.str t)
        = .ok (.dec (.fin neg (c * 10 ^ (e + s).toNat) (-(s : Int)))) := by
  have h1 := factory_fits factory_expressions p s neg c e hp hs he hc hd
  refine ⟨h1, ?_⟩
  intro t hnd ht
  simp only [parseDecimal, Option.getD_some]
  rw [factory_text factory_expressions p s (stripD t) hnd _ ht hp]
  exact h1

/-- **Every declared scale, the boundaries 28 / 29 / 38 included.**  With `q = min s 28` (the cap
lifted from `safe_scale = …` on this run), a decimal whose exponent is at least `-q` and which
fits `p` digits at `q` places is returned exactly, quantised to `q` places — for `s ≤ 28` this is
`decimal_exact`, for `29 ≤ s ≤ 38` the cast keeps 28 places.  Holds for every `p ≥ 1`
(in particular 28, 29 and 38: the context precision is the declared precision, not CPython's
default 28). -/
theorem decimal_exact_scale_cap (p s : Nat) (neg : Bool) (c : Nat) (e : Int) (hp : 1 ≤ p)
    (he : -((min s 28 : Nat) : Int) ≤ e) (hc : numDigits c ≤ p)
    (hd : numDigits (c * 10 ^ (e + (min s 28 : Nat)).toNat) ≤ p) :
    (∀ s : Nat, Gen.Cast.quantExp (Gen.Cast.quantScale s) = -((min s 28 : Nat) : Int)) ∧
    parseDecimal (some p) (some s) (.dec (.fin neg c e))
      = .ok (.dec (.fin neg (c * 10 ^ (e + (min s 28 : Nat)).toNat) (-((min s 28 : Nat) : Int)))) := by
  have hcap : ∀ s : Nat, Gen.Cast.quantExp (Gen.Cast.quantScale s) = -((min s 28 : Nat) : Int) := by
    intro s; unfold Gen.Cast.quantExp Gen.Cast.quantScale; omega
  exact ⟨hcap, factory_fits_cap factory_expressions hcap p s neg c e hp he hc hd⟩

/-- **Casting the result again changes nothing** (idempotence on already-typed decimals that are
quantised to the column's scale and fit its precision). -/
theorem decimal_idempotent (p s : Nat) (neg : Bool) (c : Nat) (hp : 1 ≤ p)
    (hs : s ≤ 28) (hc : numDigits c ≤ p) :
    parseDecimal (some p) (some s) (.dec (.fin neg c (-(s : Int)))) = .ok (.dec (.fin neg c (-(s : Int)))) := by
  have e0 : (-(s : Int) + s).toNat = 0 := by omega
  have h := factory_fits factory_expressions p s neg c (-(s : Int)) hp hs (Int.le_refl _) hc
    (by rw [e0]; simpa using hc)
  rw [e0] at h
  simpa [parseDecimal] using h

/-- **`Decimal(str(d)) = d`: the canonical rendering reads back exactly** — sign, coefficient and
exponent of every finite decimal (plain and scientific notation, leading fractional zeros), the
sign of an infinity, NaN — and contains no white space; hence casting the rendering (when it is
not all digits) is casting the decimal itself.  `renderDec` is CPython's `Decimal.__str__`,
compared with `str(d)` on every generated decimal. -/
theorem decimal_text_roundtrip (d : Dec) :
    decOfText (renderDec d) = some d ∧ stripD (renderDec d) = renderDec d ∧
    ∀ p s : Nat, 1 ≤ p → (!(renderDec d).isEmpty && allDigits (renderDec d)) = false →
      parseDecimal (some p) (some s) (.str (renderDec d)) = parseDecimal (some p) (some s) (.dec d) := by
  refine ⟨decOfText_renderDec d, stripD_renderDec d, ?_⟩
  intro p s hp hnd
  simp only [parseDecimal, Option.getD_some, stripD_renderDec]
  exact factory_text factory_expressions p s (renderDec d) hnd d
    (by rw [stripD_renderDec]; exact decOfText_renderDec d) hp

/-- **The all-digit zero-padding path preserves the value**: for non-empty all-digit text `t`
(`value += "." + "0" * min(scale, 3)`, count from the generated expression) the cast is the cast of
the decimal `natOf t · 10^k` at exponent `-k` — the same number — and when that number fits
`(p, s)`, `s ≤ 28`, the result is exactly `natOf t` quantised to `s` places. -/
theorem decimal_zero_padding (p s : Nat) (t : List Char) (hne : t ≠ []) (ht : ∀ c ∈ t, c.isDigit = true) :
    parseDecimal (some p) (some s) (.str t)
      = parseDecimal (some p) (some s)
          (.dec (.fin false (natOf t * 10 ^ (Gen.Cast.padCount s).toNat) (-((Gen.Cast.padCount s).toNat : Int)))) ∧
    (1 ≤ p → s ≤ 28 → numDigits (natOf t * 10 ^ s) ≤ p →
      parseDecimal (some p) (some s) (.str t) = .ok (.dec (.fin false (natOf t * 10 ^ s) (-(s : Int))))) := by
  have hst : stripD t = t := stripD_id t (fun c hc => isWsD_of_isDigit (ht c hc))
  have h1 : parseDecimal (some p) (some s) (.str t)
      = parseDecimal (some p) (some s)
          (.dec (.fin false (natOf t * 10 ^ (Gen.Cast.padCount s).toNat) (-((Gen.Cast.padCount s).toNat : Int)))) := by
    have cr : ∀ prec d, created prec s (.inr d) = some (roundTo prec d) := fun _ _ => rfl
    simp only [parseDecimal, Option.getD_some, hst, factory, created_digits _ s t hne ht, cr]
  refine ⟨h1, ?_⟩
  intro hp hs hd
  rw [h1]
  obtain ⟨k0, k1⟩ := factory_expressions.pad s
  generalize hk : (Gen.Cast.padCount s).toNat = k at *
  have hks : k ≤ s := by omega
  have e1 : (-(k : Int) + s).toNat = s - k := by omega
  have e2 : natOf t * 10 ^ k * 10 ^ (s - k) = natOf t * 10 ^ s := by
    rw [Nat.mul_assoc, ← Nat.pow_add]; congr 2; omega
  have hle : natOf t * 10 ^ k ≤ natOf t * 10 ^ s :=
    Nat.mul_le_mul_left _ (Nat.pow_le_pow_right (by decide) hks)
  have := factory_fits factory_expressions p s false (natOf t * 10 ^ k) (-(k : Int)) hp hs (by omega)
    (numDigits_mono (by omega) hle hd) (by rw [e1, e2]; exact hd)
  rw [e1, e2] at this
  simpa [parseDecimal] using this

/-- **Rounding half to even to `prec` digits** (`create_decimal` under the factory's context): a
coefficient of at most `p` digits is kept; otherwise, with `k` surplus digits, the new coefficient
denotes `q' · 10^k` where `q' = roundQuot c k` is a nearest multiple (`|c − q'·10^k| ≤ 10^k / 2`),
the even one on a tie, the floor quotient or one more; after a carry to `10^p` one more digit is
dropped; the result never has more than `p` digits. -/
theorem decimal_rounds_half_even (p : Nat) (hp : 0 < p) (neg : Bool) (c : Nat) (e : Int) :
    (numDigits c ≤ p → roundTo p (.fin neg c e) = .fin neg c e) ∧
    (p < numDigits c →
      ∃ c' j, roundTo p (.fin neg c e) = .fin neg c' (e + (numDigits c - p : Nat) + (j : Nat)) ∧
        c' * 10 ^ j = roundQuot c (numDigits c - p) ∧ numDigits c' ≤ p) ∧
    (∀ k, 2 * (roundQuot c k * 10 ^ k) ≤ 2 * c + 10 ^ k ∧ 2 * c ≤ 2 * (roundQuot c k * 10 ^ k) + 10 ^ k ∧
      ((2 * (roundQuot c k * 10 ^ k) = 2 * c + 10 ^ k ∨ 2 * c = 2 * (roundQuot c k * 10 ^ k) + 10 ^ k) →
        roundQuot c k % 2 = 0) ∧
      (roundQuot c k = c / 10 ^ k ∨ roundQuot c k = c / 10 ^ k + 1)) :=
  ⟨(roundTo_spec p hp neg c e).1, (roundTo_spec p hp neg c e).2, fun k => roundQuot_spec c k⟩

/-- **Quantisation and the `InvalidOperation` fallback — decimals that do NOT fit are covered too.**
For every decimal `d` (any digits, any exponent, infinities, NaN) and `p ≥ 1`, with `T` the generated
quantisation exponent (`-min(scale, 28)`): the cast returns the value rounded to `p` digits and
rescaled to exponent `T` — exact scaling upward, half-even rounding of dropped digits — when the
rescaled coefficient has at most `p` digits; otherwise (what CPython signals as `InvalidOperation`)
it returns the rounded, unquantised value; infinities come back unchanged, NaN stays NaN.  In every
case the result is a decimal: the cast of a decimal never raises. -/
theorem decimal_fallback_spec (p s : Nat) (hp : 1 ≤ p) (d : Dec) :
    parseDecimal (some p) (some s) (.dec d) = .ok (.dec (
      match roundTo p d with
      | .fin neg c e =>
        if numDigits (rescale c e (Gen.Cast.quantExp (Gen.Cast.quantScale s))) ≤ p
        then .fin neg (rescale c e (Gen.Cast.quantExp (Gen.Cast.quantScale s))) (Gen.Cast.quantExp (Gen.Cast.quantScale s))
        else .fin neg c e
      | .inf n => .inf n
      | .nan => .nan)) ∧
    (∀ (c : Nat) (e target : Int),
      (target ≤ e → rescale c e target = c * 10 ^ (e - target).toNat) ∧
      (e < target → rescale c e target = roundQuot c (target - e).toNat)) :=
  ⟨factory_spec factory_expressions p s hp d, rescale_spec⟩

/-- **The scalar parsers are the bare conversions** (shape lifted from `parse_integer` /
`parse_double` on this run: `[if <test>: x = <fn>(x)]* return <fn>(x)`): no conversion is applied to
the argument before `int(x)` / `float(x)` — a detour of some renderings through another type
(`x = float(x)` for signed or padded text) appears here as a non-empty `integerPre`. -/
theorem scalar_parser_bodies :
    Gen.Cast.integerPre = [] ∧ Gen.Cast.integerConv = "int" ∧
    Gen.Cast.doublePre = [] ∧ Gen.Cast.doubleConv = "float" := by decide

/-- **A column default goes through the same cast** (anchor orso/schema.py:203-210; the guard and the
cast expression are lifted from the source on this run): a truthy default — whatever its class, a
value of a subclass of the column's class included (`isInst` arbitrary) — is replaced by the column
type's cast of it, so by `result_class` it has the column type's class; a null default stays null.
(Falsy defaults are not cast today — an observation the statement does not demand, so nothing is
claimed about them.) -/
theorem column_default_cast (fot : List Char → Option UInt64) (t : Ty) (isInst : Bool) :
    Gen.Cast.defaultCast = "self.type.parse(self.default)" ∧
    (∀ v : Val, v.falsy = false → columnDefault (parse fot t) isInst (some v) = parse fot t (some v)) ∧
    (∀ v r : Val, v.falsy = false → columnDefault (parse fot t) isInst (some v) = .ok (some r) → r.cls = t.cls) ∧
    columnDefault (parse fot t) isInst none = .ok none := by
  have hg : ∀ v : Val, v.falsy = false →
      Gen.Cast.defaultGuard ((!v.falsy) = true) ((some v).isNone = true) (isInst = true) := by
    intro v hv; simp [Gen.Cast.defaultGuard, hv]
  refine ⟨rfl, ?_, ?_, ?_⟩
  · intro v hv
    simp only [columnDefault]
    rw [if_pos (hg v hv)]
  · intro v r hv h
    simp only [columnDefault] at h
    rw [if_pos (hg v hv)] at h
    rw [parse, parseVia_some null_guard] at h
    cases hw : parseWith fot t v with
    | error e => rw [hw] at h; cases h
    | ok r' =>
      rw [hw] at h
      have : r' = r := by simpa [Except.bind, bind] using h
      subst this
      exact result_class fot t v r' hw
  · have := parseVia_none null_guard (parseWith fot t)
    simp only [columnDefault]
    split
    · exact this
    · rfl

open Cast.Json in
/-- **The JSON text → elements step: reading inverts writing.**  For every JSON value of the subset
arrays are rendered in (null, true/false, integers inside orjson's 64-bit range, floats, strings of
any characters, arrays nested to any depth), written compactly (`orjson.dumps`) or with any JSON
white space after `[`, after `,`, before `]` and around the document (`json.dumps`), the reader gives
back exactly that value: every escape (`\"`, `\\`, `\b \f \n \r \t`, `\u00XX`) is undone, numbers
keep their sign and every digit, nesting and order are kept.  For floats it ASSUMES exactly
`FloatParam` (their rendering is a JSON number with a fraction or an exponent that `float()` reads
back to the same finite double; sampled on every run for `repr` and `orjson.dumps`). -/
theorem json_roundtrip (fot : List Char → Option UInt64) (rep : UInt64 → List Char) (w : Ws) (hwok : w.ok)
    (v : J) (hw : Wf fot rep v) (pre post : List Char)
    (hpre : ∀ c ∈ pre, isWs c = true) (hpost : ∀ c ∈ post, isWs c = true) :
    readJson fot (pre ++ (render w rep v ++ post)) = .ok v ∧
    Ws.compact.ok ∧ Ws.jsonDumps.ok :=
  ⟨readJson_render' fot rep w hwok v hw pre post hpre hpost,
   ⟨by simp [Ws.compact], by simp [Ws.compact], by simp [Ws.compact]⟩,
   ⟨by simp [Ws.jsonDumps], by simp [Ws.jsonDumps, isWs], by simp [Ws.jsonDumps]⟩⟩

open Cast.Json in
/-- **JSON arrays element-wise, starting from the text** (`parse_array`: what is not a list, tuple or
set is handed to `orjson.loads` — both lifted from the source on this run): casting the JSON text
of an array, or the UTF-8 bytes of that text, is the element-wise cast (`parseArray`,
`array_elementwise`) of the values it denotes — `null` as `None`, so nulls are kept in place — hence:
same length, every element the element type's cast of the JSON value at its position, an error when
one of them raises. -/
theorem array_from_text (fot : List Char → Option UInt64) (rep : UInt64 → List Char) (w : Ws) (hwok : w.ok)
    (xs : List J) (hw : WfL fot rep xs) (t : Ty) (pre post : List Char)
    (hpre : ∀ c ∈ pre, isWs c = true) (hpost : ∀ c ∈ post, isWs c = true) :
    (Gen.Cast.arrayNative = ["list", "tuple", "set"] ∧ Gen.Cast.arrayLoader = "orjson.loads") ∧
    parseArrayText fot (some t) (.str (pre ++ (render w rep (.arr xs) ++ post)))
      = some (parseArray fot (some t) (xs.map J.toVal)) ∧
    parseArrayText fot (some t) (.bytes (String.ofList (pre ++ (render w rep (.arr xs) ++ post))).toUTF8.data.toList)
      = some (parseArray fot (some t) (xs.map J.toVal)) ∧
    (∀ rs, parseArrayText fot (some t) (.str (pre ++ (render w rep (.arr xs) ++ post))) = some (.ok rs) →
      rs.length = xs.length ∧
      ∀ i (h : i < xs.length) (h' : i < rs.length),
        parse fot t (xs[i]).toVal = .ok rs[i] ∧ (xs[i] = .null → rs[i] = none)) := by
  obtain ⟨h1, h2⟩ := parseArrayText_render fot rep w hwok xs hw (some t) pre post hpre hpost
  refine ⟨⟨rfl, rfl⟩, h1, h2, ?_⟩
  intro rs hrs
  rw [h1] at hrs
  have hrs' : parseArray fot (some t) (xs.map J.toVal) = .ok rs := by injection hrs
  obtain ⟨hl, hi⟩ := parseArray_spec null_guard fot t _ rs hrs'
  rw [List.length_map] at hl
  refine ⟨hl, ?_⟩
  intro i h h'
  have := hi i (by rw [List.length_map]; exact h) h'
  rw [List.getElem_map] at this
  refine ⟨this.1, ?_⟩
  intro hn
  exact this.2 (by rw [hn]; rfl)

open Cast.Json in
/-- **Arrays of integers, booleans and text from their JSON text give back the values** (nulls kept):
`[1,null,-3]` as `ARRAY<INTEGER>` is `[1, None, -3]`, etc.  `_partial`: integers are restricted to
orjson's range `[-2^63, 2^64)`; beyond it the full statement ("integers of any size") is false of the
code — `array_int_beyond_64bit_counterexample`, open finding C07-K01. -/
theorem array_values_from_text_partial (fot : List Char → Option UInt64) (rep : UInt64 → List Char) (w : Ws) (hwok : w.ok) :
    (∀ ns : List (Option Int), (∀ n, some n ∈ ns → -9223372036854775808 ≤ n ∧ n < 18446744073709551616) →
      parseArrayText fot (some .integer) (.str (render w rep (.arr (ns.map fun o => match o with | none => J.null | some n => J.int n))))
        = some (.ok (ns.map fun o => o.map Val.int))) ∧
    (∀ bs : List (Option Bool),
      parseArrayText fot (some .boolean) (.str (render w rep (.arr (bs.map fun o => match o with | none => J.null | some b => J.bool b))))
        = some (.ok (bs.map fun o => o.map Val.bool))) ∧
    (∀ ss : List (Option (List Char)),
      parseArrayText fot (some (.varchar none)) (.str (render w rep (.arr (ss.map fun o => match o with | none => J.null | some s => J.str s))))
        = some (.ok (ss.map fun o => o.map Val.str))) := by
  have step : ∀ (t : Ty) (xs : List J) (want : Option Val → Option Val), WfL fot rep xs →
      (∀ x ∈ xs.map J.toVal, parse fot t x = .ok (want x)) →
      parseArrayText fot (some t) (.str (render w rep (.arr xs))) = some (.ok ((xs.map J.toVal).map want)) := by
    intro t xs want hw hp
    have := (parseArrayText_render fot rep w hwok xs hw (some t) [] [] (by simp) (by simp)).1
    simp only [List.nil_append, List.append_nil] at this
    rw [this, parseArray_pointwise fot t want _ hp]
  have pn : ∀ t, parse fot t none = .ok none := fun t => parseVia_none null_guard _
  refine ⟨?_, ?_, ?_⟩
  · intro ns hr
    have hw : WfL fot rep (ns.map fun o => match o with | none => J.null | some n => J.int n) := by
      induction ns with
      | nil => simp [WfL]
      | cons a ns ih =>
        refine ⟨?_, ih fun n hn => hr n (List.mem_cons_of_mem _ hn)⟩
        cases a with
        | none => simp [Wf]
        | some n => simpa [Wf] using hr n (List.mem_cons_self ..)
    rw [step .integer _ id hw]
    · simp only [List.map_map, List.map_id]
      congr 2
      apply List.map_congr_left
      intro o _; cases o <;> rfl
    · intro x hx
      simp only [List.map_map, List.mem_map, Function.comp] at hx
      obtain ⟨o, _, rfl⟩ := hx
      cases o with
      | none => exact pn _
      | some n => simp only [J.toVal, parse, parseVia_some null_guard, dispatch_table]; rfl
  · intro bs
    have hw : WfL fot rep (bs.map fun o => match o with | none => J.null | some b => J.bool b) := by
      induction bs with
      | nil => simp [WfL]
      | cons a bs ih => exact ⟨by cases a <;> simp [Wf], ih⟩
    rw [step .boolean _ id hw]
    · simp only [List.map_map, List.map_id]
      congr 2
      apply List.map_congr_left
      intro o _; cases o <;> rfl
    · intro x hx
      simp only [List.map_map, List.mem_map, Function.comp] at hx
      obtain ⟨o, _, rfl⟩ := hx
      cases o with
      | none => exact pn _
      | some b =>
        simp only [J.toVal, parse, parseVia_some null_guard, dispatch_table, id]
        rw [(bool_roundtrip.2.2.2 b).1]; rfl
  · intro ss
    have hw : WfL fot rep (ss.map fun o => match o with | none => J.null | some s => J.str s) := by
      induction ss with
      | nil => simp [WfL]
      | cons a ss ih => exact ⟨by cases a <;> simp [Wf], ih⟩
    rw [step (.varchar none) _ id hw]
    · simp only [List.map_map, List.map_id]
      congr 2
      apply List.map_congr_left
      intro o _; cases o <;> rfl
    · intro x hx
      simp only [List.map_map, List.mem_map, Function.comp] at hx
      obtain ⟨o, _, rfl⟩ := hx
      cases o with
      | none => exact pn _
      | some s => simp only [J.toVal, parse, parseVia_some null_guard, dispatch_table]; rfl

open Cast.Json in
/-- **Counterexample to "integers of any size" inside JSON arrays** (open finding C07-K01, the model
is faithful to the code): an integer token beyond 64 bits is read as a double, so — with
`float("18446744073709551617") = 2^64`, IEEE round-to-nearest — the `ARRAY<INTEGER>` cast of
`[18446744073709551617]` is `[18446744073709551616]`. -/
theorem array_int_beyond_64bit_counterexample (fot : List Char → Option UInt64)
    (h : fot "18446744073709551617".toList = some 0x43F0000000000000) :
    parseArrayText fot (some .integer) (.str "[18446744073709551617]".toList)
      = some (.ok [some (.int 18446744073709551616)]) := by
  have hv := numValue_through_float fot "18446744073709551617".toList 0x43F0000000000000 (by decide) (by decide) h (by decide)
  have hr := readJson_single_number fot "18446744073709551617".toList _ ⟨'1', "8446744073709551617".toList, by decide, Or.inr (by decide)⟩
    (by decide) hv
  have e : "[18446744073709551617]".toList = '[' :: ("18446744073709551617".toList ++ [']']) := by decide
  rw [e]
  simp only [parseArrayText, loadElements, hr, elementsOf, Option.map_some, Cast.bind_ok, List.map_cons, List.map_nil, J.toVal,
    parseArray, parse, parseVia_some null_guard, dispatch_table]
  decide

/-! ## The functions of `orso/types.py`, translated statement by statement on this run, are the model

`Gen.CastFns.*` is what `harness/pystmt_cast.py` makes of the *current* bodies of `parse_boolean`, `parse_integer`,
`parse_double`, `parse_varchar`, `parse_bytes`, `parse_date`, `parse_timestamp`, `parse_decimal`, `parse_array`,
`OrsoTypes.parse` and the dict `ORSO_TO_PYTHON_PARSER` (Python primitives: `Model/CastPrim.lean`).  Each theorem below
says that the generated program *is* the hand-written model function all theorems above are about — for every value,
every option — so a change of a guard, of the order of two tests, of a conversion, of a slice bound, of a table entry
breaks the theorem named after the function. -/
section Generated
open Cast.Prim

/-- `parse_boolean` as written now is `parseBoolean` (typed booleans and integers, text, bytes; `str()` of other
classes is not modelled). -/
theorem generated_parse_boolean_eq_model (fot : Fot) (v : Val) (kw : Kw) (hv : textual v = true) :
    Gen.CastFns.parse_boolean fot (.val v) kw = (parseBoolean v).map Obj.val := by
  unfold Gen.CastFns.parse_boolean
  have hf : ∀ s, fold s = upper s := by intro s; simp [fold, Gen.Cast.boolFold]
  cases v with
  | bytes b => prim_simp [parseBoolean, hf, boolWords, asciiChars_map_upperB, lt128_comp_upperB]
  | str s => prim_simp [parseBoolean, hf, boolWords]
  | bool b => prim_simp [parseBoolean, hf, boolWords]
  | int n => prim_simp [parseBoolean, hf, boolWords]
  | _ => simp [textual] at hv

/-- `parse_integer` as written now is `int(x)` on its argument and nothing else. -/
theorem generated_parse_integer_eq_model (fot : Fot) (v : Val) (kw : Kw) :
    Gen.CastFns.parse_integer fot (.val v) kw = (parseInteger v).map Obj.val := by
  unfold Gen.CastFns.parse_integer
  cases h : parseInteger v <;> prim_simp [h]

/-- `parse_double` as written now is `float(x)` on its argument and nothing else. -/
theorem generated_parse_double_eq_model (fot : Fot) (v : Val) (kw : Kw) :
    Gen.CastFns.parse_double fot (.val v) kw = (parseDouble fot v).map Obj.val := by
  unfold Gen.CastFns.parse_double
  cases h : parseDouble fot v <;> prim_simp [h]

/-- `parse_varchar` as written now (decode bytes / `str()`, then `if length:` the `[:length]` slice) is `parseVarchar`
for every value and every `length` (None, 0, positive). -/
theorem generated_parse_varchar_eq_model (fot : Fot) (v : Val) (kw : Kw) :
    Gen.CastFns.parse_varchar fot (.val v) kw = (parseVarchar kw.length v).map Obj.val := by
  unfold Gen.CastFns.parse_varchar
  cases hl : kw.length with
  | none =>
    cases v with
    | bytes b => cases hd : Iso.decodeUtf8 b <;> prim_simp [hl, hd, parseVarchar, limitVarchar, limitWith]
    | _ => prim_simp [hl, parseVarchar, limitVarchar, limitWith]
  | some k =>
    by_cases hk : k = 0
    · subst hk
      cases v with
      | bytes b => cases hd : Iso.decodeUtf8 b <;> prim_simp [hl, hd, parseVarchar, limitVarchar, limitWith, Gen.Cast.varcharLimitTest]
      | _ => prim_simp [hl, parseVarchar, limitVarchar, limitWith, Gen.Cast.varcharLimitTest]
    · cases v with
      | bytes b =>
        cases hd : Iso.decodeUtf8 b <;>
          prim_simp [hl, hd, hk, parseVarchar, limitVarchar, limitWith, Gen.Cast.varcharLimitTest, Gen.Cast.varcharStop]
      | _ => prim_simp [hl, hk, parseVarchar, limitVarchar, limitWith, Gen.Cast.varcharLimitTest, Gen.Cast.varcharStop]

/-- `parse_bytes` as written now (bytes as they are, anything else `str(x).encode("utf-8")`, then the slice) is
`parseBlob`. -/
theorem generated_parse_bytes_eq_model (fot : Fot) (v : Val) (kw : Kw) :
    Gen.CastFns.parse_bytes fot (.val v) kw = (parseBlob kw.length v).map Obj.val := by
  unfold Gen.CastFns.parse_bytes
  cases hl : kw.length with
  | none => cases v <;> prim_simp [hl, parseBlob, limitBlob, limitWith]
  | some k =>
    by_cases hk : k = 0
    · subst hk
      cases v <;> prim_simp [hl, parseBlob, limitBlob, limitWith, Gen.Cast.blobLimitTest]
    · cases v <;> prim_simp [hl, hk, parseBlob, limitBlob, limitWith, Gen.Cast.blobLimitTest, Gen.Cast.blobStop]

/-- `parse_date` / `parse_timestamp` as written now (`parse_iso`, `None` raises `ValueError`, `.date()` for DATE) are
`parseTemporal`. -/
theorem generated_parse_temporal_eq_model (fot : Fot) (v : Val) (kw : Kw) :
    Gen.CastFns.parse_date fot (.val v) kw = (parseTemporal .date v).map Obj.val ∧
    Gen.CastFns.parse_timestamp fot (.val v) kw = (parseTemporal .timestamp v).map Obj.val := by
  constructor
  · unfold Gen.CastFns.parse_date
    simp only [parseIso, parseTemporal, Iso.cast]
    cases Iso.parseIso (isoInput v) <;> prim_simp [pyDateOf]
  · unfold Gen.CastFns.parse_timestamp
    simp only [parseIso, parseTemporal, Iso.cast]
    cases Iso.parseIso (isoInput v) <;> prim_simp []

/-- `parse_decimal` as written now — defaults 38 / 21, numbers through `str()`, bytes decoded, *then* text stripped
(so decoded bytes are stripped too), the factory called with the declared precision and scale — is `parseDecimal`. -/
theorem generated_parse_decimal_eq_model (fot : Fot) (v : Val) (kw : Kw) :
    Gen.CastFns.parse_decimal fot (.val v) kw = (parseDecimal kw.precision kw.scale v).map Obj.val := by
  unfold Gen.CastFns.parse_decimal
  cases hp : kw.precision <;> cases hs : kw.scale <;>
  (cases v with
   | bytes b => cases hd : Iso.decodeUtf8 b <;>
      prim_simp [hp, hs, hd, parseDecimal, parseInteger, decimalFactory, Gen.Cast.defaultPrecision, Gen.Cast.defaultScale] <;>
      (intros; omega)
   | _ => prim_simp [hp, hs, parseDecimal, parseInteger, decimalFactory, Gen.Cast.defaultPrecision, Gen.Cast.defaultScale] <;>
      (intros; omega))

/-- **`OrsoTypes.parse` and the dict `ORSO_TO_PYTHON_PARSER` as written now are `Cast.parse`**: `None` returns `None`
before anything is looked up; any other value is handed, with the options, to the function the dict names for the
type, and that function is the model's parser of the type (theorems above).  Holds for the full dict and for the dict
`element_type.parse` dispatches through. -/
theorem generated_dispatch_eq_model (fot : Fot) (tbl : Fot → List (String × Parser))
    (htbl : tbl = Gen.CastFns.ORSO_TO_PYTHON_PARSER ∨ tbl = Gen.CastFns.scalarParsers) (t : Ty) (ov : Option Val)
    (hb : t = .boolean → ∀ v, ov = some v → textual v = true) :
    Gen.CastFns.OrsoTypes_parse fot (tbl fot) (.ty t) (ofOpt ov) (kwOf t) = (Cast.parse fot t ov).map ofOpt := by
  unfold Gen.CastFns.OrsoTypes_parse
  cases ov with
  | none => simp only [ofOpt, pyIsNone, if_true, Cast.parse, parseVia_none null_guard]; rfl
  | some v =>
    simp only [ofOpt, pyIsNone, Cast.parse, parseVia_some null_guard, dispatch_table, map_bind_some]
    rcases htbl with rfl | rfl <;>
    cases t <;> simp [tyValue, tableGet, Gen.CastFns.ORSO_TO_PYTHON_PARSER, Gen.CastFns.scalarParsers, List.lookup, Ty.name,
      bind, Except.bind, generated_parse_integer_eq_model, generated_parse_double_eq_model, generated_parse_varchar_eq_model,
      generated_parse_bytes_eq_model, generated_parse_temporal_eq_model, generated_parse_decimal_eq_model,
      kwOf, Ty.length, Ty.precision, Ty.scale]
    all_goals exact generated_parse_boolean_eq_model fot v _ (hb rfl v rfl)

/-- **`parse_array` as written now is the model's array cast**: a native sequence is iterated as it is, anything else is
handed to `orjson.loads` first; without an element type the elements are returned as a list, otherwise each goes through
`element_type.parse` (no options: `kwOf t = {}`) — `parseArray` on native sequences, `Json.parseArrayText` on text and
bytes wherever that is defined (JSON without objects). -/
theorem generated_parse_array_eq_model (fot : Fot) (et : Option Ty) (hopt : ∀ t, et = some t → kwOf t = {}) :
    (∀ xs : List (Option Val), (et = some .boolean → ∀ x ∈ xs, ∀ v, x = some v → textual v = true) →
      Gen.CastFns.parse_array fot (.seq xs) { elementType := et } = (parseArray fot et xs).map Obj.seq) ∧
    (∀ v r, Json.parseArrayText fot et v = some r →
      (et = some .boolean → ∀ xs, Json.loadElements fot v = some (.ok xs) → ∀ x ∈ xs, ∀ v, x = some v → textual v = true) →
      Gen.CastFns.parse_array fot (.val v) { elementType := et } = r.map Obj.seq) := by
  have core : ∀ (x : Obj) (r : Except Exc (List (Option Val))), pyIter x = r →
      (et = some .boolean → ∀ xs, r = .ok xs → ∀ x ∈ xs, ∀ v, x = some v → textual v = true) →
      (match et with
       | none => pyList x
       | some t => pyListComp (fun v => Gen.CastFns.OrsoTypes_parse fot (Gen.CastFns.scalarParsers fot) (.ty t) v {}) x)
        = (r.bind (parseArray fot et)).map Obj.seq := by
    intro x r hx hb
    cases r with
    | error e => cases et <;> simp [pyList, pyListComp, hx, Except.map, Except.bind]
    | ok xs =>
      cases et with
      | none => simp [pyList, hx, parseArray_none, Except.map, Except.bind]
      | some t =>
        have hk := hopt t rfl
        have : mapE (fun v => Gen.CastFns.OrsoTypes_parse fot (Gen.CastFns.scalarParsers fot) (.ty t) v {}) xs
            = parseArray fot (some t) xs := by
          apply mapE_eq_parseArray
          intro y hy
          have := generated_dispatch_eq_model fot Gen.CastFns.scalarParsers (Or.inr rfl) t y
            (fun ht v hv => hb (by rw [ht]) xs rfl y hy v hv)
          rw [hk] at this
          exact this
        simp [pyListComp, hx, this, Except.bind, Except.map]
  refine ⟨?_, ?_⟩
  · intro xs hb
    have := core (.seq xs) (.ok xs) rfl (fun h ys hy => by cases hy; exact hb h)
    unfold Gen.CastFns.parse_array
    cases et <;> simpa [pyIsInstance, kwGet, pyIsNone, bind_pure, Except.bind] using this
  · intro v r hr hb
    simp only [Json.parseArrayText, Option.map_eq_some_iff] at hr
    obtain ⟨r0, hl, rfl⟩ := hr
    unfold Gen.CastFns.parse_array
    have hi := not_native v
    rcases orjsonLoads_of_loadElements fot v r0 hl with ⟨e, h1, rfl⟩ | ⟨j, h1, rfl⟩
    · cases et <;> simp [hi, h1, bind, Except.bind, Except.map]
    · have := core (.json j) (Json.elementsOf j) rfl (fun h xs hx => hb h xs (by rw [hl, hx]))
      cases et <;> simpa [hi, h1, kwGet, pyIsNone, bind_pure, bind, Except.bind] using this

end Generated

/-! Non-vacuity (concrete inputs through the whole text path, including rounding and the fallback). -/

example : parseDecimal (some 5) (some 2) (.str "123.45".toList) = .ok (.dec (.fin false 12345 (-2))) := by decide
example : parseDecimal (some 5) (some 2) (.str " -1.5 ".toList) = .ok (.dec (.fin true 150 (-2))) := by decide
example : parseDecimal (some 5) (some 2) (.str "15".toList) = .ok (.dec (.fin false 1500 (-2))) := by decide
example : parseDecimal (some 5) (some 2) (.str "1E+2".toList) = .ok (.dec (.fin false 10000 (-2))) := by decide
/-- half-even rounding to the scale, and to the precision -/
example : parseDecimal (some 5) (some 2) (.str "0.125".toList) = .ok (.dec (.fin false 12 (-2))) := by decide
example : parseDecimal (some 5) (some 2) (.str "123.456".toList) = .ok (.dec (.fin false 12346 (-2))) := by decide
/-- does not fit: the `InvalidOperation` fallback returns the rounded, unquantised value -/
example : parseDecimal (some 5) (some 2) (.str "123456".toList) = .ok (.dec (.fin false 12346 1)) := by decide
example : parseDecimal (some 5) (some 2) (.str "abc".toList) = .error .invalidOperation := by decide
/-- scale above the cap: 28 places are kept; precision 38 keeps 38 digits -/
example : parseDecimal (some 38) (some 30) (.str "1.5".toList) = .ok (.dec (.fin false (15 * 10 ^ 27) (-28))) := by decide
example : parseDecimal (some 38) (some 0) (.str "12345678901234567890123456789012345678".toList)
    = .ok (.dec (.fin false 12345678901234567890123456789012345678 0)) := by decide
/-- falsy values are not null: they reach their parser -/
example : parse (fun _ => none) .integer (some (.int 0)) = .ok (some (.int 0)) := by decide
example : parse (fun _ => none) (.varchar (some 3)) (some (.str [])) = .ok (some (.str [])) := by decide
example : parseArray (fun _ => none) (some .integer) [some (.str "12".toList), none, some (.int 0)]
    = .ok [some (.int 12), none, some (.int 0)] := by decide
example : String.ofList (renderDec (.fin true 15 (-1))) = "-1.5" ∧ String.ofList (renderDec (.fin false 1 2)) = "1E+2"
    ∧ String.ofList (renderDec (.fin false 12 (-9))) = "1.2E-8" ∧ String.ofList (renderDec (.fin false 5 (-6))) = "0.000005" := by
  decide
/-- the JSON text path: white space, nulls, escapes and a surrogate pair, nested arrays, malformed text, scalars, objects -/
example : Json.parseArrayText (fun _ => none) (some .integer) (.str " [1, null ,\"-12\" ]\n".toList)
    = some (.ok [some (.int 1), none, some (.int (-12))]) := by decide
example : Json.parseArrayText (fun _ => none) (some (.varchar (some 2))) (.str "[\"a\\n\\u00e9z\",\"\\ud83d\\ude00\"]".toList)
    = some (.ok [some (.str ['a', '\n']), some (.str [Char.ofNat 0x1F600])]) := by decide
example : Json.parseArrayText (fun _ => none) none (.str "[[1],true]".toList) = some (.ok [some .other, some (.bool true)]) := by decide
example : Json.parseArrayText (fun _ => none) (some .integer) (.str "[1,]".toList) = some (.error .valueError) := by decide
example : Json.parseArrayText (fun _ => none) (some .integer) (.str "[01]".toList) = some (.error .valueError) := by decide
example : Json.parseArrayText (fun _ => none) (some .integer) (.str "5".toList) = some (.error .typeError) := by decide
example : Json.parseArrayText (fun _ => none) (some .integer) (.str "{}".toList) = none := by decide
example : String.ofList (Json.render Json.Ws.jsonDumps (fun _ => []) (.arr [.int (-1), .null, .str ['"', Char.ofNat 1], .arr []]))
    = "[-1, null, \"\\\"\\u0001\", []]" := by decide
example : parseInteger (.str " -12_000 ".toList) = .ok (.int (-12000)) := by decide
example : parseVarchar (some 3) (.str "héllo".toList) = .ok (.str "hél".toList) := by decide

/-- the generated programs run: text, bytes, options, nulls, an array from JSON text -/
example : (Gen.CastFns.parse_varchar (fun _ => none) (.val (.str "héllo".toList)) { length := some 3 }).map Prim.toOpt
    = .ok (some (.str "hél".toList)) := by decide
example : (Gen.CastFns.parse_boolean (fun _ => none) (.val (.bytes [121, 101, 115])) {}).map Prim.toOpt = .ok (some (.bool true)) := by decide
example : (Gen.CastFns.OrsoTypes_parse (fun _ => none) (Gen.CastFns.ORSO_TO_PYTHON_PARSER (fun _ => none)) (.ty (.decimal (some 5) (some 2)))
    (.val (.bytes [32, 49, 46, 53, 32])) (Prim.kwOf (.decimal (some 5) (some 2)))).map Prim.toOpt = .ok (some (.dec (.fin false 150 (-2)))) := by decide
example : (Gen.CastFns.parse_array (fun _ => none) (.val (.str "[1, null, \"-2\"]".toList)) { elementType := some .integer }).map Prim.seqOf
    = .ok (some [some (.int 1), none, some (.int (-2))]) := by decide

end C07
