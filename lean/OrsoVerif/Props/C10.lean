import OrsoVerif.Model.Kernels
import OrsoVerif.Lemmas.Frame
import OrsoVerif.Lemmas.CallSites
/-!
# C10 — Native kernels match their Python definitions and are bounds-safe

Property theorems about `Model/Kernels.lean`.  The full safety statement ("no input makes a
helper read outside a row") is **false** of the faithful model: `collect_ragged_oob` and
`collect_nontuple_oob` are proved counterexamples (replayed on the real binary as known
findings C10-K01/K02, which cannot be repaired here because the extension cannot be rebuilt).
What is proved instead is `collect_safe_partial`: reads stay inside the rows whenever every
collected row is a tuple at least as wide as the first row.
-/
namespace C10
open Kernels CallSites

variable {α : Type}

theorem mapM_pair (rows : List (RowObj α)) (c0 c1 : Nat) :
    (rows.mapM (readPair c0 c1)).map (fun cells => [cells.map Prod.fst, cells.map Prod.snd])
      = (rows.mapM fun r => readCell r c0).bind fun a =>
          (rows.mapM fun r => readCell r c1).bind fun b => some [a, b] := by
  induction rows with
  | nil => rfl
  | cons r rs ih =>
    simp only [List.mapM_cons]
    cases h0 : readCell r c0 <;> cases h1 : readCell r c1 <;> simp only [readPair, h0, h1]
    · simp
    · simp
    · cases hm0 : rs.mapM (fun r => readCell r c0) <;> simp [hm0]
    · cases hp : rs.mapM (readPair c0 c1) with
      | none =>
        simp only [hp, Option.map_none] at ih
        cases hm0 : rs.mapM (fun r => readCell r c0) with
        | none => simp [hp, hm0]
        | some a =>
          cases hm1 : rs.mapM (fun r => readCell r c1) with
          | none => simp [hp, hm0, hm1]
          | some b => simp [hm0, hm1] at ih
      | some cells =>
        simp only [hp, Option.map_some] at ih
        cases hm0 : rs.mapM (fun r => readCell r c0) with
        | none => simp [hm0] at ih
        | some a =>
          cases hm1 : rs.mapM (fun r => readCell r c1) with
          | none => simp [hm0, hm1] at ih
          | some b =>
            simp only [hm0, hm1, Option.bind_some, Option.some.injEq, List.cons.injEq, and_true] at ih
            simp [hp, hm0, hm1, ih.1, ih.2]

theorem mapM_isSome {β γ : Type} (l : List β) (f : β → Option γ)
    (h : ∀ x ∈ l, (f x).isSome = true) : (l.mapM f).isSome = true := by
  induction l with
  | nil => rfl
  | cons x xs ih =>
    have hx := h x (by simp)
    have hxs := ih (fun y hy => h y (by simp [hy]))
    simp only [List.mapM_cons]
    cases hfx : f x with
    | none => rw [hfx] at hx; cases hx
    | some v =>
      cases hm : xs.mapM f with
      | none => rw [hm] at hxs; cases hxs
      | some vs => rfl

/-- The 1-, 2- and many-column code paths are the same function: the specialised widths and the
`columns` positions they read (`Gen.Kernels.fastWidth*`, `path*Src*`, from the source) are wired as the
general double loop is. -/
theorem paths_agree (rows : List (RowObj α)) (cols : List Nat) : paths rows cols = pathN rows cols := by
  unfold paths
  have h1 : Gen.Kernels.fastWidth1 = 1 := rfl
  have h2 : Gen.Kernels.fastWidth2 = 2 := rfl
  have s1 : Gen.Kernels.path1Src = 0 := rfl
  have s20 : Gen.Kernels.path2Src0 = 0 := rfl
  have s21 : Gen.Kernels.path2Src1 = 1 := rfl
  rw [h1, h2, s1, s20, s21]
  match cols with
  | [] => simp
  | [c0] =>
    simp only [List.length_singleton, if_true, List.getElem?_cons_zero, Option.bind_some, path1, pathN,
      List.mapM_cons, List.mapM_nil]
    cases rows.mapM (fun r => readCell r c0) <;> simp
  | [c0, c1] =>
    simp only [List.length_cons, List.length_nil, Nat.reduceAdd, Nat.succ_ne_self, Nat.reduceEqDiff,
      if_false, if_true, List.getElem?_cons_zero, List.getElem?_cons_succ, path2, pathN,
      List.mapM_cons, List.mapM_nil, mapM_pair]
    cases rows.mapM (fun r => readCell r c0) <;> cases rows.mapM (fun r => readCell r c1) <;> simp
  | _ :: _ :: _ :: _ => simp

/-- All rows are collected unless `0 ≤ limit < len(rows)`: a negative limit or one at or beyond
the row count means all rows. -/
theorem effectiveRows_spec (n : Nat) (limit : Int) :
    (limit < 0 → effectiveRows n limit = n)
    ∧ ((n : Int) ≤ limit → effectiveRows n limit = n)
    ∧ (0 ≤ limit → limit < (n : Int) → effectiveRows n limit = limit.toNat) := by
  have hiff : Gen.Kernels.limitApplies limit n ↔ (limit ≥ 0 ∧ limit < (n : Int)) := by
    unfold Gen.Kernels.limitApplies; exact Iff.rfl
  unfold effectiveRows
  refine ⟨?_, ?_, ?_⟩
  · intro h; rw [if_neg (by rw [hiff]; omega)]
  · intro h; rw [if_neg (by rw [hiff]; omega)]
  · intro h1 h2; rw [if_pos (hiff.mpr ⟨h1, h2⟩)]

theorem earlyExit_iff (nrows ncols : Nat) :
    Gen.Kernels.earlyExit nrows ncols ↔ (nrows = 0 ∨ ncols = 0) := by
  unfold Gen.Kernels.earlyExit; omega

theorem badIndex_iff (c w : Int) : Gen.Kernels.badIndex c w ↔ (c < 0 ∨ c ≥ w) := by
  unfold Gen.Kernels.badIndex; exact Iff.rfl

theorem any_badIndex_false (cols : List Int) (w : Nat) (hc : ∀ c ∈ cols, 0 ≤ c ∧ c < (w : Int)) :
    cols.any (fun c => decide (Gen.Kernels.badIndex c (w : Int))) = false := by
  rw [List.any_eq_false]
  intro c hcm
  have := hc c hcm
  simp only [decide_eq_true_eq, badIndex_iff]
  omega

/-- **Column collection is the column-major transpose**: for tuple rows all of width `w` and
indexes inside `0..w-1`, `result[i][j] = rows[j][columns[i]]` for the first `limit` rows. -/
theorem collect_spec [Inhabited α] (first : RowObj α) (rest : List (RowObj α)) (cols : List Int)
    (limit : Int) (w : Nat)
    (hw : ∀ r ∈ first :: rest, r.isTuple = true ∧ r.cells.length = w)
    (hc : ∀ c ∈ cols, 0 ≤ c ∧ c < (w : Int)) (hne : cols ≠ []) :
    collect (first :: rest) cols limit =
      .ok (cols.map fun c =>
        ((first :: rest).take (effectiveRows (first :: rest).length limit)).map fun r => r.cells[c.toNat]!) := by
  have hfw : first.cells.length = w := (hw first (by simp)).2
  have hany := any_badIndex_false cols first.cells.length (by rw [hfw]; exact hc)
  have hee : ¬ Gen.Kernels.earlyExit ((first :: rest).length : Nat) (cols.length : Nat) := by
    rw [earlyExit_iff]
    have : cols.length ≠ 0 := by
      cases cols with
      | nil => exact absurd rfl hne
      | cons _ _ => simp
    simp [this]
  simp only [collect, hee, if_false, hany, Bool.false_eq_true, paths_agree]
  have : pathN ((first :: rest).take (effectiveRows (first :: rest).length limit)) (cols.map Int.toNat)
      = some ((cols.map Int.toNat).map fun c =>
          ((first :: rest).take (effectiveRows (first :: rest).length limit)).map fun r => r.cells[c]!) := by
    unfold pathN
    apply Frame.mapM_some
    intro c hcm
    apply Frame.mapM_some
    intro r hr
    have hrm : r ∈ first :: rest := List.mem_of_mem_take hr
    obtain ⟨ht, hl⟩ := hw r hrm
    obtain ⟨c', hc', rfl⟩ := List.mem_map.mp hcm
    have hb := hc c' hc'
    have hlt : c'.toNat < r.cells.length := by omega
    simp [readCell, ht, List.getElem?_eq_getElem hlt, getElem!_pos r.cells c'.toNat hlt]
  rw [this]
  simp [List.map_map, Function.comp_def]

/-- A column index outside `0..width-1` — negative, equal to the width, or larger — raises
`IndexError` (whenever there is anything to collect), and never reads memory. -/
theorem collect_oob_raises (first : RowObj α) (rest : List (RowObj α)) (cols : List Int) (limit : Int)
    (c : Int) (hc : c ∈ cols) (hbad : c < 0 ∨ (first.cells.length : Int) ≤ c) :
    collect (first :: rest) cols limit = .raises "IndexError" := by
  have hee : ¬ Gen.Kernels.earlyExit ((first :: rest).length : Nat) (cols.length : Nat) := by
    rw [earlyExit_iff]
    have : cols.length ≠ 0 := by
      cases cols with
      | nil => cases hc
      | cons _ _ => simp
    simp [this]
  have hany : cols.any (fun c => decide (Gen.Kernels.badIndex c ((first.cells.length : Nat) : Int))) = true := by
    rw [List.any_eq_true]
    refine ⟨c, hc, ?_⟩
    simp only [decide_eq_true_eq, badIndex_iff]
    omega
  simp only [collect, hee, if_false, hany, if_true]

/-- **Safety, partial**: if every collected row is a tuple at least as wide as the first row, no
read leaves a row — whatever the indexes and the limit. -/
theorem collect_safe_partial (rows : List (RowObj α)) (cols : List Int) (limit : Int)
    (h : ∀ first ∈ rows.head?, ∀ r ∈ rows, r.isTuple = true ∧ first.cells.length ≤ r.cells.length) :
    collect rows cols limit ≠ .oob := by
  unfold collect
  by_cases hee : Gen.Kernels.earlyExit (rows.length : Nat) (cols.length : Nat)
  · simp only [hee, if_true]; intro hh; cases hh
  · simp only [hee, if_false]
    cases rows with
    | nil => exact absurd ((earlyExit_iff 0 cols.length).mpr (Or.inl rfl)) hee
    | cons first rest =>
      have hw := h first (by simp)
      simp only
      by_cases hany : cols.any (fun c => decide (Gen.Kernels.badIndex c ((first.cells.length : Nat) : Int))) = true
      · simp only [hany, if_true]; intro hh; cases hh
      · simp only [hany, Bool.false_eq_true, if_false]
        have h1 : cols.any (fun c => decide (Gen.Kernels.badIndex c ((first.cells.length : Nat) : Int))) = false := by
          cases hh : cols.any (fun c => decide (Gen.Kernels.badIndex c ((first.cells.length : Nat) : Int))) with
          | false => rfl
          | true => exact absurd hh hany
        have hin : ∀ c ∈ cols, 0 ≤ c ∧ c < (first.cells.length : Int) := by
          intro c hc
          have := (List.any_eq_false.mp h1) c hc
          simp only [decide_eq_true_eq, badIndex_iff] at this
          omega
        rw [paths_agree]
        have hs : (pathN ((first :: rest).take (effectiveRows (first :: rest).length limit))
            (cols.map Int.toNat)).isSome = true := by
          unfold pathN
          apply mapM_isSome
          intro c hcm
          apply mapM_isSome
          intro r hr
          have hrm : r ∈ first :: rest := List.mem_of_mem_take hr
          obtain ⟨ht, hl⟩ := hw r hrm
          obtain ⟨c', hc', rfl⟩ := List.mem_map.mp hcm
          have hb := hin c' hc'
          have hlt : c'.toNat < r.cells.length := by omega
          simp [readCell, ht, List.getElem?_eq_getElem hlt]
        cases hp : pathN ((first :: rest).take (effectiveRows (first :: rest).length limit)) (cols.map Int.toNat) with
        | none => rw [hp] at hs; cases hs
        | some m => intro hh; cases hh

/-- The full safety statement fails on ragged rows: the width is taken from the first row only,
so index 1 passes the bounds check and is then read from a 1-tuple. -/
theorem collect_ragged_oob :
    collect [⟨true, [10, 11]⟩, ⟨true, [20]⟩] [1] (-1) = (.oob : Outcome Nat) := by decide

/-- …and on rows that are not tuples (the `<tuple>` cast is unchecked). -/
theorem collect_nontuple_oob :
    collect [⟨false, [10, 11]⟩] [0] (-1) = (.oob : Outcome Nat) := by decide

/-- Nothing to collect: no rows, or no columns, gives the empty result without touching a row. -/
theorem collect_empty (rows : List (RowObj α)) (cols : List Int) (limit : Int) :
    collect ([] : List (RowObj α)) cols limit = .ok (cols.map fun _ => [])
    ∧ (rows ≠ [] → collect rows [] limit = .ok []) := by
  refine ⟨?_, ?_⟩
  · have : Gen.Kernels.earlyExit (([] : List (RowObj α)).length : Nat) (cols.length : Nat) :=
      (earlyExit_iff 0 cols.length).mpr (Or.inl rfl)
    simp only [collect, this, if_true]
  · intro _
    have : Gen.Kernels.earlyExit (rows.length : Nat) (([] : List Int).length : Nat) :=
      (earlyExit_iff rows.length 0).mpr (Or.inr rfl)
    simp only [collect, this, if_true, List.map_nil]

theorem widthStep_some (acc w : Nat) : widthStep acc (some w) = if w > acc then w else acc := by
  unfold widthStep Gen.Kernels.widthUpdates
  by_cases h : w > acc
  · have : ((w : Int) > (acc : Int)) := by omega
    simp only [this, if_true, h]
  · have : ¬ ((w : Int) > (acc : Int)) := by omega
    simp only [this, if_false, h]

theorem foldl_width_ge (lens : List (Option Nat)) (acc : Nat) :
    acc ≤ lens.foldl widthStep acc ∧ ∀ w, some w ∈ lens → w ≤ lens.foldl widthStep acc := by
  induction lens generalizing acc with
  | nil => simp
  | cons l ls ih =>
    cases l with
    | none =>
      obtain ⟨h1, h2⟩ := ih acc
      refine ⟨by simpa [widthStep] using h1, ?_⟩
      intro w hw
      simp only [List.mem_cons, reduceCtorEq, false_or] at hw
      simpa [widthStep] using h2 w hw
    | some v =>
      simp only [List.foldl_cons, widthStep_some]
      by_cases hv : v > acc
      · simp only [hv, if_true]
        obtain ⟨h1, h2⟩ := ih v
        refine ⟨by omega, ?_⟩
        intro w hw
        simp only [List.mem_cons, Option.some.injEq] at hw
        rcases hw with rfl | hw
        · exact h1
        · exact h2 w hw
      · simp only [hv, if_false]
        obtain ⟨h1, h2⟩ := ih acc
        refine ⟨h1, ?_⟩
        intro w hw
        simp only [List.mem_cons, Option.some.injEq] at hw
        rcases hw with rfl | hw
        · omega
        · exact h2 w hw

theorem foldl_width_attained (lens : List (Option Nat)) (acc : Nat) :
    lens.foldl widthStep acc = acc ∨ some (lens.foldl widthStep acc) ∈ lens := by
  induction lens generalizing acc with
  | nil => simp
  | cons l ls ih =>
    cases l with
    | none =>
      rcases ih acc with h | h
      · left; simpa [widthStep] using h
      · right; simp only [List.foldl_cons]; exact List.mem_cons_of_mem _ (by simpa [widthStep] using h)
    | some v =>
      simp only [List.foldl_cons, widthStep_some]
      by_cases hv : v > acc
      · simp only [hv, if_true]
        rcases ih v with h | h
        · right; rw [h]; simp
        · right; exact List.mem_cons_of_mem _ h
      · simp only [hv, if_false]
        rcases ih acc with h | h
        · left; exact h
        · right; exact List.mem_cons_of_mem _ h

/-- The display-width helper gives the longest rendered non-null value, but at least four
(`Gen.Kernels.widthFloor`, the constant in the source). -/
theorem dataWidth_spec (lens : List (Option Nat)) :
    4 ≤ dataWidth lens
    ∧ (∀ w, some w ∈ lens → w ≤ dataWidth lens)
    ∧ (dataWidth lens = 4 ∨ some (dataWidth lens) ∈ lens) := by
  have hf : Gen.Kernels.widthFloor = 4 := rfl
  unfold dataWidth
  rw [hf]
  exact ⟨(foldl_width_ge lens 4).1, (foldl_width_ge lens 4).2, foldl_width_attained lens 4⟩

/-- Field extraction gives the dictionary's value, or null, for each requested field in order. -/
theorem extract_spec (null : α) (fields : List String) (d : List (String × α)) :
    (DictRow.extract null fields d).length = fields.length
    ∧ ∀ i : Nat, (DictRow.extract null fields d)[i]? =
        (fields[i]?).map fun f => (DictRow.lookup f d).getD null := by
  refine ⟨by simp [DictRow.extract], ?_⟩
  intro i; simp [DictRow.extract]

/-- **Field extraction is memory-safe and is the plain definition**: with the field count, allocation
size and loop bound the source has now (`Gen.Kernels.extract*`), every `fields[i]` read stays inside
the tuple, every `field_data[i]` write inside the list, and the result is the per-field lookup. -/
theorem extract_safe (null : α) (fields : List String) (d : List (String × α)) :
    extractLoop null fields d = some (DictRow.extract null fields d) := by
  unfold extractLoop Gen.Kernels.extractCount Gen.Kernels.extractBound Gen.Kernels.extractAlloc
  simp only [Int.toNat_natCast]
  rw [CallSites.loop_prefix null fields d fields.length (Nat.le_refl _)]
  simp [DictRow.extract]

/-- Non-vacuity. -/
example : collect [⟨true, [1, 2, 3]⟩, ⟨true, [4, 5, 6]⟩, ⟨true, [7, 8, 9]⟩] [2, 0] 2
    = (.ok [[3, 6], [1, 4]] : Outcome Nat) := by decide
example : collect [⟨true, [1, 2]⟩] [2] 0 = (.raises "IndexError" : Outcome Nat) ∧
    collect [⟨true, [1, 2]⟩] [-1] 5 = (.raises "IndexError" : Outcome Nat) := by decide
example : dataWidth [some 2, none, some 7, some 5] = 7 ∧ dataWidth [some 1, none] = 4 := by decide

/-! ## The Python call sites (`DataFrame.collect`, `Row.__new__`, `ascii_table`) -/

/-- What the limit must be when it reaches the kernel. -/
def limitOk (n : Nat) (limit : Option Int) : Option Int → Prop
  | some l => FitsC (Gen.CallSites.kernelLimit l)
      ∧ effectiveRows n (Gen.CallSites.kernelLimit l) = specRows n limit
  | none => False

/-- **Limit normalisation at the call site**: whatever limit the caller of `DataFrame.collect` passes —
`None`, negative, zero, inside, at or beyond the row count, beyond a C `int` — the value that reaches
`collect_cython` (through the generated `limitSteps` and `kernelLimit`) fits a C `int` and makes the
kernel collect exactly the rows of the plain-Python definition (`specRows`). -/
theorem norm_limit_spec (n : Nat) (hn : (n : Int) < 2147483648) (limit : Option Int) :
    limitOk n limit (normLimit limit n) := by
  have hiff : ∀ l : Int, Gen.Kernels.limitApplies l n ↔ (l ≥ 0 ∧ l < (n : Int)) := by
    intro l; unfold Gen.Kernels.limitApplies; exact Iff.rfl
  -- every `if` is decided by linear arithmetic in each of the cases below, whatever shape the
  -- generated guards have
  cases limit with
  | none =>
    rcases Nat.eq_zero_or_pos n with h0 | h0 <;>
      (try simp [normLimit, applyLimitStep]) <;>
      (repeat (first | rw [if_pos (by omega)] | rw [if_neg (by omega)])) <;>
      (try simp [limitOk, effectiveRows, specRows, FitsC, hiff]) <;>
      (repeat (first | rw [if_pos (by omega)] | rw [if_neg (by omega)])) <;>
      (try dsimp only) <;>
      (repeat (first | rw [if_pos (by omega)] | rw [if_neg (by omega)])) <;>
      (try omega)
  | some l =>
    rcases Int.lt_trichotomy l 0 with h1 | h1 | h1 <;> rcases Int.lt_trichotomy l n with h2 | h2 | h2 <;>
      (try simp [normLimit, applyLimitStep]) <;>
      (repeat (first | rw [if_pos (by omega)] | rw [if_neg (by omega)])) <;>
      (try simp [limitOk, effectiveRows, specRows, FitsC, hiff]) <;>
      (repeat (first | rw [if_pos (by omega)] | rw [if_neg (by omega)])) <;>
      (try dsimp only) <;>
      (repeat (first | rw [if_pos (by omega)] | rw [if_neg (by omega)])) <;>
      (try omega)

theorem public_collect_spec [Inhabited α] (names : List String) (first : RowObj α) (rest : List (RowObj α))
    (cols : List ColRef) (idxs : List Int) (limit : Option Int) (w : Nat)
    (hn : (((first :: rest).length : Nat) : Int) < 2147483648) (hw32 : (w : Int) ≤ 2147483648)
    (hw : ∀ r ∈ first :: rest, r.isTuple = true ∧ r.cells.length = w)
    (hres : cols.mapM (resolve names) = some idxs)
    (hc : ∀ c ∈ idxs, 0 ≤ c ∧ c < (w : Int)) (hne : cols ≠ []) :
    publicCollect names (first :: rest) cols false limit =
      .many (idxs.map fun c =>
        ((first :: rest).take (specRows (first :: rest).length limit)).map fun r => r.cells[c.toNat]!) := by
  have hlen := mapM_length _ cols idxs hres
  have hine : idxs ≠ [] := by
    intro h; rw [h] at hlen; exact hne (List.length_eq_zero_iff.mp hlen.symm)
  have hok := norm_limit_spec (first :: rest).length hn limit
  unfold publicCollect
  rw [hres]
  simp only [fits_any_false idxs w hw32 hc, Bool.false_eq_true, if_false]
  cases hnl : normLimit limit (first :: rest).length with
  | none => rw [hnl] at hok; exact absurd hok (by simp [limitOk])
  | some l =>
    rw [hnl] at hok
    obtain ⟨hf, he⟩ := hok
    simp only [hf, not_true_eq_false, if_false]
    rw [collect_spec first rest idxs _ w hw hc hine, he]

/-- A single column (by index or by name): the column itself, not a one-row matrix. -/
theorem public_collect_single_spec [Inhabited α] (names : List String) (first : RowObj α)
    (rest : List (RowObj α)) (c : ColRef) (i : Int) (limit : Option Int) (w : Nat)
    (hn : (((first :: rest).length : Nat) : Int) < 2147483648) (hw32 : (w : Int) ≤ 2147483648)
    (hw : ∀ r ∈ first :: rest, r.isTuple = true ∧ r.cells.length = w)
    (hres : resolve names c = some i) (hc : 0 ≤ i ∧ i < (w : Int)) :
    publicCollect names (first :: rest) [c] true limit =
      .one (((first :: rest).take (specRows (first :: rest).length limit)).map fun r => r.cells[i.toNat]!) := by
  have hres' : [c].mapM (resolve names) = some [i] := by simp [hres]
  have hc' : ∀ x ∈ [i], 0 ≤ x ∧ x < (w : Int) := by intro x hx; simp at hx; subst hx; exact hc
  have hok := norm_limit_spec (first :: rest).length hn limit
  unfold publicCollect
  rw [hres']
  simp only [fits_any_false [i] w hw32 hc', Bool.false_eq_true, if_false]
  cases hnl : normLimit limit (first :: rest).length with
  | none => rw [hnl] at hok; exact absurd hok (by simp [limitOk])
  | some l =>
    rw [hnl] at hok
    obtain ⟨hf, he⟩ := hok
    simp only [hf, not_true_eq_false, if_false]
    rw [collect_spec first rest [i] _ w hw hc' (by simp), he]
    simp

/-- A frame without rows: every request gives empty columns (nothing is read). -/
theorem public_collect_empty (names : List String) (cols : List ColRef) (idxs : List Int)
    (limit : Option Int) (hres : cols.mapM (resolve names) = some idxs)
    (hfit : ∀ c ∈ idxs, FitsC c) :
    publicCollect names ([] : List (RowObj α)) cols false limit = .many (idxs.map fun _ => []) := by
  have hok := norm_limit_spec 0 (by decide) limit
  have hany : idxs.any (fun i => decide (¬ FitsC i)) = false := by
    rw [List.any_eq_false]; intro c hcm; simp [hfit c hcm]
  unfold publicCollect
  rw [hres]
  simp only [hany, Bool.false_eq_true, if_false, List.length_nil]
  cases hnl : normLimit limit 0 with
  | none => rw [hnl] at hok; exact absurd hok (by simp [limitOk])
  | some l =>
    rw [hnl] at hok
    obtain ⟨hf, _⟩ := hok
    simp only [hf, not_true_eq_false, if_false, (collect_empty ([] : List (RowObj α)) idxs _).1]

/-- A resolved index outside `0..width-1` raises a Python exception through the public call as
well (whenever there is a row), for every limit. -/
theorem public_collect_bad_index_raises (names : List String) (first : RowObj α)
    (rest : List (RowObj α)) (cols : List ColRef) (idxs : List Int) (single : Bool) (limit : Option Int)
    (hn : (((first :: rest).length : Nat) : Int) < 2147483648)
    (hres : cols.mapM (resolve names) = some idxs)
    (c : Int) (hc : c ∈ idxs) (hbad : c < 0 ∨ (first.cells.length : Int) ≤ c) :
    ∃ cls, publicCollect names (first :: rest) cols single limit = .raises cls := by
  have hok := norm_limit_spec (first :: rest).length hn limit
  unfold publicCollect
  rw [hres]
  by_cases hany : idxs.any (fun i => decide (¬ FitsC i)) = true
  · exact ⟨"OverflowError", by simp only [hany, if_true]⟩
  · simp only [hany, Bool.false_eq_true, if_false]
    cases hnl : normLimit limit (first :: rest).length with
    | none => rw [hnl] at hok; exact absurd hok (by simp [limitOk])
    | some l =>
      rw [hnl] at hok
      obtain ⟨hf, _⟩ := hok
      simp only [hf, not_true_eq_false, if_false, collect_oob_raises first rest idxs _ c hc hbad]
      exact ⟨_, rfl⟩

/-- A column name that the frame does not have raises (`tuple.index`), and a name it has resolves
to the first column of that name. -/
theorem public_collect_names (names : List String) (s : String) :
    (s ∉ names → ∀ (rows : List (RowObj α)) (pre post : List ColRef) (single : Bool) (limit : Option Int),
        publicCollect names rows (pre ++ .name s :: post) single limit = .raises "ValueError")
    ∧ (∀ k : Int, resolve names (.name s) = some k →
        0 ≤ k ∧ names[k.toNat]? = some s ∧ ∀ j, j < k.toNat → names[j]? ≠ some s) := by
  refine ⟨?_, ?_⟩
  · intro hs rows pre post single limit
    have hnone : DictRow.indexOf names s = none := by
      cases h : DictRow.indexOf names s with
      | none => rfl
      | some k => exact absurd (List.mem_of_getElem? (indexOf_spec names s k h).1) hs
    have : (pre ++ ColRef.name s :: post).mapM (resolve names) = none := by
      induction pre with
      | nil => simp [resolve, hnone]
      | cons p ps ih => simp only [List.cons_append, List.mapM_cons, ih]; cases resolve names p <;> rfl
    unfold publicCollect
    rw [this]
  · intro k hk
    simp only [resolve, Option.map_eq_some_iff] at hk
    obtain ⟨k', hk', rfl⟩ := hk
    have := indexOf_spec names s k' hk'
    exact ⟨by simp, by simpa using this.1, by simpa using this.2⟩

/-- **Field extraction through the caller**: a row built from a dictionary through a class made by
`Row.create_class(fields)` holds the dictionary's value, or null, for each field in order — and a
row built from a tuple is that tuple. -/
theorem row_from_dict_spec (null : α) (fields : List String) (d : List (String × α)) (t : List α) :
    rowNew null (createClass fields false) (.dict d) = some (fields.map fun f => (DictRow.lookup f d).getD null)
    ∧ ∀ b, rowNew null (createClass fields b) (.tuple t) = some t := by
  refine ⟨rfl, fun _ => rfl⟩

/-- …whatever other row classes are created before or after it: the class with number `k` builds
the same row at every later point of a session. -/
theorem row_class_independent (null : α) (reg : List RowClass) (k : Nat) (c : RowClass)
    (hk : reg[k]? = some c) (arg : RowArg α) (creates : List (List String × Bool)) :
    runOps null reg (creates.map (fun p => ClassOp.create p.1 p.2) ++ [ClassOp.build k arg])
      = [rowNew null c arg] := by
  induction creates generalizing reg with
  | nil => simp [runOps, hk]
  | cons p ps ih =>
    simp only [List.map_cons, List.cons_append, runOps]
    apply ih
    rw [List.getElem?_append_left (by
      have := (List.getElem?_eq_some_iff.mp hk).1; exact this)]
    exact hk

/-- A single column of a frame without rows is the empty column. -/
theorem public_collect_single_empty (names : List String) (c : ColRef) (i : Int) (limit : Option Int)
    (hres : resolve names c = some i) (hfit : FitsC i) :
    publicCollect names ([] : List (RowObj α)) [c] true limit = .one [] := by
  have hok := norm_limit_spec 0 (by decide) limit
  have hres' : [c].mapM (resolve names) = some [i] := by simp [hres]
  unfold publicCollect
  rw [hres']
  simp only [List.any_cons, List.any_nil, hfit, not_true_eq_false, decide_false, Bool.or_false,
    Bool.false_eq_true, if_false, List.length_nil]
  cases hnl : normLimit limit 0 with
  | none => rw [hnl] at hok; exact absurd hok (by simp [limitOk])
  | some l =>
    rw [hnl] at hok
    obtain ⟨hf, _⟩ := hok
    simp only [hf, not_true_eq_false, if_false, (collect_empty ([] : List (RowObj α)) [i] _).1]
    simp

/-- `t.collect(i, <measure>)` of the display collects every row of the printed frame. -/
theorem measure_all_rows (n : Nat) (limit : Int) : specRows n (Gen.CallSites.measureLimit limit) = n := by
  simp [specRows]

/-- **The display's data width**: for every printed frame `t` (head only, head + tail, or the whole
table; eager or lazy) and every `limit`, the width measured for column `i` is the longest rendered
non-null value among *all* rows of `t`, but at least four. -/
theorem display_widths_spec (names : List String) (trows : List (RowObj (Option Nat))) (limit : Int)
    (hn : ((trows.length : Nat) : Int) < 2147483648) (hw32 : ((names.length : Nat) : Int) ≤ 2147483648)
    (hw : ∀ r ∈ trows, r.isTuple = true ∧ r.cells.length = names.length) :
    displayDataWidths names trows limit =
      (List.range names.length).map fun i => some (dataWidth (trows.map fun r => r.cells[i]!)) := by
  unfold displayDataWidths
  apply List.map_congr_left
  intro i hi
  have hi' : i < names.length := List.mem_range.mp hi
  cases trows with
  | nil =>
    rw [public_collect_single_empty names (.idx (Int.ofNat i)) (Int.ofNat i) _ rfl
      (by unfold FitsC; simp only [Int.ofNat_eq_natCast]; omega)]
    simp
  | cons first rest =>
    rw [public_collect_single_spec names first rest (.idx (Int.ofNat i)) (Int.ofNat i)
      (Gen.CallSites.measureLimit limit) names.length hn hw32 hw rfl (by simp; omega)]
    simp only [measure_all_rows, List.take_length]
    simp

/-- Non-vacuity of the call-site theorems. -/
example : publicCollect ["a", "b"] [⟨true, [1, 2]⟩, ⟨true, [3, 4]⟩, ⟨true, [5, 6]⟩] [.name "b", .idx 0] false (some 0)
    = (.many [[], []] : PubOutcome Nat) ∧
  publicCollect ["a", "b"] [⟨true, [1, 2]⟩, ⟨true, [3, 4]⟩, ⟨true, [5, 6]⟩] [.name "b", .idx 0] false (some 2)
    = (.many [[2, 4], [1, 3]] : PubOutcome Nat) ∧
  publicCollect ["a", "b"] [⟨true, [1, 2]⟩, ⟨true, [3, 4]⟩] [.name "b"] true none
    = (.one [2, 4] : PubOutcome Nat) ∧
  publicCollect ["a", "b"] [⟨true, [1, 2]⟩, ⟨true, [3, 4]⟩] [.idx 0] false (some 4294967296)
    = (.many [[1, 3]] : PubOutcome Nat) := by decide
example : rowNew 0 (createClass ["x", "y", "z"] false) (.dict [("z", 3), ("x", 1), ("q", 9)]) = some [1, 0, 3] := by decide
example : displayDataWidths ["a", "b"] [⟨true, [some 2, none]⟩, ⟨true, [some 1, some 3]⟩, ⟨true, [some 9, some 12]⟩] 1
    = [some 9, some 12] := by decide

end C10
