import OrsoVerif.Model.Kernels
import OrsoVerif.Lemmas.Frame
/-!
# C10 — Native kernels match their Python definitions and are bounds-safe

Property theorems about `Model/Kernels.lean`.  The full safety statement ("no input makes a
helper read outside a row") is **false** of the faithful model: `collect_ragged_oob` and
`collect_nontuple_oob` are proved counterexamples (replayed on the real binary as known
findings C10-K01/K02, which cannot be repaired here because the extension cannot be rebuilt).
What is proved instead is `collect_safe_partial`: reads stay inside the rows whenever every
collected row is a tuple at least as wide as the first row.
-/
namespace C10
open Kernels

variable {α : Type}

theorem mapM_pair (rows : List (RowObj α)) (c0 c1 : Nat) :
    (rows.mapM (readPair c0 c1)).map (fun cells => [cells.map Prod.fst, cells.map Prod.snd])
      = (rows.mapM fun r => readCell r c0).bind fun a =>
          (rows.mapM fun r => readCell r c1).bind fun b => some [a, b] := by
  induction rows with
  | nil => rfl
  | cons r rs ih =>
    simp only [List.mapM_cons]
    cases h0 : readCell r c0 <;> cases h1 : readCell r c1 <;> simp only [readPair, h0, h1]
    · simp
    · simp
    · cases hm0 : rs.mapM (fun r => readCell r c0) <;> simp [hm0]
    · cases hp : rs.mapM (readPair c0 c1) with
      | none =>
        simp only [hp, Option.map_none] at ih
        cases hm0 : rs.mapM (fun r => readCell r c0) with
        | none => simp [hp, hm0]
        | some a =>
          cases hm1 : rs.mapM (fun r => readCell r c1) with
          | none => simp [hp, hm0, hm1]
          | some b => simp [hm0, hm1] at ih
      | some cells =>
        simp only [hp, Option.map_some] at ih
        cases hm0 : rs.mapM (fun r => readCell r c0) with
        | none => simp [hm0] at ih
        | some a =>
          cases hm1 : rs.mapM (fun r => readCell r c1) with
          | none => simp [hm0, hm1] at ih
          | some b =>
            simp only [hm0, hm1, Option.bind_some, Option.some.injEq, List.cons.injEq, and_true] at ih
            simp [hp, hm0, hm1, ih.1, ih.2]

theorem mapM_isSome {β γ : Type} (l : List β) (f : β → Option γ)
    (h : ∀ x ∈ l, (f x).isSome = true) : (l.mapM f).isSome = true := by
  induction l with
  | nil => rfl
  | cons x xs ih =>
    have hx := h x (by simp)
    have hxs := ih (fun y hy => h y (by simp [hy]))
    simp only [List.mapM_cons]
    cases hfx : f x with
    | none => rw [hfx] at hx; cases hx
    | some v =>
      cases hm : xs.mapM f with
      | none => rw [hm] at hxs; cases hxs
      | some vs => rfl

/-- The 1-, 2- and many-column code paths are the same function. -/
theorem paths_agree (rows : List (RowObj α)) (cols : List Nat) : paths rows cols = pathN rows cols := by
  unfold paths
  split
  · rename_i c0
    simp only [path1, pathN, List.mapM_cons, List.mapM_nil]
    cases rows.mapM (fun r => readCell r c0) <;> simp
  · rename_i c0 c1
    simp only [path2, pathN, List.mapM_cons, List.mapM_nil, mapM_pair]
    cases rows.mapM (fun r => readCell r c0) <;> cases rows.mapM (fun r => readCell r c1) <;> simp
  · rfl

/-- All rows are collected unless `0 ≤ limit < len(rows)`: a negative limit or one at or beyond
the row count means all rows. -/
theorem effectiveRows_spec (n : Nat) (limit : Int) :
    (limit < 0 → effectiveRows n limit = n)
    ∧ ((n : Int) ≤ limit → effectiveRows n limit = n)
    ∧ (0 ≤ limit → limit < (n : Int) → effectiveRows n limit = limit.toNat) := by
  have hiff : Gen.Kernels.limitApplies limit n ↔ (limit ≥ 0 ∧ limit < (n : Int)) := by
    unfold Gen.Kernels.limitApplies; exact Iff.rfl
  unfold effectiveRows
  refine ⟨?_, ?_, ?_⟩
  · intro h; rw [if_neg (by rw [hiff]; omega)]
  · intro h; rw [if_neg (by rw [hiff]; omega)]
  · intro h1 h2; rw [if_pos (hiff.mpr ⟨h1, h2⟩)]

theorem earlyExit_iff (nrows ncols : Nat) :
    Gen.Kernels.earlyExit nrows ncols ↔ (nrows = 0 ∨ ncols = 0) := by
  unfold Gen.Kernels.earlyExit; omega

theorem badIndex_iff (c w : Int) : Gen.Kernels.badIndex c w ↔ (c < 0 ∨ c ≥ w) := by
  unfold Gen.Kernels.badIndex; exact Iff.rfl

theorem any_badIndex_false (cols : List Int) (w : Nat) (hc : ∀ c ∈ cols, 0 ≤ c ∧ c < (w : Int)) :
    cols.any (fun c => decide (Gen.Kernels.badIndex c (w : Int))) = false := by
  rw [List.any_eq_false]
  intro c hcm
  have := hc c hcm
  simp only [decide_eq_true_eq, badIndex_iff]
  omega

/-- **Column collection is the column-major transpose**: for tuple rows all of width `w` and
indexes inside `0..w-1`, `result[i][j] = rows[j][columns[i]]` for the first `limit` rows. -/
theorem collect_spec [Inhabited α] (first : RowObj α) (rest : List (RowObj α)) (cols : List Int)
    (limit : Int) (w : Nat)
    (hw : ∀ r ∈ first :: rest, r.isTuple = true ∧ r.cells.length = w)
    (hc : ∀ c ∈ cols, 0 ≤ c ∧ c < (w : Int)) (hne : cols ≠ []) :
    collect (first :: rest) cols limit =
      .ok (cols.map fun c =>
        ((first :: rest).take (effectiveRows (first :: rest).length limit)).map fun r => r.cells[c.toNat]!) := by
  have hfw : first.cells.length = w := (hw first (by simp)).2
  have hany := any_badIndex_false cols first.cells.length (by rw [hfw]; exact hc)
  have hee : ¬ Gen.Kernels.earlyExit ((first :: rest).length : Nat) (cols.length : Nat) := by
    rw [earlyExit_iff]
    have : cols.length ≠ 0 := by
      cases cols with
      | nil => exact absurd rfl hne
      | cons _ _ => simp
    simp [this]
  simp only [collect, hee, if_false, hany, Bool.false_eq_true, paths_agree]
  have : pathN ((first :: rest).take (effectiveRows (first :: rest).length limit)) (cols.map Int.toNat)
      = some ((cols.map Int.toNat).map fun c =>
          ((first :: rest).take (effectiveRows (first :: rest).length limit)).map fun r => r.cells[c]!) := by
    unfold pathN
    apply Frame.mapM_some
    intro c hcm
    apply Frame.mapM_some
    intro r hr
    have hrm : r ∈ first :: rest := List.mem_of_mem_take hr
    obtain ⟨ht, hl⟩ := hw r hrm
    obtain ⟨c', hc', rfl⟩ := List.mem_map.mp hcm
    have hb := hc c' hc'
    have hlt : c'.toNat < r.cells.length := by omega
    simp [readCell, ht, List.getElem?_eq_getElem hlt, getElem!_pos r.cells c'.toNat hlt]
  rw [this]
  simp [List.map_map, Function.comp_def]

/-- A column index outside `0..width-1` — negative, equal to the width, or larger — raises
`IndexError` (whenever there is anything to collect), and never reads memory. -/
theorem collect_oob_raises (first : RowObj α) (rest : List (RowObj α)) (cols : List Int) (limit : Int)
    (c : Int) (hc : c ∈ cols) (hbad : c < 0 ∨ (first.cells.length : Int) ≤ c) :
    collect (first :: rest) cols limit = .raises "IndexError" := by
  have hee : ¬ Gen.Kernels.earlyExit ((first :: rest).length : Nat) (cols.length : Nat) := by
    rw [earlyExit_iff]
    have : cols.length ≠ 0 := by
      cases cols with
      | nil => cases hc
      | cons _ _ => simp
    simp [this]
  have hany : cols.any (fun c => decide (Gen.Kernels.badIndex c ((first.cells.length : Nat) : Int))) = true := by
    rw [List.any_eq_true]
    refine ⟨c, hc, ?_⟩
    simp only [decide_eq_true_eq, badIndex_iff]
    omega
  simp only [collect, hee, if_false, hany, if_true]

/-- **Safety, partial**: if every collected row is a tuple at least as wide as the first row, no
read leaves a row — whatever the indexes and the limit. -/
theorem collect_safe_partial (rows : List (RowObj α)) (cols : List Int) (limit : Int)
    (h : ∀ first ∈ rows.head?, ∀ r ∈ rows, r.isTuple = true ∧ first.cells.length ≤ r.cells.length) :
    collect rows cols limit ≠ .oob := by
  unfold collect
  by_cases hee : Gen.Kernels.earlyExit (rows.length : Nat) (cols.length : Nat)
  · simp only [hee, if_true]; intro hh; cases hh
  · simp only [hee, if_false]
    cases rows with
    | nil => exact absurd ((earlyExit_iff 0 cols.length).mpr (Or.inl rfl)) hee
    | cons first rest =>
      have hw := h first (by simp)
      simp only
      by_cases hany : cols.any (fun c => decide (Gen.Kernels.badIndex c ((first.cells.length : Nat) : Int))) = true
      · simp only [hany, if_true]; intro hh; cases hh
      · simp only [hany, Bool.false_eq_true, if_false]
        have h1 : cols.any (fun c => decide (Gen.Kernels.badIndex c ((first.cells.length : Nat) : Int))) = false := by
          cases hh : cols.any (fun c => decide (Gen.Kernels.badIndex c ((first.cells.length : Nat) : Int))) with
          | false => rfl
          | true => exact absurd hh hany
        have hin : ∀ c ∈ cols, 0 ≤ c ∧ c < (first.cells.length : Int) := by
          intro c hc
          have := (List.any_eq_false.mp h1) c hc
          simp only [decide_eq_true_eq, badIndex_iff] at this
          omega
        rw [paths_agree]
        have hs : (pathN ((first :: rest).take (effectiveRows (first :: rest).length limit))
            (cols.map Int.toNat)).isSome = true := by
          unfold pathN
          apply mapM_isSome
          intro c hcm
          apply mapM_isSome
          intro r hr
          have hrm : r ∈ first :: rest := List.mem_of_mem_take hr
          obtain ⟨ht, hl⟩ := hw r hrm
          obtain ⟨c', hc', rfl⟩ := List.mem_map.mp hcm
          have hb := hin c' hc'
          have hlt : c'.toNat < r.cells.length := by omega
          simp [readCell, ht, List.getElem?_eq_getElem hlt]
        cases hp : pathN ((first :: rest).take (effectiveRows (first :: rest).length limit)) (cols.map Int.toNat) with
        | none => rw [hp] at hs; cases hs
        | some m => intro hh; cases hh

/-- The full safety statement fails on ragged rows: the width is taken from the first row only,
so index 1 passes the bounds check and is then read from a 1-tuple. -/
theorem collect_ragged_oob :
    collect [⟨true, [10, 11]⟩, ⟨true, [20]⟩] [1] (-1) = (.oob : Outcome Nat) := by decide

/-- …and on rows that are not tuples (the `<tuple>` cast is unchecked). -/
theorem collect_nontuple_oob :
    collect [⟨false, [10, 11]⟩] [0] (-1) = (.oob : Outcome Nat) := by decide

/-- Nothing to collect: no rows, or no columns, gives the empty result without touching a row. -/
theorem collect_empty (rows : List (RowObj α)) (cols : List Int) (limit : Int) :
    collect ([] : List (RowObj α)) cols limit = .ok (cols.map fun _ => [])
    ∧ (rows ≠ [] → collect rows [] limit = .ok []) := by
  refine ⟨?_, ?_⟩
  · have : Gen.Kernels.earlyExit (([] : List (RowObj α)).length : Nat) (cols.length : Nat) :=
      (earlyExit_iff 0 cols.length).mpr (Or.inl rfl)
    simp only [collect, this, if_true]
  · intro _
    have : Gen.Kernels.earlyExit (rows.length : Nat) (([] : List Int).length : Nat) :=
      (earlyExit_iff rows.length 0).mpr (Or.inr rfl)
    simp only [collect, this, if_true, List.map_nil]

theorem widthStep_some (acc w : Nat) : widthStep acc (some w) = if w > acc then w else acc := by
  unfold widthStep Gen.Kernels.widthUpdates
  by_cases h : w > acc
  · have : ((w : Int) > (acc : Int)) := by omega
    simp only [this, if_true, h]
  · have : ¬ ((w : Int) > (acc : Int)) := by omega
    simp only [this, if_false, h]

theorem foldl_width_ge (lens : List (Option Nat)) (acc : Nat) :
    acc ≤ lens.foldl widthStep acc ∧ ∀ w, some w ∈ lens → w ≤ lens.foldl widthStep acc := by
  induction lens generalizing acc with
  | nil => simp
  | cons l ls ih =>
    cases l with
    | none =>
      obtain ⟨h1, h2⟩ := ih acc
      refine ⟨by simpa [widthStep] using h1, ?_⟩
      intro w hw
      simp only [List.mem_cons, reduceCtorEq, false_or] at hw
      simpa [widthStep] using h2 w hw
    | some v =>
      simp only [List.foldl_cons, widthStep_some]
      by_cases hv : v > acc
      · simp only [hv, if_true]
        obtain ⟨h1, h2⟩ := ih v
        refine ⟨by omega, ?_⟩
        intro w hw
        simp only [List.mem_cons, Option.some.injEq] at hw
        rcases hw with rfl | hw
        · exact h1
        · exact h2 w hw
      · simp only [hv, if_false]
        obtain ⟨h1, h2⟩ := ih acc
        refine ⟨h1, ?_⟩
        intro w hw
        simp only [List.mem_cons, Option.some.injEq] at hw
        rcases hw with rfl | hw
        · omega
        · exact h2 w hw

theorem foldl_width_attained (lens : List (Option Nat)) (acc : Nat) :
    lens.foldl widthStep acc = acc ∨ some (lens.foldl widthStep acc) ∈ lens := by
  induction lens generalizing acc with
  | nil => simp
  | cons l ls ih =>
    cases l with
    | none =>
      rcases ih acc with h | h
      · left; simpa [widthStep] using h
      · right; simp only [List.foldl_cons]; exact List.mem_cons_of_mem _ (by simpa [widthStep] using h)
    | some v =>
      simp only [List.foldl_cons, widthStep_some]
      by_cases hv : v > acc
      · simp only [hv, if_true]
        rcases ih v with h | h
        · right; rw [h]; simp
        · right; exact List.mem_cons_of_mem _ h
      · simp only [hv, if_false]
        rcases ih acc with h | h
        · left; exact h
        · right; exact List.mem_cons_of_mem _ h

/-- The display-width helper gives the longest rendered non-null value, but at least four
(`Gen.Kernels.widthFloor`, the constant in the source). -/
theorem dataWidth_spec (lens : List (Option Nat)) :
    4 ≤ dataWidth lens
    ∧ (∀ w, some w ∈ lens → w ≤ dataWidth lens)
    ∧ (dataWidth lens = 4 ∨ some (dataWidth lens) ∈ lens) := by
  have hf : Gen.Kernels.widthFloor = 4 := rfl
  unfold dataWidth
  rw [hf]
  exact ⟨(foldl_width_ge lens 4).1, (foldl_width_ge lens 4).2, foldl_width_attained lens 4⟩

/-- Field extraction gives the dictionary's value, or null, for each requested field in order. -/
theorem extract_spec (null : α) (fields : List String) (d : List (String × α)) :
    (DictRow.extract null fields d).length = fields.length
    ∧ ∀ i : Nat, (DictRow.extract null fields d)[i]? =
        (fields[i]?).map fun f => (DictRow.lookup f d).getD null := by
  refine ⟨by simp [DictRow.extract], ?_⟩
  intro i; simp [DictRow.extract]

/-- Non-vacuity. -/
example : collect [⟨true, [1, 2, 3]⟩, ⟨true, [4, 5, 6]⟩, ⟨true, [7, 8, 9]⟩] [2, 0] 2
    = (.ok [[3, 6], [1, 4]] : Outcome Nat) := by decide
example : collect [⟨true, [1, 2]⟩] [2] 0 = (.raises "IndexError" : Outcome Nat) ∧
    collect [⟨true, [1, 2]⟩] [-1] 5 = (.raises "IndexError" : Outcome Nat) := by decide
example : dataWidth [some 2, none, some 7, some 5] = 7 ∧ dataWidth [some 1, none] = 4 := by decide

end C10
