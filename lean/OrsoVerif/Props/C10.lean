import OrsoVerif.Model.Kernels
import OrsoVerif.Lemmas.Frame
import OrsoVerif.Lemmas.CallSites
import OrsoVerif.Lemmas.KernelFns
import OrsoVerif.Generated.KernelFns
/-!
# C10 — Native kernels match their Python definitions and are bounds-safe

Property theorems about `Model/Kernels.lean`.  The full safety statement ("no input makes a
helper read outside a row") is **false** of the faithful model: `collect_ragged_oob` and
`collect_nontuple_oob` are proved counterexamples (replayed on the real binary as known
findings C10-K01/K02, which cannot be repaired here because the extension cannot be rebuilt).
What is proved instead is `collect_safe_partial`: reads stay inside the rows whenever every
collected row is a tuple at least as wide as the first row.
-/
namespace C10
open Kernels CallSites KernelSem PyDictM

variable {α : Type}

theorem mapM_pair (rows : List (RowObj α)) (c0 c1 : Nat) :
    (rows.mapM (readPair c0 c1)).map (fun cells => [cells.map Prod.fst, cells.map Prod.snd])
      = (rows.mapM fun r => readCell r c0).bind fun a =>
          (rows.mapM fun r => readCell r c1).bind fun b => some [a, b] := by
  induction rows with
  | nil => rfl
  | cons r rs ih =>
    simp only [List.mapM_cons]
    cases h0 : readCell r c0 <;> cases h1 : readCell r c1 <;> simp only [readPair, h0, h1]
    · simp
    · simp
    · cases hm0 : rs.mapM (fun r => readCell r c0) <;> simp [hm0]
    · cases hp : rs.mapM (readPair c0 c1) with
      | none =>
        simp only [hp, Option.map_none] at ih
        cases hm0 : rs.mapM (fun r => readCell r c0) with
        | none => simp [hp, hm0]
        | some a =>
          cases hm1 : rs.mapM (fun r => readCell r c1) with
          | none => simp [hp, hm0, hm1]
          | some b => simp [hm0, hm1] at ih
      | some cells =>
        simp only [hp, Option.map_some] at ih
        cases hm0 : rs.mapM (fun r => readCell r c0) with
        | none => simp [hm0] at ih
        | some a =>
          cases hm1 : rs.mapM (fun r => readCell r c1) with
          | none => simp [hm0, hm1] at ih
          | some b =>
            simp only [hm0, hm1, Option.bind_some, Option.some.injEq, List.cons.injEq, and_true] at ih
            simp [hp, hm0, hm1, ih.1, ih.2]

theorem mapM_isSome {β γ : Type} (l : List β) (f : β → Option γ)
    (h : ∀ x ∈ l, (f x).isSome = true) : (l.mapM f).isSome = true := by
  induction l with
  | nil => rfl
  | cons x xs ih =>
    have hx := h x (by simp)
    have hxs := ih (fun y hy => h y (by simp [hy]))
    simp only [List.mapM_cons]
    cases hfx : f x with
    | none => rw [hfx] at hx; cases hx
    | some v =>
      cases hm : xs.mapM f with
      | none => rw [hm] at hxs; cases hxs
      | some vs => rfl

/-- The 1-, 2- and many-column code paths are the same function: the specialised widths and the
`columns` positions they read (`Gen.Kernels.fastWidth*`, `path*Src*`, from the source) are wired as the
general double loop is. -/
theorem paths_agree (rows : List (RowObj α)) (cols : List Nat) : paths rows cols = pathN rows cols := by
  unfold paths
  have h1 : Gen.Kernels.fastWidth1 = 1 := rfl
  have h2 : Gen.Kernels.fastWidth2 = 2 := rfl
  have s1 : Gen.Kernels.path1Src = 0 := rfl
  have s20 : Gen.Kernels.path2Src0 = 0 := rfl
  have s21 : Gen.Kernels.path2Src1 = 1 := rfl
  rw [h1, h2, s1, s20, s21]
  match cols with
  | [] => simp
  | [c0] =>
    simp only [List.length_singleton, if_true, List.getElem?_cons_zero, Option.bind_some, path1, pathN,
      List.mapM_cons, List.mapM_nil]
    cases rows.mapM (fun r => readCell r c0) <;> simp
  | [c0, c1] =>
    simp only [List.length_cons, List.length_nil, Nat.reduceAdd, Nat.succ_ne_self, Nat.reduceEqDiff,
      if_false, if_true, List.getElem?_cons_zero, List.getElem?_cons_succ, path2, pathN,
      List.mapM_cons, List.mapM_nil, mapM_pair]
    cases rows.mapM (fun r => readCell r c0) <;> cases rows.mapM (fun r => readCell r c1) <;> simp
  | _ :: _ :: _ :: _ => simp

/-- All rows are collected unless `0 ≤ limit < len(rows)`: a negative limit or one at or beyond
the row count means all rows. -/
theorem effectiveRows_spec (n : Nat) (limit : Int) :
    (limit < 0 → effectiveRows n limit = n)
    ∧ ((n : Int) ≤ limit → effectiveRows n limit = n)
    ∧ (0 ≤ limit → limit < (n : Int) → effectiveRows n limit = limit.toNat) := by
  have hiff : Gen.Kernels.limitApplies limit n ↔ (limit ≥ 0 ∧ limit < (n : Int)) := by
    unfold Gen.Kernels.limitApplies; omega
  unfold effectiveRows
  refine ⟨?_, ?_, ?_⟩
  · intro h; rw [if_neg (by rw [hiff]; omega)]
  · intro h; rw [if_neg (by rw [hiff]; omega)]
  · intro h1 h2; rw [if_pos (hiff.mpr ⟨h1, h2⟩)]

theorem earlyExit_iff (nrows ncols : Nat) :
    Gen.Kernels.earlyExit nrows ncols ↔ (nrows = 0 ∨ ncols = 0) := by
  unfold Gen.Kernels.earlyExit; omega

theorem badIndex_iff (c w : Int) : Gen.Kernels.badIndex c w ↔ (c < 0 ∨ c ≥ w) := by
  unfold Gen.Kernels.badIndex; omega

theorem any_badIndex_false (cols : List Int) (w : Nat) (hc : ∀ c ∈ cols, 0 ≤ c ∧ c < (w : Int)) :
    cols.any (fun c => decide (Gen.Kernels.badIndex c (w : Int))) = false := by
  rw [List.any_eq_false]
  intro c hcm
  have := hc c hcm
  simp only [decide_eq_true_eq, badIndex_iff]
  omega

/-- **Column collection is the column-major transpose**: for tuple rows all of width `w` and
indexes inside `0..w-1`, `result[i][j] = rows[j][columns[i]]` for the first `limit` rows. -/
theorem collect_spec [Inhabited α] (first : RowObj α) (rest : List (RowObj α)) (cols : List Int)
    (limit : Int) (w : Nat)
    (hw : ∀ r ∈ first :: rest, r.isTuple = true ∧ r.cells.length = w)
    (hc : ∀ c ∈ cols, 0 ≤ c ∧ c < (w : Int)) (hne : cols ≠ []) :
    collect (first :: rest) cols limit =
      .ok (cols.map fun c =>
        ((first :: rest).take (effectiveRows (first :: rest).length limit)).map fun r => r.cells[c.toNat]!) := by
  have hfw : first.cells.length = w := (hw first (by simp)).2
  have hany := any_badIndex_false cols first.cells.length (by rw [hfw]; exact hc)
  have hee : ¬ Gen.Kernels.earlyExit ((first :: rest).length : Nat) (cols.length : Nat) := by
    rw [earlyExit_iff]
    have : cols.length ≠ 0 := by
      cases cols with
      | nil => exact absurd rfl hne
      | cons _ _ => simp
    simp [this]
  simp only [collect, hee, if_false, hany, Bool.false_eq_true, paths_agree]
  have : pathN ((first :: rest).take (effectiveRows (first :: rest).length limit)) (cols.map Int.toNat)
      = some ((cols.map Int.toNat).map fun c =>
          ((first :: rest).take (effectiveRows (first :: rest).length limit)).map fun r => r.cells[c]!) := by
    unfold pathN
    apply Frame.mapM_some
    intro c hcm
    apply Frame.mapM_some
    intro r hr
    have hrm : r ∈ first :: rest := List.mem_of_mem_take hr
    obtain ⟨ht, hl⟩ := hw r hrm
    obtain ⟨c', hc', rfl⟩ := List.mem_map.mp hcm
    have hb := hc c' hc'
    have hlt : c'.toNat < r.cells.length := by omega
    simp [readCell, ht, List.getElem?_eq_getElem hlt, getElem!_pos r.cells c'.toNat hlt]
  rw [this]
  simp [List.map_map, Function.comp_def]

/-- A column index outside `0..width-1` — negative, equal to the width, or larger — raises
`IndexError` (whenever there is anything to collect), and never reads memory. -/
theorem collect_oob_raises (first : RowObj α) (rest : List (RowObj α)) (cols : List Int) (limit : Int)
    (c : Int) (hc : c ∈ cols) (hbad : c < 0 ∨ (first.cells.length : Int) ≤ c) :
    collect (first :: rest) cols limit = .raises "IndexError" := by
  have hee : ¬ Gen.Kernels.earlyExit ((first :: rest).length : Nat) (cols.length : Nat) := by
    rw [earlyExit_iff]
    have : cols.length ≠ 0 := by
      cases cols with
      | nil => cases hc
      | cons _ _ => simp
    simp [this]
  have hany : cols.any (fun c => decide (Gen.Kernels.badIndex c ((first.cells.length : Nat) : Int))) = true := by
    rw [List.any_eq_true]
    refine ⟨c, hc, ?_⟩
    simp only [decide_eq_true_eq, badIndex_iff]
    omega
  simp only [collect, hee, if_false, hany, if_true]

/-- **Safety, partial**: if every collected row is a tuple at least as wide as the first row, no
read leaves a row — whatever the indexes and the limit. -/
theorem collect_safe_partial (rows : List (RowObj α)) (cols : List Int) (limit : Int)
    (h : ∀ first ∈ rows.head?, ∀ r ∈ rows, r.isTuple = true ∧ first.cells.length ≤ r.cells.length) :
    collect rows cols limit ≠ .oob := by
  unfold collect
  by_cases hee : Gen.Kernels.earlyExit (rows.length : Nat) (cols.length : Nat)
  · simp only [hee, if_true]; intro hh; cases hh
  · simp only [hee, if_false]
    cases rows with
    | nil => exact absurd ((earlyExit_iff 0 cols.length).mpr (Or.inl rfl)) hee
    | cons first rest =>
      have hw := h first (by simp)
      simp only
      by_cases hany : cols.any (fun c => decide (Gen.Kernels.badIndex c ((first.cells.length : Nat) : Int))) = true
      · simp only [hany, if_true]; intro hh; cases hh
      · simp only [hany, Bool.false_eq_true, if_false]
        have h1 : cols.any (fun c => decide (Gen.Kernels.badIndex c ((first.cells.length : Nat) : Int))) = false := by
          cases hh : cols.any (fun c => decide (Gen.Kernels.badIndex c ((first.cells.length : Nat) : Int))) with
          | false => rfl
          | true => exact absurd hh hany
        have hin : ∀ c ∈ cols, 0 ≤ c ∧ c < (first.cells.length : Int) := by
          intro c hc
          have := (List.any_eq_false.mp h1) c hc
          simp only [decide_eq_true_eq, badIndex_iff] at this
          omega
        rw [paths_agree]
        have hs : (pathN ((first :: rest).take (effectiveRows (first :: rest).length limit))
            (cols.map Int.toNat)).isSome = true := by
          unfold pathN
          apply mapM_isSome
          intro c hcm
          apply mapM_isSome
          intro r hr
          have hrm : r ∈ first :: rest := List.mem_of_mem_take hr
          obtain ⟨ht, hl⟩ := hw r hrm
          obtain ⟨c', hc', rfl⟩ := List.mem_map.mp hcm
          have hb := hin c' hc'
          have hlt : c'.toNat < r.cells.length := by omega
          simp [readCell, ht, List.getElem?_eq_getElem hlt]
        cases hp : pathN ((first :: rest).take (effectiveRows (first :: rest).length limit)) (cols.map Int.toNat) with
        | none => rw [hp] at hs; cases hs
        | some m => intro hh; cases hh

/-- The full safety statement fails on ragged rows: the width is taken from the first row only,
so index 1 passes the bounds check and is then read from a 1-tuple. -/
theorem collect_ragged_oob :
    collect [⟨true, [10, 11]⟩, ⟨true, [20]⟩] [1] (-1) = (.oob : Outcome Nat) := by decide

/-- …and on rows that are not tuples (the `<tuple>` cast is unchecked). -/
theorem collect_nontuple_oob :
    collect [⟨false, [10, 11]⟩] [0] (-1) = (.oob : Outcome Nat) := by decide

/-- Nothing to collect: no rows, or no columns, gives the empty result without touching a row. -/
theorem collect_empty (rows : List (RowObj α)) (cols : List Int) (limit : Int) :
    collect ([] : List (RowObj α)) cols limit = .ok (cols.map fun _ => [])
    ∧ (rows ≠ [] → collect rows [] limit = .ok []) := by
  refine ⟨?_, ?_⟩
  · have : Gen.Kernels.earlyExit (([] : List (RowObj α)).length : Nat) (cols.length : Nat) :=
      (earlyExit_iff 0 cols.length).mpr (Or.inl rfl)
    simp only [collect, this, if_true]
  · intro _
    have : Gen.Kernels.earlyExit (rows.length : Nat) (([] : List Int).length : Nat) :=
      (earlyExit_iff rows.length 0).mpr (Or.inr rfl)
    simp only [collect, this, if_true, List.map_nil]

theorem widthStep_some (acc w : Nat) : widthStep acc (some w) = if w > acc then w else acc := by
  unfold widthStep Gen.Kernels.widthUpdates
  by_cases h : w > acc
  · have : ((w : Int) > (acc : Int)) := by omega
    simp only [this, if_true, h]
  · have : ¬ ((w : Int) > (acc : Int)) := by omega
    simp only [this, if_false, h]

theorem foldl_width_ge (lens : List (Option Nat)) (acc : Nat) :
    acc ≤ lens.foldl widthStep acc ∧ ∀ w, some w ∈ lens → w ≤ lens.foldl widthStep acc := by
  induction lens generalizing acc with
  | nil => simp
  | cons l ls ih =>
    cases l with
    | none =>
      obtain ⟨h1, h2⟩ := ih acc
      refine ⟨by simpa [widthStep] using h1, ?_⟩
      intro w hw
      simp only [List.mem_cons, reduceCtorEq, false_or] at hw
      simpa [widthStep] using h2 w hw
    | some v =>
      simp only [List.foldl_cons, widthStep_some]
      by_cases hv : v > acc
      · simp only [hv, if_true]
        obtain ⟨h1, h2⟩ := ih v
        refine ⟨by omega, ?_⟩
        intro w hw
        simp only [List.mem_cons, Option.some.injEq] at hw
        rcases hw with rfl | hw
        · exact h1
        · exact h2 w hw
      · simp only [hv, if_false]
        obtain ⟨h1, h2⟩ := ih acc
        refine ⟨h1, ?_⟩
        intro w hw
        simp only [List.mem_cons, Option.some.injEq] at hw
        rcases hw with rfl | hw
        · omega
        · exact h2 w hw

theorem foldl_width_attained (lens : List (Option Nat)) (acc : Nat) :
    lens.foldl widthStep acc = acc ∨ some (lens.foldl widthStep acc) ∈ lens := by
  induction lens generalizing acc with
  | nil => simp
  | cons l ls ih =>
    cases l with
    | none =>
      rcases ih acc with h | h
      · left; simpa [widthStep] using h
      · right; simp only [List.foldl_cons]; exact List.mem_cons_of_mem _ (by simpa [widthStep] using h)
    | some v =>
      simp only [List.foldl_cons, widthStep_some]
      by_cases hv : v > acc
      · simp only [hv, if_true]
        rcases ih v with h | h
        · right; rw [h]; simp
        · right; exact List.mem_cons_of_mem _ h
      · simp only [hv, if_false]
        rcases ih acc with h | h
        · left; exact h
        · right; exact List.mem_cons_of_mem _ h

/-- The display-width helper gives the longest rendered non-null value, but at least four
(`Gen.Kernels.widthFloor`, the constant in the source). -/
theorem dataWidth_spec (lens : List (Option Nat)) :
    4 ≤ dataWidth lens
    ∧ (∀ w, some w ∈ lens → w ≤ dataWidth lens)
    ∧ (dataWidth lens = 4 ∨ some (dataWidth lens) ∈ lens) := by
  have hf : Gen.Kernels.widthFloor = 4 := rfl
  unfold dataWidth
  rw [hf]
  exact ⟨(foldl_width_ge lens 4).1, (foldl_width_ge lens 4).2, foldl_width_attained lens 4⟩

/-- Field extraction gives the dictionary's value, or null, for each requested field in order. -/
theorem extract_spec (null : α) (fields : List String) (d : List (String × α)) :
    (DictRow.extract null fields d).length = fields.length
    ∧ ∀ i : Nat, (DictRow.extract null fields d)[i]? =
        (fields[i]?).map fun f => (DictRow.lookup f d).getD null := by
  refine ⟨by simp [DictRow.extract], ?_⟩
  intro i; simp [DictRow.extract]

/-- **Field extraction is memory-safe and is the plain definition**: with the field count, allocation
size and loop bound the source has now (`Gen.Kernels.extract*`), every `fields[i]` read stays inside
the tuple, every `field_data[i]` write inside the list, and the result is the per-field lookup. -/
theorem extract_safe (null : α) (fields : List String) (d : List (String × α)) :
    extractLoop null fields d = some (DictRow.extract null fields d) := by
  unfold extractLoop Gen.Kernels.extractCount Gen.Kernels.extractBound Gen.Kernels.extractAlloc
  simp only [Int.toNat_natCast]
  rw [CallSites.loop_prefix null fields d fields.length (Nat.le_refl _)]
  simp [DictRow.extract]

/-! ## The kernels as the source has them now, statement by statement (`Gen.KernelFns`)

`harness/extractors/c10_fns.py` translates `collect_cython`, `extract_dict_columns` and `calculate_data_width`
from the working tree's `compiled.pyx` (de-cythonised by `harness/pyxshadow.py`) on every run: every statement,
guard, loop bound, unchecked read and write.  The three theorems below say that these translations *are* the
models the theorems above are about, so `collect_spec`, `collect_oob_raises`, `collect_safe_partial`,
`extract_spec`, `dataWidth_spec` hold of the code as it is now. -/

theorem eff_cast (L : Nat) (limit : Int) :
    (if limit ≥ 0 ∧ limit < (L : Int) then limit else (L : Int)) = ((effectiveRows L limit : Nat) : Int) := by
  obtain ⟨h1, h2, h3⟩ := effectiveRows_spec L limit
  by_cases h : limit ≥ 0 ∧ limit < (L : Int)
  · rw [if_pos h, h3 h.1 h.2]; omega
  · rw [if_neg h]
    by_cases hn : limit < 0
    · rw [h1 hn]
    · rw [h2 (by omega)]

theorem eff_le (L : Nat) (limit : Int) : effectiveRows L limit ≤ L := by
  obtain ⟨h1, h2, h3⟩ := effectiveRows_spec L limit
  by_cases h : limit ≥ 0 ∧ limit < (L : Int)
  · rw [h3 h.1 h.2]; omega
  · by_cases hn : limit < 0
    · rw [h1 hn]; exact Nat.le_refl _
    · rw [h2 (by omega)]; exact Nat.le_refl _

/-- **`collect_cython` as written = the model**, for every input: the early exit, the width taken from the first
row, the limit clamp, the bounds-check loop, and each of the three write paths (one column, two columns, the
general nest) with its unchecked reads `rows[i]`, `columns[j]`, `tuple_row[c]` and writes `result[j, i]`:
same value, same exception, and a read outside an object (`oob`) on exactly the same inputs. -/
theorem generated_collect_eq_model (null : α) (rows : List (RowObj α)) (cols : List Int) (limit : Int) :
    toOutcome (Gen.KernelFns.collect_cython null rows cols limit) = collect rows cols limit := by
  unfold Gen.KernelFns.collect_cython collect
  simp only [len_list]
  by_cases hee : ((rows.length : Int) = 0 ∨ (cols.length : Int) = 0)
  · have hee' : Gen.Kernels.earlyExit (rows.length : Nat) (cols.length : Nat) :=
      (earlyExit_iff rows.length cols.length).mpr (by omega)
    rw [if_pos hee, if_pos hee']
    show Outcome.ok (npEmpty null (cols.length : Int) (rows.length : Int)) = _
    congr 1
    unfold npEmpty
    rcases hee with h | h
    · have : rows.length = 0 := by omega
      simp [this, List.map_const']
    · have : cols = [] := List.length_eq_zero_iff.mp (by omega)
      subst this; simp
  · have hee' : ¬ Gen.Kernels.earlyExit (rows.length : Nat) (cols.length : Nat) := by
      rw [earlyExit_iff]; omega
    rw [if_neg hee, if_neg hee']
    cases rows with
    | nil => simp at hee
    | cons first rest =>
      rw [uget_cons_zero]
      simp only [eff_cast, len_row]
      show toOutcome ((forRange (cols.length : Int) () fun (_ : Unit) j => (uget cols j) >>= fun col_idx =>
          if col_idx < 0 ∨ col_idx ≥ (first.cells.length : Int) then (throw (Fault.raises "IndexError") : K Unit) else pure ()) >>= _) = _
      rw [check_loop (fun c => c < 0 ∨ c ≥ (first.cells.length : Int))]
      have hbad : (cols.any fun c => decide (Gen.Kernels.badIndex c (first.cells.length : Int)))
          = (cols.any fun c => decide (c < 0 ∨ c ≥ (first.cells.length : Int))) := by
        have hf : (fun c => decide (Gen.Kernels.badIndex c (first.cells.length : Int)))
            = (fun c => decide (c < 0 ∨ c ≥ (first.cells.length : Int))) := by
          funext c; exact decide_eq_decide.mpr (badIndex_iff c _)
        rw [hf]
      simp only [hbad]
      by_cases hany : (cols.any fun c => decide (c < 0 ∨ c ≥ (first.cells.length : Int))) = true
      · rw [if_pos hany, if_pos hany]; rfl
      · rw [if_neg hany, if_neg hany, paths_agree]
        have hc : ∀ c ∈ cols, 0 ≤ c := by
          intro c hcm
          have h1 : (cols.any fun c => decide (c < 0 ∨ c ≥ (first.cells.length : Int))) = false := by
            cases h : (cols.any fun c => decide (c < 0 ∨ c ≥ (first.cells.length : Int))) with
            | false => rfl
            | true => exact absurd h hany
          have := (List.any_eq_false.mp h1) c hcm
          simp only [decide_eq_true_eq] at this
          omega
        have hn := eff_le (first :: rest).length limit
        show toOutcome (if (cols.length : Int) = 1 then _ else _) = _
        match cols, hee, hc with
        | [], hee, _ => simp at hee
        | [c0], _, hc =>
          have h0 : 0 ≤ c0 := hc c0 (by simp)
          rw [if_pos (by simp), uget_cons_zero, ok_bind]
          rw [write_one null (first :: rest) c0 h0 _ hn]
          generalize pathN _ _ = o
          cases o <;> rfl
        | [c0, c1], _, hc =>
          have h0 : 0 ≤ c0 := hc c0 (by simp)
          have h1 : 0 ≤ c1 := hc c1 (by simp)
          rw [if_neg (by simp), if_pos (by simp), uget_cons_zero, uget_cons_one, ok_bind, ok_bind]
          rw [write_two null (first :: rest) c0 c1 h0 h1 _ hn]
          generalize pathN _ _ = o
          cases o <;> rfl
        | c0 :: c1 :: c2 :: cs, _, hc =>
          rw [if_neg (by simp only [List.length_cons]; omega), if_neg (by simp only [List.length_cons]; omega)]
          rw [write_general null (first :: rest) (c0 :: c1 :: c2 :: cs) hc _ hn]
          generalize pathN _ _ = o
          cases o <;> rfl

/-- **`extract_dict_columns` as written** never leaves the field tuple or the list it allocates, and returns the
dictionary's value, or null, for each requested field in order. -/
theorem generated_extract_spec (null : α) (d : List (String × α)) (fields : List String) :
    Gen.KernelFns.extract_dict_columns null d fields = .ok (DictRow.extract null fields d) := by
  unfold Gen.KernelFns.extract_dict_columns
  simp only [len_list]
  rw [forRange_uget fields fields.length (Nat.le_refl _), List.take_length]
  have hpre : pyRepeat null (fields.length : Int) = ([] : List α) ++ List.replicate fields.length null := by
    simp [pyRepeat]
  rw [hpre]
  show (fields.zipIdx ([] : List α).length).foldlM _ _ = _
  rw [fill_list null (fun f => (DictRow.lookup f d).getD null) _ ?_ fields []]
  · simp [DictRow.extract]
  · intro s p
    cases DictRow.lookup p.1 d <;> rfl


/-- …which is the hand-written loop of `Model/Kernels.lean`. -/
theorem generated_extract_eq_model (null : α) (d : List (String × α)) (fields : List String) :
    Gen.KernelFns.extract_dict_columns null d fields = ofOpt (extractLoop null fields d) := by
  rw [generated_extract_spec, extract_safe]; rfl

/-- **`calculate_data_width` as written = the model**: the floor, the null test, the update test. -/
theorem generated_width_eq_model (strLen : α → Nat) (vals : List (Option α)) :
    Gen.KernelFns.calculate_data_width strLen vals = .ok ((dataWidth (vals.map (Option.map strLen)) : Nat) : Int) := by
  unfold Gen.KernelFns.calculate_data_width dataWidth forEach
  have hf : ((4 : Int)) = ((Gen.Kernels.widthFloor : Nat) : Int) := rfl
  rw [hf]
  apply width_fold strLen
  intro acc v
  cases v with
  | none => rfl
  | some x =>
    simp only [Option.map_some, widthStep_some]
    show (Except.ok (if ((strLen x : Nat) : Int) > (acc : Int) then ((strLen x : Nat) : Int) else (acc : Int)) : K Int) = _
    by_cases h : strLen x > acc
    · have : ((strLen x : Nat) : Int) > (acc : Int) := by omega
      rw [if_pos this, if_pos h]
    · have : ¬ (((strLen x : Nat) : Int) > (acc : Int)) := by omega
      rw [if_neg this, if_neg h]


/-- The statement of the property for `collect_cython` as written: `result[i][j] = rows[j][columns[i]]` for the
first `limit` rows. -/
theorem generated_collect_spec [Inhabited α] (null : α) (first : RowObj α) (rest : List (RowObj α)) (cols : List Int)
    (limit : Int) (w : Nat)
    (hw : ∀ r ∈ first :: rest, r.isTuple = true ∧ r.cells.length = w)
    (hc : ∀ c ∈ cols, 0 ≤ c ∧ c < (w : Int)) (hne : cols ≠ []) :
    Gen.KernelFns.collect_cython null (first :: rest) cols limit =
      .ok (cols.map fun c =>
        ((first :: rest).take (effectiveRows (first :: rest).length limit)).map fun r => r.cells[c.toNat]!) := by
  have h := generated_collect_eq_model null (first :: rest) cols limit
  rw [collect_spec first rest cols limit w hw hc hne] at h
  cases hx : Gen.KernelFns.collect_cython null (first :: rest) cols limit with
  | ok m => rw [hx] at h; simp only [toOutcome, Outcome.ok.injEq] at h; rw [h]
  | error f => rw [hx] at h; cases f <;> simp [toOutcome] at h

/-- …a column index outside `0..width-1` raises `IndexError` in the code as written… -/
theorem generated_collect_oob_raises (null : α) (first : RowObj α) (rest : List (RowObj α)) (cols : List Int)
    (limit : Int) (c : Int) (hc : c ∈ cols) (hbad : c < 0 ∨ (first.cells.length : Int) ≤ c) :
    Gen.KernelFns.collect_cython null (first :: rest) cols limit = .error (.raises "IndexError") := by
  have h := generated_collect_eq_model null (first :: rest) cols limit
  rw [collect_oob_raises first rest cols limit c hc hbad] at h
  cases hx : Gen.KernelFns.collect_cython null (first :: rest) cols limit with
  | ok m => rw [hx] at h; simp [toOutcome] at h
  | error f =>
    rw [hx] at h
    cases f with
    | raises cls => simp only [toOutcome, Outcome.raises.injEq] at h; rw [h]
    | oob => simp [toOutcome] at h

/-- …and no read or write of the code as written leaves an object when every collected row is a tuple at least
as wide as the first (the full statement is false: `collect_ragged_oob`, `collect_nontuple_oob`). -/
theorem generated_collect_safe_partial (null : α) (rows : List (RowObj α)) (cols : List Int) (limit : Int)
    (h : ∀ first ∈ rows.head?, ∀ r ∈ rows, r.isTuple = true ∧ first.cells.length ≤ r.cells.length) :
    Gen.KernelFns.collect_cython null rows cols limit ≠ .error .oob := by
  intro hx
  have he := generated_collect_eq_model null rows cols limit
  rw [hx] at he
  exact collect_safe_partial rows cols limit h he.symm

/-- The counterexamples, on the code as written. -/
theorem generated_collect_unsafe :
    Gen.KernelFns.collect_cython 0 [⟨true, [10, 11]⟩, ⟨true, [20]⟩] [1] (-1) = (.error .oob : K (List (List Nat)))
    ∧ Gen.KernelFns.collect_cython 0 [⟨false, [10, 11]⟩] [0] (-1) = (.error .oob : K (List (List Nat))) := by
  decide

/-- **Exactly when the collector reads outside a row**: there is something to collect, every requested index passes
the one-time check against the *first* row's width, and among the rows that are collected there is one that is not
a tuple or is too short for a requested index. -/
theorem collect_oob_iff (rows : List (RowObj α)) (cols : List Int) (limit : Int) :
    collect rows cols limit = .oob ↔
      ∃ first rest, rows = first :: rest ∧ cols ≠ [] ∧ (∀ c ∈ cols, 0 ≤ c ∧ c < (first.cells.length : Int))
        ∧ ∃ r ∈ rows.take (effectiveRows rows.length limit),
            (r.isTuple = false ∨ ∃ c ∈ cols, (r.cells.length : Int) ≤ c) := by
  unfold collect
  by_cases hee : Gen.Kernels.earlyExit (rows.length : Nat) (cols.length : Nat)
  · rw [if_pos hee]
    have h0 := (earlyExit_iff rows.length cols.length).mp hee
    constructor
    · intro h; cases h
    · rintro ⟨first, rest, hr, hne, _⟩
      subst hr
      rcases h0 with h | h
      · simp at h
      · exact absurd (List.length_eq_zero_iff.mp h) hne
  · rw [if_neg hee]
    have h0 : ¬ (rows.length = 0 ∨ cols.length = 0) := fun h => hee ((earlyExit_iff _ _).mpr h)
    cases rows with
    | nil => simp at h0
    | cons first rest =>
      have hne : cols ≠ [] := by intro h; subst h; simp at h0
      simp only
      by_cases hany : cols.any (fun c => decide (Gen.Kernels.badIndex c ((first.cells.length : Nat) : Int))) = true
      · rw [if_pos hany]
        constructor
        · intro h; cases h
        · rintro ⟨f, r, hr, _, hin, _⟩
          obtain ⟨rfl, rfl⟩ := List.cons.inj hr
          obtain ⟨c, hc, hb⟩ := List.any_eq_true.mp hany
          simp only [decide_eq_true_eq, badIndex_iff] at hb
          have := hin c hc
          omega
      · rw [if_neg hany, paths_agree]
        have hin : ∀ c ∈ cols, 0 ≤ c ∧ c < (first.cells.length : Int) := by
          intro c hc
          have h1 : cols.any (fun c => decide (Gen.Kernels.badIndex c ((first.cells.length : Nat) : Int))) = false := by
            cases h : cols.any (fun c => decide (Gen.Kernels.badIndex c ((first.cells.length : Nat) : Int))) with
            | false => rfl
            | true => exact absurd h hany
          have := (List.any_eq_false.mp h1) c hc
          simp only [decide_eq_true_eq, badIndex_iff] at this
          omega
        constructor
        · intro h
          cases hp : pathN ((first :: rest).take (effectiveRows (first :: rest).length limit)) (cols.map Int.toNat) with
          | some m => rw [hp] at h; cases h
          | none =>
            obtain ⟨r, hr, c, hc, hbad⟩ := (pathN_none_iff _ _).mp hp
            obtain ⟨c', hc', rfl⟩ := List.mem_map.mp hc
            refine ⟨first, rest, rfl, hne, hin, r, hr, ?_⟩
            rcases hbad with hb | hb
            · exact Or.inl hb
            · exact Or.inr ⟨c', hc', by have := hin c' hc'; omega⟩
        · rintro ⟨f, r0, hr, _, _, r, hr', hbad⟩
          obtain ⟨rfl, rfl⟩ := List.cons.inj hr
          have : pathN ((first :: rest).take (effectiveRows (first :: rest).length limit)) (cols.map Int.toNat) = none := by
            rw [pathN_none_iff]
            rcases hbad with hb | ⟨c, hc, hb⟩
            · obtain ⟨c, hc⟩ := List.exists_mem_of_ne_nil cols hne
              exact ⟨r, hr', c.toNat, List.mem_map.mpr ⟨c, hc, rfl⟩, Or.inl hb⟩
            · exact ⟨r, hr', c.toNat, List.mem_map.mpr ⟨c, hc, rfl⟩, Or.inr (by have := hin c hc; omega)⟩
          rw [this]

/-- …and so for `collect_cython` as written. -/
theorem generated_collect_oob_iff (null : α) (rows : List (RowObj α)) (cols : List Int) (limit : Int) :
    Gen.KernelFns.collect_cython null rows cols limit = .error .oob ↔
      ∃ first rest, rows = first :: rest ∧ cols ≠ [] ∧ (∀ c ∈ cols, 0 ≤ c ∧ c < (first.cells.length : Int))
        ∧ ∃ r ∈ rows.take (effectiveRows rows.length limit),
            (r.isTuple = false ∨ ∃ c ∈ cols, (r.cells.length : Int) ≤ c) := by
  rw [← collect_oob_iff, ← generated_collect_eq_model null rows cols limit]
  cases Gen.KernelFns.collect_cython null rows cols limit with
  | ok m => simp [toOutcome]
  | error f => cases f <;> simp [toOutcome]

/-- The display-width helper as written gives the longest rendered non-null value, but at least four. -/
theorem generated_width_spec (strLen : α → Nat) (vals : List (Option α)) :
    ∃ w : Nat, Gen.KernelFns.calculate_data_width strLen vals = .ok (w : Int)
      ∧ 4 ≤ w ∧ (∀ v, some v ∈ vals → strLen v ≤ w) ∧ (w = 4 ∨ ∃ v, some v ∈ vals ∧ strLen v = w) := by
  refine ⟨dataWidth (vals.map (Option.map strLen)), generated_width_eq_model strLen vals, ?_⟩
  obtain ⟨h1, h2, h3⟩ := dataWidth_spec (vals.map (Option.map strLen))
  refine ⟨h1, ?_, ?_⟩
  · intro v hv
    exact h2 (strLen v) (List.mem_map.mpr ⟨some v, hv, rfl⟩)
  · rcases h3 with h | h
    · exact Or.inl h
    · right
      obtain ⟨o, ho, hm⟩ := List.mem_map.mp h
      cases o with
      | none => simp at hm
      | some v => exact ⟨v, ho, by simpa using hm⟩

example : Gen.KernelFns.collect_cython 0 [⟨true, [1, 2, 3]⟩, ⟨true, [4, 5, 6]⟩, ⟨true, [7, 8, 9]⟩] [2, 0] 2
    = (.ok [[3, 6], [1, 4]] : K (List (List Nat))) := by decide
example : Gen.KernelFns.extract_dict_columns 0 [("z", 3), ("x", 1)] ["x", "y", "z"] = (.ok [1, 0, 3] : K (List Nat)) := by decide
example : Gen.KernelFns.calculate_data_width (fun (n : Nat) => n) [some 2, none, some 7] = .ok 7 := by decide

/-- Non-vacuity. -/
example : collect [⟨true, [1, 2, 3]⟩, ⟨true, [4, 5, 6]⟩, ⟨true, [7, 8, 9]⟩] [2, 0] 2
    = (.ok [[3, 6], [1, 4]] : Outcome Nat) := by decide
example : collect [⟨true, [1, 2]⟩] [2] 0 = (.raises "IndexError" : Outcome Nat) ∧
    collect [⟨true, [1, 2]⟩] [-1] 5 = (.raises "IndexError" : Outcome Nat) := by decide
example : dataWidth [some 2, none, some 7, some 5] = 7 ∧ dataWidth [some 1, none] = 4 := by decide

/-! ## The Python call sites (`DataFrame.collect`, `Row.__new__`, `ascii_table`) -/

/-- What the limit must be when it reaches the kernel. -/
def limitOk (n : Nat) (limit : Option Int) : Option Int → Prop
  | some l => FitsC (Gen.CallSites.kernelLimit l)
      ∧ effectiveRows n (Gen.CallSites.kernelLimit l) = specRows n limit
  | none => False

/-- **Limit normalisation at the call site**: whatever limit the caller of `DataFrame.collect` passes —
`None`, negative, zero, inside, at or beyond the row count, beyond a C `int` — the value that reaches
`collect_cython` (through the generated `limitSteps` and `kernelLimit`) fits a C `int` and makes the
kernel collect exactly the rows of the plain-Python definition (`specRows`). -/
theorem norm_limit_spec (n : Nat) (hn : (n : Int) < 2147483648) (limit : Option Int) :
    limitOk n limit (normLimit limit n) := by
  have hiff : ∀ l : Int, Gen.Kernels.limitApplies l n ↔ (l ≥ 0 ∧ l < (n : Int)) := by
    intro l; unfold Gen.Kernels.limitApplies; omega
  -- every `if` is decided by linear arithmetic in each of the cases below, whatever shape the
  -- generated guards have
  cases limit with
  | none =>
    rcases Nat.eq_zero_or_pos n with h0 | h0 <;>
      (try simp [normLimit, applyLimitStep]) <;>
      (repeat (first | rw [if_pos (by omega)] | rw [if_neg (by omega)])) <;>
      (try simp [limitOk, effectiveRows, specRows, FitsC, hiff]) <;>
      (repeat (first | rw [if_pos (by omega)] | rw [if_neg (by omega)])) <;>
      (try dsimp only) <;>
      (repeat (first | rw [if_pos (by omega)] | rw [if_neg (by omega)])) <;>
      (try omega)
  | some l =>
    rcases Int.lt_trichotomy l 0 with h1 | h1 | h1 <;> rcases Int.lt_trichotomy l n with h2 | h2 | h2 <;>
      (try simp [normLimit, applyLimitStep]) <;>
      (repeat (first | rw [if_pos (by omega)] | rw [if_neg (by omega)])) <;>
      (try simp [limitOk, effectiveRows, specRows, FitsC, hiff]) <;>
      (repeat (first | rw [if_pos (by omega)] | rw [if_neg (by omega)])) <;>
      (try dsimp only) <;>
      (repeat (first | rw [if_pos (by omega)] | rw [if_neg (by omega)])) <;>
      (try omega)

theorem public_collect_spec [Inhabited α] (names : List String) (first : RowObj α) (rest : List (RowObj α))
    (cols : List ColRef) (idxs : List Int) (limit : Option Int) (w : Nat)
    (hn : (((first :: rest).length : Nat) : Int) < 2147483648) (hw32 : (w : Int) ≤ 2147483648)
    (hw : ∀ r ∈ first :: rest, r.isTuple = true ∧ r.cells.length = w)
    (hres : cols.mapM (resolve names) = some idxs)
    (hc : ∀ c ∈ idxs, 0 ≤ c ∧ c < (w : Int)) (hne : cols ≠ []) :
    publicCollect names (first :: rest) cols false limit =
      .many (idxs.map fun c =>
        ((first :: rest).take (specRows (first :: rest).length limit)).map fun r => r.cells[c.toNat]!) := by
  have hlen := mapM_length _ cols idxs hres
  have hine : idxs ≠ [] := by
    intro h; rw [h] at hlen; exact hne (List.length_eq_zero_iff.mp hlen.symm)
  have hok := norm_limit_spec (first :: rest).length hn limit
  have hconv : Gen.CallSites.indexConvChecked = true := rfl
  unfold publicCollect publicCollectWith
  rw [hres]
  simp only [hconv, fits_any_false idxs w hw32 hc, Bool.false_eq_true, and_false, if_false, if_true]
  cases hnl : normLimit limit (first :: rest).length with
  | none => rw [hnl] at hok; exact absurd hok (by simp [limitOk])
  | some l =>
    rw [hnl] at hok
    obtain ⟨hf, he⟩ := hok
    simp only [hf, not_true_eq_false, if_false]
    rw [collect_spec first rest idxs _ w hw hc hine, he]

/-- A single column (by index or by name): the column itself, not a one-row matrix. -/
theorem public_collect_single_spec [Inhabited α] (names : List String) (first : RowObj α)
    (rest : List (RowObj α)) (c : ColRef) (i : Int) (limit : Option Int) (w : Nat)
    (hn : (((first :: rest).length : Nat) : Int) < 2147483648) (hw32 : (w : Int) ≤ 2147483648)
    (hw : ∀ r ∈ first :: rest, r.isTuple = true ∧ r.cells.length = w)
    (hres : resolve names c = some i) (hc : 0 ≤ i ∧ i < (w : Int)) :
    publicCollect names (first :: rest) [c] true limit =
      .one (((first :: rest).take (specRows (first :: rest).length limit)).map fun r => r.cells[i.toNat]!) := by
  have hres' : [c].mapM (resolve names) = some [i] := by simp [hres]
  have hc' : ∀ x ∈ [i], 0 ≤ x ∧ x < (w : Int) := by intro x hx; simp at hx; subst hx; exact hc
  have hok := norm_limit_spec (first :: rest).length hn limit
  have hconv : Gen.CallSites.indexConvChecked = true := rfl
  unfold publicCollect publicCollectWith
  rw [hres']
  simp only [hconv, fits_any_false [i] w hw32 hc', Bool.false_eq_true, and_false, if_false, if_true]
  cases hnl : normLimit limit (first :: rest).length with
  | none => rw [hnl] at hok; exact absurd hok (by simp [limitOk])
  | some l =>
    rw [hnl] at hok
    obtain ⟨hf, he⟩ := hok
    simp only [hf, not_true_eq_false, if_false]
    rw [collect_spec first rest [i] _ w hw hc' (by simp), he]
    simp

/-- A frame without rows: every request gives empty columns (nothing is read). -/
theorem public_collect_empty (names : List String) (cols : List ColRef) (idxs : List Int)
    (limit : Option Int) (hres : cols.mapM (resolve names) = some idxs)
    (hfit : ∀ c ∈ idxs, FitsC c) :
    publicCollect names ([] : List (RowObj α)) cols false limit = .many (idxs.map fun _ => []) := by
  have hok := norm_limit_spec 0 (by decide) limit
  have hany : idxs.any (fun i => decide (¬ FitsC i)) = false := by
    rw [List.any_eq_false]; intro c hcm; simp [hfit c hcm]
  have hconv : Gen.CallSites.indexConvChecked = true := rfl
  unfold publicCollect publicCollectWith
  rw [hres]
  simp only [hconv, hany, Bool.false_eq_true, and_false, if_false, if_true, List.length_nil]
  cases hnl : normLimit limit 0 with
  | none => rw [hnl] at hok; exact absurd hok (by simp [limitOk])
  | some l =>
    rw [hnl] at hok
    obtain ⟨hf, _⟩ := hok
    simp only [hf, not_true_eq_false, if_false, (collect_empty ([] : List (RowObj α)) idxs _).1]

/-- A resolved index outside `0..width-1` raises a Python exception through the public call as
well (whenever there is a row), for every limit. -/
theorem public_collect_bad_index_raises (names : List String) (first : RowObj α)
    (rest : List (RowObj α)) (cols : List ColRef) (idxs : List Int) (single : Bool) (limit : Option Int)
    (hn : (((first :: rest).length : Nat) : Int) < 2147483648)
    (hres : cols.mapM (resolve names) = some idxs)
    (c : Int) (hc : c ∈ idxs) (hbad : c < 0 ∨ (first.cells.length : Int) ≤ c) :
    ∃ cls, publicCollect names (first :: rest) cols single limit = .raises cls := by
  have hok := norm_limit_spec (first :: rest).length hn limit
  have hconv : Gen.CallSites.indexConvChecked = true := rfl
  unfold publicCollect publicCollectWith
  rw [hres]
  by_cases hany : idxs.any (fun i => decide (¬ FitsC i)) = true
  · exact ⟨"OverflowError", by simp only [hconv, hany, and_self, if_true]⟩
  · simp only [hconv, hany, Bool.false_eq_true, and_false, if_false, if_true]
    cases hnl : normLimit limit (first :: rest).length with
    | none => rw [hnl] at hok; exact absurd hok (by simp [limitOk])
    | some l =>
      rw [hnl] at hok
      obtain ⟨hf, _⟩ := hok
      simp only [hf, not_true_eq_false, if_false, collect_oob_raises first rest idxs _ c hc hbad]
      exact ⟨_, rfl⟩

/-- A column name that the frame does not have raises (`tuple.index`), and a name it has resolves
to the first column of that name. -/
theorem public_collect_names (names : List String) (s : String) :
    (s ∉ names → ∀ (rows : List (RowObj α)) (pre post : List ColRef) (single : Bool) (limit : Option Int),
        publicCollect names rows (pre ++ .name s :: post) single limit = .raises "ValueError")
    ∧ (∀ k : Int, resolve names (.name s) = some k →
        0 ≤ k ∧ names[k.toNat]? = some s ∧ ∀ j, j < k.toNat → names[j]? ≠ some s) := by
  refine ⟨?_, ?_⟩
  · intro hs rows pre post single limit
    have hnone : DictRow.indexOf names s = none := by
      cases h : DictRow.indexOf names s with
      | none => rfl
      | some k => exact absurd (List.mem_of_getElem? (indexOf_spec names s k h).1) hs
    have : (pre ++ ColRef.name s :: post).mapM (resolve names) = none := by
      induction pre with
      | nil => simp [resolve, hnone]
      | cons p ps ih => simp only [List.cons_append, List.mapM_cons, ih]; cases resolve names p <;> rfl
    unfold publicCollect publicCollectWith
    rw [this]
  · intro k hk
    simp only [resolve, Option.map_eq_some_iff] at hk
    obtain ⟨k', hk', rfl⟩ := hk
    have := indexOf_spec names s k' hk'
    exact ⟨by simp, by simpa using this.1, by simpa using this.2⟩

/-- Why the conversion has to reject: with a conversion that wraps (`.astype(numpy.int32)`), position `2**32` of
a one-column frame is answered with column 0's data instead of an exception. -/
theorem wrapping_conversion_counterexample :
    publicCollectWith false ["a"] [⟨true, [7]⟩, ⟨true, [8]⟩] [.idx 4294967296] true none = (.one [7, 8] : PubOutcome Nat)
    ∧ publicCollectWith true ["a"] [⟨true, [7]⟩, ⟨true, [8]⟩] [.idx 4294967296] true none
        = (.raises "OverflowError" : PubOutcome Nat) := by
  decide

/-- The statements of `Row.__new__` in front of the dictionary test, that test, and the statements between it and the
helper call (as the source has them now, `Gen.DictGlue.rowPre` / `rowGuard` / `rowPrepare`): every dictionary-like
argument -- an exact `dict`, an instance of a subclass, a `Mapping` that is no dict (UserDict, ChainMap,
MappingProxyType, a class of the caller's) -- passes the test, and the helper is handed an exact `dict` in which every
field name finds what it finds in the caller's mapping, whatever the keys of that mapping are (numbers, `None`, bytes,
tuples, instances of `str` subclasses next to or instead of text). -/
theorem row_prepare_keeps_dictionary (d : PyDict α) :
    Gen.DictGlue.rowGuard (Gen.DictGlue.rowPre d) = true
    ∧ (Gen.DictGlue.rowPrepare (Gen.DictGlue.rowPre d)).exact = true
    ∧ ∀ f, (Gen.DictGlue.rowPrepare (Gen.DictGlue.rowPre d)).get f = d.get f := by
  obtain ⟨e, i, m, items⟩ := d
  cases e <;> cases i <;>
    simp [Gen.DictGlue.rowPre, Gen.DictGlue.rowGuard, Gen.DictGlue.rowPrepare, PyDict.copy, PyDict.get]

/-- Any glue that brings the argument past the dictionary test, hands the helper an exact `dict` and keeps what each
field name finds builds the row of the definition. -/
theorem row_glue_sound (pre : PyDict α → PyDict α) (guard : PyDict α → Bool) (prepare : PyDict α → PyDict α) (null : α)
    (fields : List String) (d : PyDict α) (hg : guard (pre d) = true) (he : (prepare (pre d)).exact = true)
    (hp : ∀ f, (prepare (pre d)).get f = d.get f) :
    rowNewOf pre guard prepare null (createClass fields false) (.dict d)
      = some (fields.map fun f => (d.get f).getD null) := by
  unfold rowNewOf
  simp only [createClass, hg, he, Bool.false_eq_true, if_false, if_true, DictRow.extract]
  congr 1
  apply List.map_congr_left
  intro f _
  rw [lookup_helperView]
  exact congrArg (fun o => o.getD null) (hp f)

/-- **Field extraction through the caller, for arbitrary dictionaries**: a row built from a dictionary -- or from any
other `Mapping` -- through a class made by `Row.create_class(fields)` is `tuple(data.get(field) for field in fields)`
-- the value stored under the field name *as text*, or null; a key that is not text (`1`, `None`, `True`, `b'a'`, a
tuple, an instance of a `str` subclass with its own `__eq__`) is never mistaken for the field its `str()` spells, and a
mapping that is no dict never gives a row of its keys.  About the statements and the guard of the source as it is now. -/
theorem row_from_dict_is_get_per_field (null : α) (fields : List String) (d : PyDict α) :
    rowNew null (createClass fields false) (.dict d) = some (fields.map fun f => (d.get f).getD null) :=
  row_glue_sound _ _ _ null fields d (row_prepare_keeps_dictionary d).1 (row_prepare_keeps_dictionary d).2.1
    (row_prepare_keeps_dictionary d).2.2

/-- Non-vacuity: `{1: 20, '1': 10, None: 30}` through a class with the fields `'1'`, `'None'`, `'x'`, as a dict and as a
UserDict. -/
example : rowNew 0 (createClass ["1", "None", "x"] false)
    (.dict ⟨true, true, true, [(⟨.other 0, false, false, "1"⟩, 20), (PyKey.ofStr "1", 10), (⟨.other 1, false, false, "None"⟩, 30)]⟩) = some [10, 0, 0] := by decide
example : rowNew 0 (createClass ["1", "None", "x"] false)
    (.dict ⟨false, false, true, [(⟨.other 0, false, false, "1"⟩, 20), (PyKey.ofStr "1", 10), (⟨.other 1, false, false, "None"⟩, 30)]⟩) = some [10, 0, 0] := by decide

/-- The same for a mapping keyed by text only (exact `dict`, an instance of a subclass, or a Mapping that is no dict),
in the vocabulary of the kernel theorems -- and a row built from a tuple is that tuple. -/
theorem row_from_dict_spec (null : α) (fields : List String) (d : List (String × α)) (t : List α) (exact isDict mutable : Bool) :
    rowNew null (createClass fields false) (.dict ⟨exact, isDict, mutable, ofTextItems d⟩)
      = some (fields.map fun f => (DictRow.lookup f d).getD null)
    ∧ ∀ b, rowNew null (createClass fields b) (.tuple t) = some t := by
  refine ⟨?_, fun _ => rfl⟩
  rw [row_from_dict_is_get_per_field]
  congr 1
  apply List.map_congr_left
  intro f _
  simp only [PyDict.get]
  rw [← lookup_helperView, helperView_ofTextItems]

/-- …and through the helper as written: the row is what `extract_dict_columns` (statement by statement from the
`.pyx`) returns on the helper's view of the prepared dictionary. -/
theorem row_from_dict_through_generated_helper (null : α) (fields : List String) (d : PyDict α) :
    (Gen.KernelFns.extract_dict_columns null (helperView (Gen.DictGlue.rowPrepare (Gen.DictGlue.rowPre d)).items) fields).toOption
      = rowNew null (createClass fields false) (.dict d) := by
  rw [generated_extract_spec]
  have h := row_prepare_keeps_dictionary d
  simp [rowNew, rowNewOf, createClass, h.1, h.2.1, Except.toOption]

/-- **The second layer, `DataFrame.append(dict)`**: the statements of `append` that rebind the entry before it reaches
the row factory (as the source has them now, `Gen.DictGlue.appendPrepare`) followed by `Row.__new__` store
`tuple(entry.get(f) for f in fields)` -- for every mapping, keys of any kind. -/
theorem append_from_dict_is_get_per_field (null : α) (fields : List String) (d : PyDict α) :
    rowNew null (createClass fields false) (.dict (Gen.DictGlue.appendPrepare d))
      = some (fields.map fun f => (d.get f).getD null) := by
  rw [row_from_dict_is_get_per_field]
  congr 1
  apply List.map_congr_left
  intro f _
  obtain ⟨e, i, m, items⟩ := d
  cases e <;> cases m <;> simp [Gen.DictGlue.appendPrepare, PyDict.copy, PyDict.get]

/-- Why both halves of the guard are needed: a test that admits exact dictionaries only (`type(data) is dict`), or
one that admits subclasses but hands them to the helper uncopied, does not extract an `OrderedDict`. -/
theorem row_guard_counterexample :
    rowNewOf mappingStep (fun d => d.exact) copyStep (0 : Nat) (createClass ["a"] false) (.dict ⟨false, true, true, [(PyKey.ofStr "a", 1)]⟩) = none
    ∧ rowNewOf mappingStep (fun d => d.isDict) id (0 : Nat) (createClass ["a"] false) (.dict ⟨false, true, true, [(PyKey.ofStr "a", 1)]⟩) = none
    ∧ rowNewOf mappingStep (fun d => d.isDict) copyStep (0 : Nat) (createClass ["a"] false) (.dict ⟨false, true, true, [(PyKey.ofStr "a", 1)]⟩) = some [1] := by
  decide

/-- Why a Mapping that is no dict is copied into one in front of the dictionary test: without that step a `UserDict`
(a `ChainMap`, a `MappingProxyType`) does not pass `isinstance(data, dict)` and the row is made of its keys; with it the
row is the extraction. -/
theorem row_mapping_counterexample :
    rowNewOf id (fun d => d.isDict) copyStep (0 : Nat) (createClass ["a", "b"] false)
        (.dict ⟨false, false, true, [(PyKey.ofStr "b", 2), (PyKey.ofStr "a", 1)]⟩) = none
    ∧ rowNewOf mappingStep (fun d => d.isDict) copyStep (0 : Nat) (createClass ["a", "b"] false)
        (.dict ⟨false, false, true, [(PyKey.ofStr "b", 2), (PyKey.ofStr "a", 1)]⟩) = some [1, 2] := by
  decide

/-- Why the dictionary must reach the helper with the keys the caller gave: with a step that re-keys a record by the
text of its keys (`{str(key): value for …}` whenever some key is not an exact `str`), `{'1': 10, 1: 20}` gives the
field `'1'` the value stored under the *number* (20; the definition: 10), and `{1: 20}` gives it 20 instead of null
-- while a dictionary keyed by text only (everything a test-suite feeds) never shows the step. -/
theorem rekey_counterexample :
    rowNewOf mappingStep (fun d => d.isDict) (fun d => rekeyStep (copyStep d)) (0 : Nat) (createClass ["1"] false)
        (.dict ⟨true, true, true, [(PyKey.ofStr "1", 10), (⟨.other 0, false, false, "1"⟩, 20)]⟩) = some [20]
    ∧ rowNewOf mappingStep (fun d => d.isDict) copyStep (0 : Nat) (createClass ["1"] false)
        (.dict ⟨true, true, true, [(PyKey.ofStr "1", 10), (⟨.other 0, false, false, "1"⟩, 20)]⟩) = some [10]
    ∧ rowNewOf mappingStep (fun d => d.isDict) (fun d => rekeyStep (copyStep d)) (0 : Nat) (createClass ["1"] false)
        (.dict ⟨true, true, true, [(⟨.other 0, false, false, "1"⟩, 20)]⟩) = some [20]
    ∧ rowNewOf mappingStep (fun d => d.isDict) copyStep (0 : Nat) (createClass ["1"] false)
        (.dict ⟨true, true, true, [(⟨.other 0, false, false, "1"⟩, 20)]⟩) = some [0] := by
  decide

/-- …and why no dictionary keyed by text only can tell: on such a dictionary the re-keying step does nothing. -/
theorem rekey_invisible_on_text_keys (d : PyDict α) (h : d.allKeys (fun key => key.exact) = true) : rekeyStep d = d := by
  simp [rekeyStep, h]

/-- …whatever other row classes are created before or after it: the class with number `k` builds
the same row at every later point of a session. -/
theorem row_class_independent (null : α) (reg : List RowClass) (k : Nat) (c : RowClass)
    (hk : reg[k]? = some c) (arg : RowArg α) (creates : List (List String × Bool)) :
    runOps null reg (creates.map (fun p => ClassOp.create p.1 p.2) ++ [ClassOp.build k arg])
      = [rowNew null c arg] := by
  induction creates generalizing reg with
  | nil => simp [runOps, hk]
  | cons p ps ih =>
    simp only [List.map_cons, List.cons_append, runOps]
    apply ih
    rw [List.getElem?_append_left (by
      have := (List.getElem?_eq_some_iff.mp hk).1; exact this)]
    exact hk

/-- A single column of a frame without rows is the empty column. -/
theorem public_collect_single_empty (names : List String) (c : ColRef) (i : Int) (limit : Option Int)
    (hres : resolve names c = some i) (hfit : FitsC i) :
    publicCollect names ([] : List (RowObj α)) [c] true limit = .one [] := by
  have hok := norm_limit_spec 0 (by decide) limit
  have hres' : [c].mapM (resolve names) = some [i] := by simp [hres]
  have hconv : Gen.CallSites.indexConvChecked = true := rfl
  unfold publicCollect publicCollectWith
  rw [hres']
  simp only [hconv, List.any_cons, List.any_nil, hfit, not_true_eq_false, decide_false, Bool.or_false,
    Bool.false_eq_true, and_false, if_false, if_true, List.length_nil]
  cases hnl : normLimit limit 0 with
  | none => rw [hnl] at hok; exact absurd hok (by simp [limitOk])
  | some l =>
    rw [hnl] at hok
    obtain ⟨hf, _⟩ := hok
    simp only [hf, not_true_eq_false, if_false, (collect_empty ([] : List (RowObj α)) [i] _).1]
    simp

/-- `t.collect(i, <measure>)` of the display collects every row of the printed frame. -/
theorem measure_all_rows (n : Nat) (limit : Int) : specRows n (Gen.CallSites.measureLimit limit) = n := by
  simp [specRows]

/-- **Which column reaches the helper**: the display hands `t.collect` the *position* of each printed
column, in order (`Gen.CallSites.measureRefs`: the loop of `display.py:344` and the argument of
`t.collect`, from the source) — never a name, which `DataFrame.collect` would resolve to the first
column so named. -/
theorem measure_refs_positions (names : List String) :
    (Gen.CallSites.measureRefs names).map refOf
      = (List.range names.length).map fun i => ColRef.idx (Int.ofNat i) := by
  unfold Gen.CallSites.measureRefs
  first
    | (rw [List.map_map]; apply List.map_congr_left; intro i _; rfl)
    | (rw [List.map_map]; exact zipIdx_map_snd names (fun i => ColRef.idx (Int.ofNat i)))

/-- One measurement: the column at position `i` of the printed frame, all its rows. -/
theorem measure_one_spec (names : List String) (trows : List (RowObj (Option Nat))) (limit : Int) (i : Nat)
    (hi' : i < names.length)
    (hn : ((trows.length : Nat) : Int) < 2147483648) (hw32 : ((names.length : Nat) : Int) ≤ 2147483648)
    (hw : ∀ r ∈ trows, r.isTuple = true ∧ r.cells.length = names.length) :
    measureOne names trows limit (.idx (Int.ofNat i)) = some (dataWidth (trows.map fun r => r.cells[i]!)) := by
  unfold measureOne
  cases trows with
  | nil =>
    rw [public_collect_single_empty names (.idx (Int.ofNat i)) (Int.ofNat i) _ rfl
      (by unfold FitsC; simp only [Int.ofNat_eq_natCast]; omega)]
    simp [widthOf]
  | cons first rest =>
    rw [public_collect_single_spec names first rest (.idx (Int.ofNat i)) (Int.ofNat i)
      (Gen.CallSites.measureLimit limit) names.length hn hw32 hw rfl (by simp; omega)]
    simp only [measure_all_rows, List.take_length, widthOf]
    simp

/-- **The display's data width**: for every printed frame `t` (head only, head + tail, or the whole
table; eager or lazy), every `limit` and **every list of column names (repeated names included)**,
the width measured for the column at position `i` is the longest rendered non-null value of *that*
column among *all* rows of `t`, but at least four. -/
theorem display_widths_spec (names : List String) (trows : List (RowObj (Option Nat))) (limit : Int)
    (hn : ((trows.length : Nat) : Int) < 2147483648) (hw32 : ((names.length : Nat) : Int) ≤ 2147483648)
    (hw : ∀ r ∈ trows, r.isTuple = true ∧ r.cells.length = names.length) :
    displayDataWidths names trows limit =
      (List.range names.length).map fun i => some (dataWidth (trows.map fun r => r.cells[i]!)) := by
  have hrefs := measure_refs_positions names
  unfold displayDataWidths
  have hmm : (Gen.CallSites.measureRefs names).map (fun ref => measureOne names trows limit (refOf ref))
      = ((Gen.CallSites.measureRefs names).map refOf).map (measureOne names trows limit) := by
    rw [List.map_map]; rfl
  rw [hmm, hrefs, List.map_map]
  apply List.map_congr_left
  intro i hi
  rw [Function.comp_apply]
  exact measure_one_spec names trows limit i (List.mem_range.mp hi) hn hw32 hw

/-- Measuring **by name** is not the same thing: when two columns carry one name, the later one is
measured on the first one's values (`schema = ["value", "key", "value"]`, the long values in the last
column: by name `[5, 4, 5]`, by position `[5, 4, 17]`). -/
theorem display_by_name_counterexample :
    displayDataWidthsByName ["value", "key", "value"]
        [⟨true, [some 1, some 2, some 17]⟩, ⟨true, [some 5, none, some 10]⟩] 10 = [some 5, some 4, some 5]
    ∧ displayDataWidths ["value", "key", "value"]
        [⟨true, [some 1, some 2, some 17]⟩, ⟨true, [some 5, none, some 10]⟩] 10 = [some 5, some 4, some 17] := by
  decide

/-! ### Results handed out, edited, asked for again -/

/-- A function that does not keep its result, or whose returned array is always made by the helper call, answers every
request of every session -- whatever the caller did to the arrays it was handed before -- with what a single call
computes. -/
theorem session_answers_are_computed {ρ β : Type} [DecidableEq ρ] (kept fresh : Bool) (compute : ρ → β)
    (h : kept = false ∨ fresh = true) (evs : List (Event ρ β)) :
    ∀ memo : Option (ρ × β), (fresh = true ∨ memo = none) →
      runSession kept fresh compute memo evs = (requestsOf evs).map compute := by
  induction evs with
  | nil => intro memo _; rfl
  | cons ev rest ih =>
    intro memo hm
    cases ev with
    | call req =>
      have hans : (sessionCall kept fresh compute memo req).1 = compute req := by
        rcases hm with hf | hn
        · cases memo with
          | none => rfl
          | some p => simp [sessionCall, hf]
        · subst hn; rfl
      have hnext : fresh = true ∨ (sessionCall kept fresh compute memo req).2 = none := by
        rcases hm with hf | hn
        · exact Or.inl hf
        · rcases h with hk | hf
          · right; subst hn; simp [sessionCall, hk]
          · exact Or.inl hf
      simp only [runSession, requestsOf, List.map_cons, hans, ih _ hnext]
    | edit e =>
      have hnext : fresh = true ∨ (memo.map fun p => (p.1, e p.2)) = none := by
        rcases hm with hf | hn
        · exact Or.inl hf
        · right; subst hn; rfl
      simp only [runSession, requestsOf, ih _ hnext]

/-- **Column collection gives result[i][j] = rows[j][columns[i]] on every call**, not only on the first: in every session
on a frame (requests through `collect` or `frame[...]`, the caller editing in place the arrays it was handed, in any
order) each answer is `publicCollect` of that request alone -- which `public_collect_spec` equates with the definition.
Holds because the `DataFrame.collect` of the working tree stores no result (`entryKeeps`: `Gen.CallSites.resultKept = false`
and `__getitem__` is one call of it) or returns only arrays made by the helper call (`entryFresh`:
`Gen.CallSites.resultFresh` and `getitemDirect`); a memo of the answer in either entry point makes the `decide` below fail. -/
theorem public_collect_keeps_no_result (names : List String) (rows : List (RowObj α))
    (evs : List (Event Request (PubOutcome α))) [DecidableEq α] :
    runSession entryKeeps entryFresh (answerOf names rows) none evs
      = (requestsOf evs).map (answerOf names rows) :=
  session_answers_are_computed _ _ _ (by decide) evs none (Or.inr rfl)

/-- What the two flags guard against: a function that keeps the array it hands out and answers the repeated request with
it returns the caller's edit, not the column (request 5 computes 5; the caller adds one to its result; asked again: 6). -/
theorem kept_result_counterexample :
    runSession true false (fun r : Nat => r) none [.call 5, .edit (· + 1), .call 5] = [5, 6]
    ∧ runSession true true (fun r : Nat => r) none [.call 5, .edit (· + 1), .call 5] = [5, 5]
    ∧ runSession false false (fun r : Nat => r) none [.call 5, .edit (· + 1), .call 5] = [5, 5] := by
  decide

/-- Non-vacuity of the call-site theorems. -/
example : publicCollect ["a", "b"] [⟨true, [1, 2]⟩, ⟨true, [3, 4]⟩, ⟨true, [5, 6]⟩] [.name "b", .idx 0] false (some 0)
    = (.many [[], []] : PubOutcome Nat) ∧
  publicCollect ["a", "b"] [⟨true, [1, 2]⟩, ⟨true, [3, 4]⟩, ⟨true, [5, 6]⟩] [.name "b", .idx 0] false (some 2)
    = (.many [[2, 4], [1, 3]] : PubOutcome Nat) ∧
  publicCollect ["a", "b"] [⟨true, [1, 2]⟩, ⟨true, [3, 4]⟩] [.name "b"] true none
    = (.one [2, 4] : PubOutcome Nat) ∧
  publicCollect ["a", "b"] [⟨true, [1, 2]⟩, ⟨true, [3, 4]⟩] [.idx 0] false (some 4294967296)
    = (.many [[1, 3]] : PubOutcome Nat) := by decide
example : rowNew 0 (createClass ["x", "y", "z"] false) (.dict ⟨false, true, true, ofTextItems [("z", 3), ("x", 1), ("q", 9)]⟩) = some [1, 0, 3] := by decide
example : displayDataWidths ["a", "b"] [⟨true, [some 2, none]⟩, ⟨true, [some 1, some 3]⟩, ⟨true, [some 9, some 12]⟩] 1
    = [some 9, some 12] := by decide
example : displayDataWidths ["1", "0", "1"] [⟨true, [some 2, none, some 8]⟩, ⟨true, [some 1, some 3, none]⟩] 0
    = [some 4, some 4, some 8] := by decide

end C10
