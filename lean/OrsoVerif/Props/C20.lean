import OrsoVerif.Model.Sanitise
import OrsoVerif.Lemmas.Sanitise
import OrsoVerif.Lemmas.SanitiseVisible
import OrsoVerif.Lemmas.SanitiseDeep
import OrsoVerif.Lemmas.SanitiseUrlPlain
import OrsoVerif.Model.SanitiseEvent
import OrsoVerif.Generated.SanitiseFns
/-!
# C20 — Log sanitiser never emits values of sensitive keys

Property theorems only (helper lemmas are in `Lemmas/Sanitise.lean`).

`Sanitise.sensitive` is computed from the pattern table, the IGNORECASE flag and the match method
that `harness/extractors/c20.py` reads from `orso/logging/log_formatter.py` on every run
(`Generated/Sanitise.lean`): `sensitive_spec` is stated against that table, so replacing
`.search` by `.match`, dropping a pattern or dropping the flag makes its proof fail.

Parameters of the model, universally quantified in every theorem: the digest `h`
(`hash_it(str(value))`), the JSON parser `parse` (`json.loads` gave a dict), the colour codes.
-/
namespace C20
open Sanitise

/-! ## which keys are sensitive -/

/-- "ends in password, pwd, _secret, _key or _token", letter case ignored. -/
def EndsInSecretWord (k : Str) : Prop :=
  EndsIn ['p', 'a', 's', 's', 'w', 'o', 'r', 'd'] k ∨ EndsIn ['p', 'w', 'd'] k ∨
  EndsIn ['_', 's', 'e', 'c', 'r', 'e', 't'] k ∨ EndsIn ['_', 'k', 'e', 'y'] k ∨
  EndsIn ['_', 't', 'o', 'k', 'e', 'n'] k

/-- The property's words: "a key that ends in password, pwd, _secret, _key or _token or contains
credentials, matched case-insensitively". -/
def NamesSecret (k : Str) : Prop :=
  EndsInSecretWord k ∨ Contains ['c', 'r', 'e', 'd', 'e', 'n', 't', 'i', 'a', 'l', 's'] k

/-- What `re.search` can see of a pattern of the fragment: its literal and whether it is anchored by `$`
(under `search` a leading `.*` changes nothing). -/
def patCore (p : Pat) : Str × Bool := (p.lit, p.dollar)

/-- The statement's table: five words a key may *end* in, one it may *contain*. -/
def namedCores : List (Str × Bool) :=
  [(['p', 'a', 's', 's', 'w', 'o', 'r', 'd'], true), (['p', 'w', 'd'], true),
   (['_', 's', 'e', 'c', 'r', 'e', 't'], true), (['_', 'k', 'e', 'y'], true),
   (['_', 't', 'o', 'k', 'e', 'n'], true),
   (['c', 'r', 'e', 'd', 'e', 'n', 't', 'i', 'a', 'l', 's'], false)]

/-- What a core asks of a key. -/
def coreNames (c : Str × Bool) (k : Str) : Prop :=
  if c.2 then EndsIn c.1 k ∨ ∃ k', k = k' ++ ['\n'] ∧ EndsIn c.1 k' else Contains c.1 k

/-- **The expressions the key test runs are the statement's table** — as *compiled*: the extractor
follows the name `clean_record` tests a key with to its `re.compile` call(s) and evaluates the
argument (a list of sources, word lists joined into one alternation, f-strings …); `a|b$` arrives as
`a`, `b$`.  As sets (order, repetitions and a leading `.*` do not matter under `search`): the
literals and their `$` anchors are exactly the six of the statement, the method is `search`, the flag
`re.IGNORECASE`.  A dropped / added / re-anchored pattern, `.match`, a dropped flag break this. -/
theorem key_table_is_the_named_one :
    Gen.Sanitise.matchMode = 1 ∧ Gen.Sanitise.ignoreCase = true ∧
      (∀ c ∈ patterns.map patCore, c ∈ namedCores) ∧ (∀ c ∈ namedCores, c ∈ patterns.map patCore) := by
  decide

/-- **Sensitive keys are exactly the keys the property names** — for the pattern table, flag and
match method found in the source.  The only other keys treated as sensitive are those that name a
secret after removing one final newline (Python's `$` also matches before a trailing `\n`). -/
theorem sensitive_spec (k : Str) :
    sensitive k = true ↔ NamesSecret k ∨ ∃ k', k = k' ++ ['\n'] ∧ EndsInSecretWord k' := by
  obtain ⟨hm, hi, h₁, h₂⟩ := key_table_is_the_named_one
  have hfold : ∀ c ∈ namedCores, c.1.map foldChar = c.1 := by decide
  have hpat : ∀ p ∈ patterns, (patMatches 1 p k = true ↔ coreNames (patCore p) k) := by
    intro p hp
    have hl := hfold _ (h₁ _ (List.mem_map_of_mem hp))
    obtain ⟨a, l, d⟩ := p
    cases d
    · simpa [coreNames, patCore] using search_plain l k a hl
    · simpa [coreNames, patCore] using search_dollar l k a hl
  have key : sensitive k = true ↔ ∃ c ∈ namedCores, coreNames c k := by
    simp only [sensitive, List.any_eq_true, hm]
    constructor
    · rintro ⟨p, hp, h⟩
      exact ⟨patCore p, h₁ _ (List.mem_map_of_mem hp), (hpat p hp).mp h⟩
    · rintro ⟨c, hc, h⟩
      obtain ⟨p, hp, rfl⟩ := List.mem_map.mp (h₂ c hc)
      exact ⟨p, hp, (hpat p hp).mpr h⟩
  rw [key]
  simp only [namedCores, List.mem_cons, List.not_mem_nil, or_false, exists_eq_or_imp, exists_eq_left,
    coreNames, if_true, NamesSecret, EndsInSecretWord, Bool.false_eq_true, if_false]
  constructor
  · rintro ((h | ⟨k', hk, h⟩) | (h | ⟨k', hk, h⟩) | (h | ⟨k', hk, h⟩) | (h | ⟨k', hk, h⟩) | (h | ⟨k', hk, h⟩) | h)
    · exact Or.inl (Or.inl (Or.inl h))
    · exact Or.inr ⟨k', hk, Or.inl h⟩
    · exact Or.inl (Or.inl (Or.inr (Or.inl h)))
    · exact Or.inr ⟨k', hk, Or.inr (Or.inl h)⟩
    · exact Or.inl (Or.inl (Or.inr (Or.inr (Or.inl h))))
    · exact Or.inr ⟨k', hk, Or.inr (Or.inr (Or.inl h))⟩
    · exact Or.inl (Or.inl (Or.inr (Or.inr (Or.inr (Or.inl h)))))
    · exact Or.inr ⟨k', hk, Or.inr (Or.inr (Or.inr (Or.inl h)))⟩
    · exact Or.inl (Or.inl (Or.inr (Or.inr (Or.inr (Or.inr h)))))
    · exact Or.inr ⟨k', hk, Or.inr (Or.inr (Or.inr (Or.inr h)))⟩
    · exact Or.inl (Or.inr h)
  · rintro (((h | h | h | h | h) | h) | ⟨k', hk, (h | h | h | h | h)⟩)
    · exact Or.inl (Or.inl h)
    · exact Or.inr (Or.inl (Or.inl h))
    · exact Or.inr (Or.inr (Or.inl (Or.inl h)))
    · exact Or.inr (Or.inr (Or.inr (Or.inl (Or.inl h))))
    · exact Or.inr (Or.inr (Or.inr (Or.inr (Or.inl (Or.inl h)))))
    · exact Or.inr (Or.inr (Or.inr (Or.inr (Or.inr h))))
    · exact Or.inl (Or.inr ⟨k', hk, h⟩)
    · exact Or.inr (Or.inl (Or.inr ⟨k', hk, h⟩))
    · exact Or.inr (Or.inr (Or.inl (Or.inr ⟨k', hk, h⟩)))
    · exact Or.inr (Or.inr (Or.inr (Or.inl (Or.inr ⟨k', hk, h⟩))))
    · exact Or.inr (Or.inr (Or.inr (Or.inr (Or.inl (Or.inr ⟨k', hk, h⟩)))))

/-- The security direction on its own: every key the property names is treated as sensitive. -/
theorem named_keys_are_sensitive (k : Str) (hk : NamesSecret k) : sensitive k = true :=
  (sensitive_spec k).mpr (Or.inl hk)

/-- For a key that does not end in a newline the two notions coincide exactly. -/
theorem sensitive_iff_named (k : Str) (hn : ∀ k', k ≠ k' ++ ['\n']) :
    sensitive k = true ↔ NamesSecret k := by
  rw [sensitive_spec]
  constructor
  · rintro (h | ⟨k', hk, _⟩)
    · exact h
    · exact absurd hk (hn k')
  · exact Or.inl

/-! Non-vacuity of the key test and of the erasure (kept next to `sensitive_spec`: they are
re-evaluated against the extracted table). -/

/-- Two different secrets (a text and an object) with one digest, nested one level down under a
mixed-case sensitive key (`Db_PWD`), have the same erasure; a key that only looks sensitive
(`token`) is kept. -/
example :
    let h : Json → Str := fun _ => ['d']
    eraseObj h [(['a'], .obj [(['D', 'b', '_', 'P', 'W', 'D'], .str ['x']), (['t', 'o', 'k', 'e', 'n'], .num ['1'])])]
      = eraseObj h [(['a'], .obj [(['D', 'b', '_', 'P', 'W', 'D'], .obj [(['y'], .null)]), (['t', 'o', 'k', 'e', 'n'], .num ['1'])])]
    ∧ sensitive ['D', 'b', '_', 'P', 'W', 'D'] = true ∧ sensitive ['t', 'o', 'k', 'e', 'n'] = false := by
  refine ⟨by rfl, by decide, by decide⟩

/-- The cleaned record of `{"a": {"x_key": "s", "n": "v"}}` with colours off: placeholder for
`x_key`, `v` in clear. -/
example :
    cleanObj (fun _ => ['9']) (colorsFor false)
        [(['a'], .obj [(['x', '_', 'k', 'e', 'y'], .str ['s']), (['n'], .str ['v'])])]
      = [(['a'], "{'x_key': '<redacted:9>', 'n': 'v'}".toList)] := by
  decide

/-! ## the statements of the source, translated on every run, equal the model

`harness/extractors/c20_fns.py` translates the loop body of `clean_record`, `format`, the part of
`sanitize_record` after the isolation loop and the two branches of `write_event` statement by
statement (`Gen.SanitiseFns.*`).  The theorems of this section prove the translations equal to the
hand-written model, so the *order* of the tests (is the key sensitive? — is the value an object?)
and of the stages (sanitise — URL rule; clean — store — merge) is an extracted item every theorem
below depends on: swapping two branches or two stages in the source makes one of these proofs fail. -/

/-- **`clean_record`, one member.**  The if / elif / else chain of the loop body as it stands in the
source — key test first, then `isinstance(value, dict)`, then `str(value)` — and its three f-strings
compute exactly the member the model emits: the placeholder of the digest for a sensitive key
*whatever the value is*, the cleaned inner object for an object under another key, the
quote-coloured `str(value)` otherwise. -/
theorem generated_clean_member_eq_model (h : Json → Str) (c : Colors) (k : Str) (v : Json) :
    Gen.SanitiseFns.clean_member sensitive Json.isObj h (cleanRecText h c) (renderVal c) (colorOf c) k v
      = (c.key ++ k ++ c.off,
          c.value ++ (if sensitive k then placeholder c (h v) else cleanVal h c v) ++ c.off) := by
  unfold Gen.SanitiseFns.clean_member
  by_cases hs : sensitive k = true
  · simp [hs, colorOf, placeholder]
  · cases v <;> simp [hs, Json.isObj, cleanRecText, renderVal, cleanVal, colorOf]

/-- **`clean_record`, the loop**: the cleaned record is the generated member function mapped over
the members (Python's `clean_record[clean_key] = …` on distinct keys appends). -/
theorem generated_clean_record_eq_model (h : Json → Str) (c : Colors) (d : List (Str × Json)) :
    cleanObj h c d
      = d.map fun kv => Gen.SanitiseFns.clean_member sensitive Json.isObj h (cleanRecText h c) (renderVal c) (colorOf c) kv.1 kv.2 := by
  induction d with
  | nil => rfl
  | cons kv rest ih =>
    obtain ⟨k, v⟩ := kv
    rw [List.map_cons, generated_clean_member_eq_model, ← ih]
    simp only [cleanObj]

/-- **`format(record)`**: the inner formatter turns the record (template, %-arguments, traceback) into a
line; that line is sanitised; then the URL rule runs over the whole sanitised record, *guarded by a test
on that same text* — the order and the guard found in the source.  `LogRec.msg` (the template
`record.msg`) does not occur on the right-hand side: a guard or a stage of the source that reads the
template instead of the formatted text is translated as such and this proof fails. -/
theorem generated_format_eq_model (h : Json → Str) (can : Bool) (parse : Str → Option (List (Str × Json)))
    (orig : LogRec → Str) (record : LogRec) :
    Gen.SanitiseFns.format orig (sanitize h can parse) redactUrl record = formatRec h can parse orig record := by
  simp only [Gen.SanitiseFns.format, formatRec, format, Gen.Sanitise.urlGuard]
  split <;> simp_all

/-- **`sanitize_record` after the isolation loop**, JSON branch: the cleaned message (colours on) is
appended to the header fields after one space, joined and colourised. -/
theorem generated_sanitize_tail_json_eq_model (h : Json → Str) (can : Bool) (record : Str) (parts : List Str)
    (d : List (Str × Json)) :
    Gen.SanitiseFns.sanitize_tail (fun o => cleanObj h (colorsFor true) (o.getD [])) dumps (colorCode can)
        (colorizer can) strip pairColour record parts (some d)
      = colorizer can (joinWith '|' (parts ++ [' ' :: dumps (cleanObj h (colorsFor true) d)])) := by
  simp [Gen.SanitiseFns.sanitize_tail]

/-- … and the plain-text branch: colour exchange on the whole record, the three quote substitutions
on the last field in the order of the source, `strip()`, the ` *` marker. -/
theorem generated_sanitize_tail_plain_eq_model (h : Json → Str) (can : Bool) (record : Str) (parts : List Str) :
    Gen.SanitiseFns.sanitize_tail (fun o => cleanObj h (colorsFor true) (o.getD [])) dumps (colorCode can)
        (colorizer can) strip pairColour record parts none
      = renderPlain can record := by
  simp [Gen.SanitiseFns.sanitize_tail, renderPlain]

/-- The isolation loop starts at the first field (`range(len(parts))`): a layout without header
fields (`%(message)s`) is sanitised too. -/
theorem isolation_starts_at_first_field : Gen.Sanitise.isolateStart = 0 := by decide

/-- The guard of the isolation loop, as extracted: it strips JSON white space, does not strip `{`,
and looks for `{` — every text `json.loads` can turn into an object passes it. -/
theorem isolation_guard_admits_objects : GuardOK := by
  refine ⟨?_, by decide, by decide⟩
  intro c hc
  simp only [Bool.or_eq_true, beq_iff_eq] at hc
  rcases hc with ((hc | hc) | hc) | hc <;> subst hc <;> decide

/-! ## no value under a sensitive key is emitted -/

/-- **No value under a sensitive key is emitted** (non-interference; every depth of nested
objects, every value type, every digest function, colour on or off).  `eraseObj h` replaces each
value stored under a sensitive key — whatever its type, objects included, at any depth — by its
digest `h value`.  Two records with the same erasure are cleaned to the same text: the output of
`clean_record` is a function of the erased record only, so nothing of a sensitive value other than
its digest can reach it.  (Taking `h` constant: the output does not depend on the secrets at all.) -/
theorem clean_noninterference (h : Json → Str) (c : Colors) (r₁ r₂ : List (Str × Json))
    (he : eraseObj h r₁ = eraseObj h r₂) : cleanObj h c r₁ = cleanObj h c r₂ :=
  cleanObj_congr h c r₁ r₂ he

/-- The same, stated on the translation of the source itself: mapping the loop body *as it stands in
`log_formatter.py`* over two records with the same erasure gives the same members. -/
theorem clean_record_source_noninterference (h : Json → Str) (c : Colors) (r₁ r₂ : List (Str × Json))
    (he : eraseObj h r₁ = eraseObj h r₂) :
    (r₁.map fun kv => Gen.SanitiseFns.clean_member sensitive Json.isObj h (cleanRecText h c) (renderVal c) (colorOf c) kv.1 kv.2)
      = r₂.map fun kv => Gen.SanitiseFns.clean_member sensitive Json.isObj h (cleanRecText h c) (renderVal c) (colorOf c) kv.1 kv.2 := by
  rw [← generated_clean_record_eq_model, ← generated_clean_record_eq_model]
  exact clean_noninterference h c r₁ r₂ he

/-- **The formatted record as a whole** (`LogFormatter.format`): two records with the same header
fields whose messages are JSON objects with the same erasure — the messages may contain the field
separator — are formatted to the same text, for every colour setting and every parser.  The
hypotheses `ho` say that the message texts begin with `{`, `hno` that no longer run of trailing
fields parses as an object (the header is not itself JSON): what `split_recovers_json` needs. -/
theorem format_noninterference (h : Json → Str) (can : Bool) (parse : Str → Option (List (Str × Json)))
    (header j₁ j₂ : Str) (d₁ d₂ : List (Str × Json))
    (hj₁ : parse j₁ = some d₁) (hj₂ : parse j₂ = some d₂)
    (ho₁ : firstNonSpace j₁ = some '{') (ho₂ : firstNonSpace j₂ = some '{')
    (hno₁ : ∀ fs, fs ≠ [] → fs <:+ splitOn '|' header → parse (joinWith '|' (fs ++ splitOn '|' j₁)) = none)
    (hno₂ : ∀ fs, fs ≠ [] → fs <:+ splitOn '|' header → parse (joinWith '|' (fs ++ splitOn '|' j₂)) = none)
    (he : eraseObj h d₁ = eraseObj h d₂) :
    format h can parse (header ++ '|' :: j₁) = format h can parse (header ++ '|' :: j₂) := by
  have key : ∀ j d, parse j = some d → firstNonSpace j = some '{' →
      (∀ fs, fs ≠ [] → fs <:+ splitOn '|' header → parse (joinWith '|' (fs ++ splitOn '|' j)) = none) →
      sanitize h can parse (header ++ '|' :: j) = renderJson h can (splitOn '|' header) d := by
    intro j d hj ho hno
    simp only [sanitize_from_first isolation_starts_at_first_field, splitOn_append,
      isolate_message isolation_guard_admits_objects parse _ j d hj ho hno]
  simp only [format, key j₁ d₁ hj₁ ho₁ hno₁, key j₂ d₂ hj₂ ho₂ hno₂, renderJson, cleanObj_congr h _ d₁ d₂ he]

/-! ## the two readings of "at any depth of nested objects"

The implementation (and everything above) treats an array as a value: an array under a sensitive
key is hidden whole, an array under another key is shown with `str(value)` and not looked into.
Under the *deep* reading an object inside an array is a nested object too.  Both are defined in
`Model/Sanitise.lean` (`eraseObj`/`cleanObj` as implemented, `eraseDeepObj`/`cleanDeepObj`); the
check enforces the first, and these theorems say exactly how the two relate. -/

/-- The deep cleaner satisfies non-interference for the deep erasure (what a sanitiser that
descends into arrays would guarantee). -/
theorem cleanDeep_noninterference (h : Json → Str) (c : Colors) (r₁ r₂ : List (Str × Json))
    (he : eraseDeepObj h r₁ = eraseDeepObj h r₂) : cleanDeepObj h c r₁ = cleanDeepObj h c r₂ :=
  cleanDeepObj_congr h c r₁ r₂ he

/-- On records without arrays the implemented cleaner *is* the deep cleaner. -/
theorem clean_eq_cleanDeep_of_arrayFree (h : Json → Str) (c : Colors) (d : List (Str × Json))
    (ha : arrayFreeObj d = true) : cleanObj h c d = cleanDeepObj h c d :=
  cleanObj_eq_deep h c d ha

/-- The two erasures coincide unless a sensitive key occurs inside an array that is reachable
through non-sensitive keys (`readingsAgreeObj`). -/
theorem readings_agree (h : Json → Str) (d : List (Str × Json)) (ha : readingsAgreeObj d = true) :
    eraseObj h d = eraseDeepObj h d :=
  eraseObj_eq_deep h d ha

/-- Hence on such records the implementation meets the deep reading as well. -/
theorem clean_noninterference_deep_reading (h : Json → Str) (c : Colors) (r₁ r₂ : List (Str × Json))
    (h₁ : readingsAgreeObj r₁ = true) (h₂ : readingsAgreeObj r₂ = true)
    (he : eraseDeepObj h r₁ = eraseDeepObj h r₂) : cleanObj h c r₁ = cleanObj h c r₂ :=
  cleanObj_congr h c r₁ r₂ (by rw [eraseObj_eq_deep h r₁ h₁, eraseObj_eq_deep h r₂ h₂, he])

/-- **Exactly what is descended into.**  An array under a non-sensitive key is a *value*: it is
rendered whole with `str()` (quote-coloured), no digest is computed for anything inside it — the
member's text is the same for every digest function — whereas an object under a non-sensitive key
is replaced by the rendering of its cleaned members (`other_keys_descend`) and anything under a
sensitive key by the placeholder (`sensitive_member_placeholder`).  Together with
`clean_noninterference` this characterises the descent: through objects under non-sensitive keys,
nowhere else. -/
theorem arrays_are_values (h₁ h₂ : Json → Str) (c : Colors) (k : Str) (xs : List Json) (hk : sensitive k = false) :
    cleanObj h₁ c [(k, .arr xs)] = cleanObj h₂ c [(k, .arr xs)]
    ∧ cleanObj h₁ c [(k, .arr xs)]
        = [(c.key ++ k ++ c.off, c.value ++ quoteColour c ('[' :: (pyReprItems xs ++ [']'])) ++ c.off)] := by
  constructor <;> simp [cleanObj, cleanVal, hk, pyStr, pyRepr]

/-- Counterexample (proved): outside that class the implementation does **not** meet the deep
reading — `{"a": [{"pwd": "x"}]}` and `{"a": [{"pwd": "y"}]}` have the same deep erasure and are
cleaned to different texts (the array is printed with `str()`).  This is the behaviour of orso as
it is; the check does not count it as a violation (see design_notes/C20.md). -/
theorem implementation_is_shallow :
    let h : Json → Str := fun _ => ['d']
    let r₁ : List (Str × Json) := [(['a'], .arr [.obj [(['p', 'w', 'd'], .str ['x'])]])]
    let r₂ : List (Str × Json) := [(['a'], .arr [.obj [(['p', 'w', 'd'], .str ['y'])]])]
    eraseDeepObj h r₁ = eraseDeepObj h r₂ ∧ cleanObj h (colorsFor false) r₁ ≠ cleanObj h (colorsFor false) r₂
    ∧ cleanDeepObj h (colorsFor false) r₁ = cleanDeepObj h (colorsFor false) r₂ := by
  refine ⟨by rfl, by decide, by decide⟩

/-! ## values under other keys remain visible -/

/-- **Values under other keys remain visible.**  A member whose key is not sensitive and whose
value is not an object is emitted under its own key as `str(value)`; with colours off the text is
exactly `str(value)`, with colours on it is that text with colour codes inserted around quoted
runs (`quoteColour`), between the VALUE and OFF codes. -/
theorem other_keys_visible (h : Json → Str) (c : Colors) (d : List (Str × Json)) (k : Str) (v : Json)
    (hm : (k, v) ∈ d) (hk : sensitive k = false) (hv : ∀ kvs, v ≠ .obj kvs) :
    (c.key ++ k ++ c.off, c.value ++ quoteColour c (pyStr v) ++ c.off) ∈ cleanObj h c d
    ∧ (k, pyStr v) ∈ cleanObj h (colorsFor false) d := by
  have leaf : ∀ c', cleanVal h c' v = quoteColour c' (pyStr v) := by
    intro c'; cases v <;> first | rfl | (rename_i b; cases b <;> rfl) | exact absurd rfl (hv _)
  have gen : ∀ c', (c'.key ++ k ++ c'.off, c'.value ++ quoteColour c' (pyStr v) ++ c'.off) ∈ cleanObj h c' d := by
    intro c'
    induction d with
    | nil => cases hm
    | cons kv rest ih =>
      obtain ⟨k', v'⟩ := kv
      simp only [cleanObj, List.mem_cons]
      rcases List.mem_cons.mp hm with heq | hin
      · left
        cases heq
        simp [hk, leaf]
      · right; exact ih hin
  refine ⟨gen c, ?_⟩
  have := gen (colorsFor false)
  rw [quoteColour_plain] at this
  simpa [colorsFor] using this

/-- Objects under other keys are descended into: the member's text is Python's rendering of the
cleaned inner object (to which all of the above applies again). -/
theorem other_keys_descend (h : Json → Str) (c : Colors) (d kvs : List (Str × Json)) (k : Str)
    (hm : (k, .obj kvs) ∈ d) (hk : sensitive k = false) :
    (c.key ++ k ++ c.off, c.value ++ pyReprDict (cleanObj h c kvs) ++ c.off) ∈ cleanObj h c d := by
  induction d with
  | nil => cases hm
  | cons kv rest ih =>
    obtain ⟨k', v'⟩ := kv
    simp only [cleanObj, List.mem_cons]
    rcases List.mem_cons.mp hm with heq | hin
    · left; cases heq; simp [hk, cleanVal]
    · right; exact ih hin

/-- **Values under other keys remain visible, at any depth of nested objects.**  A run `t` of
ASCII letters and digits that occurs in a value reachable through non-sensitive keys only
(`VisibleAt`) occurs verbatim in the JSON text `json.dumps(clean_record(d))` that the formatter
emits as the message — through quote colouring (colours on or off), Python's rendering of the
nested cleaned objects and JSON escaping, for every digest function. -/
theorem visible_token_survives (h : Json → Str) (c : Colors) (t : Str) (d : List (Str × Json))
    (hp : ∀ a ∈ t, plainChar a = true) (hv : VisibleAt t d) :
    t <:+: dumps (cleanObj h c d) :=
  dumps_infix t _ hp (visible_tokenIn h c t hp d hv)

/-- **… and in the formatted record.**  The same token occurs verbatim in what
`LogFormatter.format` returns for the record `header|json` — after the colouriser has translated or
removed every colour code — provided its first character occurs in no pattern the colouriser
replaces (`tokenHeadOK`: e.g. a digit 2..9; a token starting with `m` right after the text `\x01OFF`
*would* be eaten, so some such condition is needed) and the URL rule does not fire on the
sanitised record (no `://` in it; otherwise a visible value lying between a `://` and an `@` is cut
by design). -/
theorem visible_token_in_record (h : Json → Str) (can : Bool) (parse : Str → Option (List (Str × Json)))
    (header j : Str) (d : List (Str × Json)) (c0 : Char) (t' : Str)
    (hj : parse j = some d) (ho : firstNonSpace j = some '{')
    (hno : ∀ fs, fs ≠ [] → fs <:+ splitOn '|' header → parse (joinWith '|' (fs ++ splitOn '|' j)) = none)
    (hp : ∀ a ∈ c0 :: t', plainChar a = true) (hh : tokenHeadOK c0 = true)
    (hv : VisibleAt (c0 :: t') d)
    (hurl : isInfix Gen.Sanitise.urlGuard (sanitize h can parse (header ++ '|' :: j)) = false) :
    c0 :: t' <:+: format h can parse (header ++ '|' :: j) := by
  have hs := sanitize_json isolation_guard_admits_objects isolation_starts_at_first_field h can parse header j d hj ho hno
  have hf : format h can parse (header ++ '|' :: j) = sanitize h can parse (header ++ '|' :: j) := by
    unfold format
    simp only [hurl, Bool.false_eq_true, if_false]
  rw [hf, hs]
  unfold renderJson
  apply colorizer_token can c0 t' _ hp hh
  refine List.IsInfix.trans ?_ (joinWith_infix '|' _ _ (List.mem_append_right _ (List.mem_singleton.mpr rfl)))
  exact List.infix_cons_iff.mpr (Or.inr (visible_token_survives h (colorsFor true) _ d hp hv))

/-- Counterexample (proved): without `tokenHeadOK` the statement of `visible_token_in_record` is
**false** of the faithful model.  The visible value `"\x01OFFm123"` of `{"n": …}` contains the plain
token `m123`; `json.dumps` writes the control character as `\u0001`, the colouriser turns that
literal back into `\x01` and then removes `\x01OFFm` — the `m` of the token goes with it.  (Checked
on the real code by the harness's generators only in so far as tokens start with a digit; a value
under a non-sensitive key that spells a colour code is mangled, never a secret shown.) -/
theorem visible_token_needs_head_condition :
    let j : Str := ['{', '"', 'n', '"', ':', ' ', '"', '\\', 'u', '0', '0', '0', '1', 'O', 'F', 'F', 'm', '1', '2', '3', '"', '}']
    let d : List (Str × Json) := [(['n'], .str [Char.ofNat 1, 'O', 'F', 'F', 'm', '1', '2', '3'])]
    let parse : Str → Option (List (Str × Json)) := fun t => if t = j then some d else none
    VisibleAt ['m', '1', '2', '3'] d ∧ tokenHeadOK 'm' = false
      ∧ ¬ (['m', '1', '2', '3'] <:+: format (fun _ => []) false parse (['h', '|'] ++ j)) := by
  refine ⟨?_, by decide, by decide +kernel⟩
  exact .leaf _ ['n'] _ (List.mem_singleton.mpr rfl) (by decide) (by intro kvs h; cases h)
    ⟨[Char.ofNat 1, 'O', 'F', 'F'], [], rfl⟩

/-- Colour codes are only ever *inserted* into a visible value: the characters of `str(value)`
all appear, in order, in the coloured text. -/
theorem visible_value_sublist (c : Colors) (s : Str) : s.Sublist (quoteColour c s) :=
  quoteColour_sublist c s

/-- **A digest placeholder appears instead**: a member with a sensitive key is emitted under its
own key as the placeholder built from the digest of the value — and from nothing else of it. -/
theorem sensitive_member_placeholder (h : Json → Str) (c : Colors) (d : List (Str × Json)) (k : Str) (v : Json)
    (hm : (k, v) ∈ d) (hk : sensitive k = true) :
    (c.key ++ k ++ c.off, c.value ++ placeholder c (h v) ++ c.off) ∈ cleanObj h c d := by
  induction d with
  | nil => cases hm
  | cons kv rest ih =>
    obtain ⟨k', v'⟩ := kv
    simp only [cleanObj, List.mem_cons]
    rcases List.mem_cons.mp hm with heq | hin
    · left; cases heq; simp [hk]
    · right; exact ih hin

/-! ## isolating the JSON message -/

/-- **The JSON part is recovered whole, whatever it contains.**  For every header and every JSON
text `json` that parses as an object — including texts containing `|` — the isolation loop of
`sanitize_record` returns exactly the header fields and the parse of the whole `json`, provided the
text begins with `{` (after JSON white space) and no longer run of trailing fields (a piece of the
header glued to the message) parses as an object. -/
theorem split_recovers_json (parse : Str → Option (List (Str × Json))) (header json : Str)
    (d : List (Str × Json)) (hj : parse json = some d) (ho : firstNonSpace json = some '{')
    (hno : ∀ fs, fs ≠ [] → fs <:+ splitOn '|' header →
      parse (joinWith '|' (fs ++ splitOn '|' json)) = none) :
    isolate parse [] (splitOn '|' (header ++ '|' :: json)) = some (splitOn '|' header, d) := by
  rw [splitOn_append]
  exact isolate_message isolation_guard_admits_objects parse _ json d hj ho hno

/-- The side condition in syntactic form.  A parser that only accepts texts whose first
non-blank character is `{` (true of `json.loads` returning a dict; the harness checks it on every
candidate) and a header none of whose fields begins with `{` (true of every layout of
`create_logger.py`: the fields begin with a colour code, a level name, a date, a function or file
name): then the message is recovered whole. -/
theorem split_recovers_json_syntactic (parse : Str → Option (List (Str × Json)))
    (hparse : ∀ t d, parse t = some d → firstNonSpace t = some '{')
    (header json : Str) (d : List (Str × Json)) (hj : parse json = some d)
    (hh : ∀ f ∈ splitOn '|' header, firstNonSpace f ≠ some '{') :
    isolate parse [] (splitOn '|' (header ++ '|' :: json)) = some (splitOn '|' header, d) :=
  split_recovers_json parse header json d hj (hparse _ _ hj)
    (no_longer_candidate parse hparse _ _ (splitOn_ne_nil _ _) hh)

/-- **The isolation theorem against the guard as extracted — no assumption on the parser.**  If no
header field passes the guard of the loop (`lstrip(<guardStrip>).startswith("{")`, both read from the
source; a leading BOM is stripped like white space) and the message text passes it and parses as an
object, the loop returns the header fields and the parse of the whole message: the header fields are
skipped without the parser being asked.  The harness checks the remaining premise on the running
code: every text `json.loads` turns into a dict passes the guard. -/
theorem split_recovers_json_guard (parse : Str → Option (List (Str × Json))) (header json : Str)
    (d : List (Str × Json)) (hj : parse json = some d) (ho : opensObject json = true)
    (hh : ∀ f ∈ splitOn '|' header, opensObject f = false) :
    isolate parse [] (splitOn '|' (header ++ '|' :: json)) = some (splitOn '|' header, d) := by
  rw [splitOn_append, isolate_skip_guard parse (splitOn '|' json) (splitOn '|' header) [] hh]
  obtain ⟨p, ps, hs, hop⟩ := opensObject_first_field (by decide) (by decide) json ho
  have hjoin : joinWith '|' (p :: ps) = json := by rw [← hs]; exact join_splitOn '|' json
  rw [hs]
  simp only [isolate, hop, if_true, hjoin, hj, List.nil_append]

/-- **What the parser rejects is plain text.**  The guarantee for JSON messages is conditional on the
parser: a record none of whose candidates parses (a leading BOM after a header, single quotes, a
trailing comma, an integer of 4301 digits — whatever `json.loads` refuses) takes the plain-text
branch whole, and only the URL rule applies to it.  The parser's acceptance set is exactly the
domain of the first sentence of the property. -/
theorem rejected_message_is_plain_text (h : Json → Str) (can : Bool) (parse : Str → Option (List (Str × Json)))
    (hp : ∀ t, parse t = none) (record : Str) :
    format h can parse record
      = (if isInfix Gen.Sanitise.urlGuard (renderPlain can record) then redactUrl (renderPlain can record)
         else renderPlain can record) := by
  simp only [format, sanitize_from_first isolation_starts_at_first_field, isolate_none parse hp]

/-- The same for a layout without header fields (`%(message)s`). -/
theorem split_recovers_json_bare (parse : Str → Option (List (Str × Json))) (json : Str)
    (d : List (Str × Json)) (hj : parse json = some d) (ho : firstNonSpace json = some '{') :
    isolate parse [] (splitOn '|' json) = some ([], d) := by
  have := isolate_message isolation_guard_admits_objects parse [] json d hj ho (fun fs hne hs => absurd (List.suffix_nil.mp hs) hne)
  simpa using this

/-- Splitting on the separator and joining again is the identity, and the fields of
`header|json` are the fields of the header followed by the fields of the message: the two facts
the repaired loop rests on (the pinned code kept only the last field). -/
theorem split_join (s a b : Str) :
    joinWith '|' (splitOn '|' s) = s ∧ splitOn '|' (a ++ '|' :: b) = splitOn '|' a ++ splitOn '|' b :=
  ⟨join_splitOn '|' s, splitOn_append '|' a b⟩

/-! ## URL user-info -/

/-- **Credentials in the user-info part of a URL are removed** (non-interference): for arbitrary
surrounding text `pre` / `post` — other URLs, `@` signs, separators, newlines — the redacted text
does not depend on the user-info `u` between `://` and `@` (any text without `@` and newline,
which is what RFC 3986 user-info is).  Stated against the expression extracted from `format()`. -/
theorem url_userinfo_removed (pre post u₁ u₂ : Str)
    (h₁ : cleanRun Gen.Sanitise.urlClose u₁ = true) (h₂ : cleanRun Gen.Sanitise.urlClose u₂ = true) :
    redactUrl (pre ++ urlTail u₁ post) = redactUrl (pre ++ urlTail u₂ post) :=
  redactUrlF_congr u₁ u₂ post h₁ h₂ pre.length pre (Nat.le_refl _) _ _ (Nat.le_succ _) (Nat.le_succ _)

/-- At the first URL of a text the user-info is replaced by the fixed token and redaction goes on
after the `@`. -/
theorem url_first_redacted (u post : Str) (hu : cleanRun Gen.Sanitise.urlClose u = true) :
    redactUrl (urlTail u post) = Gen.Sanitise.urlReplacement ++ redactUrl post := by
  have e : urlTail u post = ':' :: ('/' :: '/' :: (u ++ Gen.Sanitise.urlClose :: post)) := rfl
  have s := urlStep_urlTail u post hu
  have l := urlTail_length u post
  simp only [redactUrl]
  rw [e] at s l ⊢
  rw [List.length_cons, redactUrlF_cons, s]
  simp only
  rw [redactUrlF_fuel _ (post.length + 1) post (by simp only [List.length_cons] at l ⊢; omega) (Nat.le_succ _)]

/-- **The URL rule composed with the plain-text branch.**  For a record whose message is not a
JSON object (`isolate … = none`), what `LogFormatter.format` returns — level colour exchange, the
three quote-colouring substitutions and `strip()` on the last field, the colouriser, then the URL
rule — does not depend on the user-info `u` of a URL occurring anywhere in it, for user-infos made
of RFC 3986 user-info characters other than the apostrophe (`UrlSafe`).  Every stage rewrites the
text around `://u@` without looking at `u` (`renderPlain_sim`), so the URL rule still finds the same
`://…@` afterwards.  (For a user-info containing a quote character strict non-interference is
false: the quote changes how *other* quotes of the message are paired; that case is carried by the
correspondence and the token oracle.) -/
theorem plain_text_url_userinfo_removed (h : Json → Str) (can : Bool)
    (parse : Str → Option (List (Str × Json))) (pre post u₁ u₂ : Str)
    (hu₁ : UrlSafe u₁) (hu₂ : UrlSafe u₂)
    (hp₁ : isolate parse [] (splitOn '|' (pre ++ urlTail u₁ post)) = none)
    (hp₂ : isolate parse [] (splitOn '|' (pre ++ urlTail u₂ post)) = none) :
    format h can parse (pre ++ urlTail u₁ post) = format h can parse (pre ++ urlTail u₂ post) := by
  have e : ∀ u x y, x ++ urlTail u y = x ++ urlCore u ++ y := by
    intro u x y; simp [urlTail, urlCore, List.append_assoc]
  obtain ⟨a, b, o₁, o₂⟩ := renderPlain_sim can u₁ u₂ hu₁ hu₂ ⟨pre, post, e u₁ pre post, e u₂ pre post⟩
  have guard : ∀ u, isInfix Gen.Sanitise.urlGuard (a ++ urlCore u ++ b) = true := by
    intro u
    have : a ++ urlCore u ++ b = a ++ Gen.Sanitise.urlGuard ++ (u ++ [Gen.Sanitise.urlClose] ++ b) := by
      simp [urlCore, Gen.Sanitise.urlGuard, Gen.Sanitise.urlOpen, List.append_assoc]
    rw [this]
    exact isInfix_self _ _ _ (by decide)
  simp only [format, sanitize_from_first isolation_starts_at_first_field, hp₁, hp₂, o₁, o₂, guard, if_true]
  rw [← e u₁ a b, ← e u₂ a b]
  exact url_userinfo_removed a b u₁ u₂ (cleanRun_of_urlSafe u₁ hu₁) (cleanRun_of_urlSafe u₂ hu₂)

/-- Counterexample (proved): for a user-info that contains a quote character the *strict*
non-interference of `plain_text_url_userinfo_removed` is **false** of the faithful model (colour
on): the quote inside `://'@` pairs with the first quote of `'q'`, so the run between them is what
gets coloured, while with the user-info `x` it is `q`.  The two outputs differ in where a colour code
stands — one bit about the user-info (it contains a quote), not the credential, which is removed in
both.  This is why `UrlSafe` excludes the apostrophe; such user-infos are carried by the
correspondence and the token oracle. -/
theorem quote_in_userinfo_breaks_strict_noninterference :
    let pre : Str := ['a', ' ']
    let post : Str := ['h', ' ', '\'', 'q', '\'']
    format (fun _ => []) true (fun _ => none) (pre ++ urlTail ['\''] post)
      ≠ format (fun _ => []) true (fun _ => none) (pre ++ urlTail ['x'] post)
    ∧ cleanRun Gen.Sanitise.urlClose ['\''] = true ∧ ¬ UrlSafe ['\''] := by
  refine ⟨by decide +kernel, by decide, ?_⟩
  intro h
  exact absurd (h '\'' (List.mem_singleton.mpr rfl)) (by decide)

/-! ## the ways a message reaches the formatter (round 4)

`format()` is handed a `LogRecord`: the template the caller wrote (`record.msg`), the %-arguments
(`record.args`), the traceback.  A URL or a JSON object can arrive through any of them
(`logger.error("cannot connect to %s", url)`, `logger.info("%s", json_text)`, a message object with
`__str__`, an exception text).  The theorems of this section are stated on the translation of the
source's `format` *with the record in scope* and for every inner formatter, so that what is scrubbed and
sanitised is provably the formatted text, whatever way its parts came in. -/

/-- **The scrub is over the formatted record.**  For every inner formatter and any two records —
any templates, any arguments — whose formatted lines differ only in the user-info of a URL, the source's
`format` returns the same text.  Nothing is assumed about where in the record the URL came from. -/
theorem url_in_formatted_record_removed (h : Json → Str) (can : Bool) (parse : Str → Option (List (Str × Json)))
    (orig : LogRec → Str) (r₁ r₂ : LogRec) (pre post u₁ u₂ : Str)
    (hu₁ : UrlSafe u₁) (hu₂ : UrlSafe u₂)
    (e₁ : orig r₁ = pre ++ urlTail u₁ post) (e₂ : orig r₂ = pre ++ urlTail u₂ post)
    (hp₁ : isolate parse [] (splitOn '|' (pre ++ urlTail u₁ post)) = none)
    (hp₂ : isolate parse [] (splitOn '|' (pre ++ urlTail u₂ post)) = none) :
    Gen.SanitiseFns.format orig (sanitize h can parse) redactUrl r₁
      = Gen.SanitiseFns.format orig (sanitize h can parse) redactUrl r₂ := by
  rw [generated_format_eq_model, generated_format_eq_model, formatRec, formatRec, e₁, e₂]
  exact plain_text_url_userinfo_removed h can parse pre post u₁ u₂ hu₁ hu₂ hp₁ hp₂

/-- **… and so is the sanitising.**  Two records — any templates, any arguments — whose formatted lines
are the same header followed by JSON objects with the same erasure are formatted to the same text
(`logger.info("%s", json_text)` is sanitised like `logger.info(json_text)`). -/
theorem json_in_formatted_record_noninterference (h : Json → Str) (can : Bool)
    (parse : Str → Option (List (Str × Json))) (orig : LogRec → Str) (r₁ r₂ : LogRec)
    (header j₁ j₂ : Str) (d₁ d₂ : List (Str × Json))
    (e₁ : orig r₁ = header ++ '|' :: j₁) (e₂ : orig r₂ = header ++ '|' :: j₂)
    (hj₁ : parse j₁ = some d₁) (hj₂ : parse j₂ = some d₂)
    (ho₁ : firstNonSpace j₁ = some '{') (ho₂ : firstNonSpace j₂ = some '{')
    (hno₁ : ∀ fs, fs ≠ [] → fs <:+ splitOn '|' header → parse (joinWith '|' (fs ++ splitOn '|' j₁)) = none)
    (hno₂ : ∀ fs, fs ≠ [] → fs <:+ splitOn '|' header → parse (joinWith '|' (fs ++ splitOn '|' j₂)) = none)
    (he : eraseObj h d₁ = eraseObj h d₂) :
    Gen.SanitiseFns.format orig (sanitize h can parse) redactUrl r₁
      = Gen.SanitiseFns.format orig (sanitize h can parse) redactUrl r₂ := by
  rw [generated_format_eq_model, generated_format_eq_model, formatRec, formatRec, e₁, e₂]
  exact format_noninterference h can parse header j₁ j₂ d₁ d₂ hj₁ hj₂ ho₁ ho₂ hno₁ hno₂ he

/-- `template % (x,)` for a template with one `%s` and no other `%`: the argument is spliced in. -/
theorem pctFormat_one_argument (a b x : Str) (ha : '%' ∉ a) (hb : '%' ∉ b) :
    pctFormat (a ++ '%' :: 's' :: b) [x] = some (a ++ x ++ b) := by
  induction a with
  | nil => rw [List.nil_append, pctFormat_s, pctFormat_plain b hb]; simp
  | cons c a ih =>
    have hc : c ≠ '%' := fun e => ha (by simp [e])
    have ha' : '%' ∉ a := fun m => ha (List.mem_cons_of_mem _ m)
    rw [List.cons_append, pctFormat_cons_ne _ _ _ hc, ih ha']; simp

/-- **A URL that arrives as a %-argument is scrubbed** (`logger.error("cannot connect to %s", url)`, the
idiom the logging module recommends): for the standard inner formatter (header fields, the message,
the traceback), a template with one `%s` — which need not contain `://` — and an argument holding a URL,
the source's `format` does not depend on the user-info. -/
theorem url_as_argument_removed (h : Json → Str) (can : Bool) (parse : Str → Option (List (Str × Json)))
    (header a b p q trailer u₁ u₂ : Str) (ha : '%' ∉ a) (hb : '%' ∉ b)
    (hu₁ : UrlSafe u₁) (hu₂ : UrlSafe u₂)
    (hp₁ : isolate parse [] (splitOn '|' ((header ++ a ++ p) ++ urlTail u₁ (q ++ b ++ trailer))) = none)
    (hp₂ : isolate parse [] (splitOn '|' ((header ++ a ++ p) ++ urlTail u₂ (q ++ b ++ trailer))) = none) :
    Gen.SanitiseFns.format (fun r => (stdLine header r).getD []) (sanitize h can parse) redactUrl
        ⟨a ++ '%' :: 's' :: b, [p ++ urlTail u₁ q], trailer⟩
      = Gen.SanitiseFns.format (fun r => (stdLine header r).getD []) (sanitize h can parse) redactUrl
        ⟨a ++ '%' :: 's' :: b, [p ++ urlTail u₂ q], trailer⟩ := by
  have line : ∀ u, (stdLine header ⟨a ++ '%' :: 's' :: b, [p ++ urlTail u q], trailer⟩).getD []
      = (header ++ a ++ p) ++ urlTail u (q ++ b ++ trailer) := by
    intro u
    simp [stdLine, LogRec.getMessage, pctFormat_one_argument a b _ ha hb, urlTail, List.append_assoc]
  exact url_in_formatted_record_removed h can parse _ _ _ _ _ u₁ u₂ hu₁ hu₂ (line u₁) (line u₂) hp₁ hp₂

/-- The seeded guard, as a counterexample kept in the file: testing the *template* for `://` instead of
the formatted text is not the model — for `logger.error("to %s", "db://u:p@h")` the template holds no
URL, the scrub is skipped and the user-info `u:p` is in the record. -/
theorem a_guard_on_the_template_is_not_the_model :
    let r : LogRec := ⟨"to %s".toList, ["db://u:p@h".toList], []⟩
    let orig : LogRec → Str := fun r => (stdLine "n | ".toList r).getD []
    let line := sanitize (fun _ => []) false (fun _ => none) (orig r)
    let seeded := if isInfix "://".toList r.msg then redactUrl line else line
    seeded ≠ formatRec (fun _ => []) false (fun _ => none) orig r
      ∧ isInfix "u:p".toList seeded = true
      ∧ isInfix "u:p".toList (formatRec (fun _ => []) false (fun _ => none) orig r) = false := by
  refine ⟨by decide +kernel, by decide +kernel, by decide +kernel⟩

/-! ## the structured logger -/

/-- **`GoogleLogger.write_event`**: the JSON line it prints and returns for a dict message —
`clean_record(message, False)`, `str(message) + " *"` under `"message"`, the cleaned members merged
into the structured log, `orjson.dumps` — is a function of the erased message, for every digest and
every content of the structured log (severity, labels, source location, span id). -/
theorem write_event_noninterference (h : Json → Str) (base : List (Str × GVal)) (r₁ r₂ : List (Str × Json))
    (he : eraseObj h r₁ = eraseObj h r₂) : writeEvent h base r₁ = writeEvent h base r₂ := by
  simp only [writeEvent, eventLog, cleanObj_congr h _ r₁ r₂ he]

/-- **`write_event`, dict message**: clean with colours off, store `str(cleaned) + " *"` under
`"message"`, merge the cleaned members, print — in the order of the source. -/
theorem generated_write_event_dict_eq_model (h : Json → Str) (base : List (Str × GVal)) (msg : List (Str × Json)) :
    Gen.SanitiseFns.write_event_dict (cleanObj h (colorsFor false)) orjsonDumps base msg = writeEvent h base msg := by
  simp only [Gen.SanitiseFns.write_event_dict, writeEvent, eventLog]

/-- **`write_event`, text message**: the URL rule first, then the message is stored and printed. -/
theorem generated_write_event_text_eq_model (base : List (Str × GVal)) (msg : Str) :
    Gen.SanitiseFns.write_event_text (redactUrlWith Gen.Sanitise.gUrlReplacement) orjsonDumps base msg
      = writeEventText base msg := by
  simp only [Gen.SanitiseFns.write_event_text, writeEventText, eventTextLog, Gen.Sanitise.gUrlGuard, true_and]
  split <;> simp_all

/-- The structured logger uses the URL expression of `format()` (only the replacement differs). -/
theorem write_event_uses_the_url_rule_of_format :
    Gen.Sanitise.gUrlOpen = Gen.Sanitise.urlOpen ∧ Gen.Sanitise.gUrlClose = Gen.Sanitise.urlClose
      ∧ Gen.Sanitise.gUrlGuard = Gen.Sanitise.urlOpen := by decide

/-- **URL credentials in a text message of the structured logger are removed**: the line
`write_event` prints for a text message does not depend on the user-info of a URL in it, for
arbitrary surrounding text and every content of the structured log. -/
theorem write_event_text_url_userinfo_removed (base : List (Str × GVal)) (pre post u₁ u₂ : Str)
    (h₁ : cleanRun Gen.Sanitise.urlClose u₁ = true) (h₂ : cleanRun Gen.Sanitise.urlClose u₂ = true) :
    writeEventText base (pre ++ urlTail u₁ post) = writeEventText base (pre ++ urlTail u₂ post) := by
  have guard : ∀ u, isInfix Gen.Sanitise.gUrlGuard (pre ++ urlTail u post) = true := by
    intro u
    have : pre ++ urlTail u post = pre ++ Gen.Sanitise.gUrlGuard ++ (u ++ Gen.Sanitise.urlClose :: post) := by
      simp [urlTail, Gen.Sanitise.gUrlGuard, Gen.Sanitise.urlOpen, List.append_assoc]
    rw [this]
    exact isInfix_self _ _ _ (by decide)
  simp only [writeEventText, eventTextLog, guard, if_true, redactUrlWith]
  rw [redactUrlWF_congr _ u₁ u₂ post h₁ h₂ pre.length pre (Nat.le_refl _) _ _ (Nat.le_succ _) (Nat.le_succ _)]

/-! ## the structured logger's entry points (`GoogleLogger()`, what `get_logger()` returns under `K_SERVICE`) -/

/-- **Every entry point hands the caller's message to `write_event` as it is**: the argument expressions of
`base_logger` (what `logger.debug/…/alert` are) and of `__call__`, translated from the source, are the
message itself - not `str(message)`, not a decorated text, and `write_event` is the function called. -/
theorem structured_logger_entry_points_pass_the_message {α : Type} (w : Msg → α) (pyStr : Msg → Msg) (m : Msg) :
    Gen.SanitiseFns.base_logger w pyStr m = w m ∧ Gen.SanitiseFns.call_logger w pyStr m = w m :=
  ⟨rfl, rfl⟩

/-- **A level method of a `GoogleLogger()` instance, end to end**: what `logger.<level>(dict)` prints - nothing
below the level, else `write_event`'s line - is the same for two dicts with the same erasure.  Which levels are filtered (`Gen.SanitiseFns.logs_at`, the
translated test of `create_logger`) is not part of the property: the statement holds for the test as it stands. -/
theorem structured_logger_method_noninterference (h : Json → Str) (base : List (Str × GVal))
    (level selfLevel : Int) (r₁ r₂ : List (Str × Json)) (he : eraseObj h r₁ = eraseObj h r₂) :
    (if Gen.SanitiseFns.logs_at level selfLevel then
        some (Gen.SanitiseFns.base_logger (fun m => match m with | .dict d => writeEvent h base d | _ => []) id (.dict r₁))
      else none)
    = (if Gen.SanitiseFns.logs_at level selfLevel then
        some (Gen.SanitiseFns.base_logger (fun m => match m with | .dict d => writeEvent h base d | _ => []) id (.dict r₂))
      else none) := by
  rw [(structured_logger_entry_points_pass_the_message _ id (.dict r₁)).1,
    (structured_logger_entry_points_pass_the_message _ id (.dict r₂)).1]
  simp only [write_event_noninterference h base r₁ r₂ he]

/-! ## from `logger.<level>(dict)` to the handler: `add_level.py`

`get_logger()` installs `log_for_level` as `logger.debug / info / warning / error / audit / alert`.  It is
the code between the caller's dict and the text `LogFormatter.format` sees; the statement's "a log message
is a JSON object" is decided on what *it* hands to `Logger._log`. -/

/-- The translation of `log_for_level` as it stands in `add_level.py` is the model `logForLevel`: serialise a
dict (orjson, else json, else `str`), decode bytes, drop a record below the level or a repeated WARNING,
hand everything else to `_log` unchanged.  A cap, a prefix, another fallback order, a decoration of the
text break this equation. -/
theorem generated_log_for_level_eq_model (oj js : List (Str × Json) → Option Str) (str : List (Str × Json) → Str)
    (enabled isWarning : Bool) (seen : Msg → Bool) (m : Msg) :
    Gen.SanitiseFns.log_for_level (ojMsg oj) (jsMsg js) (strMsg str) enabled isWarning seen m
      = logForLevel oj js str enabled isWarning seen m := by
  cases m with
  | dict d =>
    rcases ho : oj d with _ | b <;> rcases hj : js d with _ | t <;> cases enabled <;> cases isWarning <;>
      simp [Gen.SanitiseFns.log_for_level, logForLevel, handOver, ojMsg, jsMsg, strMsg, Msg.isDict, Msg.isBytes,
        Msg.decode, ho, hj] <;> (split <;> simp_all)
  | bytes b =>
    cases enabled <;> cases isWarning <;>
      simp [Gen.SanitiseFns.log_for_level, logForLevel, handOver, Msg.isDict, Msg.isBytes, Msg.decode] <;>
      (split <;> simp_all)
  | text t =>
    cases enabled <;> cases isWarning <;>
      simp [Gen.SanitiseFns.log_for_level, logForLevel, handOver, Msg.isDict, Msg.isBytes] <;>
      (split <;> simp_all)

/-- **A dict reaches the formatter as its whole serialisation**: on the source's own translation, an enabled
call that is not a repeated warning hands `_log` exactly the text `orjson.dumps` wrote - of any length. -/
theorem logger_call_hands_over_the_serialisation (oj js : List (Str × Json) → Option Str)
    (str : List (Str × Json) → Str) (isWarning : Bool) (seen : Msg → Bool) (d : List (Str × Json)) (t : Str)
    (ht : oj d = some t) (hw : isWarning = false ∨ seen (.text t) = false) :
    Gen.SanitiseFns.log_for_level (ojMsg oj) (jsMsg js) (strMsg str) true isWarning seen (.dict d) = some (.text t) := by
  rw [generated_log_for_level_eq_model]
  rcases hw with hw | hw <;> simp [logForLevel, handOver, ht, hw]

/-- ... and when orjson refuses the dict (an integer beyond 64 bits, an unpaired surrogate) it is the
standard library's JSON text, not `str(dict)` (F08). -/
theorem logger_call_falls_back_to_json (oj js : List (Str × Json) → Option Str)
    (str : List (Str × Json) → Str) (isWarning : Bool) (seen : Msg → Bool) (d : List (Str × Json)) (t : Str)
    (ho : oj d = none) (ht : js d = some t) (hw : isWarning = false ∨ seen (.text t) = false) :
    Gen.SanitiseFns.log_for_level (ojMsg oj) (jsMsg js) (strMsg str) true isWarning seen (.dict d) = some (.text t) := by
  rw [generated_log_for_level_eq_model]
  rcases hw with hw | hw <;> simp [logForLevel, handOver, ho, ht, hw]

/-- **End to end** (`logger.error(dict)` → record): two dicts with the same erasure, logged through the
translated `log_for_level` and formatted by `LogFormatter.format` behind the same header, give the same
record (or are both dropped) - for every serialiser that the parser reads back (`hrt`: `json.loads` of the
text `orjson.dumps` wrote is the dict; measured on every end-to-end case), whatever the level filter says,
for every digest, colour setting and message length.  `hno`: the header is not itself JSON. -/
theorem logger_call_noninterference (h : Json → Str) (can : Bool) (parse : Str → Option (List (Str × Json)))
    (oj js : List (Str × Json) → Option Str) (str : List (Str × Json) → Str) (enabled : Bool)
    (header j₁ j₂ : Str) (d₁ d₂ : List (Str × Json))
    (hs₁ : oj d₁ = some j₁) (hs₂ : oj d₂ = some j₂)
    (hrt₁ : parse j₁ = some d₁) (hrt₂ : parse j₂ = some d₂)
    (ho₁ : firstNonSpace j₁ = some '{') (ho₂ : firstNonSpace j₂ = some '{')
    (hno₁ : ∀ fs, fs ≠ [] → fs <:+ splitOn '|' header → parse (joinWith '|' (fs ++ splitOn '|' j₁)) = none)
    (hno₂ : ∀ fs, fs ≠ [] → fs <:+ splitOn '|' header → parse (joinWith '|' (fs ++ splitOn '|' j₂)) = none)
    (he : eraseObj h d₁ = eraseObj h d₂) :
    emitted h can parse header
        (Gen.SanitiseFns.log_for_level (ojMsg oj) (jsMsg js) (strMsg str) enabled false (fun _ => false) (.dict d₁))
      = emitted h can parse header
        (Gen.SanitiseFns.log_for_level (ojMsg oj) (jsMsg js) (strMsg str) enabled false (fun _ => false) (.dict d₂)) := by
  rw [generated_log_for_level_eq_model, generated_log_for_level_eq_model]
  cases enabled
  · simp [logForLevel, emitted]
  · simp only [logForLevel, handOver, hs₁, hs₂, emitted, if_true, Bool.false_and, Bool.false_eq_true, if_false]
    rw [format_noninterference h can parse header j₁ j₂ d₁ d₂ hrt₁ hrt₂ ho₁ ho₂ hno₁ hno₂ he]

/-- The seeded cap, as a counterexample kept in the file: a hand-over that cuts the text after `n`
characters is *not* the model - already a three-character object loses its closing brace at `n = 2`. -/
theorem a_capped_hand_over_is_not_the_model :
    ∃ (oj : List (Str × Json) → Option Str) (d : List (Str × Json)),
      (match handOver oj (fun _ => none) (fun _ => []) (.dict d) with
        | .text t => some (t.take 2)
        | _ => none) ≠ (oj d) := by
  refine ⟨fun _ => some ['{', '}', ' '], [], ?_⟩
  decide

/-! ## non-vacuity -/

/-- `UrlSafe` / `tokenHeadOK` are inhabited by what they are meant for, the isolation fails on a
plain message for the parser that accepts nothing, and `write_event` on `{"pwd": "x", "n": "v"}`. -/
example :
    (∀ c ∈ "user:p%40ss-W0rd".toList, urlSafeChar c = true) ∧ tokenHeadOK '7' = true ∧ tokenHeadOK 'm' = false
    ∧ isolate (fun _ => none) [] (splitOn '|' "a | see ftp://u:p@h".toList) = none
    ∧ writeEvent (fun _ => ['9']) [(['s'], .text ['D'])] [(['p', 'w', 'd'], .str ['x']), (['n'], .str ['v'])]
      = "{\"s\":\"D\",\"message\":\"{'pwd': '<redacted:9>', 'n': 'v'} *\",\"pwd\":\"<redacted:9>\",\"n\":\"v\"}".toList := by
  refine ⟨by decide, by decide, by decide, by rfl, by decide⟩


/-- The guard hypotheses of `split_recovers_json_guard` on a header shaped like `create_logger.py`'s
and on a message that starts with a BOM and white space; a field that starts with `{` does pass. -/
example :
    (∀ f ∈ splitOn '|' ['n', ' ', '|', ' ', 'E', ' '], opensObject f = false)
    ∧ opensObject [Char.ofNat 0xfeff, ' ', '{', '"', 'a', '"', ':', '1', '}'] = true
    ∧ opensObject ['x', '{'] = false := by decide

/-- `log_for_level` on concrete arguments: a dict orjson writes, a dict only json writes, a dict
neither writes, bytes, a filtered call, a repeated warning - and the table the key theorem is about. -/
example :
    let oj : List (Str × Json) → Option Str := fun d => if d.length = 1 then some ['{', 'o', '}'] else none
    let js : List (Str × Json) → Option Str := fun d => if d.length ≤ 2 then some ['{', 'j', '}'] else none
    let f := Gen.SanitiseFns.log_for_level (ojMsg oj) (jsMsg js) (strMsg fun _ => ['s'])
    f true false (fun _ => false) (.dict [(['a'], .null)]) = some (.text ['{', 'o', '}'])
    ∧ f true false (fun _ => false) (.dict [(['a'], .null), (['b'], .null)]) = some (.text ['{', 'j', '}'])
    ∧ f true false (fun _ => false) (.dict [(['a'], .null), (['b'], .null), (['c'], .null)]) = some (.text ['s'])
    ∧ f true true (fun _ => false) (.bytes ['x']) = some (.text ['x'])
    ∧ f false false (fun _ => false) (.text ['x']) = none
    ∧ f true true (fun _ => true) (.text ['x']) = none
    ∧ patterns.map patCore ≠ [] := by
  refine ⟨by rfl, by rfl, by rfl, by rfl, by rfl, by rfl, by decide⟩

/-- `VisibleAt` is inhabited two objects down: the token `T1` inside `{"a": {"n": "xT1y"}}`. -/
example : VisibleAt ['T', '1'] [(['a'], .obj [(['n'], .str ['x', 'T', '1', 'y'])])] :=
  .inner _ _ _ (List.mem_singleton.mpr rfl) (by decide)
    (.leaf _ _ _ (List.mem_singleton.mpr rfl) (by decide) (by intro kvs h; cases h) ⟨['x'], ['y'], rfl⟩)

/-- The syntactic side condition holds of a header shaped like the one of `create_logger.py`
(`name | LEVEL `, fields not starting with `{`). -/
example : ∀ f ∈ splitOn '|' ['n', ' ', '|', ' ', 'E', ' '], firstNonSpace f ≠ some '{' := by decide

/-- The isolation hypotheses are satisfiable with a message that contains the separator, and the
URL rule on a text with two URLs and a stray `@`. -/
example :
    let parse : Str → Option (List (Str × Json)) := fun t => if t = ['{', '|', '}'] then some [] else none
    isolate parse [] (splitOn '|' ['h', '|', '{', '|', '}']) = some ([['h']], [])
    ∧ redactUrl "a://u:p@h b://q@i @".toList = "a://\x01BOLD_PURLEm<redacted>\x01OFFmh b://\x01BOLD_PURLEm<redacted>\x01OFFmi @".toList := by
  refine ⟨by rfl, by decide⟩

/-- The record-level hypotheses are inhabited: `"to %s" % ("db://u:p@h",)` behind the header `n | `, no
traceback, is formatted to a line whose user-info is replaced; too few / too many arguments and an unknown
directive are errors, `%%` is a per cent sign, and no arguments means no formatting at all. -/
example :
    formatRec (fun _ => []) false (fun _ => none) (fun r => (stdLine "n | ".toList r).getD [])
        ⟨"to %s".toList, ["db://u:p@h".toList], []⟩
      = "n | to db://\x01BOLD_PURLEm<redacted>\x01OFFmh *".toList
    ∧ pctFormat "%s".toList [] = none ∧ pctFormat "x".toList [['a']] = none ∧ pctFormat "%q".toList [['a']] = none
    ∧ pctFormat "%d%% of %s".toList [['7'], ['x']] = some "7% of x".toList
    ∧ (⟨"100%".toList, [], []⟩ : LogRec).getMessage = some "100%".toList := by
  refine ⟨by decide +kernel, by decide +kernel, by decide +kernel, by decide +kernel, by decide +kernel, by decide +kernel⟩

/-! ## the state of the process before the logger is made (seventh pass) -/

/-- the level methods that turn a dictionary into JSON text, by the level name `get_logger()` registers them under -/
def overriddenLevels : List String := ["DEBUG", "INFO", "WARNING", "ERROR"]

/-- "through the logger `create_logger.get_logger()` builds": the methods `debug`, `info`, `warning`, `error` of the standard
library exist on every `logging.Logger` and print a dictionary as `str(dict)` (no JSON, no sanitising).  `get_logger()` replaces
each of them by `log_for_level` **on every call and under no test of what the process already holds** - the list read from
`get_logger()` on this run (`Gen.Sanitise.levelInstalls`) has each of the four names with an empty list of enclosing tests.
Moving the calls under `if not hasattr(logger, "audit")` (seeded C20-w9s2) makes the replacement depend on attributes another
library may have put on `logging.Logger`, and this proof fails. -/
theorem overrides_installed_unconditionally :
    ∀ n ∈ overriddenLevels, (n, ([] : List String)) ∈ Gen.Sanitise.levelInstalls := by
  decide

/-- every one of the six level names is registered by `get_logger()` at all (guarded or not) -/
theorem every_level_method_is_installed :
    ∀ n ∈ ["DEBUG", "INFO", "WARNING", "ERROR", "AUDIT", "ALERT"], n ∈ Gen.Sanitise.levelInstalls.map Prod.fst := by
  decide

end C20
