import OrsoVerif.Lemmas.IsoText
import OrsoVerif.Lemmas.IsoSafe
import OrsoVerif.Lemmas.IsoEpoch
import OrsoVerif.Lemmas.IsoEpochTotal
/-!
# C08 — Timestamp parsing round-trips ISO-8601 and epoch forms and is total

Property theorems only (helpers are in `Lemmas/Iso*.lean`).  The model is `Model/Iso.lean`; the
offsets, windows and the `except` tuple it uses are `Gen.Iso.*`, regenerated from
`orso/tools.py` on every run, so every theorem below is re-checked against the current source.
-/
namespace C08
open Iso

/-- **The generated guards accept the canonical renderings.**  Every expression lifted from
`parse_iso` on this run (`Gen.Iso`: the two length windows, the dash / separator / seconds tests
with their subscripts and joining operators, the three `val_len` tests, the slice offsets, the `Z`
and `+` characters) does what the round-trip theorems below need: lengths 10..33 pass the window,
10..28 pass the window after the `+` split, `-`, `T`/space and `:` at offsets 4/7, 10, 13, 16 are
not rejected, length 10 selects the date form, ≥ 19 the seconds form, 16 the minute form. -/
theorem guards_accept_canonical_renderings : Iso.Accepts where
  idx := by decide
  slices := by decide
  chars := by decide
  window := by intro n h1 h2; unfold Gen.Iso.lenWindow; omega
  plus := by intro n h1 h2; unfold Gen.Iso.plusReject; omega
  dash := by decide
  sep := by intro c hc; rcases hc with rfl | rfl <;> decide
  dateLen := by decide
  timeLen := by intro n h; unfold Gen.Iso.dateLenTest Gen.Iso.timeLenTest; omega
  minLen := by decide
  secLen := by intro n h; unfold Gen.Iso.secLenTest; omega
  secChar := by decide

/-- **The generated guards cover every subscript, and the `except` tuple every exception.**  The
four classes the primitives raise (`ValueError`, `UnicodeDecodeError`, `OverflowError`, `OSError`)
are caught by the extracted tuple; the length window guarantees the 9 characters the dash test
reads (also after the `+` split); `value[10]`/`value[13]` are read only under a `val_len` test that
covers them, `value[16]` only under one that covers it; `datetime(...)` gets 3, 5 or 6 arguments. -/
theorem guards_cover_subscripts_and_exceptions : Iso.Covers where
  catches := by decide
  window := by intro n h; unfold Gen.Iso.lenWindow at h; omega
  plus := by intro n h; unfold Gen.Iso.plusReject at h; omega
  dashIdx := by decide
  time := by intro n h; unfold Gen.Iso.timeLenTest at h; simp only [Gen.Iso.sepIdx, Gen.Iso.colonA]; omega
  sec := by intro n h; unfold Gen.Iso.secLenTest at h; simp only [Gen.Iso.colonB]; omega
  arity := by decide

/-- **ISO round trip, seconds form.**  For every valid date-time of years 1..9999, separator `T`
or space, any number `k` of fraction digits (the first `k` of the six microsecond digits; `k = 0`
means no fraction), and suffix none / `Z` / `+HH:MM` / `-HH:MM`, parsing the rendering returns the
wall-clock time truncated to whole seconds. -/
theorem iso_roundtrip (dt : DateTime) (h : validDateTime dt = true) (sep : Char)
    (hsep : sep = 'T' ∨ sep = ' ') (k : Nat) (suf : Suffix) :
    parseIso (.str (render dt sep k suf)) = .value (truncSeconds dt) := by
  obtain ⟨p1, l1⟩ := plain_renderSecond dt sep hsep
  obtain ⟨p2, l2⟩ := plain_fraction dt.micro k
  have p12 : (renderSecond dt sep ++ fraction dt.micro k).all plainC = true := by
    rw [List.all_append, p1, p2]; rfl
  have hnd : isDigitStr (render dt sep k suf) = false := by
    simp only [render, renderSecond, renderMinute, List.append_assoc]
    exact notDigit_renderDate _ _ _ _
  apply parseIso_text _ hnd
  unfold render
  cases suf with
  | none =>
    simp only [Suffix.text, List.append_nil]
    rw [textPath_plain guards_accept_canonical_renderings _ p12 (by simp; omega) (by simp; omega)]
    exact shaped_second guards_accept_canonical_renderings dt h sep hsep _
  | z =>
    simp only [Suffix.text]
    rw [textPath_z guards_accept_canonical_renderings _ p12 (by simp; omega) (by simp; omega)]
    exact shaped_second guards_accept_canonical_renderings dt h sep hsep _
  | plus hh mm =>
    obtain ⟨p3, l3⟩ := plain_offset hh mm
    have e : Suffix.text (.plus hh mm) = '+' :: (pad2 hh ++ ':' :: pad2 mm) := rfl
    rw [e, textPath_plus guards_accept_canonical_renderings _ _ p12 (plain_split p3).1 (by simp; omega) (by simp; omega) (by simp [pad2]; omega)]
    exact shaped_second guards_accept_canonical_renderings dt h sep hsep _
  | minus hh mm =>
    obtain ⟨p3, l3⟩ := plain_offset hh mm
    have hm : plainC '-' = true := by decide
    have e : Suffix.text (.minus hh mm) = '-' :: (pad2 hh ++ ':' :: pad2 mm) := rfl
    rw [e, textPath_plain guards_accept_canonical_renderings _ (by rw [List.all_append, p12, List.all_cons, hm, p3]; rfl) (by simp; omega)
      (by simp [pad2]; omega)]
    rw [List.append_assoc]
    exact shaped_second guards_accept_canonical_renderings dt h sep hsep _

/-- **Minute-precision form** `YYYY-MM-DD<sep>HH:MM` (optionally followed by `Z` or `+HH:MM`)
returns the corresponding minute. -/
theorem minute_form (dt : DateTime) (h : validDateTime dt = true) (sep : Char)
    (hsep : sep = 'T' ∨ sep = ' ') (suf : Suffix) (hs : suf.dropped = true) :
    parseIso (.str (renderMinute dt sep ++ suf.text)) = .value { dt with second := 0, micro := 0 } := by
  have hv : validDateTime { dt with second := 0 } = true := by
    simp only [validDateTime, validDate, Bool.and_eq_true, decide_eq_true_eq] at h ⊢
    omega
  obtain ⟨p1, l1⟩ := plain_renderMinute dt sep hsep
  have hnd : isDigitStr (renderMinute dt sep ++ suf.text) = false := by
    simp only [renderMinute, List.append_assoc]
    exact notDigit_renderDate _ _ _ _
  apply parseIso_text _ hnd
  rw [textPath_dropped guards_accept_canonical_renderings _ p1 (by omega) (by omega) suf hs]
  exact shaped_minute guards_accept_canonical_renderings { dt with second := 0 } hv rfl sep hsep

/-- **Date-only form** `YYYY-MM-DD` (optionally followed by `Z` or `+HH:MM`) returns midnight. -/
theorem date_form (y m d : Nat) (h : validDate y m d = true) (suf : Suffix)
    (hs : suf.dropped = true) :
    parseIso (.str (renderDate y m d ++ suf.text)) = .value ⟨y, m, d, 0, 0, 0, 0⟩ := by
  obtain ⟨p1, l1⟩ := plain_renderDate y m d
  apply parseIso_text _ (notDigit_renderDate y m d _)
  rw [textPath_dropped guards_accept_canonical_renderings _ p1 (by omega) (by omega) suf hs]
  exact shaped_date guards_accept_canonical_renderings y m d h

/-- **UTF-8 bytes are read as the text they encode** (every `String`, hence every rendering). -/
theorem utf8_bytes_as_text (s : String) :
    parseIso (.bytes s.toUTF8.data.toList) = parseIso (.str s.toList) := by
  simp only [parseIso, parseIsoWith, body, decodeUtf8_toUTF8]

/-- Bytes that are not valid UTF-8 give `None` (`UnicodeDecodeError` is a `ValueError`). -/
theorem invalid_utf8_none (b : List UInt8) (h : decodeUtf8 b = none) : parseIso (.bytes b) = .none := by
  simp only [parseIso, parseIsoWith, body, h, guards_cover_subscripts_and_exceptions.catches.2.1, if_true]

/-- **Native inputs**: a `date` maps to its midnight, a `datetime` to itself truncated to seconds. -/
theorem native_inputs (y m d : Nat) (dt : DateTime) :
    parseIso (.date y m d) = .value ⟨y, m, d, 0, 0, 0, 0⟩ ∧
    parseIso (.datetime dt) = .value (truncSeconds dt) := ⟨rfl, rfl⟩

/-- **Unix seconds in UTC.**  For every valid date-time, its epoch second count — given as an
`int`, a `numpy.int64`, a float (or `numpy.float64`) that truncates to it, or all-digit text —
parses back to the date-time (whole seconds).  `toEpoch` is days-from-civil
(`datetime.date.toordinal`), the parser uses civil-from-days. -/
theorem epoch_utc (dt : DateTime) (h : validDateTime dt = true) :
    parseIso (.int (toEpoch dt)) = .value (truncSeconds dt) ∧
    parseIso (.npInt (toEpoch dt)) = .value (truncSeconds dt) ∧
    (∀ b, floatTrunc b = .fin (toEpoch dt) →
      parseIso (.float b) = .value (truncSeconds dt) ∧ parseIso (.npFloat b) = .value (truncSeconds dt)) := by
  have hf := fromTimestamp_toEpoch dt h
  have c1 : Gen.Iso.epochTypes.contains "int" = true := by decide
  have c2 : Gen.Iso.epochTypes.contains "numpy.int64" = true := by decide
  have c3 : Gen.Iso.epochTypes.contains "float" = true := by decide
  have c4 : Gen.Iso.epochTypes.contains "numpy.float64" = true := by decide
  refine ⟨?_, ?_, ?_⟩
  · simp only [parseIso, parseIsoWith, body, epoch, c1, if_true, bind_ok, hf]
  · simp only [parseIso, parseIsoWith, body, epoch, c2, if_true, bind_ok, hf]
  · intro b hb
    constructor
    · simp only [parseIso, parseIsoWith, body, epoch, c3, if_true, intOfFloat, hb, bind_ok, hf]
    · simp only [parseIso, parseIsoWith, body, epoch, c4, if_true, intOfFloat, hb, bind_ok, hf]

/-- **Every integer, read as Unix seconds: sound inside the representable range, None outside.**
For every `n`: if `minEpoch ≤ n ≤ maxEpoch` (0001-01-01T00:00:00 … 9999-12-31T23:59:59) the parser
returns a valid whole-second date-time `dt` with `toEpoch dt = n` (civil-from-days is sound, not
only an inverse on renderings); otherwise it returns `None` — whichever of `OverflowError`
(outside 64-bit `time_t`), `OSError` (year does not fit the C `tm`) or `ValueError` the platform
raises at that magnitude is covered by the extracted `except` tuple.  The same holds for
`numpy.int64` input and for every float whose truncation is `n`. -/
theorem epoch_total (n : Int) :
    (minEpoch ≤ n ∧ n ≤ maxEpoch →
      ∃ dt, validDateTime dt = true ∧ dt.micro = 0 ∧ toEpoch dt = n ∧
        parseIso (.int n) = .value dt ∧ parseIso (.npInt n) = .value dt ∧
        ∀ b, floatTrunc b = .fin n → parseIso (.float b) = .value dt ∧ parseIso (.npFloat b) = .value dt) ∧
    (n < minEpoch ∨ maxEpoch < n →
      parseIso (.int n) = .none ∧ parseIso (.npInt n) = .none ∧
        ∀ b, floatTrunc b = .fin n → parseIso (.float b) = .none ∧ parseIso (.npFloat b) = .none) ∧
    minEpoch = toEpoch ⟨1, 1, 1, 0, 0, 0, 0⟩ ∧ maxEpoch = toEpoch ⟨9999, 12, 31, 23, 59, 59, 0⟩ := by
  have c1 : Gen.Iso.epochTypes.contains "int" = true := by decide
  have c2 : Gen.Iso.epochTypes.contains "numpy.int64" = true := by decide
  have c3 : Gen.Iso.epochTypes.contains "float" = true := by decide
  have c4 : Gen.Iso.epochTypes.contains "numpy.float64" = true := by decide
  obtain ⟨hin, hout⟩ := fromTimestamp_spec n
  refine ⟨?_, ?_, by decide, by decide⟩
  · intro hr
    obtain ⟨dt, hf, hv, hm, he⟩ := hin hr
    refine ⟨dt, hv, hm, he, ?_, ?_, ?_⟩
    · simp only [parseIso, parseIsoWith, body, epoch, c1, if_true, bind_ok, hf]
    · simp only [parseIso, parseIsoWith, body, epoch, c2, if_true, bind_ok, hf]
    · intro b hb
      constructor
      · simp only [parseIso, parseIsoWith, body, epoch, c3, if_true, intOfFloat, hb, bind_ok, hf]
      · simp only [parseIso, parseIsoWith, body, epoch, c4, if_true, intOfFloat, hb, bind_ok, hf]
  · intro hr
    obtain ⟨e, hf⟩ := hout hr
    have hc : caughtBy Gen.Iso.caught e = true := fromTimestamp_safe guards_cover_subscripts_and_exceptions n e hf
    refine ⟨?_, ?_, ?_⟩
    · simp only [parseIso, parseIsoWith, body, epoch, c1, if_true, bind_ok, hf, bind_error, hc]
    · simp only [parseIso, parseIsoWith, body, epoch, c2, if_true, bind_ok, hf, bind_error, hc]
    · intro b hb
      constructor
      · simp only [parseIso, parseIsoWith, body, epoch, c3, if_true, intOfFloat, hb, bind_ok, hf, bind_error, hc]
      · simp only [parseIso, parseIsoWith, body, epoch, c4, if_true, intOfFloat, hb, bind_ok, hf, bind_error, hc]

/-- **All-digit text is read as the integer it denotes** (up to CPython's 4300-digit limit). -/
theorem digits_text (ds : List Char) (hne : ds ≠ []) (h : ∀ c ∈ ds, c.isDigit = true)
    (hlen : ds.length ≤ maxStrDigits) :
    parseIso (.str ds) = parseIso (.int (Nat.ofDigitChars 10 ds 0 : Nat)) := by
  have hd : isDigitStr ds = true := by
    cases ds with
    | nil => exact absurd rfl hne
    | cons c r =>
      simp only [isDigitStr, List.isEmpty_cons, Bool.not_false, Bool.true_and, List.all_eq_true]
      exact h
  simp only [parseIso, parseIsoWith, body, strBody, hd, if_true, pyInt_digits ds hne h hlen]

/-- **Totality: the parser never raises**, whatever the input — any integer, any float bit
pattern (NaN, infinities), any text, any bytes, any native value, any other object.  The proof
shows that every exception class a primitive can raise is named (by itself or a base class) in
the `except` tuple extracted from the source, and that `IndexError` is unreachable. -/
theorem never_raises (i : Input) (e : Exc) : parseIso i ≠ .raises e := by
  unfold parseIso parseIsoWith
  have hs := body_safe guards_cover_subscripts_and_exceptions i
  cases hb : body i with
  | ok o => cases o <;> simp
  | error e' =>
    have := hs e' hb
    simp [this]

/-- **Every other input yields None**: objects of other types, and text that is not all digits and
shorter than 10 or longer than 33 characters. -/
theorem other_inputs_none :
    parseIso .other = .none ∧
    ∀ s : List Char, isDigitStr s = false → (s.length < 10 ∨ 33 < s.length) → parseIso (.str s) = .none := by
  refine ⟨rfl, ?_⟩
  intro s hd hl
  have : ¬ Gen.Iso.lenWindow (s.length : Int) := by
    unfold Gen.Iso.lenWindow; omega
  simp only [parseIso, parseIsoWith, body, strBody, hd, textPath, this, if_false, Bool.false_eq_true]

/-- **The DATE and TIMESTAMP casts agree with the parser** (`Iso.cast` is written from the three
function bodies of `orso/types.py`, extracted with string constants blanked and pinned here) for every input: they return the
parser's value (its date / itself) and raise `ValueError` exactly when the parser yields `None`.
The TIME cast does the same (the value's time of day) for every input that is not already a
`datetime.time`; a native `time` value is returned unchanged (`parse_time`'s identity branch). -/
theorem casts_agree (i : Input) :
    (Gen.Iso.parseDateBody = "result = parse_iso(x); if result is None: raise ValueError(''); return result.date()" ∧
     Gen.Iso.parseTimestampBody = "result = parse_iso(x); if result is None: raise ValueError(''); return result" ∧
     Gen.Iso.parseTimeBody = "if isinstance(x, datetime.time): return x; result = parse_iso(x); if result is None: raise ValueError(''); return result.time()") ∧
    (∀ dt, parseIso i = .value dt →
      Iso.cast .timestamp i = .timestamp dt ∧ Iso.cast .date i = .date dt.year dt.month dt.day ∧
      ((∀ H M S us, i ≠ .time H M S us) → Iso.cast .time i = .time dt.hour dt.minute dt.second dt.micro)) ∧
    (parseIso i = .none →
      Iso.cast .timestamp i = .raises .valueError ∧ Iso.cast .date i = .raises .valueError ∧
      ((∀ H M S us, i ≠ .time H M S us) → Iso.cast .time i = .raises .valueError)) ∧
    (∀ H M S us, Iso.cast .time (.time H M S us) = .time H M S us ∧ parseIso (.time H M S us) = .none) := by
  refine ⟨⟨rfl, rfl, rfl⟩, ?_, ?_, fun _ _ _ _ => ⟨rfl, rfl⟩⟩
  · intro dt h
    refine ⟨by simp [Iso.cast, h], by simp [Iso.cast, h], ?_⟩
    intro hne
    cases i <;> first | (exact absurd rfl (hne _ _ _ _)) | (simp [Iso.cast, h])
  · intro h
    refine ⟨by simp [Iso.cast, h], by simp [Iso.cast, h], ?_⟩
    intro hne
    cases i <;> first | (exact absurd rfl (hne _ _ _ _)) | (simp [Iso.cast, h])

/-! Non-vacuity and documented boundaries (concrete inputs). -/

example : validDateTime ⟨2024, 2, 29, 23, 59, 58, 123456⟩ = true := by decide
example : String.ofList (render ⟨2024, 2, 29, 23, 59, 58, 123456⟩ 'T' 3 (.plus 5 30))
    = "2024-02-29T23:59:58.123+05:30" := by decide
example : parseIso (.str "2024-02-29T23:59:58.123+05:30".toList) = .value ⟨2024, 2, 29, 23, 59, 58, 0⟩ := by
  decide
example : parseIso (.str "0001-01-01 00:00:00.000000-11:59".toList) = .value ⟨1, 1, 1, 0, 0, 0, 0⟩ := by decide
example : toEpoch ⟨2024, 2, 29, 23, 59, 58, 0⟩ = 1709251198 := by decide
example : parseIso (.int 1709251198) = .value ⟨2024, 2, 29, 23, 59, 58, 0⟩ := by decide
example : parseIso (.int (-62135596800)) = .value ⟨1, 1, 1, 0, 0, 0, 0⟩ := by decide
/-- **Counterexamples on the pinned tree** (`except (ValueError, TypeError)`): the faithful model
raises — `OverflowError` for `10**30`, `float('inf')` and `'9'*30`, `OSError` for `10**17` — so
`never_raises` is false of the unrepaired code; replayed on the real code in `findings/C08.json`. -/
theorem pinned_tree_raises :
    parseIsoWith ["ValueError", "TypeError"] (.int (10 ^ 30)) = .raises .overflowError ∧
    parseIsoWith ["ValueError", "TypeError"] (.float 0x7FF0000000000000) = .raises .overflowError ∧
    parseIsoWith ["ValueError", "TypeError"] (.str (List.replicate 30 '9')) = .raises .overflowError ∧
    parseIsoWith ["ValueError", "TypeError"] (.int (10 ^ 17)) = .raises .osError := by decide
/-- Boundary by the code's own design: the minute form with a `-HH:MM` suffix is not read. -/
example : parseIso (.str "2023-04-18T12:34-05:00".toList) = .none := by decide
example : parseIso (.str "2023-02-29".toList) = .none := by decide

end C08
