import OrsoVerif.Lemmas.IsoText
import OrsoVerif.Lemmas.IsoSafe
import OrsoVerif.Lemmas.IsoEpoch
import OrsoVerif.Lemmas.IsoFloat
import OrsoVerif.Lemmas.IsoEpochTotal
import OrsoVerif.Lemmas.IsoRefine
import OrsoVerif.Lemmas.IsoChar
import OrsoVerif.Lemmas.IsoSound
import OrsoVerif.Lemmas.IsoTail
import OrsoVerif.Lemmas.IsoTimeOfDay
import OrsoVerif.Lemmas.IsoGrammar
import OrsoVerif.Generated.IsoDispatch
/-!
# C08 — Timestamp parsing round-trips ISO-8601 and epoch forms and is total

Property theorems only (helpers are in `Lemmas/Iso*.lean`).  The model is `Model/Iso.lean`; the
offsets, windows and the `except` tuple it uses are `Gen.Iso.*`, regenerated from
`orso/tools.py` on every run, so every theorem below is re-checked against the current source.
-/
namespace C08
open Iso

/-! ## Non-vacuity and documented boundaries (concrete inputs; placed first so that a failing example is not
attributed to a theorem) -/

/-- Named tails of `seconds_form_any_tail`: read … -/
example : tailRead ".123456789Z".toList = true ∧ tailRead ".1".toList = true ∧ tailRead "+0530".toList = true ∧
    tailRead "-0530".toList = true ∧ tailRead "+05".toList = true ∧ tailRead "-05".toList = true ∧
    tailRead ".123456+05:30".toList = true ∧ tailRead ".1234567+05:30".toList = true ∧
    tailRead ".123456-05:30".toList = true ∧ tailRead "Z".toList = true ∧ tailRead "+05:30Z".toList = true ∧
    tailRead " UTC".toList = true := by decide
/-- … and not read: 34 characters and more, or more than 28 characters before the `+`. -/
example : tailRead ".123456789+05:00".toList = false ∧ tailRead ".1234567890+1".toList = false ∧
    tailRead ".12345678901234".toList = false := by decide
example : parseIso (.str "2024-02-29 23:59:58.123456789Z".toList) = .value ⟨2024, 2, 29, 23, 59, 58, 0⟩ := by decide
example : parseIso (.str "9999-12-31T23:59:59-1200".toList) = .value ⟨9999, 12, 31, 23, 59, 59, 0⟩ := by decide
example : parseIso (.str "2024-02-29T23:59:58.123456789+05:00".toList) = .none := by decide
example : cutTail "+05:30Z".toList = [] ∧ cutTail "Z".toList = [] ∧ cutTail "-05:00".toList = "-05:00".toList ∧
    cutTail ":5".toList = ":5".toList := by decide
example : parseIso (.str "2023-04-18".toList) = .value ⟨2023, 4, 18, 0, 0, 0, 0⟩ ∧
    slice "2023-04-18".toList (0, 4) = "2023".toList := by decide
example : parseIso (.str "12:34:56".toList) = .none ∧ parseIso (.str "2023/04/18 12:34:56".toList) = .none := by decide


example : validDateTime ⟨2024, 2, 29, 23, 59, 58, 123456⟩ = true := by decide
example : String.ofList (render ⟨2024, 2, 29, 23, 59, 58, 123456⟩ 'T' 3 (.plus 5 30))
    = "2024-02-29T23:59:58.123+05:30" := by decide
example : parseIso (.str "2024-02-29T23:59:58.123+05:30".toList) = .value ⟨2024, 2, 29, 23, 59, 58, 0⟩ := by
  decide
example : parseIso (.str "0001-01-01 00:00:00.000000-11:59".toList) = .value ⟨1, 1, 1, 0, 0, 0, 0⟩ := by decide
example : toEpoch ⟨2024, 2, 29, 23, 59, 58, 0⟩ = 1709251198 := by decide
example : parseIso (.int 1709251198) = .value ⟨2024, 2, 29, 23, 59, 58, 0⟩ := by decide
example : parseIso (.int (-62135596800)) = .value ⟨1, 1, 1, 0, 0, 0, 0⟩ := by decide
example : parseIso (.npInt 0) = .value ⟨1970, 1, 1, 0, 0, 0, 0⟩ ∧ parseIso (.num "bool" 1) = .none ∧
    parseIso (.num "numpy.int32" 1718530754) = .none ∧ parseIso (.npInt 1718530754) = .value ⟨2024, 6, 16, 9, 39, 14, 0⟩ := by decide
/-- Boundary by the code's own design: the minute form with a `-HH:MM` suffix is not read. -/
example : parseIso (.str "2023-04-18T12:34-05:00".toList) = .none := by decide
example : parseIso (.str "2023-02-29".toList) = .none := by decide


/-- The time-of-day reading (`datetime.time.fromisoformat`), including two things the C code does beyond its
documentation, and the TIME cast built on it. -/
example : timeOfDay "12:34:56.7891234".toList = .time 12 34 56 789123 ∧ timeOfDay "T0930".toList = .time 9 30 0 0 ∧
    timeOfDay "24:00".toList = .raises .valueError ∧ timeOfDay "12:34:56+24:00".toList = .raises .valueError ∧
    timeOfDay "12x+01:00".toList = .time 12 0 0 0 ∧ timeOfDay "12:30:45:5".toList = .time 12 30 45 500000 ∧
    timeOfDay " 12:34".toList = .raises .valueError ∧ timeOfDay "12é+01:00".toList = .raises .valueError := by decide
example : Iso.cast .time (.str "12:34:56".toList) = .time 12 34 56 0 ∧
    Iso.cast .time (.str "2023-04-18T12:34:56".toList) = .time 12 34 56 0 ∧
    Iso.cast .time (.str "25:00".toList) = .raises .valueError ∧
    Iso.cast .timestamp (.str "12:34:56".toList) = .raises .valueError ∧
    castRun .time (.bytes "07:08".toUTF8.data.toList) = some (.time 7 8 0 0) := by decide
example : fracMicro "5".toList = 500000 ∧ fracMicro "1234567".toList = 123456 ∧ truncMicro 123456 2 = 120000 := by decide

/-! ## Theorems -/


/-- **The generated guards accept the canonical renderings.**  Every expression lifted from
`parse_iso` on this run (`Gen.Iso`: the two length windows, the dash / separator / seconds tests
with their subscripts and joining operators, the three `val_len` tests, the slice offsets, the `Z`
and `+` characters) does what the round-trip theorems below need: lengths 10..33 pass the window,
10..28 pass the window after the `+` split, `-`, `T`/space and `:` at offsets 4/7, 10, 13, 16 are
not rejected, length 10 selects the date form, ≥ 19 the seconds form, 16 the minute form. -/
theorem guards_accept_canonical_renderings : Iso.Accepts where
  idx := by decide
  slices := by decide
  chars := by decide
  window := by intro n h1 h2; unfold Gen.Iso.lenWindow; omega
  plus := by intro n h1 h2; unfold Gen.Iso.plusReject; omega
  dash := by decide
  sep := by intro c hc; rcases hc with rfl | rfl <;> decide
  dateLen := by decide
  timeLen := by intro n h; unfold Gen.Iso.dateLenTest Gen.Iso.timeLenTest; omega
  minLen := by decide
  secLen := by intro n h; unfold Gen.Iso.secLenTest; omega
  secChar := by decide

/-- **The generated guards cover every subscript, and the `except` tuple every exception.**  The
four classes the primitives raise (`ValueError`, `UnicodeDecodeError`, `OverflowError`, `OSError`)
are caught by the extracted tuple; the length window guarantees the 9 characters the dash test
reads (also after the `+` split); `value[10]`/`value[13]` are read only under a `val_len` test that
covers them, `value[16]` only under one that covers it; `datetime(...)` gets 3, 5 or 6 arguments. -/
theorem guards_cover_subscripts_and_exceptions : Iso.Covers where
  catches := by decide
  window := by intro n h; unfold Gen.Iso.lenWindow at h; omega
  plus := by intro n h; unfold Gen.Iso.plusReject at h; omega
  dashIdx := by decide
  time := by intro n h; unfold Gen.Iso.timeLenTest at h; simp only [Gen.Iso.sepIdx, Gen.Iso.colonA]; omega
  sec := by intro n h; unfold Gen.Iso.secLenTest at h; simp only [Gen.Iso.colonB]; omega
  arity := by decide

/-- **The generated guards reject everything else.**  The converse side of the guards lifted from
`parse_iso` on this run: lengths above 33 fail the window, more than 28 characters before the `+`
fail the second window, a character other than `-` at offset 4 or 7 makes the dash test reject,
lengths 11..15 select no form, the date form needs at least 10 characters, the minute form is not
selected by more than 16, the seconds form needs 19 characters and `:` at offset 16. -/
theorem guards_reject_everything_else : Iso.Rejects where
  windowHi := by intro n h; unfold Gen.Iso.lenWindow; omega
  plusHi := by intro n h; unfold Gen.Iso.plusReject; omega
  dash := by
    intro a b h
    have ha : ∀ c, c ≠ '-' → decide (Gen.Iso.dashTestA c) = true :=
      fun c hc => decide_eq_true (by unfold Gen.Iso.dashTestA; exact hc)
    have hb : ∀ c, c ≠ '-' → decide (Gen.Iso.dashTestB c) = true :=
      fun c hc => decide_eq_true (by unfold Gen.Iso.dashTestB; exact hc)
    rcases h with h | h
    · simp [scb, Gen.Iso.dashJoinAnd, ha a h]
    · simp [scb, Gen.Iso.dashJoinAnd, hb b h]
  midLen := by intro n h1 h2; unfold Gen.Iso.dateLenTest Gen.Iso.timeLenTest; omega
  dateLo := by intro n h; unfold Gen.Iso.dateLenTest at h; omega
  minHi := by intro n h; unfold Gen.Iso.minLenTest; omega
  secLo := by intro n h; unfold Gen.Iso.secLenTest; omega
  secChar := by intro c h; unfold Gen.Iso.secCharTest; exact h

set_option linter.unusedSimpArgs false in
/-- **The generated string branch refines the skeleton (join point).**  `Gen.IsoText.textBranch_j1`
— the statements of `parse_iso` after the `+` split (`val_len = len(value)`, the dash test, the three
`val_len` cases with their subscripts, short-circuit order, slices and fall-through `return None`),
translated statement by statement from the AST on this run — computes, on every text, what the
hand skeleton `Iso.shaped` computes (the same result, the same exception). -/
theorem text_branch_join_refines_shaped (v : List Char) : Gen.IsoText.textBranch_j1 v = shaped v := by
  unfold Gen.IsoText.textBranch_j1 shaped dashReject sepReject hasSeconds
  simp (disch := omega) only [pyIdx_nonneg, pySlice_bounds, pySlice_upto, Int.reduceToNat, pyOr_idx, pyAnd_idx, pyAnd_ok,
    pyOr_ok, ← datetimeOfStrs_slices, Gen.Iso.slicesDate, Gen.Iso.slicesSec, Gen.Iso.slicesMin, List.map,
    Gen.Iso.dashA, Gen.Iso.dashB, Gen.Iso.dashJoinAnd, Gen.Iso.dashTestA, Gen.Iso.dashTestB,
    Gen.Iso.dateLenTest, Gen.Iso.timeLenTest, Gen.Iso.minLenTest, Gen.Iso.sepIdx, Gen.Iso.colonA, Gen.Iso.sepJoinAnd,
    Gen.Iso.sepTestA, Gen.Iso.sepTestB, Gen.Iso.secLenTest, Gen.Iso.colonB, Gen.Iso.secCharTest, decide_eq_true_eq]

set_option linter.unusedSimpArgs false in
/-- **The generated string branch is the skeleton.**  `Gen.IsoText.textBranch` — the whole string
branch of `parse_iso` (`if input_type == str and 10 <= len(value) <= 33:` … `return None`: the length
window, `value[-1] == "Z"` and `value[:-1]`, `"+" in value`, `value.split("+")[0]`, the second
window, then the join point above), regenerated from the source on this run and *run by*
`Iso.parseIso` — equals the hand-written `Iso.textPath` on every text.  All theorems below are
therefore statements about the program the source contains now; a change of the order of the
tests, of a strip or a slice, or a new statement, breaks this theorem. -/
theorem text_branch_refines_skeleton : Iso.Refines where
  text := by
    intro v
    unfold Gen.IsoText.textBranch textPath
    by_cases h : Gen.Iso.lenWindow (v.length : Int)
    · have h' := h
      unfold Gen.Iso.lenWindow at h'
      rw [if_pos h, if_pos (decide_eq_true h'), pyIdx_neg_one]
      cases hl : v.getLast? with
      | none =>
        rw [List.getLast?_eq_none_iff] at hl
        subst hl
        simp at h'
      | some c =>
        simp only [bind_ok, Option.some.injEq, decide_eq_true_eq, pySlice_dropLast, pySplitHead,
          text_branch_join_refines_shaped, Gen.Iso.zChar, Gen.Iso.plusChar]
        generalize (if c = 'Z' then v.dropLast else v) = w
        by_cases hc : w.contains '+' = true
        · rw [if_pos hc, if_pos hc]
          generalize (List.takeWhile (fun x => x != '+') w) = u
          by_cases h2 : Gen.Iso.plusReject (u.length : Int)
          · have h2' := h2
            unfold Gen.Iso.plusReject at h2'
            rw [if_pos h2, if_pos (by simp only [Bool.not_eq_true', decide_eq_false_iff_not, decide_eq_true_eq]; exact h2')]
          · have h2' := h2
            unfold Gen.Iso.plusReject at h2'
            rw [if_neg h2, if_neg (by simp only [Bool.not_eq_true', decide_eq_false_iff_not, decide_eq_true_eq]; exact h2')]
        · rw [if_neg hc, if_neg hc]
    · have h' := h
      unfold Gen.Iso.lenWindow at h'
      rw [if_neg h, if_neg (by simp only [decide_eq_true_eq]; exact h')]

/-- **ISO round trip, seconds form.**  For every valid date-time of years 1..9999, separator `T`
or space, any number `k` of fraction digits (the first `k` of the six microsecond digits; `k = 0`
means no fraction), and suffix none / `Z` / `+HH:MM` / `-HH:MM` / `+HHMM` / `-HHMM` / `+HH` / `-HH`,
parsing the rendering returns the wall-clock time truncated to whole seconds. -/
theorem iso_roundtrip (dt : DateTime) (h : validDateTime dt = true) (sep : Char)
    (hsep : sep = 'T' ∨ sep = ' ') (k : Nat) (suf : Suffix) :
    parseIso (.str (render dt sep k suf)) = .value (truncSeconds dt) := by
  obtain ⟨p1, l1⟩ := plain_renderSecond dt sep hsep
  obtain ⟨p2, l2⟩ := plain_fraction dt.micro k
  have p12 : (renderSecond dt sep ++ fraction dt.micro k).all plainC = true := by
    rw [List.all_append, p1, p2]; rfl
  have hnd : isDigitStr (render dt sep k suf) = false := by
    simp only [render, renderSecond, renderMinute, List.append_assoc]
    exact notDigit_renderDate _ _ _ _
  apply parseIso_text text_branch_refines_skeleton _ hnd
  unfold render
  cases suf with
  | none =>
    simp only [Suffix.text, List.append_nil]
    rw [textPath_plain guards_accept_canonical_renderings _ p12 (by simp; omega) (by simp; omega)]
    exact shaped_second guards_accept_canonical_renderings dt h sep hsep _
  | z =>
    simp only [Suffix.text]
    rw [textPath_z guards_accept_canonical_renderings _ p12 (by simp; omega) (by simp; omega)]
    exact shaped_second guards_accept_canonical_renderings dt h sep hsep _
  | plus hh mm =>
    obtain ⟨p3, l3⟩ := plain_offset hh mm
    have e : Suffix.text (.plus hh mm) = '+' :: (pad2 hh ++ ':' :: pad2 mm) := rfl
    rw [e, textPath_plus guards_accept_canonical_renderings _ _ p12 (plain_split p3).1 (by simp; omega) (by simp; omega) (by simp [pad2]; omega)]
    exact shaped_second guards_accept_canonical_renderings dt h sep hsep _
  | minus hh mm =>
    obtain ⟨p3, l3⟩ := plain_offset hh mm
    have hm : plainC '-' = true := by decide
    have e : Suffix.text (.minus hh mm) = '-' :: (pad2 hh ++ ':' :: pad2 mm) := rfl
    rw [e, textPath_plain guards_accept_canonical_renderings _ (by rw [List.all_append, p12, List.all_cons, hm, p3]; rfl) (by simp; omega)
      (by simp [pad2]; omega)]
    rw [List.append_assoc]
    exact shaped_second guards_accept_canonical_renderings dt h sep hsep _
  | plusBasic hh mm =>
    obtain ⟨p3, l3⟩ := plain_offsetBasic hh mm
    have e : Suffix.text (.plusBasic hh mm) = '+' :: (pad2 hh ++ pad2 mm) := rfl
    rw [e, textPath_plus guards_accept_canonical_renderings _ _ p12 (plain_split p3).1 (by simp; omega) (by simp; omega) (by simp [pad2]; omega)]
    exact shaped_second guards_accept_canonical_renderings dt h sep hsep _
  | minusBasic hh mm =>
    obtain ⟨p3, l3⟩ := plain_offsetBasic hh mm
    have hm : plainC '-' = true := by decide
    have e : Suffix.text (.minusBasic hh mm) = '-' :: (pad2 hh ++ pad2 mm) := rfl
    rw [e, textPath_plain guards_accept_canonical_renderings _ (by rw [List.all_append, p12, List.all_cons, hm, p3]; rfl) (by simp; omega)
      (by simp [pad2]; omega)]
    rw [List.append_assoc]
    exact shaped_second guards_accept_canonical_renderings dt h sep hsep _
  | plusHour hh =>
    obtain ⟨p3, l3⟩ := plain_pad2 hh
    have e : Suffix.text (.plusHour hh) = '+' :: pad2 hh := rfl
    rw [e, textPath_plus guards_accept_canonical_renderings _ _ p12 (plain_split p3).1 (by simp; omega) (by simp; omega) (by simp [pad2]; omega)]
    exact shaped_second guards_accept_canonical_renderings dt h sep hsep _
  | minusHour hh =>
    obtain ⟨p3, l3⟩ := plain_pad2 hh
    have hm : plainC '-' = true := by decide
    have e : Suffix.text (.minusHour hh) = '-' :: pad2 hh := rfl
    rw [e, textPath_plain guards_accept_canonical_renderings _ (by rw [List.all_append, p12, List.all_cons, hm, p3]; rfl) (by simp; omega)
      (by simp [pad2]; omega)]
    rw [List.append_assoc]
    exact shaped_second guards_accept_canonical_renderings dt h sep hsep _

/-- **Seconds form followed by any tail — the exact set of accepted tails.**  For every valid
date-time, separator `T` or space and *every* text `t` after `YYYY-MM-DD<sep>HH:MM:SS`: the parser
returns the wall-clock time in whole seconds when `tailRead t` — at most 14 more characters and,
if a `+` remains after dropping a final `Z`, at most 9 characters before the first `+` — and `None`
otherwise.  This covers fractions of any length (`.1` … `.123456789`), `Z`, `+HH:MM`, `+HHMM`,
`+HH`, `-HH:MM`, `-HHMM`, `-HH`, a fraction followed by any of them, and also says exactly where
the reading stops (e.g. nine fraction digits plus `+05:00` is 35 characters: `None`). -/
theorem seconds_form_any_tail (dt : DateTime) (h : validDateTime dt = true) (sep : Char)
    (hsep : sep = 'T' ∨ sep = ' ') (t : List Char) :
    parseIso (.str (renderSecond dt sep ++ t))
      = if tailRead t then .value (truncSeconds dt) else .none := by
  have hnd : isDigitStr (renderSecond dt sep ++ t) = false := by
    simp only [renderSecond, renderMinute, List.append_assoc]
    exact notDigit_renderDate _ _ _ _
  have ht := textPath_secondTail guards_accept_canonical_renderings guards_reject_everything_else dt h sep hsep t
  simp only [parseIso, parseIsoWith, body, strBody, hnd, text_branch_refines_skeleton.text, ht,
    Bool.false_eq_true, if_false]
  cases tailRead t <;> rfl

/-- **Minute-precision form** `YYYY-MM-DD<sep>HH:MM` (optionally followed by `Z` or `+HH:MM`)
returns the corresponding minute. -/
theorem minute_form (dt : DateTime) (h : validDateTime dt = true) (sep : Char)
    (hsep : sep = 'T' ∨ sep = ' ') (suf : Suffix) (hs : suf.dropped = true) :
    parseIso (.str (renderMinute dt sep ++ suf.text)) = .value { dt with second := 0, micro := 0 } := by
  have hv : validDateTime { dt with second := 0 } = true := by
    simp only [validDateTime, validDate, Bool.and_eq_true, decide_eq_true_eq] at h ⊢
    omega
  obtain ⟨p1, l1⟩ := plain_renderMinute dt sep hsep
  have hnd : isDigitStr (renderMinute dt sep ++ suf.text) = false := by
    simp only [renderMinute, List.append_assoc]
    exact notDigit_renderDate _ _ _ _
  apply parseIso_text text_branch_refines_skeleton _ hnd
  rw [textPath_dropped guards_accept_canonical_renderings _ p1 (by omega) (by omega) suf hs]
  exact shaped_minute guards_accept_canonical_renderings { dt with second := 0 } hv rfl sep hsep

/-- **Date-only form** `YYYY-MM-DD` (optionally followed by `Z` or `+HH:MM`) returns midnight. -/
theorem date_form (y m d : Nat) (h : validDate y m d = true) (suf : Suffix)
    (hs : suf.dropped = true) :
    parseIso (.str (renderDate y m d ++ suf.text)) = .value ⟨y, m, d, 0, 0, 0, 0⟩ := by
  obtain ⟨p1, l1⟩ := plain_renderDate y m d
  apply parseIso_text text_branch_refines_skeleton _ (notDigit_renderDate y m d _)
  rw [textPath_dropped guards_accept_canonical_renderings _ p1 (by omega) (by omega) suf hs]
  exact shaped_date guards_accept_canonical_renderings y m d h

/-- **Minute form followed by any tail.**  Write `cutTail t` for what is left of the tail `t` after
the parser's `Z` strip and `+` split.  The minute is returned when nothing is left (`t` is empty,
`Z`, `+…`, `+…Z`); when something is left that cannot be a seconds field — fewer than three
characters, or not starting with `:` — the answer is `None` (so `-HH:MM`, `-HHMM`, `-HH`, `.5`, a
second `Z` after the minute form are all unread).  (A rest `:SS…` is the seconds form.) -/
theorem minute_form_tails (dt : DateTime) (h : validDateTime dt = true) (sep : Char)
    (hsep : sep = 'T' ∨ sep = ' ') (t : List Char) (hl : t.length ≤ 17) :
    (cutTail t = [] →
      parseIso (.str (renderMinute dt sep ++ t)) = .value { dt with second := 0, micro := 0 }) ∧
    (cutTail t ≠ [] → ((cutTail t).length < 3 ∨ (cutTail t).head? ≠ some ':') →
      parseIso (.str (renderMinute dt sep ++ t)) = .none) := by
  have hv : validDateTime { dt with second := 0 } = true := by
    simp only [validDateTime, validDate, Bool.and_eq_true, decide_eq_true_eq] at h ⊢
    omega
  obtain ⟨p1, l1⟩ := plain_renderMinute dt sep hsep
  have hnd : isDigitStr (renderMinute dt sep ++ t) = false := by
    simp only [renderMinute, List.append_assoc]
    exact notDigit_renderDate _ _ _ _
  have hc := textPath_cut guards_accept_canonical_renderings (renderMinute dt sep) t p1 (by omega) (by omega)
  have hp : parseIso (.str (renderMinute dt sep ++ t)) = match textPath (renderMinute dt sep ++ t) with
      | .ok (some dt) => .value dt | .ok none => .none
      | .error e => if caughtBy Gen.Iso.caught e then .none else .raises e := by
    simp only [parseIso, parseIsoWith, body, strBody, hnd, text_branch_refines_skeleton.text,
      Bool.false_eq_true, if_false]
    rfl
  have hm : shaped (renderMinute dt sep) = .ok (some (truncSeconds { dt with second := 0 })) :=
    shaped_minute guards_accept_canonical_renderings { dt with second := 0 } hv rfl sep hsep
  refine ⟨fun he => ?_, fun hne hu => ?_⟩
  · have hnr : ¬ Gen.Iso.plusReject ((renderMinute dt sep ++ cutTail t).length : Int) := by
      rw [he]; exact guards_accept_canonical_renderings.plus _ (by simp [l1]) (by simp [l1])
    rw [hp, hc, if_neg (fun hh => hnr hh.2), he, List.append_nil, hm]
    rfl
  · rw [hp, hc, shaped_minute_rest guards_accept_canonical_renderings guards_reject_everything_else dt sep hsep _ hne hu]
    simp only [ite_self]

/-- **Date-only form followed by any tail**: midnight when nothing is left after the `Z` strip and
the `+` split; `None` when one to five characters are left (11..15 characters select no form). -/
theorem date_form_tails (y m d : Nat) (h : validDate y m d = true) (t : List Char) (hl : t.length ≤ 23) :
    (cutTail t = [] → parseIso (.str (renderDate y m d ++ t)) = .value ⟨y, m, d, 0, 0, 0, 0⟩) ∧
    (1 ≤ (cutTail t).length → (cutTail t).length ≤ 5 → parseIso (.str (renderDate y m d ++ t)) = .none) := by
  obtain ⟨p1, l1⟩ := plain_renderDate y m d
  have hc := textPath_cut guards_accept_canonical_renderings (renderDate y m d) t p1 (by omega) (by omega)
  have hp : parseIso (.str (renderDate y m d ++ t)) = match textPath (renderDate y m d ++ t) with
      | .ok (some dt) => .value dt | .ok none => .none
      | .error e => if caughtBy Gen.Iso.caught e then .none else .raises e := by
    simp only [parseIso, parseIsoWith, body, strBody, notDigit_renderDate y m d t, text_branch_refines_skeleton.text,
      Bool.false_eq_true, if_false]
    rfl
  refine ⟨fun he => ?_, fun h1 h5 => ?_⟩
  · have hnr : ¬ Gen.Iso.plusReject ((renderDate y m d ++ cutTail t).length : Int) := by
      rw [he]; exact guards_accept_canonical_renderings.plus _ (by simp [l1]) (by simp [l1])
    rw [hp, hc, if_neg (fun hh => hnr hh.2), he, List.append_nil, shaped_date guards_accept_canonical_renderings y m d h]
  · rw [hp, hc, shaped_date_rest guards_accept_canonical_renderings guards_reject_everything_else y m d _ h1 h5]
    simp only [ite_self]

/-- **UTF-8 bytes are read as the text they encode** (every `String`, hence every rendering). -/
theorem utf8_bytes_as_text (s : String) :
    parseIso (.bytes s.toUTF8.data.toList) = parseIso (.str s.toList) := by
  simp only [parseIso, parseIsoWith, body, decodeUtf8_toUTF8]

/-- Bytes that are not valid UTF-8 give `None` (`UnicodeDecodeError` is a `ValueError`). -/
theorem invalid_utf8_none (b : List UInt8) (h : decodeUtf8 b = none) : parseIso (.bytes b) = .none := by
  simp only [parseIso, parseIsoWith, body, h, guards_cover_subscripts_and_exceptions.catches.2.1, if_true]

/-- **Native inputs**: a `date` maps to its midnight, a `datetime` to itself truncated to seconds. -/
theorem native_inputs (y m d : Nat) (dt : DateTime) :
    parseIso (.date y m d) = .value ⟨y, m, d, 0, 0, 0, 0⟩ ∧
    parseIso (.datetime dt) = .value (truncSeconds dt) := ⟨rfl, rfl⟩

/-- **Unix seconds in UTC.**  For every valid date-time, its epoch second count — given as an
`int`, a `numpy.int64`, a float (or `numpy.float64`) that truncates to it, or all-digit text —
parses back to the date-time (whole seconds).  `toEpoch` is days-from-civil
(`datetime.date.toordinal`), the parser uses civil-from-days. -/
theorem epoch_utc (dt : DateTime) (h : validDateTime dt = true) :
    parseIso (.int (toEpoch dt)) = .value (truncSeconds dt) ∧
    parseIso (.npInt (toEpoch dt)) = .value (truncSeconds dt) ∧
    (∀ b, floatTrunc b = .fin (toEpoch dt) →
      parseIso (.float b) = .value (truncSeconds dt) ∧ parseIso (.npFloat b) = .value (truncSeconds dt)) := by
  have hf := fromTimestamp_toEpoch dt h
  have c1 : Iso.epochAdmits "int" = true := by decide
  have c2 : Iso.epochAdmits "numpy.int64" = true := by decide
  have c3 : Iso.epochAdmits "float" = true := by decide
  have c4 : Iso.epochAdmits "numpy.float64" = true := by decide
  refine ⟨?_, ?_, ?_⟩
  · simp only [parseIso, parseIsoWith, body, epoch, c1, if_true, bind_ok, hf]
  · simp only [parseIso, parseIsoWith, body, epoch, c2, if_true, bind_ok, hf]
  · intro b hb
    constructor
    · simp only [parseIso, parseIsoWith, body, epoch, c3, if_true, intOfFloat, hb, bind_ok, hf]
    · simp only [parseIso, parseIsoWith, body, epoch, c4, if_true, intOfFloat, hb, bind_ok, hf]

/-- **Every integer, read as Unix seconds: sound inside the representable range, None outside.**
For every `n`: if `minEpoch ≤ n ≤ maxEpoch` (0001-01-01T00:00:00 … 9999-12-31T23:59:59) the parser
returns a valid whole-second date-time `dt` with `toEpoch dt = n` (civil-from-days is sound, not
only an inverse on renderings); otherwise it returns `None` — whichever of `OverflowError`
(outside 64-bit `time_t`), `OSError` (year does not fit the C `tm`) or `ValueError` the platform
raises at that magnitude is covered by the extracted `except` tuple.  The same holds for
`numpy.int64` input and for every float whose truncation is `n`. -/
theorem epoch_total (n : Int) :
    (minEpoch ≤ n ∧ n ≤ maxEpoch →
      ∃ dt, validDateTime dt = true ∧ dt.micro = 0 ∧ toEpoch dt = n ∧
        parseIso (.int n) = .value dt ∧ parseIso (.npInt n) = .value dt ∧
        ∀ b, floatTrunc b = .fin n → parseIso (.float b) = .value dt ∧ parseIso (.npFloat b) = .value dt) ∧
    (n < minEpoch ∨ maxEpoch < n →
      parseIso (.int n) = .none ∧ parseIso (.npInt n) = .none ∧
        ∀ b, floatTrunc b = .fin n → parseIso (.float b) = .none ∧ parseIso (.npFloat b) = .none) ∧
    minEpoch = toEpoch ⟨1, 1, 1, 0, 0, 0, 0⟩ ∧ maxEpoch = toEpoch ⟨9999, 12, 31, 23, 59, 59, 0⟩ := by
  have c1 : Iso.epochAdmits "int" = true := by decide
  have c2 : Iso.epochAdmits "numpy.int64" = true := by decide
  have c3 : Iso.epochAdmits "float" = true := by decide
  have c4 : Iso.epochAdmits "numpy.float64" = true := by decide
  obtain ⟨hin, hout⟩ := fromTimestamp_spec n
  refine ⟨?_, ?_, by decide, by decide⟩
  · intro hr
    obtain ⟨dt, hf, hv, hm, he⟩ := hin hr
    refine ⟨dt, hv, hm, he, ?_, ?_, ?_⟩
    · simp only [parseIso, parseIsoWith, body, epoch, c1, if_true, bind_ok, hf]
    · simp only [parseIso, parseIsoWith, body, epoch, c2, if_true, bind_ok, hf]
    · intro b hb
      constructor
      · simp only [parseIso, parseIsoWith, body, epoch, c3, if_true, intOfFloat, hb, bind_ok, hf]
      · simp only [parseIso, parseIsoWith, body, epoch, c4, if_true, intOfFloat, hb, bind_ok, hf]
  · intro hr
    obtain ⟨e, hf⟩ := hout hr
    have hc : caughtBy Gen.Iso.caught e = true := fromTimestamp_safe guards_cover_subscripts_and_exceptions n e hf
    refine ⟨?_, ?_, ?_⟩
    · simp only [parseIso, parseIsoWith, body, epoch, c1, if_true, bind_ok, hf, bind_error, hc]
    · simp only [parseIso, parseIsoWith, body, epoch, c2, if_true, bind_ok, hf, bind_error, hc]
    · intro b hb
      constructor
      · simp only [parseIso, parseIsoWith, body, epoch, c3, if_true, intOfFloat, hb, bind_ok, hf, bind_error, hc]
      · simp only [parseIso, parseIsoWith, body, epoch, c4, if_true, intOfFloat, hb, bind_ok, hf, bind_error, hc]

/-- **All-digit text is read as the integer it denotes** (up to CPython's 4300-digit limit). -/
theorem digits_text (ds : List Char) (hne : ds ≠ []) (h : ∀ c ∈ ds, c.isDigit = true)
    (hlen : ds.length ≤ maxStrDigits) :
    parseIso (.str ds) = parseIso (.int (Nat.ofDigitChars 10 ds 0 : Nat)) := by
  have hd : isDigitStr ds = true := by
    cases ds with
    | nil => exact absurd rfl hne
    | cons c r =>
      simp only [isDigitStr, List.isEmpty_cons, Bool.not_false, Bool.true_and, List.all_eq_true]
      exact h
  simp only [parseIso, parseIsoWith, body, strBody, hd, if_true, pyInt_digits ds hne h hlen]

/-- **Totality: the parser never raises**, whatever the input — any integer, any float bit
pattern (NaN, infinities), any text, any bytes, any native value, any other object.  The proof
shows that every exception class a primitive can raise is named (by itself or a base class) in
the `except` tuple extracted from the source, and that `IndexError` is unreachable. -/
theorem never_raises (i : Input) (e : Exc) : parseIso i ≠ .raises e := by
  unfold parseIso parseIsoWith
  have hs := body_safe guards_cover_subscripts_and_exceptions text_branch_refines_skeleton i
  cases hb : body i with
  | ok o => cases o <;> simp
  | error e' =>
    have := hs e' hb
    simp [this]

/-- **Which numeric classes are read as Unix seconds** (the class table in front of the epoch branch, and the way it is
consulted, both read from the source on this run — `Gen.Iso.epochTypes`, `Gen.Iso.epochBySubclass`).
For *every* class name `ty`: the branch is entered **iff** `ty` is exactly `int`, `numpy.int64`, `float` or `numpy.float64`
— identity of the class, not `isinstance`: `bool` (an `int`), a subclass of `int` / `float`, every other numpy scalar type
(`numpy.int32`, `numpy.uint64`, `numpy.float32`, `numpy.bool_`), `Decimal`, `Fraction` are *not* admitted.  Consequently an
instance of an admitted class whose `int(value)` is `n` is read exactly as the `int` `n` (a value inside the range of
`epoch_total`, None outside), and an instance of any other numeric class yields `None`.
A table that loses a class (`numpy.int64` when the test becomes `isinstance(value, (int, float))`) or gains one (`bool`)
fails here, and the correspondence shows the instance. -/
theorem epoch_classes_are_the_stated_ones :
    (∀ ty : String, Iso.epochAdmits ty = true ↔ (ty = "int" ∨ ty = "numpy.int64" ∨ ty = "float" ∨ ty = "numpy.float64")) ∧
    (∀ (ty : String) (n : Int), Iso.epochAdmits ty = true → parseIso (.num ty n) = parseIso (.int n)) ∧
    (∀ (ty : String) (n : Int), Iso.epochAdmits ty = false → parseIso (.num ty n) = .none) ∧
    (∀ n : Int, parseIso (.npInt n) = parseIso (.int n)) ∧
    (∀ b : UInt64, parseIso (.npFloat b) = parseIso (.float b)) ∧
    (∀ n : Int, parseIso (.num "bool" n) = .none ∧ parseIso (.num "numpy.int32" n) = .none ∧
      parseIso (.num "numpy.int16" n) = .none ∧ parseIso (.num "numpy.uint64" n) = .none ∧
      parseIso (.num "numpy.float32" n) = .none ∧ parseIso (.num "numpy.bool" n) = .none ∧
      parseIso (.num "decimal.Decimal" n) = .none ∧ parseIso (.num "fractions.Fraction" n) = .none ∧
      parseIso (.num "int subclass" n) = .none ∧ parseIso (.num "float subclass" n) = .none) := by
  have c1 : Iso.epochAdmits "int" = true := by decide
  have c2 : Iso.epochAdmits "numpy.int64" = true := by decide
  have c3 : Iso.epochAdmits "float" = true := by decide
  have c4 : Iso.epochAdmits "numpy.float64" = true := by decide
  have hnone : ∀ (ty : String) (n : Int), Iso.epochAdmits ty = false → parseIso (.num ty n) = .none := by
    intro ty n h
    simp only [parseIso, parseIsoWith, body, epoch, h, Bool.false_eq_true, if_false]
  refine ⟨?_, ?_, hnone, ?_, ?_, ?_⟩
  · intro ty
    have hs : Gen.Iso.epochBySubclass = false := rfl
    simp only [Iso.epochAdmits, hs, Bool.false_eq_true, if_false, Gen.Iso.epochTypes, List.contains_cons,
      List.contains_nil, Bool.or_false, Bool.or_eq_true, beq_iff_eq]
    -- (the order in which the source lists the classes does not matter)
    all_goals grind
  · intro ty n h
    simp only [parseIso, parseIsoWith, body, epoch, h, c1, if_true]
  · intro n
    simp only [parseIso, parseIsoWith, body, epoch, c1, c2, if_true]
  · intro b
    simp only [parseIso, parseIsoWith, body, epoch, c3, c4, if_true]
  · intro n
    refine ⟨hnone _ n (by decide), hnone _ n (by decide), hnone _ n (by decide), hnone _ n (by decide), hnone _ n (by decide),
      hnone _ n (by decide), hnone _ n (by decide), hnone _ n (by decide), hnone _ n (by decide), hnone _ n (by decide)⟩

/-- **Every other input yields None**: objects of other types, and text that is not all digits and
shorter than 10 or longer than 33 characters. -/
theorem other_inputs_none :
    parseIso .other = .none ∧
    ∀ s : List Char, isDigitStr s = false → (s.length < 10 ∨ 33 < s.length) → parseIso (.str s) = .none := by
  refine ⟨rfl, ?_⟩
  intro s hd hl
  have : ¬ Gen.Iso.lenWindow (s.length : Int) := by
    unfold Gen.Iso.lenWindow; omega
  simp only [parseIso, parseIsoWith, body, strBody, hd, text_branch_refines_skeleton.text, textPath, this, if_false, Bool.false_eq_true]

/-- **Text that is not date-shaped yields None**: every text (and every UTF-8 byte string) that is
not all digits and does not carry `-` at offset 4 *and* at offset 7 — whatever its length and
whatever else it contains (`Z`, `+`, digits, white space, non-ASCII) — is answered with `None`. -/
theorem not_date_shaped_none (s : List Char) (hd : isDigitStr s = false)
    (h : s[4]? ≠ some '-' ∨ s[7]? ≠ some '-') :
    parseIso (.str s) = .none ∧ ∀ b, decodeUtf8 b = some s → parseIso (.bytes b) = .none := by
  have ht := textPath_not_dashes guards_accept_canonical_renderings guards_cover_subscripts_and_exceptions
    guards_reject_everything_else s h
  refine ⟨?_, ?_⟩
  · simp only [parseIso, parseIsoWith, body, strBody, hd, text_branch_refines_skeleton.text, ht,
      Bool.false_eq_true, if_false]
  · intro b hb
    simp only [parseIso, parseIsoWith, body, hb, strBody, hd, text_branch_refines_skeleton.text, ht,
      Bool.false_eq_true, if_false]

/-- **The generated dash test lets only dashes through**: when `value[4] != "-" or value[7] != "-"`
(operands and operator as extracted on this run) does not reject, both characters are `-`. -/
theorem dash_test_keeps_only_dashes : Iso.DashSound where
  keep := by
    intro a x h
    simp only [shortCircuit, Gen.Iso.dashJoinAnd, Bool.false_eq_true, if_false] at h
    by_cases ha : decide (Gen.Iso.dashTestA a) = true
    · rw [if_pos ha] at h; cases h
    · rw [if_neg ha] at h
      refine ⟨?_, h⟩
      have := of_decide_eq_false (Bool.eq_false_iff.mpr ha)
      unfold Gen.Iso.dashTestA at this
      exact Classical.not_not.mp this
  second := by
    intro b h
    unfold Gen.Iso.dashTestB at h
    exact Classical.not_not.mp h

/-- **Soundness of the text reading: the parser never invents a date.**  Whatever value the
parser returns for a text is a valid date-time of years 1..9999 in whole seconds; and when the text
is not all digits it is date-shaped — `-` at offsets 4 and 7 — and the returned year, month and day
are the Python `int()` readings of its columns 0-4, 5-7 and 8-10.  (All-digit text: the value is
the valid date-time of that Unix second, `epoch_total`.) -/
theorem text_value_sound (s : List Char) (dt : DateTime) (h : parseIso (.str s) = .value dt) :
    validDateTime dt = true ∧ dt.micro = 0 ∧
    (isDigitStr s = false →
      s[4]? = some '-' ∧ s[7]? = some '-' ∧ pyInt (slice s (0, 4)) = .ok (dt.year : Int) ∧
      pyInt (slice s (5, 7)) = .ok (dt.month : Int) ∧ pyInt (slice s (8, 10)) = .ok (dt.day : Int)) := by
  simp only [parseIso, parseIsoWith, body, strBody, text_branch_refines_skeleton.text] at h
  by_cases hd : isDigitStr s = true
  · rw [if_pos hd] at h
    have c1 : Iso.epochAdmits "int" = true := by decide
    simp only [epoch, c1, if_true] at h
    cases hp : pyInt s with
    | error e => rw [hp] at h; simp only [bind_error] at h; split at h <;> cases h
    | ok n =>
      rw [hp] at h
      simp only [bind_ok] at h
      cases hf : fromTimestamp n with
      | error e => rw [hf] at h; simp only [bind_error] at h; split at h <;> cases h
      | ok dt' =>
        rw [hf] at h
        simp only [bind_ok] at h
        injection h with h
        subst h
        obtain ⟨hin, hout⟩ := fromTimestamp_spec n
        by_cases hr : minEpoch ≤ n ∧ n ≤ maxEpoch
        · obtain ⟨dt2, h2, hv, hm, _⟩ := hin hr
          rw [hf] at h2; injection h2 with h2; subst h2
          exact ⟨hv, hm, fun hnd => by rw [hd] at hnd; cases hnd⟩
        · obtain ⟨e, he⟩ := hout (by omega)
          rw [hf] at he; cases he
  · rw [if_neg hd] at h
    cases ht : textPath s with
    | error e => rw [ht] at h; dsimp only at h; split at h <;> cases h
    | ok o =>
      rw [ht] at h
      cases o with
      | none => cases h
      | some dt' =>
        dsimp only at h
        injection h with h
        subst h
        obtain ⟨h4, h7, hv, hm, y, m, d⟩ := textPath_sound guards_accept_canonical_renderings
          guards_cover_subscripts_and_exceptions guards_reject_everything_else dash_test_keeps_only_dashes s _ ht
        exact ⟨hv, hm, fun _ => ⟨h4, h7, y, m, d⟩⟩

/-- **The generated guards are exactly the stated tests.**  Each expression lifted from `parse_iso` on this
run is *equivalent* to the test the grammar of `text_grammar` is written with: the window is `10 ≤ n ≤ 33`,
the second window rejects exactly outside `10..28`, the dash operands are `≠ '-'` joined by `or`, the length
tests are `= 10`, `≥ 16`, `= 16`, `≥ 19`, the separator operands are `∉ {T, space}` and `≠ ':'` joined by
`and`, the seconds character test is `= ':'`; subscripts 4, 7, 10, 13, 16; the three slice lists; `Z` and `+`;
`int` is among the epoch types.  (`Lemmas/IsoGrammar.lean` unfolds nothing generated: a changed guard fails
here, at the field concerned.) -/
theorem guards_are_exactly_the_stated_ones : Iso.Exact where
  idx := by decide
  slices := by decide
  chars := by decide
  epochInt := by decide
  window := fun _ => Iff.rfl
  plus := fun _ => Iff.rfl
  dashA := fun _ => Iff.rfl
  dashB := fun _ => Iff.rfl
  dashJoin := rfl
  dateLen := fun _ => Iff.rfl
  timeLen := fun _ => Iff.rfl
  minLen := fun _ => Iff.rfl
  sepA := fun _ => Iff.rfl
  sepB := fun _ => Iff.rfl
  sepJoin := rfl
  secLen := fun _ => Iff.rfl
  secChar := fun _ => Iff.rfl

/-- **The texts the parser reads are exactly an explicitly described language, with the value of each.**
`Iso.IsoText s dt` (`Model/IsoGrammar.lean`, defined inductively without reference to the parser or to
anything generated) holds when either `s` is all ASCII digits (at most 4300) and `dt` is the valid
date-time of years 1..9999, in whole seconds, whose Unix second count `s` denotes; or `s` is not all
digits, has 10..33 characters, and — after one trailing `Z` is dropped and everything from the first `+`
is cut (10..28 characters must then be left) — is in one of three layouts: exactly 10 characters
`YYYY-MM-DD`; exactly 16 `YYYY-MM-DD?HH?MM`; at least 19 `YYYY-MM-DD?HH?MM:SS…` — with `-` at offsets 4
and 7, for the time layouts `T` or space at offset 10 or `:` at 13, for the seconds layout `:` at 16,
and the columns 0-4, 5-7, 8-10 (11-13, 14-16, 17-19) read by `int()` as the year, month, day (hour,
minute, second) of a valid date-time: month 1..12, day within the month (29 February only in leap
years: every 4th year except centuries not divisible by 400), hour ≤ 23, minute ≤ 59, second ≤ 59.
For **every** text `s` and every `dt`: `parse_iso(s)` returns `dt` *iff* `IsoText s dt`; and for
every byte string: iff it is the UTF-8 encoding of such a text.  So nothing else is read — `24:00`,
second 60, year 0000, 29 February 1900, a 17/18-character text, `t` as separator *and* no `:` at 13 —
and whatever is read has the value of its columns: Unix seconds
`(toOrdinal year month day − 719163) · 86400 + hour · 3600 + minute · 60 + second` (`Iso.toEpoch`,
proleptic Gregorian). -/
theorem text_grammar (dt : DateTime) :
    (∀ s : List Char, parseIso (.str s) = .value dt ↔ IsoText s dt) ∧
    (∀ b : List UInt8, parseIso (.bytes b) = .value dt ↔ ∃ s, decodeUtf8 b = some s ∧ IsoText s dt) := by
  have key : ∀ s : List Char, strBody s = .ok (some dt) ↔ IsoText s dt := by
    intro s
    unfold strBody
    by_cases hd : isDigitStr s = true
    · rw [if_pos hd, digits_iff s hd dt]
      constructor
      · rintro ⟨_, hl, hv, hm, he⟩
        exact .epoch hd hl hv hm he
      · intro h
        cases h with
        | epoch _ hl hv hm he => exact ⟨guards_are_exactly_the_stated_ones.epochInt, hl, hv, hm, he⟩
        | shaped v hnd => rw [hd] at hnd; cases hnd
    · rw [if_neg hd, text_branch_refines_skeleton.text, textPath_iff guards_are_exactly_the_stated_ones]
      have hd' : isDigitStr s = false := by simpa using hd
      constructor
      · rintro ⟨h1, h2, v, ht, hl⟩
        exact .shaped v hd' h1 h2 ht hl
      · intro h
        cases h with
        | epoch hdd => rw [hdd] at hd'; cases hd'
        | shaped v _ h1 h2 ht hl => exact ⟨h1, h2, v, ht, hl⟩
  have out : ∀ i : Input, parseIso i = .value dt ↔ body i = .ok (some dt) := by
    intro i
    unfold parseIso parseIsoWith
    cases hb : body i with
    | error e => simp only []; split <;> simp
    | ok o => cases o <;> simp
  refine ⟨fun s => ?_, fun b => ?_⟩
  · rw [out, ← key s]
    rfl
  · rw [out]
    simp only [body]
    cases hb : decodeUtf8 b with
    | none =>
      simp only []
      constructor
      · intro h; cases h
      · rintro ⟨s, h, _⟩; cases h
    | some t =>
      simp only []
      rw [key t]
      constructor
      · intro h; exact ⟨t, rfl, h⟩
      · rintro ⟨s, h, hs⟩; injection h with h; subst h; exact hs

/-- Members and non-members of the language of `text_grammar`, through the parser (by the theorem, each
`.value` below is a derivation in `IsoText` and each `.none` the absence of one). -/
example : parseIso (.str "2000-02-29".toList) = .value ⟨2000, 2, 29, 0, 0, 0, 0⟩ ∧
    parseIso (.str "1900-02-29".toList) = .none ∧ parseIso (.str "2100-02-29".toList) = .none ∧
    parseIso (.str "0400-02-29".toList) = .value ⟨400, 2, 29, 0, 0, 0, 0⟩ ∧
    parseIso (.str "0000-01-01".toList) = .none ∧ parseIso (.str "0001-01-01".toList) = .value ⟨1, 1, 1, 0, 0, 0, 0⟩ ∧
    parseIso (.str "9999-12-31T23:59:59".toList) = .value ⟨9999, 12, 31, 23, 59, 59, 0⟩ ∧
    parseIso (.str "2023-04-18T24:00:00".toList) = .none ∧ parseIso (.str "2023-04-18T23:59:60".toList) = .none ∧
    parseIso (.str "2023-04-18t12:34:56".toList) = .value ⟨2023, 4, 18, 12, 34, 56, 0⟩ ∧
    parseIso (.str "2023-04-18t12-34:56".toList) = .none ∧
    parseIso (.str " 123-04-18".toList) = .value ⟨123, 4, 18, 0, 0, 0, 0⟩ ∧
    parseIso (.str "2023-04-18T12:34:5".toList) = .none := by decide

/-- **Floats are truncated toward zero, not floored**: a finite float is read as the integer
`int(x)` (so `-0.5` is second 0 and `-1.5` is second −1 — one second later than flooring would
give), NaN and the infinities give `None`; the same for `numpy.float64`. -/
theorem float_epoch_truncates (b : UInt64) :
    (∀ z, floatTrunc b = .fin z → parseIso (.float b) = parseIso (.int z) ∧ parseIso (.npFloat b) = parseIso (.int z)) ∧
    (floatTrunc b = .nan ∨ floatTrunc b = .inf → parseIso (.float b) = .none ∧ parseIso (.npFloat b) = .none) ∧
    floatTrunc 0xBFE0000000000000 = .fin 0 ∧ floatTrunc 0xBFF8000000000000 = .fin (-1) ∧
    parseIso (.float 0xBFE0000000000000) = .value ⟨1970, 1, 1, 0, 0, 0, 0⟩ ∧
    parseIso (.float 0xBFF8000000000000) = .value ⟨1969, 12, 31, 23, 59, 59, 0⟩ := by
  have c1 : Iso.epochAdmits "int" = true := by decide
  have c3 : Iso.epochAdmits "float" = true := by decide
  have c4 : Iso.epochAdmits "numpy.float64" = true := by decide
  have cv := guards_cover_subscripts_and_exceptions.catches
  refine ⟨?_, ?_, by decide, by decide, by decide, by decide⟩
  · intro z hz
    constructor <;> simp only [parseIso, parseIsoWith, body, epoch, c1, c3, c4, if_true, intOfFloat, hz, bind_ok]
  · intro hb
    rcases hb with hb | hb <;> constructor <;>
      simp only [parseIso, parseIsoWith, body, epoch, c3, c4, if_true, intOfFloat, hb, bind_error, cv.1, cv.2.2.1]

/-- **A float is read as the whole second it lies in — never carried into the next one** ("Integer,
float … inputs are read as Unix seconds", whole seconds).  The exact magnitude of a finite double with
bit pattern `b` is `fMant b * 2 ^ fEx b / 2 ^ 1075`; the second `z` the parser reads it as satisfies
`|z| ≤ |x| < |z| + 1` with the sign of `x`: however close `x` is to the next whole second
(`0.9999996`, `nextafter(1, 0)`, `1718530754.9999998` — values `datetime.fromtimestamp` would round
up to the next microsecond and so into the next second), the result is the second of `int(x)`, the
same as for the integer `z` itself.  A change that hands the float to `fromtimestamp` unconverted
(rounding to the nearest microsecond, flooring negative fractions) makes the code differ from
`parseIso` on exactly these inputs; the oracle demands `int(x)` (or `floor(x)` for a negative
fraction) of the code's own output. -/
theorem float_epoch_never_carries (b : UInt64) (z : Int) (h : floatTrunc b = .fin z) :
    z.natAbs * 2 ^ 1075 ≤ fMant b * 2 ^ fEx b ∧ fMant b * 2 ^ fEx b < (z.natAbs + 1) * 2 ^ 1075 ∧
    (z < 0 → b.toNat / 2 ^ 63 = 1) ∧
    parseIso (.float b) = parseIso (.int z) ∧ parseIso (.npFloat b) = parseIso (.int z) := by
  have hb := floatTrunc_brackets b z h
  have ht := (float_epoch_truncates b).1 z h
  exact ⟨hb.1, hb.2.1, hb.2.2, ht.1, ht.2⟩

/-- Non-vacuity and the boundary instances: 0.9999995, 0.9999996, nextafter(1, 0) are second 0,
1718530754.9999998 is second 1718530754 (09:39:14, not :15), 86399.9999999 is still 1970-01-01,
nextafter(-1, 0) is second 0. -/
example : floatTrunc 0x3FEFFFFEF39085F5 = .fin 0 ∧ floatTrunc 0x3FEFFFFF29406B2A = .fin 0 ∧
    floatTrunc 0x3FEFFFFFFFFFFFFF = .fin 0 ∧ floatTrunc 0x41D99BACB0BFFFFF = .fin 1718530754 ∧
    floatTrunc 0x40F517FFFFFFE528 = .fin 86399 ∧ floatTrunc 0xBFEFFFFFFFFFFFFF = .fin 0 ∧
    parseIso (.float 0x41D99BACB0BFFFFF) = .value ⟨2024, 6, 16, 9, 39, 14, 0⟩ ∧
    parseIso (.float 0x40F517FFFFFFE528) = .value ⟨1970, 1, 1, 23, 59, 59, 0⟩ := by decide

/-- **The cast programs translated from the source compute the specification.**  `Iso.castRun` runs
`Gen.IsoCast.parseDate / parseTime / parseTimestamp` — the three functions of `orso/types.py`,
translated statement by statement on this run (assignments, `if`, `isinstance`, `is None`, `raise`,
`try … except ValueError: pass`, the conditional expression, the calls of `parse_iso`,
`datetime.time.fromisoformat`, `.decode`, `.date()`, `.time()`), over dynamically typed Python
values.  On every input and for every cast they return exactly what the specification form
`Iso.cast` says — the same value, the same exception.  `casts_agree` and the TIME theorems below
are stated about `Iso.cast` and so hold of the code as it is now; a changed test, a new fast path, a
dropped `None` check or another `except` class breaks this theorem.  Second conjunct: the `DATE`,
`TIMESTAMP` and `TIME` entries of `ORSO_TO_PYTHON_PARSER` name these three functions and `OrsoTypes.parse`
only adds the `None` pass-through in front of the table lookup (source text extracted on this run). -/
theorem cast_programs_refine_spec (k : CastKind) (i : Input) :
    castRun k i = some (Iso.cast k i) ∧
    Gen.Iso.castTable = [("DATE", "parse_date"), ("TIMESTAMP", "parse_timestamp"), ("TIME", "parse_time"),
      ("parse", "if value is None: return None return ORSO_TO_PYTHON_PARSER[self.value](value, **kwargs)")] := by
  refine ⟨?_, rfl⟩
  have tod : ∀ s : List Char, ∀ e, timeFromIso s = .error e → e = .valueError := timeFromIso_error
  cases k
  · simp only [castRun, Gen.IsoCast.parseDate, pyVal, Except.bind, callParseIso, Iso.cast]
    cases h : parseIso i <;> simp [pySeq, pyIsNone, pyReturn, methDate, castOut, excOfName, Except.bind]
  · simp only [castRun, Gen.IsoCast.parseTime, pyVal, Except.bind, callParseIso, Iso.cast]
    cases i <;> cases h : parseIso _ <;>
      simp [pySeq, pyIsNone, pyReturn, methTime, castOut, excOfName, Except.bind, pyIsInstance, Val.classes, pyTry]
    case str.none s =>
      simp only [callTimeFromIso, timeOfDay, Except.bind]
      cases ht : timeFromIso s with
      | ok t => simp
      | error e => have := tod s e ht; subst this; simp [caughtBy, Exc.mro]
    case strSub.none s =>
      simp only [callTimeFromIso, timeOfDay, Except.bind]
      cases ht : timeFromIso s with
      | ok t => simp
      | error e => have := tod s e ht; subst this; simp [caughtBy, Exc.mro]
    case bytes.none b =>
      simp only [methDecode]
      cases hd : decodeUtf8 b with
      | none => simp [caughtBy, Exc.mro]
      | some s =>
        simp only [callTimeFromIso, timeOfDay, Except.bind]
        cases ht : timeFromIso s with
        | ok t => simp
        | error e => have := tod s e ht; subst this; simp [caughtBy, Exc.mro]
  · simp only [castRun, Gen.IsoCast.parseTimestamp, pyVal, Except.bind, callParseIso, Iso.cast]
    cases h : parseIso i <;> simp [pySeq, pyIsNone, pyReturn, castOut, excOfName, Except.bind]

/-- **The DATE, TIMESTAMP and TIME casts agree with the parser**, for every input (`Iso.cast` is what
the cast functions of the source compute, `cast_programs_refine_spec`):

* when the parser yields a value, TIMESTAMP returns it, DATE its date, TIME its time of day;
* when the parser yields `None`, DATE and TIMESTAMP raise `ValueError`; TIME raises `ValueError` for
  every object that is neither text nor a `datetime.time`, and for text (`str`, an instance of a `str`
  subclass, UTF-8 `bytes`) returns what `datetime.time.fromisoformat` reads in it — a time of day on
  its own — and raises `ValueError` when that does not read it either, or the bytes are not UTF-8;
* a `datetime.time` is returned unchanged by TIME (the parser answers `None` for it);
* no cast raises anything but `ValueError`. -/
theorem casts_agree (i : Input) :
    (∀ dt, parseIso i = .value dt →
      Iso.cast .timestamp i = .timestamp dt ∧ Iso.cast .date i = .date dt.year dt.month dt.day ∧
      ((∀ H M S us, i ≠ .time H M S us) → Iso.cast .time i = .time dt.hour dt.minute dt.second dt.micro)) ∧
    (parseIso i = .none →
      Iso.cast .timestamp i = .raises .valueError ∧ Iso.cast .date i = .raises .valueError ∧
      (∀ s, i = .str s ∨ i = .strSub s → Iso.cast .time i = timeOfDay s) ∧
      (∀ b, i = .bytes b → Iso.cast .time i =
        match decodeUtf8 b with | some s => timeOfDay s | none => .raises .valueError) ∧
      ((∀ H M S us, i ≠ .time H M S us) → (∀ s, i ≠ .str s) → (∀ s, i ≠ .strSub s) → (∀ b, i ≠ .bytes b) →
        Iso.cast .time i = .raises .valueError)) ∧
    (∀ H M S us, Iso.cast .time (.time H M S us) = .time H M S us ∧ parseIso (.time H M S us) = .none) ∧
    (∀ k e, Iso.cast k i = .raises e → e = .valueError) := by
  refine ⟨?_, ?_, fun _ _ _ _ => ⟨rfl, rfl⟩, ?_⟩
  · intro dt h
    refine ⟨by simp [Iso.cast, h], by simp [Iso.cast, h], ?_⟩
    intro hne
    cases i <;> first | (exact absurd rfl (hne _ _ _ _)) | (simp [Iso.cast, h])
  · intro h
    refine ⟨by simp [Iso.cast, h], by simp [Iso.cast, h], ?_, ?_, ?_⟩
    · intro s hs
      rcases hs with rfl | rfl <;> simp [Iso.cast, h]
    · intro b hb
      subst hb
      simp only [Iso.cast, h]
      cases decodeUtf8 b <;> rfl
    · intro hne h1 h2 h3
      cases i
      case time => exact absurd rfl (hne _ _ _ _)
      case str => exact absurd rfl (h1 _)
      case strSub => exact absurd rfl (h2 _)
      case bytes => exact absurd rfl (h3 _)
      all_goals simp [Iso.cast, h]
  · intro k e he
    have hnr := never_raises i
    have htod : ∀ s, timeOfDay s = .raises e → e = .valueError := by
      intro s hs
      unfold timeOfDay at hs
      split at hs
      · cases hs
      · injection hs with hs; exact hs.symm
    unfold Iso.cast at he
    split at he
    · cases he
    · cases hp : parseIso i with
      | raises e' => exact absurd hp (hnr e')
      | value dt => rw [hp] at he; cases k <;> cases he
      | none =>
        rw [hp] at he
        dsimp only at he
        split at he
        · exact htod _ he
        · exact htod _ he
        · split at he
          · exact htod _ he
          · injection he with he; exact he.symm
        · injection he with he; exact he.symm

/-- **A time of day on its own — the layouts and their values.**  (`Iso.timeFromIso` is the model of
`datetime.time.fromisoformat`, to which `parse_time` hands text the parser does not read.)  For all ASCII
digits `a … f`: `ab`, `ab:cd`, `ab:cd:ef` and `ab:cd:ef.ds` / `ab:cd:ef,ds` with *any* positive number of
fraction digits `ds` are read as hour `ab`, minute `cd`, second `ef` and the microseconds `fracMicro ds`
(the first six fraction digits, right-padded with zeros; further digits are dropped, not rounded; never
more than 999999) — accepted exactly when hour ≤ 23, minute ≤ 59, second ≤ 59, `ValueError` otherwise
(`24:00`, `23:60`, `23:59:60` are rejected).  One leading `T` is allowed.  A text that does not start
with two ASCII digits — leading white space, a sign, a non-ASCII digit, a one-digit hour — is a
`ValueError`. -/
theorem time_of_day_layouts (a b c d e f : Char) (ha : a.isDigit = true) (hb : b.isDigit = true)
    (hc : c.isDigit = true) (hd : d.isDigit = true) (he : e.isDigit = true) (hf : f.isDigit = true) :
    timeFromIso [a, b] = finishTime ⟨twoDigits a b, 0, 0, 0⟩ ∧
    timeFromIso [a, b, ':', c, d] = finishTime ⟨twoDigits a b, twoDigits c d, 0, 0⟩ ∧
    timeFromIso [a, b, ':', c, d, ':', e, f] = finishTime ⟨twoDigits a b, twoDigits c d, twoDigits e f, 0⟩ ∧
    (∀ sep ds, (sep = '.' ∨ sep = ',') → (∀ x ∈ ds, x.isDigit = true) → ds ≠ [] →
      timeFromIso (a :: b :: ':' :: c :: d :: ':' :: e :: f :: sep :: ds) =
        finishTime ⟨twoDigits a b, twoDigits c d, twoDigits e f, fracMicro ds⟩ ∧ fracMicro ds ≤ 999999) ∧
    (∀ t, finishTime t =
      if t.hour ≤ 23 ∧ t.minute ≤ 59 ∧ t.second ≤ 59 ∧ t.micro ≤ 999999 then .ok t else .error .valueError) ∧
    (∀ x y r, x ≠ 'T' → unitCount x = 1 → (x.isDigit = false ∨ y.isDigit = false) →
      timeFromIso (x :: y :: r) = .error .valueError) := by
  obtain ⟨h1, h2, h3⟩ := timeFromIso_plain a b c d e f ha hb hc hd he hf
  refine ⟨h1, h2, h3, ?_, fun _ => rfl, ?_⟩
  · intro sep ds hsep hds hne
    exact ⟨timeFromIso_fraction a b c d e f sep ha hb hc hd he hf hsep ds hds hne, fracMicro_le ds hds⟩
  · intro x y r hT hu h
    exact timeFromIso_needs_two_digits x y r hT h hu

/-- **The TIME cast reads back a time of day written on its own** (how JSON writes a TIME value):
for every time of day `H:M:S.us`, its rendering `HH:MM:SS` followed by the first `k` digits of the
microsecond field (`k = 0`: no fraction; `k ≥ 6`: all six), and the rendering `HH:MM`, given as text,
as an instance of a `str` subclass or as UTF-8 bytes, is not read by the parser (`None`) and is cast by
TIME to that time of day, the microseconds cut to `k` digits — whereas DATE and TIMESTAMP raise
`ValueError` for it. -/
theorem time_cast_roundtrip (H M S us : Nat) (hH : H ≤ 23) (hM : M ≤ 59) (hS : S ≤ 59) (hus : us ≤ 999999) (k : Nat) :
    let full := renderTime H M S ++ fraction us k
    let short := pad2 H ++ ':' :: pad2 M
    let usk := if k = 0 then 0 else truncMicro us k
    parseIso (.str full) = .none ∧ parseIso (.str short) = .none ∧
    Iso.cast .time (.str full) = .time H M S usk ∧ Iso.cast .time (.strSub full) = .time H M S usk ∧
    Iso.cast .time (.bytes (String.ofList full).toUTF8.data.toList) = .time H M S usk ∧
    Iso.cast .time (.str short) = .time H M 0 0 ∧
    Iso.cast .date (.str full) = .raises .valueError ∧ Iso.cast .timestamp (.str full) = .raises .valueError := by
  intro full short usk
  have hcol : ('0' : Char) = '0' := rfl
  have nd : ∀ r : List Char, isDigitStr (pad2 H ++ ':' :: r) = false := by
    intro r; simp [isDigitStr, pad2]
  have tH := twoDigits_pad H (by omega)
  have tM := twoDigits_pad M (by omega)
  have tS := twoDigits_pad S (by omega)
  have hshort : parseIso (.str short) = .none :=
    other_inputs_none.2 short (nd _) (Or.inl (by simp [short, pad2]))
  -- the time of day read in `full`
  have htod : timeOfDay full = .time H M S usk := by
    obtain ⟨_, _, p3⟩ := timeFromIso_plain (digit (H / 10)) (digit H) (digit (M / 10)) (digit M) (digit (S / 10)) (digit S)
      (isDigit_digit _) (isDigit_digit _) (isDigit_digit _) (isDigit_digit _) (isDigit_digit _) (isDigit_digit _)
    by_cases hk : k = 0
    · have e : full = [digit (H / 10), digit H, ':', digit (M / 10), digit M, ':', digit (S / 10), digit S] := by
        simp [full, renderTime, pad2, fraction, hk]
      have hfin : finishTime ⟨H, M, S, 0⟩ = .ok ⟨H, M, S, 0⟩ := by simp [finishTime, hH, hM, hS]
      simp only [timeOfDay, e, p3, tH, tM, tS, hfin, usk, hk, if_true]
    · have hds : ∀ x ∈ (pad6 us).take k, x.isDigit = true := by
        intro x hx
        have := List.mem_of_mem_take hx
        simp only [pad6, List.mem_cons, List.not_mem_nil, or_false] at this
        rcases this with rfl | rfl | rfl | rfl | rfl | rfl <;> exact isDigit_digit _
      have hne : (pad6 us).take k ≠ [] := by
        obtain ⟨j, rfl⟩ : ∃ j, k = j + 1 := ⟨k - 1, by omega⟩
        simp [pad6]
      have e : full = digit (H / 10) :: digit H :: ':' :: digit (M / 10) :: digit M :: ':' :: digit (S / 10) :: digit S :: '.' ::
          (pad6 us).take k := by
        simp [full, renderTime, pad2, fraction, hk]
      have p4 := timeFromIso_fraction (digit (H / 10)) (digit H) (digit (M / 10)) (digit M) (digit (S / 10)) (digit S) '.'
        (isDigit_digit _) (isDigit_digit _) (isDigit_digit _) (isDigit_digit _) (isDigit_digit _) (isDigit_digit _) (Or.inl rfl)
        _ hds hne
      have hm := fracMicro_pad6 us k hus (by omega)
      have hle : truncMicro us k ≤ 999999 := by rw [← hm]; exact fracMicro_le _ hds
      have hfin : finishTime ⟨H, M, S, truncMicro us k⟩ = .ok ⟨H, M, S, truncMicro us k⟩ := by
        simp [finishTime, hH, hM, hS, hle]
      simp only [timeOfDay, e, p4, tH, tM, tS, hm, hfin, usk, hk, if_false]
  have htods : timeOfDay short = .time H M 0 0 := by
    obtain ⟨_, p2, _⟩ := timeFromIso_plain (digit (H / 10)) (digit H) (digit (M / 10)) (digit M) (digit (S / 10)) (digit S)
      (isDigit_digit _) (isDigit_digit _) (isDigit_digit _) (isDigit_digit _) (isDigit_digit _) (isDigit_digit _)
    have e : short = [digit (H / 10), digit H, ':', digit (M / 10), digit M] := by simp [short, pad2]
    have hfin : finishTime ⟨H, M, 0, 0⟩ = .ok ⟨H, M, 0, 0⟩ := by simp [finishTime, hH, hM]
    simp only [timeOfDay, e, p2, tH, tM, hfin]
  -- the parser does not read it: not all digits, and the character at offset 4 is a digit, not a dash
  have hfull : parseIso (.str full) = .none ∧ ∀ b, decodeUtf8 b = some full → parseIso (.bytes b) = .none := by
    apply not_date_shaped_none full (by simp only [full, renderTime, List.append_assoc]; exact nd _)
    left
    have : full[4]? = some (digit M) := by simp [full, renderTime, pad2]
    rw [this]
    intro h
    injection h with h
    exact digit_ne (by decide) h
  have hsub : parseIso (.strSub full) = .none := rfl
  have hdec : decodeUtf8 (String.ofList full).toUTF8.data.toList = some full := by
    have := decodeUtf8_toUTF8 (String.ofList full)
    simpa using this
  have ca := casts_agree (.str full)
  have cb := casts_agree (.strSub full)
  have cc := casts_agree (.bytes (String.ofList full).toUTF8.data.toList)
  have cd := casts_agree (.str short)
  refine ⟨hfull.1, hshort, ?_, ?_, ?_, ?_, (ca.2.1 hfull.1).2.1, (ca.2.1 hfull.1).1⟩
  · rw [(ca.2.1 hfull.1).2.2.1 full (Or.inl rfl), htod]
  · rw [(cb.2.1 hsub).2.2.1 full (Or.inr rfl), htod]
  · rw [(cc.2.1 (hfull.2 _ hdec)).2.2.2.1 _ rfl, hdec]; exact htod
  · rw [(cd.2.1 hshort).2.2.1 short (Or.inl rfl), htods]

/-- **Whatever the TIME cast returns for a text is a time of day**: hour ≤ 23, minute ≤ 59, second ≤ 59,
microsecond ≤ 999999 — whether it comes from the parser's value or from the time-of-day reading. -/
theorem time_cast_value_is_a_time (s : List Char) (H M S us : Nat)
    (h : Iso.cast .time (.str s) = .time H M S us) : H ≤ 23 ∧ M ≤ 59 ∧ S ≤ 59 ∧ us ≤ 999999 := by
  have ca := casts_agree (.str s)
  cases hp : parseIso (.str s) with
  | raises e => exact absurd hp (never_raises _ e)
  | value dt =>
    have hv := (text_value_sound s dt hp).1
    have := (ca.1 dt hp).2.2 (fun _ _ _ _ => by intro hh; cases hh)
    rw [this] at h
    injection h with h1 h2 h3 h4
    subst h1 h2 h3 h4
    simp only [validDateTime, Bool.and_eq_true, decide_eq_true_eq] at hv
    omega
  | none =>
    have := (ca.2.1 hp).2.2.1 s (Or.inl rfl)
    rw [this] at h
    unfold timeOfDay at h
    split at h
    · next t ht =>
      injection h with h1 h2 h3 h4
      subst h1 h2 h3 h4
      exact timeFromIso_ok s t ht
    · cases h

/-- **The dispatch in front of the string branch is the one `Iso.body` describes.**
`Gen.IsoDispatch.dispatch` is the body of `parse_iso`'s `try`, translated statement by statement from the source on this run
(`harness/pystmt_dispatch.py`: the re-assigned variables `value` / `input_type`, `if` without `else`, early `return`, the short
circuit of `and`, the class table of the Unix-seconds branch as it is written, the order of the tests).  On **every** input
(`Input.num ty n` with `ty` a numeric class) it computes `Iso.body` — the function all other theorems are about: bytes are
decoded first (an undecodable byte string raises `UnicodeDecodeError` there), all-digit text becomes an `int` *before* the table
is consulted, the classes of the table go to `fromtimestamp(int(value), utc)`, a `datetime` loses its microseconds, a `date` gets
midnight, exact `str` goes to the string branch, everything else falls through to `return None`.  `parse_iso` carries no
decorator (no cache between the caller and the `try`) and takes the one argument. -/
theorem dispatch_is_the_modelled_one :
    Gen.IsoDispatch.decorators = [] ∧ Gen.IsoDispatch.signature = "value" ∧
    ∀ i : Input, i.numericContract → Gen.IsoDispatch.dispatch (.inp i) = Iso.body i := by
  refine ⟨rfl, rfl, ?_⟩
  intro i hc
  cases i with
  | str s =>
    cases hd : isDigitStr s <;>
      simp [Gen.IsoDispatch.dispatch, pyType, pyIsInstanceD, DVal.classes, mro, pyIsDigit, hd, pyTypeIn, pyHasAttr, pyTextBranch, body, strBody,
        epoch, epochAdmits, Gen.Iso.epochBySubclass, Gen.Iso.epochTypes, pyIntOf, pyFromTimestampUtc, bind, Except.bind]
  | bytes b =>
    cases hb : decodeUtf8 b with
    | none => simp [Gen.IsoDispatch.dispatch, pyType, pyIsInstanceD, DVal.classes, pyDecodeUtf8, hb, body, bind, Except.bind]
    | some s =>
      cases hd : isDigitStr s <;>
      simp [Gen.IsoDispatch.dispatch, pyType, pyIsInstanceD, DVal.classes, mro, pyDecodeUtf8, hb, pyIsDigit, hd, pyTypeIn, pyHasAttr, pyTextBranch, body, strBody,
        epoch, epochAdmits, Gen.Iso.epochBySubclass, Gen.Iso.epochTypes, pyIntOf, pyFromTimestampUtc, bind, Except.bind]
  | num ty n =>
    obtain ⟨h1, h2, h3, h4, h5⟩ := hc
    simp [Gen.IsoDispatch.dispatch, pyType, pyIsInstanceD, DVal.classes, bytes_not_in_mro ty h1, pyTypeIn, pyHasAttr, body,
        epoch, epochAdmits, Gen.Iso.epochBySubclass, Gen.Iso.epochTypes, pyIntOf, pyFromTimestampUtc, bind, Except.bind, h2, h3, h4, h5, pure, Except.pure]
  | _ =>
    simp [Gen.IsoDispatch.dispatch, pyType, pyIsInstanceD, DVal.classes, mro, pyTypeIn, pyHasAttr, body,
        epoch, epochAdmits, Gen.Iso.epochBySubclass, Gen.Iso.epochTypes, pyIntOf, pyFromTimestampUtc, pyReplaceMicro0, pyCombineMin, bind, Except.bind, pure, Except.pure]

/-- **Counterexamples on the pinned tree** (`except (ValueError, TypeError)`): the faithful model
raises — `OverflowError` for `10**30`, `float('inf')` and `'9'*30`, `OSError` for `10**17` — so
`never_raises` is false of the unrepaired code; replayed on the real code in `findings/C08.json`. -/
theorem pinned_tree_raises :
    parseIsoWith ["ValueError", "TypeError"] (.int (10 ^ 30)) = .raises .overflowError ∧
    parseIsoWith ["ValueError", "TypeError"] (.float 0x7FF0000000000000) = .raises .overflowError ∧
    parseIsoWith ["ValueError", "TypeError"] (.str (List.replicate 30 '9')) = .raises .overflowError ∧
    parseIsoWith ["ValueError", "TypeError"] (.int (10 ^ 17)) = .raises .osError := by decide

end C08
