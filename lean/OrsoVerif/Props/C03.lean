import OrsoVerif.Lemmas.Frame
/-!
# C03 — DataFrame operators agree with a list-of-tuples model

Property theorems only.  Every operator of `Model/Frame.lean` is a function on the row
listing, so compositions need no theorem of their own: a program is a composition of these
functions and each theorem below holds for every input listing, including the output of any
earlier operator.  The correspondence check runs whole programs on `DataFrame` and on the model.
-/
namespace C03
open Frame

variable {α : Type}

/-- After its first statement `slice` works with a non-negative offset (this is where the clamp
of the *generated* arithmetic is needed: `max (n + offset) 0`). -/
theorem sliceOffset_nonneg (n : Nat) (offset : Int) : 0 ≤ sliceOffset n offset := by
  unfold sliceOffset Gen.Frame.sliceNegTest Gen.Frame.sliceNegStart
  by_cases h : offset < 0
  · simp only [h, if_true]; omega
  · simp only [h, if_false]; omega

/-- `slice(offset, length)` is the window of `length` rows (to the end when `None`) starting at
`sliceStart`. -/
theorem slice_eq (rows : List α) (offset : Int) (length : Option Nat) :
    slice rows offset length =
      match length with
      | none => rows.drop (sliceStart rows.length offset)
      | some l => (rows.drop (sliceStart rows.length offset)).take l := by
  have h0 := sliceOffset_nonneg rows.length offset
  obtain ⟨a, ha⟩ : ∃ a : Nat, sliceOffset rows.length offset = (a : Int) := ⟨_, (Int.toNat_of_nonneg h0).symm⟩
  have hstart : sliceStart rows.length offset = min a rows.length := by
    unfold sliceStart; rw [ha, pyBound_nonneg]
  have hdrop : rows.drop (min a rows.length) = rows.drop a := by
    by_cases h : a ≤ rows.length
    · rw [Nat.min_eq_left h]
    · have h' : rows.length ≤ a := by omega
      rw [Nat.min_eq_right h', List.drop_eq_nil_iff.mpr (Nat.le_refl _), List.drop_eq_nil_iff.mpr h']
  cases length with
  | none => simp only [slice, ha, pySliceFrom_nonneg, hstart, hdrop]
  | some l =>
    simp only [slice, ha, hstart, hdrop, Gen.Frame.sliceZeroTest, Gen.Frame.sliceStop]
    by_cases hl : (l : Int) = 0
    · have : l = 0 := by omega
      subst this; simp
    · simp only [hl, if_false]
      exact pySlice_nonneg rows a l

/-- `head(k)` is the first `min k n` rows. -/
theorem head_eq_take (rows : List α) (k : Nat) : head rows k = rows.take k := by
  unfold head
  rw [slice_eq]
  have : sliceStart rows.length (Gen.Frame.headOffset k) = 0 := by
    simp [sliceStart, sliceOffset, Gen.Frame.headOffset, Gen.Frame.sliceNegTest, pyBound]
  simp [this, Gen.Frame.headLength]

/-- `tail(k)` is the last `min k n` rows — for every `k`, also `n < k` (the clamp). -/
theorem tail_spec (rows : List α) (k : Nat) :
    tail rows k = rows.drop (rows.length - min k rows.length)
    ∧ (tail rows k).length = min k rows.length := by
  by_cases hk : k = 0
  · subst hk
    unfold tail
    rw [slice_eq]
    simp [Gen.Frame.tailLength]
  have hstart : sliceStart rows.length (Gen.Frame.tailOffset k) = rows.length - k := by
    unfold sliceStart sliceOffset Gen.Frame.tailOffset Gen.Frame.sliceNegTest Gen.Frame.sliceNegStart pyBound
    · have h1 : ((0 : Int) - (k : Int)) < 0 := by omega
      simp only [h1, if_true]
      have h2 : ¬ (max ((rows.length : Int) + (0 - (k : Int))) 0 < 0) := by omega
      simp only [h2, if_false]
      omega
  have h1 : tail rows k = (rows.drop (rows.length - k)).take k := by
    unfold tail
    rw [slice_eq, hstart]
    simp [Gen.Frame.tailLength]
  have h2 : (rows.drop (rows.length - k)).take k = rows.drop (rows.length - k) := by
    apply List.take_of_length_le
    simp only [List.length_drop]; omega
  have h3 : rows.length - min k rows.length = rows.length - k := by omega
  refine ⟨by rw [h1, h2, h3], ?_⟩
  rw [h1, h2, List.length_drop]; omega

/-- `slice` always returns a contiguous window of the listing. -/
theorem slice_window (rows : List α) (offset : Int) (length : Option Nat) :
    ∃ i, slice rows offset length = (rows.drop i).take (slice rows offset length).length := by
  refine ⟨sliceStart rows.length offset, ?_⟩
  rw [slice_eq]
  cases length with
  | none =>
    simp only
    rw [List.take_of_length_le (Nat.le_refl _)]
  | some l =>
    simp only
    rw [List.length_take]
    exact List.take_eq_take_min

/-- For a non-negative offset the window starts at `offset` (clamped to the row count); for
`-n ≤ offset < 0` at `n + offset`; further to the left it is clamped to the first row. -/
theorem slice_start (n : Nat) (offset : Int) :
    (0 ≤ offset → sliceStart n offset = min offset.toNat n)
    ∧ (offset < 0 → -(n : Int) ≤ offset → (sliceStart n offset : Int) = n + offset)
    ∧ (offset < -(n : Int) → sliceStart n offset = 0) := by
  unfold sliceStart sliceOffset Gen.Frame.sliceNegTest Gen.Frame.sliceNegStart pyBound
  refine ⟨?_, ?_, ?_⟩
  · intro h; have h1 : ¬ offset < 0 := by omega
    simp [h1]
  · intro h1 h2
    simp only [h1, if_true]
    have h3 : ¬ (max ((n : Int) + offset) 0 < 0) := by omega
    simp only [h3, if_false]
    omega
  · intro h; have h1 : offset < 0 := by omega
    simp only [h1, if_true]
    have h3 : ¬ (max ((n : Int) + offset) 0 < 0) := by omega
    simp only [h3, if_false]
    omega

/-- Positional specification shared by `filter`, `take` and `query`: the rows kept are exactly
those at the selected positions, in their original order. -/
theorem pick_spec (sel : Nat → Bool) (rows : List α) :
    pick sel rows = rows.zipIdx.filterMap (fun p => if sel p.2 then some p.1 else none)
    ∧ (pick sel rows).Sublist rows :=
  ⟨pickFrom_zipIdx 0 sel rows, pickFrom_sublist 0 sel rows⟩

/-- `filter(mask)` keeps row `i` iff `mask[i]` is true. -/
theorem filter_spec (rows : List α) (mask : List Bool) :
    filter rows mask = pick (fun i => (mask[i]?).getD false) rows := by
  simpa [pick] using filter_pickFrom rows mask []

/-- `take(indexes)` keeps row `i` iff `i ∈ indexes`. -/
theorem take_spec (rows : List α) (idxs : List Int) :
    take rows idxs = pick (fun i => decide ((i : Int) ∈ idxs)) rows := rfl

/-- `query(p)` keeps row `i` iff `p rows[i]`. -/
theorem query_spec (rows : List α) (p : α → Bool) :
    query rows p = pick (fun i => ((rows[i]?).map p).getD false) rows := by
  simpa [pick, query] using query_pickFrom rows [] p

/-- `select`: the header is the requested names (those that exist) in the requested order, and
cell `j` of every result row is the source row's cell at the first position of `header[j]`. -/
theorem select_spec (names : List String) (rows : List (List α)) (attrs : List String)
    (hw : ∀ r ∈ rows, r.length = names.length) :
    (select names rows attrs).1 = attrs.filter (fun a => decide (a ∈ names))
    ∧ (select names rows attrs).2.length = rows.length
    ∧ ∀ (k : Nat) (r : List α), rows[k]? = some r →
        ∃ r', (select names rows attrs).2[k]? = some r'
          ∧ r'.length = (select names rows attrs).1.length
          ∧ ∀ (j : Nat) (a : String), (select names rows attrs).1[j]? = some a →
              ∃ i, indexOf names a = some i ∧ names[i]? = some a ∧ r'[j]? = r[i]? := by
  refine ⟨rfl, by simp [select], ?_⟩
  intro k r hk
  have hr : r ∈ rows := List.mem_of_getElem? hk
  have hlen := hw r hr
  refine ⟨project (selectIdx names attrs) r, by simp [select, hk], ?_, ?_⟩
  all_goals
    have key : project (selectIdx names attrs) r
        = (selectHeader names attrs).filterMap (fun a => (indexOf names a).bind (r[·]?)) := by
      simp only [project, selectIdx, List.filterMap_filterMap]
  · rw [key]
    simp only [select]
    have : ∀ a ∈ selectHeader names attrs, ∃ v, (indexOf names a).bind (r[·]?) = some v := by
      intro a ha
      have hmem : a ∈ names := by
        simp only [selectHeader, List.mem_filter, decide_eq_true_eq] at ha; exact ha.2
      obtain ⟨i, h1, _, _⟩ := indexOf_some_of_mem names a hmem
      have hi := indexOf_lt names a i h1
      refine ⟨r[i]'(by omega), ?_⟩
      simp [h1, List.getElem?_eq_getElem (show i < r.length by omega)]
    generalize selectHeader names attrs = hdr at this
    induction hdr with
    | nil => rfl
    | cons a as ih =>
      obtain ⟨v, hv⟩ := this a (by simp)
      simp only [List.filterMap_cons, hv, List.length_cons]
      rw [ih (fun b hb => this b (by simp [hb]))]
  · intro j a hj
    have ha : a ∈ selectHeader names attrs := List.mem_of_getElem? hj
    have hmem : a ∈ names := by
      simp only [selectHeader, List.mem_filter, decide_eq_true_eq] at ha; exact ha.2
    obtain ⟨i, h1, h2, _⟩ := indexOf_some_of_mem names a hmem
    refine ⟨i, h1, h2, ?_⟩
    rw [key]
    simp only [select] at hj
    have hall : ∀ b ∈ selectHeader names attrs, ∃ v, (indexOf names b).bind (r[·]?) = some v := by
      intro b hb
      have hbm : b ∈ names := by
        simp only [selectHeader, List.mem_filter, decide_eq_true_eq] at hb; exact hb.2
      obtain ⟨i', h1', _, _⟩ := indexOf_some_of_mem names b hbm
      have hi' := indexOf_lt names b i' h1'
      exact ⟨r[i']'(by omega), by simp [h1', List.getElem?_eq_getElem (show i' < r.length by omega)]⟩
    generalize selectHeader names attrs = hdr at hj hall
    induction hdr generalizing j with
    | nil => simp at hj
    | cons b bs ih =>
      obtain ⟨v, hv⟩ := hall b (by simp)
      simp only [List.filterMap_cons, hv]
      cases j with
      | zero =>
        simp only [List.getElem?_cons_zero, Option.some.injEq] at hj
        subst hj
        simp only [List.getElem?_cons_zero]
        rw [← hv, h1]; rfl
      | succ j =>
        simp only [List.getElem?_cons_succ] at hj ⊢
        exact ih j hj (fun c hc => hall c (by simp [hc]))

/-- `distinct` is duplicate-free, a sub-listing of the source with the same members, and keeps
the *first* of each set of equal rows: `distinct (x :: xs) = x :: (distinct xs without x)`. -/
theorem distinct_spec [DecidableEq α] (rows : List α) :
    (distinct rows).Nodup
    ∧ (distinct rows).Sublist rows
    ∧ (∀ x, x ∈ distinct rows ↔ x ∈ rows)
    ∧ (∀ (x : α) (xs : List α), distinct (x :: xs) = x :: (distinct xs).filter (fun y => decide (y ≠ x))) := by
  refine ⟨distinctAux_nodup [] rows, distinctAux_sublist [] rows, ?_, ?_⟩
  · intro x; simp [distinct, distinctAux_mem]
  · intro x xs
    simp [distinct, distinctAux, distinctAux_filter]

/-- Batching partitions the rows, in order, into consecutive chunks of `size`: batch `i` is rows
`i·size … (i+1)·size − 1`; so all batches are full except a non-empty remainder, and
concatenated they are the listing. -/
theorem batches_spec (rows : List α) (size : Nat) (hs : 0 < size) :
    (batches rows size).flatten = rows
    ∧ ∀ i, (batches rows size)[i]? =
        if i * size < rows.length then some ((rows.drop (i * size)).take size) else none :=
  ⟨batchesAux_flatten size hs _ rows (Nat.le_refl _),
   fun i => batchesAux_get size hs _ rows (Nat.le_refl _) i⟩

/-- Every batch but the last is full and no batch is empty. -/
theorem batches_sizes (rows : List α) (size : Nat) (hs : 0 < size) (i : Nat) (b : List α)
    (h : (batches rows size)[i]? = some b) :
    0 < b.length ∧ b.length ≤ size ∧ ((i + 1) * size ≤ rows.length → b.length = size) := by
  rw [(batches_spec rows size hs).2 i] at h
  by_cases hlt : i * size < rows.length
  · simp only [hlt, if_true, Option.some.injEq] at h
    subst h
    simp only [List.length_take, List.length_drop]
    have e : (i + 1) * size = i * size + size := Nat.succ_mul i size
    omega
  · simp [hlt] at h

/-- `collect` / indexing is the column-major transpose truncated to the limit:
`result[i][j] = rows[j][columns[i]]` for the first `limit` rows (all rows for `None` or a negative
limit or one beyond the row count). -/
theorem collect_spec [Inhabited α] (rows : List (List α)) (cols : List Nat) (limit : Option Int) (w : Nat)
    (hw : ∀ r ∈ rows, r.length = w) (hc : ∀ c ∈ cols, c < w) :
    collect rows cols limit =
      some (cols.map fun c => (rows.take (limitRows rows.length limit)).map fun r => r[c]!) := by
  unfold collect
  apply mapM_some
  intro c hcm
  apply mapM_some
  intro r hr
  have hrm : r ∈ rows := List.mem_of_mem_take hr
  have : c < r.length := by rw [hw r hrm]; exact hc c hcm
  simp [List.getElem?_eq_getElem this, getElem!_pos r c this]

/-- The limit: `None`, a negative limit or one beyond the row count mean all rows. -/
theorem limitRows_spec (n : Nat) :
    limitRows n none = n
    ∧ (∀ l : Int, l < 0 → limitRows n (some l) = n)
    ∧ (∀ l : Int, 0 ≤ l → limitRows n (some l) = min l.toNat n) := by
  refine ⟨rfl, ?_, ?_⟩
  · intro l h; simp [limitRows, h]
  · intro l h; have : ¬ l < 0 := by omega
    simp [limitRows, this]

/-- Every row-selecting operator returns rows of the source (so rectangularity and cell values
are preserved by any composition of them). -/
theorem rows_preserved [DecidableEq α] (rows : List α) :
    (∀ o l, ∀ r ∈ slice rows o l, r ∈ rows)
    ∧ (∀ m, ∀ r ∈ filter rows m, r ∈ rows)
    ∧ (∀ ix, ∀ r ∈ take rows ix, r ∈ rows)
    ∧ (∀ p, ∀ r ∈ query rows p, r ∈ rows)
    ∧ (∀ r ∈ distinct rows, r ∈ rows) := by
  refine ⟨?_, ?_, ?_, ?_, ?_⟩
  · intro o l r hr
    rw [slice_eq] at hr
    cases l with
    | none => exact List.mem_of_mem_drop hr
    | some l => exact List.mem_of_mem_drop (List.mem_of_mem_take hr)
  · intro m r hr
    rw [filter_spec] at hr
    exact (pickFrom_sublist 0 _ rows).subset hr
  · intro ix r hr
    exact (pickFrom_sublist 0 _ rows).subset hr
  · intro p r hr
    exact (List.mem_filter.mp hr).1
  · intro r hr
    exact (distinctAux_sublist [] rows).subset hr

/-- Non-vacuity: concrete frames exercising the clamp, reordering select, colliding rows. -/
example : tail [1, 2, 3] 5 = [1, 2, 3] ∧ tail [1, 2, 3] 2 = [2, 3] ∧ slice [1, 2, 3] (-2) (some 1) = [2] := by decide
example : select ["a", "b", "c"] [[1, 2, 3], [4, 5, 6]] ["c", "a"] = (["c", "a"], [[3, 1], [6, 4]]) := by decide
example : distinct [1, 2, 1, 3, 2] = [1, 2, 3] ∧ batches [1, 2, 3, 4, 5] 2 = [[1, 2], [3, 4], [5]] := by decide
example : collect [[1, 2], [3, 4], [5, 6]] [1, 0] (some 2) = some [[2, 4], [1, 3]] := by decide

end C03
