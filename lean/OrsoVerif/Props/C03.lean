import OrsoVerif.Lemmas.Frame
import OrsoVerif.Lemmas.FrameProg
import OrsoVerif.Generated.FrameFns
import OrsoVerif.Model.FrameCell
/-!
# C03 — DataFrame operators agree with a list-of-tuples model

Property theorems only.  Every operator of `Model/Frame.lean` is a function on the row
listing, so compositions need no theorem of their own: a program is a composition of these
functions and each theorem below holds for every input listing, including the output of any
earlier operator.  The correspondence check runs whole programs on `DataFrame` and on the model.
-/
namespace C03
open Frame

variable {α : Type}

/-- After its first statement `slice` works with a non-negative offset (this is where the clamp
of the *generated* arithmetic is needed: `max (n + offset) 0`). -/
theorem sliceOffset_nonneg (n : Nat) (offset : Int) : 0 ≤ sliceOffset n offset := by
  unfold sliceOffset Gen.Frame.sliceNegTest Gen.Frame.sliceNegStart
  by_cases h : offset < 0
  · simp only [h, if_true]; omega
  · simp only [h, if_false]; omega

/-- `slice(offset, length)` is the window of `length` rows (to the end when `None`) starting at
`sliceStart`. -/
theorem slice_eq (rows : List α) (offset : Int) (length : Option Nat) :
    slice rows offset length =
      match length with
      | none => rows.drop (sliceStart rows.length offset)
      | some l => (rows.drop (sliceStart rows.length offset)).take l := by
  have h0 := sliceOffset_nonneg rows.length offset
  obtain ⟨a, ha⟩ : ∃ a : Nat, sliceOffset rows.length offset = (a : Int) := ⟨_, (Int.toNat_of_nonneg h0).symm⟩
  have hstart : sliceStart rows.length offset = min a rows.length := by
    unfold sliceStart; rw [ha, pyBound_nonneg]
  have hdrop : rows.drop (min a rows.length) = rows.drop a := by
    by_cases h : a ≤ rows.length
    · rw [Nat.min_eq_left h]
    · have h' : rows.length ≤ a := by omega
      rw [Nat.min_eq_right h', List.drop_eq_nil_iff.mpr (Nat.le_refl _), List.drop_eq_nil_iff.mpr h']
  cases length with
  | none => simp only [slice, ha, pySliceFrom_nonneg, hstart, hdrop]
  | some l =>
    simp only [slice, ha, hstart, hdrop, Gen.Frame.sliceZeroTest, Gen.Frame.sliceStop]
    by_cases hl : (l : Int) = 0
    · have : l = 0 := by omega
      subst this; simp
    · simp only [hl, if_false]
      exact pySlice_nonneg rows a l

/-- `head(k)` is the first `min k n` rows. -/
theorem head_eq_take (rows : List α) (k : Nat) : head rows k = rows.take k := by
  unfold head
  rw [slice_eq]
  have : sliceStart rows.length (Gen.Frame.headOffset k) = 0 := by
    simp [sliceStart, sliceOffset, Gen.Frame.headOffset, Gen.Frame.sliceNegTest, pyBound]
  simp [this, Gen.Frame.headLength]

/-- `tail(k)` is the last `min k n` rows — for every `k`, also `n < k` (the clamp). -/
theorem tail_spec (rows : List α) (k : Nat) :
    tail rows k = rows.drop (rows.length - min k rows.length)
    ∧ (tail rows k).length = min k rows.length := by
  by_cases hk : k = 0
  · subst hk
    unfold tail
    rw [slice_eq]
    simp [Gen.Frame.tailLength]
  have hstart : sliceStart rows.length (Gen.Frame.tailOffset k) = rows.length - k := by
    unfold sliceStart sliceOffset Gen.Frame.tailOffset Gen.Frame.sliceNegTest Gen.Frame.sliceNegStart pyBound
    · have h1 : ((0 : Int) - (k : Int)) < 0 := by omega
      simp only [h1, if_true]
      have h2 : ¬ (max ((rows.length : Int) + (0 - (k : Int))) 0 < 0) := by omega
      simp only [h2, if_false]
      omega
  have h1 : tail rows k = (rows.drop (rows.length - k)).take k := by
    unfold tail
    rw [slice_eq, hstart]
    simp [Gen.Frame.tailLength]
  have h2 : (rows.drop (rows.length - k)).take k = rows.drop (rows.length - k) := by
    apply List.take_of_length_le
    simp only [List.length_drop]; omega
  have h3 : rows.length - min k rows.length = rows.length - k := by omega
  refine ⟨by rw [h1, h2, h3], ?_⟩
  rw [h1, h2, List.length_drop]; omega

/-- `slice` always returns a contiguous window of the listing. -/
theorem slice_window (rows : List α) (offset : Int) (length : Option Nat) :
    ∃ i, slice rows offset length = (rows.drop i).take (slice rows offset length).length := by
  refine ⟨sliceStart rows.length offset, ?_⟩
  rw [slice_eq]
  cases length with
  | none =>
    simp only
    rw [List.take_of_length_le (Nat.le_refl _)]
  | some l =>
    simp only
    rw [List.length_take]
    exact List.take_eq_take_min

/-- For a non-negative offset the window starts at `offset` (clamped to the row count); for
`-n ≤ offset < 0` at `n + offset`; further to the left it is clamped to the first row. -/
theorem slice_start (n : Nat) (offset : Int) :
    (0 ≤ offset → sliceStart n offset = min offset.toNat n)
    ∧ (offset < 0 → -(n : Int) ≤ offset → (sliceStart n offset : Int) = n + offset)
    ∧ (offset < -(n : Int) → sliceStart n offset = 0) := by
  unfold sliceStart sliceOffset Gen.Frame.sliceNegTest Gen.Frame.sliceNegStart pyBound
  refine ⟨?_, ?_, ?_⟩
  · intro h; have h1 : ¬ offset < 0 := by omega
    simp [h1]
  · intro h1 h2
    simp only [h1, if_true]
    have h3 : ¬ (max ((n : Int) + offset) 0 < 0) := by omega
    simp only [h3, if_false]
    omega
  · intro h; have h1 : offset < 0 := by omega
    simp only [h1, if_true]
    have h3 : ¬ (max ((n : Int) + offset) 0 < 0) := by omega
    simp only [h3, if_false]
    omega

/-- Positional specification shared by `filter`, `take` and `query`: the rows kept are exactly
those at the selected positions, in their original order. -/
theorem pick_spec (sel : Nat → Bool) (rows : List α) :
    pick sel rows = rows.zipIdx.filterMap (fun p => if sel p.2 then some p.1 else none)
    ∧ (pick sel rows).Sublist rows :=
  ⟨pickFrom_zipIdx 0 sel rows, pickFrom_sublist 0 sel rows⟩

/-- `filter(mask)` keeps row `i` iff `mask[i]` is true. -/
theorem filter_spec (rows : List α) (mask : List Bool) :
    filter rows mask = pick (fun i => (mask[i]?).getD false) rows := by
  simpa [pick] using filter_pickFrom rows mask []

/-- `take(indexes)` keeps row `i` iff `i ∈ indexes`. -/
theorem take_spec (rows : List α) (idxs : List Int) :
    take rows idxs = pick (fun i => decide ((i : Int) ∈ idxs)) rows := take_eq rows idxs

/-- **`take` depends on the index collection only through membership**: two collections with the same members -
listed in another order (a range counting down), with repeats, of another length - select the same rows in the
same (original) order. -/
theorem take_depends_only_on_membership (rows : List α) (m m' : List Int)
    (h : ∀ i : Nat, (i : Int) ∈ m ↔ (i : Int) ∈ m') : take rows m = take rows m' := by
  rw [take_spec, take_spec]
  congr 1
  funext i
  exact decide_eq_decide.mpr (h i)

/-- **`take` of any kind of container** (list, tuple, set, range, array, dict view, bytes …: `kind` is the class of the
object, `members` what it lists): the rows kept are those at the positions that are members, in their original order -
whatever the class, whatever order the object lists its members in (`members'`: any listing with the same members,
e.g. the ascending one of a range that counts down).  `takeAny` follows `Gen.Frame.ownPathKinds "take"`: a fast path
for one class of object (`if isinstance(indexes, range) …: return self._rows[a:b:s]`) puts that class in the generated
table and this theorem no longer checks. -/
theorem take_any_container (kind : String) (rows : List α) (members members' : List Int)
    (h : ∀ i : Nat, (i : Int) ∈ members ↔ (i : Int) ∈ members') :
    takeAny kind rows members = some (pick (fun i => decide ((i : Int) ∈ members')) rows) := by
  unfold takeAny Gen.Frame.ownPathKinds
  simp only [List.any_nil, Bool.false_eq_true, if_false]
  rw [take_depends_only_on_membership rows members members' h, take_spec]

/-- The order a container lists its members in, and repeats, are not seen: `take` of the reversed / doubled listing. -/
theorem take_listing_order_irrelevant (rows : List α) (m : List Int) :
    take rows m.reverse = take rows m ∧ take rows (m ++ m) = take rows m :=
  ⟨take_depends_only_on_membership _ _ _ (fun i => List.mem_reverse),
   take_depends_only_on_membership _ _ _ (fun i => by simp)⟩

/-- What `take_any_container` excludes: cutting the rows out with the extended slice of a range that counts down
(`rows[4:0:-1]`) lists the selected rows backwards - the same positions `{1,2,3,4}`, another frame. -/
theorem descending_slice_is_not_take :
    take ["a", "b", "c", "d", "e"] [4, 3, 2, 1] = ["b", "c", "d", "e"]
    ∧ take ["a", "b", "c", "d", "e"] [4, 3, 2, 1] ≠ ["e", "d", "c", "b"] := by
  refine ⟨by decide, by decide⟩

/-- `query(p)` keeps row `i` iff `p rows[i]`. -/
theorem query_spec (rows : List α) (p : α → Bool) :
    query rows p = pick (fun i => ((rows[i]?).map p).getD false) rows := by
  simpa [pick, query] using query_pickFrom rows [] p

/-- `select`: the header is the requested names (those that exist) in the requested order, and
cell `j` of every result row is the source row's cell at the first position of `header[j]`. -/
theorem select_spec (names : List String) (rows : List (List α)) (attrs : List String)
    (hw : ∀ r ∈ rows, r.length = names.length) :
    (select names rows attrs).1 = attrs.filter (fun a => decide (a ∈ names))
    ∧ (select names rows attrs).2.length = rows.length
    ∧ ∀ (k : Nat) (r : List α), rows[k]? = some r →
        ∃ r', (select names rows attrs).2[k]? = some r'
          ∧ r'.length = (select names rows attrs).1.length
          ∧ ∀ (j : Nat) (a : String), (select names rows attrs).1[j]? = some a →
              ∃ i, indexOf names a = some i ∧ names[i]? = some a ∧ r'[j]? = r[i]? := by
  refine ⟨selectHeader_eq names attrs, by simp [select], ?_⟩
  intro k r hk
  have hr : r ∈ rows := List.mem_of_getElem? hk
  have hlen := hw r hr
  refine ⟨project (selectIdx names attrs) r, by simp [select, hk], ?_, ?_⟩
  all_goals
    have key : project (selectIdx names attrs) r
        = (selectHeader names attrs).filterMap (fun a => (indexOf names a).bind (r[·]?)) := by
      rw [project_eq, selectIdx_eq, List.filterMap_filterMap]
  · rw [key]
    simp only [select]
    have : ∀ a ∈ selectHeader names attrs, ∃ v, (indexOf names a).bind (r[·]?) = some v := by
      intro a ha
      have hmem : a ∈ names := by
        rw [selectHeader_eq] at ha; simp only [List.mem_filter, decide_eq_true_eq] at ha; exact ha.2
      obtain ⟨i, h1, _, _⟩ := indexOf_some_of_mem names a hmem
      have hi := indexOf_lt names a i h1
      refine ⟨r[i]'(by omega), ?_⟩
      simp [h1, List.getElem?_eq_getElem (show i < r.length by omega)]
    generalize selectHeader names attrs = hdr at this
    induction hdr with
    | nil => rfl
    | cons a as ih =>
      obtain ⟨v, hv⟩ := this a (by simp)
      simp only [List.filterMap_cons, hv, List.length_cons]
      rw [ih (fun b hb => this b (by simp [hb]))]
  · intro j a hj
    have ha : a ∈ selectHeader names attrs := List.mem_of_getElem? hj
    have hmem : a ∈ names := by
      rw [selectHeader_eq] at ha; simp only [List.mem_filter, decide_eq_true_eq] at ha; exact ha.2
    obtain ⟨i, h1, h2, _⟩ := indexOf_some_of_mem names a hmem
    refine ⟨i, h1, h2, ?_⟩
    rw [key]
    simp only [select] at hj
    have hall : ∀ b ∈ selectHeader names attrs, ∃ v, (indexOf names b).bind (r[·]?) = some v := by
      intro b hb
      have hbm : b ∈ names := by
        rw [selectHeader_eq] at hb; simp only [List.mem_filter, decide_eq_true_eq] at hb; exact hb.2
      obtain ⟨i', h1', _, _⟩ := indexOf_some_of_mem names b hbm
      have hi' := indexOf_lt names b i' h1'
      exact ⟨r[i']'(by omega), by simp [h1', List.getElem?_eq_getElem (show i' < r.length by omega)]⟩
    generalize selectHeader names attrs = hdr at hj hall
    induction hdr generalizing j with
    | nil => simp at hj
    | cons b bs ih =>
      obtain ⟨v, hv⟩ := hall b (by simp)
      simp only [List.filterMap_cons, hv]
      cases j with
      | zero =>
        simp only [List.getElem?_cons_zero, Option.some.injEq] at hj
        subst hj
        simp only [List.getElem?_cons_zero]
        rw [← hv, h1]; rfl
      | succ j =>
        simp only [List.getElem?_cons_succ] at hj ⊢
        exact ih j hj (fun c hc => hall c (by simp [hc]))

/-- `distinct` is duplicate-free, a sub-listing of the source with the same members, and keeps
the *first* of each set of equal rows: `distinct (x :: xs) = x :: (distinct xs without x)`. -/
theorem distinct_spec [DecidableEq α] (rows : List α) :
    (distinct rows).Nodup
    ∧ (distinct rows).Sublist rows
    ∧ (∀ x, x ∈ distinct rows ↔ x ∈ rows)
    ∧ (∀ (x : α) (xs : List α), distinct (x :: xs) = x :: (distinct xs).filter (fun y => decide (y ≠ x))) := by
  refine ⟨distinctAux_nodup [] rows, distinctAux_sublist [] rows, ?_, ?_⟩
  · intro x; simp [distinct, distinctAux_mem]
  · intro x xs
    simp [distinct, distinctAux, distinctAux_filter]

/-- Batching partitions the rows, in order, into consecutive chunks of `size`: batch `i` is rows
`i·size … (i+1)·size − 1`; so all batches are full except a non-empty remainder, and
concatenated they are the listing. -/
theorem batches_spec (rows : List α) (size : Nat) (hs : 0 < size) :
    (batches rows size).flatten = rows
    ∧ ∀ i, (batches rows size)[i]? =
        if i * size < rows.length then some ((rows.drop (i * size)).take size) else none :=
  ⟨by rw [batches_eq_chunks rows size hs]; exact batchesAux_flatten size hs _ rows (Nat.le_refl _),
   fun i => batches_get rows size hs i⟩

/-- Every batch but the last is full and no batch is empty. -/
theorem batches_sizes (rows : List α) (size : Nat) (hs : 0 < size) (i : Nat) (b : List α)
    (h : (batches rows size)[i]? = some b) :
    0 < b.length ∧ b.length ≤ size ∧ ((i + 1) * size ≤ rows.length → b.length = size) := by
  rw [(batches_spec rows size hs).2 i] at h
  by_cases hlt : i * size < rows.length
  · simp only [hlt, if_true, Option.some.injEq] at h
    subst h
    simp only [List.length_take, List.length_drop]
    have e : (i + 1) * size = i * size + size := Nat.succ_mul i size
    omega
  · simp [hlt] at h

/-- `collect` / indexing is the column-major transpose truncated to the limit:
`result[i][j] = rows[j][columns[i]]` for the first `limit` rows (all rows for `None` or a negative
limit or one beyond the row count). -/
theorem collect_spec [Inhabited α] (rows : List (List α)) (cols : List Nat) (limit : Option Int) (w : Nat)
    (hw : ∀ r ∈ rows, r.length = w) (hc : ∀ c ∈ cols, c < w) :
    collect rows cols limit =
      some (cols.map fun c => (rows.take (limitRows rows.length limit)).map fun r => r[c]!) := by
  unfold collect
  apply mapM_some
  intro c hcm
  apply mapM_some
  intro r hr
  have hrm : r ∈ rows := List.mem_of_mem_take hr
  have : c < r.length := by rw [hw r hrm]; exact hc c hcm
  simp [List.getElem?_eq_getElem this, getElem!_pos r c this]

/-- The limit: `None`, a negative limit or one beyond the row count mean all rows. -/
theorem limitRows_spec (n : Nat) :
    limitRows n none = n
    ∧ (∀ l : Int, l < 0 → limitRows n (some l) = n)
    ∧ (∀ l : Int, 0 ≤ l → limitRows n (some l) = min l.toNat n) := by
  refine ⟨by rw [limitRows_eq], ?_, ?_⟩
  · intro l h; rw [limitRows_eq]; simp [h]
  · intro l h; have : ¬ l < 0 := by omega
    rw [limitRows_eq]; simp [this]

/-- Every row-selecting operator returns rows of the source (so rectangularity and cell values
are preserved by any composition of them). -/
theorem rows_preserved [DecidableEq α] (rows : List α) :
    (∀ o l, ∀ r ∈ slice rows o l, r ∈ rows)
    ∧ (∀ m, ∀ r ∈ filter rows m, r ∈ rows)
    ∧ (∀ ix, ∀ r ∈ take rows ix, r ∈ rows)
    ∧ (∀ p, ∀ r ∈ query rows p, r ∈ rows)
    ∧ (∀ r ∈ distinct rows, r ∈ rows) := by
  refine ⟨?_, ?_, ?_, ?_, ?_⟩
  · intro o l r hr
    rw [slice_eq] at hr
    cases l with
    | none => exact List.mem_of_mem_drop hr
    | some l => exact List.mem_of_mem_drop (List.mem_of_mem_take hr)
  · intro m r hr
    rw [filter_spec] at hr
    exact (pickFrom_sublist 0 _ rows).subset hr
  · intro ix r hr
    exact (pickFrom_sublist 0 _ rows).subset hr
  · intro p r hr
    exact (List.mem_filter.mp hr).1
  · intro r hr
    exact (distinctAux_sublist [] rows).subset hr


/-! ## Round 2 — the generated code equals the model

`Gen.FrameFns.*` are the bodies of `DataFrame.slice/head/tail/to_batches` translated statement by
statement from the working tree (harness/pystmt.py); `Gen.Frame.select*`, `schemaIter`, `takeTest`,
`collect*` are the comprehensions / tests lifted by harness/extractors/c03.py.  A change of the
source that changes their meaning breaks the theorem named here. -/

theorem generated_slice_eq_model (rows : List α) (offset : Int) (length : Option Nat) :
    Gen.FrameFns.slice rows offset (length.map Int.ofNat) = slice rows offset length := by
  unfold Gen.FrameFns.slice slice sliceOffset Gen.Frame.sliceNegTest Gen.Frame.sliceNegStart
    Gen.Frame.sliceZeroTest Gen.Frame.sliceStop
  cases length with
  | none => by_cases h : offset < 0 <;> simp [h]
  | some l => by_cases h : offset < 0 <;> simp [h]

theorem generated_head_eq_model (rows : List α) (k : Nat) :
    Gen.FrameFns.head rows (k : Int) = head rows k := by
  have := generated_slice_eq_model rows 0 (some k)
  simp only [Option.map_some, Int.ofNat_eq_natCast] at this
  unfold Gen.FrameFns.head head Gen.Frame.headOffset Gen.Frame.headLength
  rw [this]; simp

theorem generated_tail_eq_model (rows : List α) (k : Nat) :
    Gen.FrameFns.tail rows (k : Int) = tail rows k := by
  have := generated_slice_eq_model rows (0 - (k : Int)) (some k)
  simp only [Option.map_some, Int.ofNat_eq_natCast] at this
  unfold Gen.FrameFns.tail tail Gen.Frame.tailOffset Gen.Frame.tailLength
  rw [this]; simp

theorem generated_to_batches_eq_model (rows : List α) (size : Nat) :
    Gen.FrameFns.to_batches rows (size : Int) = batches rows size := rfl

/-- The comprehensions of `DataFrame.select` as the source has them now are: the requested names that
exist, their first positions, and the cells at these positions. -/
theorem generated_select_eq_model (names attrs hdr : List String) (idxs : List Nat) (row : List α) :
    Gen.Frame.selectHeader names attrs = attrs.filter (fun a => decide (a ∈ names))
    ∧ Gen.Frame.selectIndices names hdr = hdr.filterMap (indexOf names)
    ∧ Gen.Frame.selectProject idxs row = idxs.filterMap (row[·]?) := by
  refine ⟨rfl, ?_, rfl⟩
  unfold Gen.Frame.selectIndices
  congr 1
  funext a
  exact pyIndex_eq names a

/-- `list(self._schema)` is the list of column names for every way the schema can be given: a list,
a tuple, a `RelationSchema` (the generated `RelationSchema.__iter__`) — aliases never enter. -/
theorem schema_iter_names (sch : Schema) : sch.iter = sch.names := by
  unfold Schema.iter Schema.names Gen.Frame.schemaIter
  cases sch.kind <;> simp [List.map_map, Function.comp_def]

/-- `select` on a frame with any kind of schema: the header is the requested column *names* that
exist, in the requested order, the result carries a plain list schema, and (by `select_spec`) every
cell is the source cell at the first position of its name. -/
theorem select_any_schema [DecidableEq α] (sch : Schema) (rows : List (List α)) (attrs : List String) :
    apply1 (.select attrs) sch rows
      = .frame (Schema.ofNames (attrs.filter (fun a => decide (a ∈ sch.names))))
          (select sch.names rows attrs).2 := by
  simp only [apply1, selectOp, schema_iter_names, select, selectHeader_eq]

/-- `+` concatenates the listings of two frames that carry the same schema. -/
theorem add_spec (sch : Schema) (ra rb : List (List α)) :
    addOp sch ra sch rb = .frame sch (ra ++ rb) := by
  simp [addOp]

/-- `row(i)` is Python list indexing: `rows[i]` for `0 ≤ i < n`, `rows[n+i]` for `-n ≤ i < 0`,
`IndexError` otherwise. -/
theorem row_spec (rows : List (List α)) (i : Int) :
    (∀ (k : Nat) (r : List α), i = k → rows[k]? = some r → rowOp rows i = .val (.row r))
    ∧ (∀ (k : Nat) (r : List α), i = -(k : Int) → 0 < k → k ≤ rows.length → rows[rows.length - k]? = some r →
        rowOp rows i = .val (.row r))
    ∧ (i ≥ rows.length ∨ i < -(rows.length : Int) → rowOp rows i = .err "IndexError") := by
  refine ⟨?_, ?_, ?_⟩
  · intro k r hk hr
    subst hk
    have hlt : k < rows.length := by
      rcases Nat.lt_or_ge k rows.length with h | h
      · exact h
      · rw [List.getElem?_eq_none_iff.mpr h] at hr; cases hr
    have h1 : ¬ ((k : Int) < 0) := by omega
    have h2 : ¬ (False ∨ (k : Int) ≥ rows.length) := by
      intro h; rcases h with h | h
      · exact h
      · omega
    simp only [rowOp, h1, if_false, h2, Int.toNat_natCast, hr]
  · intro k r hk hpos hle hr
    subst hk
    have h1 : (-(k : Int) < 0) := by omega
    have h2 : ¬ ((rows.length : Int) + -(k : Int) < 0 ∨ (rows.length : Int) + -(k : Int) ≥ rows.length) := by omega
    have e : ((rows.length : Int) + -(k : Int)).toNat = rows.length - k := by omega
    simp only [rowOp, h1, if_true, h2, if_false, e, hr]
  · intro h
    unfold rowOp
    by_cases h0 : i < 0
    · have : (rows.length : Int) + i < 0 ∨ (rows.length : Int) + i ≥ rows.length := by omega
      simp only [h0, if_true, this]
    · have : False ∨ i ≥ rows.length := Or.inr (by omega)
      simp only [h0, if_false, this, if_true]

/-- **Every collect limit.**  Whatever limit is given — `None`, negative, `0`, at, one past or far beyond
the row count (`2**31`, `2**63`, …) — the value `DataFrame.collect` hands to `collect_cython` lies in
the range of the C type its `limit` parameter is declared with (compiled.pyx signature; the generated
`collectLimitMin/Max`), for every frame whose row count that type can express: the Python-level clamp
(`if limit >= len(self._rows): limit = -1`, the generated `collectClampTest`) replaces everything at or
beyond the row count by `-1`.  So the conversion never raises `OverflowError`. -/
theorem collect_limit_fits (n : Nat) (limit : Option Int) (hn : (n : Int) ≤ Gen.Frame.collectLimitMax + 1) :
    limitFits (passedLimit n limit) = true := by
  have hmin : Gen.Frame.collectLimitMin ≤ -1 := by decide
  have hmax : (-1 : Int) ≤ Gen.Frame.collectLimitMax := by decide
  unfold limitFits
  rw [passedLimit_eq]
  simp only [decide_eq_true_eq]
  generalize Gen.Frame.collectLimitMin = lo at *
  generalize Gen.Frame.collectLimitMax = hi at *
  cases limit with
  | none => exact ⟨hmin, hmax⟩
  | some l =>
    simp only
    by_cases h : l < 0 ∨ l ≥ n
    · simp only [h, if_true]; exact ⟨hmin, hmax⟩
    · simp only [h, if_false]
      omega

/-! ## Pass 6 — the caller's argument objects

A program may hold a selection in a variable and pass the same object to two operations
(`cols = ["d", "b"]; a.collect(cols); b[cols]`).  In the list model an argument is a value; on the objects it
stays one only if no operation writes into the object it was given.  `Gen.Frame.writesCallerArgument` is
regenerated from the argument-handling statements of `collect`, `select`, `filter` and `take` on every run. -/

/-- **No operator writes into the sequence object it is given** — column list of `collect` / `[]`, attribute list of
`select`, mask of `filter`, index collection of `take`, whether the caller passed a bare value, a list, a set or a
tuple (a change that stops copying one of them turns an entry of the generated table to `true`). -/
theorem no_operator_writes_its_argument (op : String) (kind : Nat) :
    Gen.Frame.writesCallerArgument op kind = false := by
  unfold Gen.Frame.writesCallerArgument
  split <;> rfl

/-- **`collect` leaves the caller's list as it was**: after `df.collect(cols)` / `df[cols]` the object `cols` holds
what the caller put in it — for every kind of argument, every frame layout, every list of names and positions
(names the frame does not have included: the `ValueError` leaves the list untouched too). -/
theorem collect_leaves_argument (kind : Nat) (names : List String) (arg : List ColRef) :
    collectArgAfter kind names arg = arg := by
  unfold collectArgAfter
  rw [no_operator_writes_its_argument]
  rfl

/-- **The second use of the same list object** — on a frame with any other layout (`sch'`, `rows'`) — answers what
the list model says for the list the caller wrote: `collectOp` of the object as the first call left it is
`collectOp` of the original selection (whose value is `collectOp_spec`). -/
theorem collect_second_use_of_same_argument [Inhabited α] (kind : Nat) (sch sch' : Schema) (rows' : List (List α))
    (cols : List ColRef) (limit' : Option Int) :
    collectOp sch' rows' (collectArgAfter kind sch.names cols) limit' = collectOp sch' rows' cols limit' := by
  rw [collect_leaves_argument]

/-- What the theorems above exclude: were the positions written into the caller's list (`resolveInPlace`), the
second use on a frame laid out differently would read other columns — on `(a, b)` then `(b, a)`, `["a"]` becomes
`[0]`, which is `b` there. -/
theorem resolveInPlace_changes_second_use :
    resolveInPlace ["a", "b"] [.name "a"] = [.idx 0]
    ∧ resolveCols ["b", "a"] (resolveInPlace ["a", "b"] [.name "a"]) = .ok [0]
    ∧ resolveCols ["b", "a"] [.name "a"] = .ok [1] := by
  refine ⟨by rfl, by rfl, by rfl⟩

/-- `collect` / indexing on a frame, with the glue of `DataFrame.collect` and `collect_cython` around
the transpose: names are resolved to their first position (`ValueError` for a name that is not a
column); an empty frame or an empty column list gives one empty list per column; a position outside
the row width is an `IndexError`; otherwise the result is the column-major transpose of the first
`limitRows` rows. -/
theorem collectOp_spec [Inhabited α] (sch : Schema) (rows : List (List α)) (cols : List ColRef) (limit : Option Int)
    (hn : (rows.length : Int) ≤ Gen.Frame.collectLimitMax + 1) :
    (∀ cs, resolveCols sch.names cols = .ok cs → (rows = [] ∨ cs = []) →
        collectOp sch rows cols limit = .val (.table (cs.map fun _ => [])))
    ∧ (∀ cs, resolveCols sch.names cols = .ok cs → rows ≠ [] → cs ≠ [] →
        (∀ r ∈ rows, r.length = sch.cols.length) → (∀ c ∈ cs, 0 ≤ c ∧ c < (sch.cols.length : Int)) →
        collectOp sch rows cols limit
          = .val (.table (cs.map fun c => (rows.take (limitRows rows.length limit)).map fun r => r[c.toNat]!)))
    ∧ (∀ c, resolveCols sch.names cols = .error c → collectOp sch rows cols limit = .err c) := by
  refine ⟨?_, ?_, ?_⟩
  · intro cs hres hemp
    unfold collectOp
    rw [hres]
    have : rows.isEmpty = true ∨ cs.isEmpty = true := by
      rcases hemp with h | h
      · left; simp [h]
      · right; simp [h]
    simp only [this, if_true, collect_limit_fits _ limit hn, Bool.not_true, Bool.false_eq_true, if_false]
  · intro cs hres hr hc hrect hin
    unfold collectOp
    rw [hres]
    simp only [collect_limit_fits _ limit hn, Bool.not_true, Bool.false_eq_true, if_false]
    have h1 : ¬ (rows.isEmpty = true ∨ cs.isEmpty = true) := by
      intro h; rcases h with h | h
      · exact hr (List.isEmpty_iff.mp h)
      · exact hc (List.isEmpty_iff.mp h)
    simp only [h1, if_false]
    obtain ⟨r0, rs, e⟩ := List.exists_cons_of_ne_nil hr
    have hw0 : ((rows.head?.map List.length).getD 0) = sch.cols.length := by
      subst e; simp [hrect r0 (by simp)]
    have h2 : (cs.any fun c => decide (c < 0 ∨ c ≥ (((rows.head?.map List.length).getD 0 : Nat) : Int))) = false := by
      rw [hw0]
      apply List.any_eq_false.mpr
      intro c hcm
      have := hin c hcm
      simp only [decide_eq_true_eq]; omega
    simp only [h2, Bool.false_eq_true, if_false]
    have hcs := collect_spec rows (cs.map Int.toNat) limit sch.cols.length hrect (by
      intro c hcm
      obtain ⟨c', hc', rfl⟩ := List.mem_map.mp hcm
      have := hin c' hc'; omega)
    rw [hcs]
    simp [List.map_map, Function.comp_def]
  · intro c hres
    unfold collectOp
    rw [hres]

/-! ## Round 2 — programs: the lazy-state machine refines the list specification -/

/-- **The laziness table of the source**: every method that needs a list — `slice` (so `head`,
`tail`), `row`, `__len__`, `rowcount`, `collect`, `to_batches`, `__add__` (both operands) — and
`__iter__` call `self.materialize()` before they touch `self._rows` (the table is regenerated from
the source on every run).  This is the only fact about the table the refinement needs. -/
theorem methods_materialise_first : MatTable := by
  unfold MatTable; decide

section programs
variable [DecidableEq α]

theorem step_refines (st : List (IReg α)) (sp : List (SReg α)) (op : Op α) (hs : Sim st sp) (hw : wfOp st op) :
    ∃ st' sp', implStep st op = some st' ∧ specStep sp op = some sp' ∧ Sim st' sp' := by
  have rel_deferOf : ∀ (src : Nat) (x : SReg α), Rel (deferOf src x) x := by
    intro src x; cases x <;> simp only [deferOf] <;> constructor
  cases op with
  | un u s =>
    obtain ⟨sch, rows, hf⟩ := hw
    have h' := hs.frameOf_of hf
    have hit : Gen.Frame.materialisesFirst u.method ≠ true → u.iterates = true := by
      intro hm
      cases hit : u.iterates with
      | false => exact absurd (method_materialises methods_materialise_first u hit) hm
      | true => rfl
    rcases frameOf_cases hf with ⟨l, h⟩ | ⟨src, h⟩
    · simp only [implStep, specStep, h, h']
      cases l with
      | false => exact ⟨_, _, rfl, rfl, hs.push (rel_ofSpec _ _)⟩
      | true =>
        by_cases hm : Gen.Frame.materialisesFirst u.method = true
        · simp only [hm, if_true, Bool.not_true, Bool.false_eq_true, if_false]
          exact ⟨_, _, rfl, rfl, (hs.materialise s).push (rel_ofSpec _ _)⟩
        · by_cases hr : u.readsLate = true
          · simp only [hm, hr, if_true, Bool.not_true, Bool.false_eq_true, if_false]
            exact ⟨_, _, rfl, rfl, hs.push (rel_deferOf _ _)⟩
          · simp only [hm, hr, hit hm, if_true, Bool.not_true, Bool.false_eq_true, if_false]
            exact ⟨_, _, rfl, rfl, (hs.handOver s).push (rel_ofSpec _ _)⟩
    · simp only [implStep, specStep, h, h']
      by_cases hm : Gen.Frame.materialisesFirst u.method = true
      · simp only [hm, if_true]
        exact ⟨_, _, rfl, rfl, (hs.materialise s).push (rel_ofSpec _ _)⟩
      · by_cases hr : u.readsLate = true
        · simp only [hm, hr, if_true, Bool.false_eq_true, if_false]
          exact ⟨_, _, rfl, rfl, hs.push (rel_deferOf _ _)⟩
        · by_cases hl : u.lazyResult = true
          · simp only [hm, hr, hl, if_true, Bool.false_eq_true, if_false]
            exact ⟨_, _, rfl, rfl, (hs.handOver s).push (rel_deferOf _ _)⟩
          · simp only [hm, hr, hl, hit hm, if_true, Bool.false_eq_true, if_false]
            exact ⟨_, _, rfl, rfl, (hs.drain s).push (rel_ofSpec _ _)⟩
  | add s t =>
    obtain ⟨⟨sa, ra, ha⟩, ⟨sb, rb, hb1⟩⟩ := hw
    have ha' := hs.frameOf_of ha
    -- `t` is still live after `s` was materialised, so it was live before and stands for the same frame
    have hs1 := hs.materialise s
    have hb1' := hs1.frameOf_of hb1
    have hb : frameOf st t = some (sb, rb) := by
      have hlt : t < st.length := by
        rcases frameOf_cases hb1 with ⟨l, h1⟩ | ⟨src, h1⟩ <;> (have := lt_of_get h1; simpa using this)
      have hx : st[t]? = some st[t] := List.getElem?_eq_getElem hlt
      obtain ⟨b, hbb, hrel⟩ := hs.get hx
      rw [hb1'] at hbb; cases hbb
      unfold frameOf; rw [hx]
      generalize st[t] = a at hrel hx
      cases hrel with
      | frame sch l rows => rfl
      | defer src sch rows => rfl
      | spent sch rows =>
        -- a spent register stays spent
        exfalso
        have := materialise_other st s t _ hx rfl
        unfold frameOf at hb1; rw [this] at hb1; cases hb1
    simp only [implStep, specStep, ha, hb, ha', hb1', addOp]
    by_cases he : sa = sb
    · subst he
      have m1 : Gen.Frame.materialisesFirst "__add__" = true := methods_materialise_first.2.2.2.2.2.2.2.1
      have m2 : Gen.Frame.materialisesFirst "__add__.other" = true := methods_materialise_first.2.2.2.2.2.2.2.2
      simp only [ne_eq, not_true_eq_false, if_false, m1, m2, if_true]
      have g1 : (materialise st s)[s]? = some (.frame sa false ra) := materialise_self st s sa ra ha
      have g4 : (materialise (materialise st s) t)[t]? = some (.frame sa false rb) := materialise_self _ t sa rb hb1
      have g2 : (materialise (materialise st s) t)[s]? = some (.frame sa false ra) := materialise_other _ t s _ g1 rfl
      have z1 : isLazy (materialise (materialise st s) t) s = false := isLazy_false_of _ _ _ _ g2
      have z2 : isLazy (materialise (materialise st s) t) t = false := isLazy_false_of _ _ _ _ g4
      simp only [z1, z2, Bool.or_self, Bool.false_eq_true, if_false,
        rowsNow_eager _ _ _ _ _ g2, rowsNow_eager _ _ _ _ _ g4]
      exact ⟨_, _, rfl, rfl, ((hs.materialise s).materialise t).push (Rel.frame _ _ _)⟩
    · simp only [ne_eq, he, not_false_eq_true, if_true, if_false]
      exact ⟨_, _, rfl, rfl, hs.push (Rel.err _)⟩
  | append s r =>
    obtain ⟨⟨sch, rows, h, hk⟩, _⟩ := hw
    have h' := hs.frame_of h
    simp only [implStep, specStep, h, h', hk, if_false, Bool.false_eq_true]
    exact ⟨_, _, rfl, rfl, (hs.set2 s (Rel.frame _ _ _)).push (Rel.val _)⟩
  | iter s =>
    obtain ⟨sch, rows, hf⟩ := hw
    have h' := hs.frameOf_of hf
    have m1 : Gen.Frame.materialisesFirst "__iter__" = true := methods_materialise_first.2.2.2.2.2.2.1
    rcases frameOf_cases hf with ⟨l, h⟩ | ⟨src, h⟩
    · simp only [implStep, specStep, h, h', m1, if_true]
      exact ⟨_, _, rfl, rfl, (hs.materialise s).push (Rel.iter _ _)⟩
    · simp only [implStep, specStep, h, h', m1, if_true]
      exact ⟨_, _, rfl, rfl, (hs.materialise s).push (Rel.iter _ _)⟩
  | next it k =>
    obtain ⟨rows, pos, h⟩ := hw
    have h' := hs.iter_of h
    simp only [implStep, specStep, h, h']
    exact ⟨_, _, rfl, rfl, (hs.set2 it (Rel.iter _ _)).push (Rel.val _)⟩
  | zip s t =>
    obtain ⟨⟨sa, ra, ha⟩, ⟨sb, rb, hb1⟩⟩ := hw
    have ha' := hs.frameOf_of ha
    have hs1 := hs.materialise s
    have hb1' := hs1.frameOf_of hb1
    have hb : frameOf st t = some (sb, rb) := by
      have hlt : t < st.length := by
        rcases frameOf_cases hb1 with ⟨l, h1⟩ | ⟨src, h1⟩ <;> (have := lt_of_get h1; simpa using this)
      have hx : st[t]? = some st[t] := List.getElem?_eq_getElem hlt
      obtain ⟨b, hbb, hrel⟩ := hs.get hx
      rw [hb1'] at hbb; cases hbb
      unfold frameOf; rw [hx]
      generalize st[t] = a at hrel hx
      cases hrel with
      | frame sch l rows => rfl
      | defer src sch rows => rfl
      | spent sch rows =>
        exfalso
        have := materialise_other st s t _ hx rfl
        unfold frameOf at hb1; rw [this] at hb1; cases hb1
    have m1 : Gen.Frame.materialisesFirst "__iter__" = true := methods_materialise_first.2.2.2.2.2.2.1
    simp only [implStep, specStep, ha, hb, ha', hb1', m1, if_true]
    have g1 : (materialise st s)[s]? = some (.frame sa false ra) := materialise_self st s sa ra ha
    have g4 : (materialise (materialise st s) t)[t]? = some (.frame sb false rb) := materialise_self _ t sb rb hb1
    have g2 : (materialise (materialise st s) t)[s]? = some (.frame sa false ra) := materialise_other _ t s _ g1 rfl
    simp only [rowsNow_eager _ _ _ _ _ g2, rowsNow_eager _ _ _ _ _ g4]
    exact ⟨_, _, rfl, rfl, ((hs.materialise s).materialise t).push (Rel.val _)⟩

/-- **Siblings of a lazily backed frame (1).**  `select` does not touch the rows of its source: the
projection generator looks `self._rows` up when the selection is first read (the generated
`selectReadsLate`), so after `a = s.select(…)` every register — the source included — is what it was,
and the source can still be windowed, counted, collected, batched, added or iterated. -/
theorem select_keeps_source (st : List (IReg α)) (attrs : List String) (s : Nat) (hw : live st s) :
    ∃ r, implStep st (.un (.select attrs) s) = some (st ++ [r]) := by
  obtain ⟨sch, rows, hf⟩ := hw
  have hm : Gen.Frame.materialisesFirst (UnOp.select (α := α) attrs).method = false := by
    simp only [UnOp.method]; decide
  have hr : (UnOp.select (α := α) attrs).readsLate = true := by
    simp only [UnOp.readsLate]; decide
  rcases frameOf_cases hf with ⟨l, h⟩ | ⟨src, h⟩
  · cases l with
    | false => exact ⟨_, by simp only [implStep, h, Bool.not_false, if_true]; rfl⟩
    | true => exact ⟨_, by simp only [implStep, h, hm, hr, Bool.not_true, Bool.false_eq_true, if_false, if_true]; rfl⟩
  · exact ⟨_, by simp only [implStep, h, hm, hr, Bool.false_eq_true, if_false, if_true]; rfl⟩

/-- **Siblings of a lazily backed frame (2).**  Derive a selection from a lazily backed frame, then
apply any operator that materialises the frame (`head`, `tail`, `slice`, `row`, `len`, `collect`,
`to_batches`), then read the selection: the program is inside the scope of `eval_refines` — so the
selection lists the projection of every row, the other result is the operator applied to the frame's
rows, and the frame itself keeps them. -/
theorem sibling_after_materialising_use (sch : Schema) (rows : List (List α)) (attrs : List String)
    (u : UnOp α) (hu : u.iterates = false) (how : Nat) :
    wfProg [.frame sch true rows] [.un (.select attrs) 0, .un u 0, .un (.len how) 1] := by
  have hm : Gen.Frame.materialisesFirst (UnOp.select (α := α) attrs).method = false := by
    simp only [UnOp.method]; decide
  have hr : (UnOp.select (α := α) attrs).readsLate = true := by
    simp only [UnOp.readsLate]; decide
  have hmu := method_materialises methods_materialise_first u hu
  refine ⟨⟨sch, rows, rfl⟩, ?_⟩
  intro st1 h1
  simp only [implStep, List.getElem?_cons_zero, hm, hr, Bool.not_true, Bool.false_eq_true, if_false, if_true,
    Option.some.injEq] at h1
  subst h1
  refine ⟨⟨sch, rows, rfl⟩, ?_⟩
  intro st2 h2
  simp only [implStep, List.cons_append, List.nil_append, List.getElem?_cons_zero, hmu, Bool.not_true,
    Bool.false_eq_true, if_false, if_true, Option.some.injEq] at h2
  subst h2
  refine ⟨?_, fun _ _ => trivial⟩
  simp only [apply1, selectOp, deferOf, materialise, List.getElem?_cons_zero, List.set_cons_zero]
  exact ⟨_, _, rfl⟩

/-- **Siblings (3): the other order.**  Reading the selection *first* runs the frame's own generator
inside the projection: the selection holds the projected rows, the lazily backed frame is spent (the
statement protects materialised sources only; the harness does not read such a frame again). -/
theorem selection_read_first_spends_lazy_source (sch : Schema) (rows : List (List α)) (attrs : List String) :
    implEval [.frame sch true rows] [.un (.select attrs) 0, .un (.len 0) 1]
      = some [.spent, .frame (Schema.ofNames (select sch.iter rows attrs).1) false (select sch.iter rows attrs).2,
              .val (.nat (select sch.iter rows attrs).2.length)] := by
  have hm : Gen.Frame.materialisesFirst (UnOp.select (α := α) attrs).method = false := by
    simp only [UnOp.method]; decide
  have hr : (UnOp.select (α := α) attrs).readsLate = true := by
    simp only [UnOp.readsLate]; decide
  have hl : Gen.Frame.materialisesFirst (UnOp.len (α := α) 0).method = true := by
    simp only [UnOp.method]; decide
  simp only [implEval, implStep, List.getElem?_cons_zero, hm, hr, hl, Bool.not_true, Bool.false_eq_true, if_false,
    if_true, Option.bind_some, apply1, selectOp, deferOf, List.cons_append, List.nil_append,
    List.getElem?_cons_succ, ofSpec]
  simp [materialise, upChain, closure, downAux, spendSet, spendable, List.mapIdx_cons]

/-- **Any composition.**  For every well-formed program (any length, any operators, any arguments,
eager or lazily backed base frame) the state machine of the implementation and the list
specification both run to the end and every live register of the machine stands for the
specification's register: same schema, same listing, same value, same error, same iterator. -/
theorem eval_refines (prog : List (Op α)) (st : List (IReg α)) (sp : List (SReg α))
    (hs : Sim st sp) (hw : wfProg st prog) :
    ∃ st' sp', implEval st prog = some st' ∧ specEval sp prog = some sp' ∧ Sim st' sp' := by
  induction prog generalizing st sp with
  | nil => exact ⟨st, sp, rfl, rfl, hs⟩
  | cons op ops ih =>
    obtain ⟨hw1, hw2⟩ := hw
    obtain ⟨st1, sp1, e1, e2, hs1⟩ := step_refines st sp op hs hw1
    obtain ⟨st', sp', e3, e4, hs'⟩ := ih st1 sp1 hs1 (hw2 st1 e1)
    exact ⟨st', sp', by simp [implEval, e1, e3], by simp [specEval, e2, e4], hs'⟩

/-- The same, read off a program that starts from one base frame: whatever the machine shows of a
register (`IReg.view`; a spent frame shows nothing) is the list specification's register. -/
theorem eval_observation (prog : List (Op α)) (sch : Schema) (lazy : Bool) (rows : List (List α))
    (hw : wfProg [.frame sch lazy rows] prog) :
    ∃ st' sp', implEval [.frame sch lazy rows] prog = some st' ∧ specEval [.frame sch rows] prog = some sp'
      ∧ st'.length = sp'.length
      ∧ ∀ (i : Nat) (r : IReg α) (v : SReg α), st'[i]? = some r → r.view = some v → sp'[i]? = some v := by
  have h0 : Sim [IReg.frame sch lazy rows] [SReg.frame sch rows] := by
    refine ⟨rfl, ?_⟩
    intro i a b ha hb
    cases i with
    | zero => simp at ha hb; subst ha; subst hb; constructor
    | succ i => simp at ha
  obtain ⟨st', sp', e1, e2, hs⟩ := eval_refines prog _ _ h0 hw
  refine ⟨st', sp', e1, e2, hs.1, ?_⟩
  intro i r v hr hv
  obtain ⟨b, hb, hrel⟩ := hs.get hr
  cases hrel <;> simp only [IReg.view, Option.some.injEq] at hv <;> first | (subst hv; exact hb) | cases hv

/-- **Never alters a materialised source frame.**  Whatever program runs (well formed or not, as
long as it runs), a frame that is materialised keeps its schema and its listing, extended only by
the rows the program `append`s to that very frame, in order. -/
theorem materialised_source_unaltered (prog : List (Op α)) (st st' : List (IReg α))
    (h : implEval st prog = some st') (i : Nat) (sch : Schema) (rows : List (List α))
    (hi : st[i]? = some (.frame sch false rows)) :
    st'[i]? = some (.frame sch false (rows ++ appended i prog)) :=
  implEval_materialised prog st st' h i sch rows hi

/-- **Iterating yields each row once, in order** — also when the iteration is abandoned part-way,
resumed later, or interleaved with other iterators and operators: the chunks handed out by the
`next` calls on one iterator are consecutive pieces of the listing it was opened on; the iterator
register keeps that listing and only moves forward, never past the end. -/
theorem iter_yields_rows_once (prog : List (Op α)) (sp sp' : List (SReg α)) (h : specEval sp prog = some sp')
    (it : Nat) (rows : List (List α)) (pos : Nat) (hi : sp[it]? = some (.iter rows pos)) :
    ∃ pos', sp'[it]? = some (.iter rows pos') ∧ pos ≤ pos' ∧ pos' ≤ max pos rows.length
      ∧ (handed it rows pos prog).1.flatten = (rows.drop pos).take (pos' - pos) := by
  obtain ⟨h1, h2, h3⟩ := handed_window it rows pos prog
  exact ⟨_, specEval_iter prog sp sp' h it rows pos hi, h1, h2, h3⟩

/-- A fresh iterator that has been asked for at least as many rows as there are has handed out
exactly the listing. -/
theorem iter_drained (it : Nat) (rows : List (List α)) (prog : List (Op α))
    (hd : rows.length ≤ (handed it rows 0 prog).2) : (handed it rows 0 prog).1.flatten = rows := by
  obtain ⟨_, _, h3⟩ := handed_window it rows 0 prog
  rw [h3]
  simp only [List.drop_zero, Nat.sub_zero]
  exact List.take_of_length_le hd

/-- Every one-source operator keeps a rectangular frame rectangular (`select`: as wide as the new header). -/
theorem apply1_rect (u : UnOp α) (sch : Schema) (rows : List (List α)) (h : Rect sch rows) :
    (apply1 u sch rows).rect := by
  obtain ⟨p1, p2, p3, p4, p5⟩ := rows_preserved rows
  cases u with
  | head k => exact fun r hr => h r (p1 _ _ r hr)
  | tail k => exact fun r hr => h r (p1 _ _ r hr)
  | slice o l => exact fun r hr => h r (p1 _ _ r hr)
  | filter m => exact fun r hr => h r (p2 _ r hr)
  | take ix => exact fun r hr => h r (p3 _ r hr)
  | query p => exact fun r hr => h r (p4 _ r hr)
  | distinct => exact fun r hr => h r (p5 r hr)
  | select attrs =>
    rw [select_any_schema]
    intro r' hr'
    have hw : ∀ r ∈ rows, r.length = sch.names.length := by
      intro r hr; rw [h r hr]; simp [Schema.names]
    obtain ⟨s1, s2, s3⟩ := select_spec sch.names rows attrs hw
    obtain ⟨k, hk⟩ := List.getElem?_of_mem hr'
    have hk' : k < rows.length := by
      have := lt_of_get hk
      omega
    obtain ⟨r2, e2, l2, _⟩ := s3 k rows[k] (List.getElem?_eq_getElem hk')
    rw [hk] at e2; cases e2
    rw [l2, s1]
    simp [Schema.ofNames]
  | batches n => trivial
  | collect c l => simp only [apply1, collectOp]; repeat' split
                   all_goals trivial
  | row i => simp only [apply1, rowOp]; repeat' split
             all_goals trivial
  | len how => trivial
  | hash => trivial

/-- One step of any program keeps every frame register rectangular. -/
theorem step_rect (sp sp' : List (SReg α)) (op : Op α) (hr : ∀ reg ∈ sp, reg.rect) (ho : opRect sp op)
    (h : specStep sp op = some sp') : ∀ reg ∈ sp', reg.rect := by
  have push : ∀ (l : List (SReg α)) (x : SReg α), (∀ reg ∈ l, reg.rect) → x.rect → ∀ reg ∈ l ++ [x], reg.rect := by
    intro l x hl hx reg hm
    rcases List.mem_append.mp hm with hm | hm
    · exact hl reg hm
    · simp only [List.mem_singleton] at hm; subst hm; exact hx
  have setr : ∀ (s : Nat) (x : SReg α), x.rect → ∀ reg ∈ sp.set s x, reg.rect := by
    intro s x hx reg hm
    rcases List.mem_or_eq_of_mem_set hm with hm | hm
    · exact hr reg hm
    · subst hm; exact hx
  cases op with
  | un u s =>
    simp only [specStep] at h
    split at h
    · rename_i sch rows hs
      cases h
      exact push _ _ hr (apply1_rect u sch rows (hr _ (List.mem_of_getElem? hs)))
    · cases h
  | add s t =>
    simp only [specStep] at h
    split at h
    · rename_i sa ra sb rb hs ht
      cases h
      apply push _ _ hr
      unfold addOp
      split
      · rename_i e
        subst e
        intro r hm
        rcases List.mem_append.mp hm with hm | hm
        · exact hr _ (List.mem_of_getElem? hs) r hm
        · exact hr _ (List.mem_of_getElem? ht) r hm
      · trivial
    · cases h
  | append s r =>
    simp only [specStep] at h
    split at h
    · rename_i sch rows hs
      split at h
      · cases h
      · cases h
        refine push _ (.val .none) ?_ trivial
        apply setr
        intro r' hm
        rcases List.mem_append.mp hm with hm | hm
        · exact hr _ (List.mem_of_getElem? hs) r' hm
        · simp only [List.mem_singleton] at hm; subst hm; exact ho sch rows hs
    · cases h
  | iter s =>
    simp only [specStep] at h
    split at h
    · cases h; exact push _ _ hr trivial
    · cases h
  | next it k =>
    simp only [specStep] at h
    split at h
    · rename_i rows2 pos2 hs
      cases h; exact push _ (.val _) (setr _ (.iter rows2 _) trivial) trivial
    · cases h
  | zip s t =>
    simp only [specStep] at h
    split at h
    · cases h; exact push _ _ hr trivial
    · cases h

/-- **Rectangularity is an invariant of every program**: if the base frames are rectangular and
`append` is given rows of the right width, every frame any program produces is rectangular (its
rows are as wide as its schema) — `select` included, whose schema is the new header. -/
theorem eval_rect (prog : List (Op α)) (sp sp' : List (SReg α)) (hr : ∀ reg ∈ sp, reg.rect)
    (ho : progRect sp prog) (h : specEval sp prog = some sp') : ∀ reg ∈ sp', reg.rect := by
  induction prog generalizing sp with
  | nil => simp only [specEval, Option.some.injEq] at h; subst h; exact hr
  | cons op ops ih =>
    simp only [specEval] at h
    cases h1 : specStep sp op with
    | none => rw [h1] at h; cases h
    | some sp1 =>
      rw [h1] at h
      exact ih sp1 (step_rect sp sp1 op hr ho.1 h1) (ho.2 sp1 h1) h

/-- The executable well-formedness check the driver reports for every tested program is sound. -/
theorem wfProgB_sound (prog : List (Op α)) (st : List (IReg α)) (h : wfProgB st prog = true) : wfProg st prog :=
  wfProgB_sound' prog st h

end programs

/-! ## Pass 5 — several batchings of one frame consumed interleaved; rows that look alike -/

/-- **Batchings consumed interleaved.**  However the `next` calls on any number of batchings of one frame are
interleaved (`sched`: nested loops, `zip`, lock step, one abandoned part-way), batching `i` hands out consecutive
batches of *its own* partition — the batches of the generated `to_batches` body for its size, from where it stood,
as many as it was asked for: no batching moves, restarts or exhausts another. -/
theorem interleaved_batchings (rows : List α) (size pos : Nat → Nat) (sched : List Nat) (i : Nat) :
    yielded i (advance rows size pos sched)
      = ((Gen.FrameFns.to_batches rows ((size i : Nat) : Int)).drop (pos i)).take (sched.count i) := by
  rw [generated_to_batches_eq_model]
  induction sched generalizing pos with
  | nil => simp [advance, yielded]
  | cons j sched ih =>
    unfold advance yielded
    by_cases hji : j = i
    · subst hji
      have := ih (fun k => if k = j then pos j + 1 else pos k)
      simp only [yielded, if_true] at this
      simp only [List.filterMap_cons, if_true, List.count_cons_self]
      rw [drop_take_succ_getElem?]
      cases h : (batches rows (size j))[pos j]? with
      | none => simp [this]
      | some b => simp [this]
    · have := ih (fun k => if k = j then pos j + 1 else pos k)
      simp only [yielded, if_neg (Ne.symm hji)] at this
      simp only [List.filterMap_cons, if_neg hji]
      rw [this, List.count_cons_of_ne hji]

/-- `k` batchings opened on one frame, each advanced (in any interleaving) at least as often as it has batches, yield
`k` copies of the partition: every one of them the full batches plus one remainder, which concatenated are the rows. -/
theorem batchings_each_partition (rows : List α) (size : Nat → Nat) (sched : List Nat) (i : Nat) (hs : 0 < size i)
    (hd : (batches rows (size i)).length ≤ sched.count i) :
    yielded i (advance rows size (fun _ => 0) sched) = batches rows (size i)
    ∧ (yielded i (advance rows size (fun _ => 0) sched)).flatten = rows := by
  have h := interleaved_batchings rows size (fun _ => 0) sched i
  rw [generated_to_batches_eq_model] at h
  simp only [List.drop_zero] at h
  rw [List.take_of_length_le hd] at h
  exact ⟨h, by rw [h]; exact (batches_spec rows (size i) hs).1⟩

/-- A batching of size `b` is the row iterator of its frame read `b` rows at a time: the `j` batches it hands out from
batch number `p` are the batches of the `j·b` rows a list iterator standing at row `p·b` hands out (this is how the
correspondence check runs batchings on `specEval` / `implEval`: `iter` + `next (j·b)`, so `iter_yields_rows_once` and
the refinement cover them). -/
theorem batching_is_chunked_iteration (rows : List α) (b p j : Nat) (hb : 0 < b) :
    ((Gen.FrameFns.to_batches rows (b : Int)).drop p).take j = batches ((rows.drop (p * b)).take (j * b)) b := by
  rw [generated_to_batches_eq_model]
  exact batches_window rows b p j hb

/-- The loop of `distinct` as the source has it now asks its seen-set — and, for rows that cannot be hashed, its
by-value list — for the *row itself* and stores the row itself (the generated flags): membership in a set of rows
and in a list of rows is equality of rows, so the loop is `distinctAux`.  A lookup under a derived key is
`distinctOn`, which the next two theorems separate from `distinct`. -/
theorem distinct_looks_up_rows :
    Gen.Frame.distinctSeenKeyIsRow = true ∧ Gen.Frame.distinctUnhashableKeyIsRow = true := by decide

/-- **Rows that look alike.**  A seen-set keyed on anything derived from the row (`hash(row)`, `str(row)`, a
"hashable form" with lists turned into tuples) de-duplicates like `distinct` on every listing exactly when the key
tells unequal rows apart … -/
theorem distinct_by_key_of_injective {κ : Type} [DecidableEq α] [DecidableEq κ] (k : α → κ) (hk : ∀ a b, k a = k b → a = b)
    (rows : List α) : distinctOn k rows = distinct rows :=
  distinctOnAux_injective k hk [] rows

/-- … and whenever two unequal rows share a key, the frame holding just these two loses the second one, which
`distinct` ("the first of each set of *equal* rows") keeps. -/
theorem lookalike_key_drops_a_row {κ : Type} [DecidableEq α] [DecidableEq κ] (k : α → κ) (x y : α) (hxy : x ≠ y)
    (hk : k x = k y) : distinctOn k [x, y] = [x] ∧ distinct [x, y] = [x, y] := by
  constructor
  · simp [distinctOn, distinctOnAux, hk]
  · simp [distinct, distinctAux, Ne.symm hxy]

/-- **Cells up to Python equality** (`Model/FrameCell.lean`, what the driver applies to every cell): `True`, `1` are one
value and so are `False`, `0`; a tuple and a list are different values whatever they hold — so `distinct` keeps a
row with a list in a cell next to the row with the tuple of the same values in that cell, in either order. -/
theorem list_and_tuple_rows_both_kept (k : PyVal) (xs ys : List PyVal) :
    pyKey (.bool true) = pyKey (.int 1) ∧ pyKey (.bool false) = pyKey (.int 0)
    ∧ pyKey (tupleCell xs) ≠ pyKey (.list ys)
    ∧ distinct [pyKeyL [k, .list xs], pyKeyL [k, tupleCell xs]] = [pyKeyL [k, .list xs], pyKeyL [k, tupleCell xs]]
    ∧ distinct [pyKeyL [k, tupleCell xs], pyKeyL [k, .list xs]] = [pyKeyL [k, tupleCell xs], pyKeyL [k, .list xs]] := by
  have hne : pyKey (tupleCell xs) ≠ pyKey (.list ys) := by simp [tupleCell, pyKey]
  have hne' : pyKey (tupleCell xs) ≠ pyKey (.list xs) := by simp [tupleCell, pyKey]
  refine ⟨by decide, by decide, hne, ?_, ?_⟩
  · have h : pyKeyL [k, .list xs] ≠ pyKeyL [k, tupleCell xs] := by
      simp only [pyKeyL]; intro h; injection h with _ h; injection h with h _; exact hne' h.symm
    exact (lookalike_key_drops_a_row (fun _ => ()) _ _ h rfl).2
  · have h : pyKeyL [k, tupleCell xs] ≠ pyKeyL [k, .list xs] := by
      simp only [pyKeyL]; intro h; injection h with _ h; injection h with h _; exact hne' h
    exact (lookalike_key_drops_a_row (fun _ => ()) _ _ h rfl).2

example : pyKey (.dict [("__pydict__", .dict [("b", .int 2), ("a", .bool true)])])
    = pyKey (.dict [("__pydict__", .dict [("a", .int 1), ("b", .int 2)])]) := by decide

example : yielded (α := Nat) 0 (advance [1, 2, 3, 4, 5] (fun i => i + 2) (fun _ => 0) [0, 1, 0, 1, 0, 0]) = [[1, 2], [3, 4], [5]]
    ∧ yielded (α := Nat) 1 (advance [1, 2, 3, 4, 5] (fun i => i + 2) (fun _ => 0) [0, 1, 0, 1, 0, 0]) = [[1, 2, 3], [4, 5]] := by decide
example : distinctOn (fun (r : List Nat) => r.length) [[1], [2], [1, 2]] = [[1], [1, 2]] ∧ distinct [[1], [2], [1, 2]] = [[1], [2], [1, 2]] := by decide


/-- Non-vacuity of the program theorems: a lazily backed frame, an iteration abandoned after one row,
another operator on the same frame, the iteration resumed, a lazily backed result read twice. -/
example : wfProg (α := Nat) [.frame ⟨.typed, [⟨"a", ["x"]⟩, ⟨"b", []⟩]⟩ true [[1, 5], [2, 6], [3, 7]]]
    [.iter 0, .next 1 1, .un (.filter [true, false, true]) 0, .next 1 5, .un (.select ["b", "x", "a"]) 3,
     .un (.len 0) 5, .add 0 0, .zip 5 0] :=
  wfProgB_sound _ _ (by decide)
example : handed (α := Nat) 1 [[1], [2], [3]] 0 [.iter 0, .next 1 1, .un (.head 1) 0, .next 1 5, .next 2 1]
    = ([[[1]], [[2], [3]]], 3) := by decide
example : (specEval (α := Nat) [.frame ⟨.list, [⟨"a", []⟩, ⟨"b", []⟩]⟩ [[1, 2], [3, 4]]]
    [.un (.select ["b"]) 0, .append 0 [5, 6], .un (.collect [.name "b", .idx 0] (some 1)) 0]).isSome = true := by decide
example : appended (α := Nat) 0 [.append 0 [9], .un .distinct 0, .append 1 [8], .append 0 [7]] = [[9], [7]] := by decide

/-- Non-vacuity: concrete frames exercising the clamp, reordering select, colliding rows. -/
example : tail [1, 2, 3] 5 = [1, 2, 3] ∧ tail [1, 2, 3] 2 = [2, 3] ∧ slice [1, 2, 3] (-2) (some 1) = [2] := by decide
example : select ["a", "b", "c"] [[1, 2, 3], [4, 5, 6]] ["c", "a"] = (["c", "a"], [[3, 1], [6, 4]]) := by decide
example : distinct [1, 2, 1, 3, 2] = [1, 2, 3] ∧ batches [1, 2, 3, 4, 5] 2 = [[1, 2], [3, 4], [5]] := by decide
example : collect [[1, 2], [3, 4], [5, 6]] [1, 0] (some 2) = some [[2, 4], [1, 3]] := by decide

end C03
