import OrsoVerif.Model.Cursor
import OrsoVerif.Lemmas.Cursor
import OrsoVerif.Generated.CursorFns
import OrsoVerif.Lemmas.CursorFootprint
/-!
# C04 — Cursor fetches deliver every row exactly once, in order

Property theorems only.  The statements quantify over every frame, every element
type and every finite history of operations.

Part 1 states the contract on the spec machine (`Cursor.step`: a position into the rows).
Part 2 (`gen_*`) proves what the contract needs of the definitions regenerated from
`orso/dataframe.py` and `orso/converters.py` on every run (`Gen.Cursor.*`).
Part 3 proves that the code machine (`Cursor.Impl.step`: iterators, the `fetchmany` loop,
`list(cursor)`, built from the generated definitions) refines the spec machine for every
history on a materialised frame and for every cursor-only history on a lazily backed frame
(a list of chunks, some of them empty), and transfers the contract; the generators behind
`select` / `filter` / `take`, translated from the source, are such chunk sources.
Part 4 is about several frames: the frames `slice` / `head` / `tail` / `query` / `distinct` / `+` /
`to_batches` hand out own their row lists (regenerated from the source), so every frame of a
system runs its own history whatever is done to the others.
Part 5 is the footprint of every member of `DataFrame` on `_cursor` and `_rows`, lifted from the
source: only the cursor API reaches the cursor; the schema-level observers do not read rows.
-/
namespace C04
open Cursor

variable {α : Type}

/-- Invariant relating a state reached from `init d rows₀` to what has been delivered so far. -/
def Inv (rows₀ : List α) (s : State α) (acc : List α) : Prop :=
  acc = rows₀.take s.pos ∧ s.pos ≤ rows₀.length ∧ (s.valid = true → s.rows = rows₀)

theorem step_inv (rows₀ : List α) (s : State α) (acc : List α) (op : Op α)
    (h : Inv rows₀ s acc) : Inv rows₀ (step s op).1 (acc ++ fetched (step s op).2) := by
  obtain ⟨hacc, hpos, hrows⟩ := h
  cases op with
  | fetchone =>
    unfold step
    by_cases hv : s.valid = true
    · have hr := hrows hv
      simp only [hv, if_true]
      cases hg : s.rows[s.pos]? with
      | none => exact ⟨by simp [fetched, hacc], hpos, hrows⟩
      | some r =>
        have hlt : s.pos < rows₀.length := by
          rw [hr] at hg
          exact (List.getElem?_eq_some_iff.mp hg).1
        have hget : rows₀[s.pos]? = some r := by rw [← hr]; exact hg
        refine ⟨?_, ?_, ?_⟩
        · simp only [fetched, hacc]
          rw [List.take_add_one, hget]; rfl
        · exact hlt
        · intro _; exact hr
    · simp [hv, Inv, fetched, hacc, hpos]
  | fetchmany k =>
    unfold step
    by_cases hv : s.valid = true
    · have hr := hrows hv
      simp only [hv, if_true]
      refine ⟨?_, ?_, ?_⟩
      · simp only [fetched, hacc, hr]
        rw [List.take_add]
        congr 1
        rw [List.length_take]
        exact List.take_eq_take_min
      · simp only [hr, List.length_take, List.length_drop]; omega
      · intro _; exact hr
    · simp [hv, Inv, fetched, hacc, hpos]
  | fetchall =>
    unfold step
    by_cases hv : s.valid = true
    · have hr := hrows hv
      simp only [hv, if_true]
      refine ⟨?_, ?_, ?_⟩
      · simp only [fetched, hacc, hr, List.length_drop]
        rw [List.take_add]
        congr 1
        rw [List.take_of_length_le]; simp
      · simp only [hr, List.length_drop]; omega
      · intro _; exact hr
    · simp [hv, Inv, fetched, hacc, hpos]
  | setArraysize n => simp [step, Inv, fetched, hacc, hpos]; exact hrows
  | observe k => simp [step, Inv, fetched, hacc, hpos]; exact hrows
  | append r => simp [step, Inv, fetched, hacc, hpos]
  | reject st d r =>
    refine ⟨by simp [step, fetched, hacc], by simpa [step] using hpos, ?_⟩
    intro hv
    simp only [step, Bool.and_eq_true] at hv
    exact hrows hv.1

theorem run_inv (rows₀ : List α) (ops : List (Op α)) (s : State α) (acc : List α)
    (h : Inv rows₀ s acc) :
    Inv rows₀ (run s ops).1 (acc ++ delivered (run s ops).2) := by
  induction ops generalizing s acc with
  | nil => simpa [run, delivered] using h
  | cons op ops ih =>
    have h1 := step_inv rows₀ s acc op h
    have h2 := ih (step s op).1 _ h1
    simpa [run, delivered, List.append_assoc] using h2

/-- **Delivered rows are a prefix.**  For every frame, every default arraysize and every
finite history, the concatenation of everything the fetch calls returned is exactly the
first `pos` rows of the frame, in order, none skipped or repeated. -/
theorem fetched_is_prefix (d : Nat) (rows : List α) (ops : List (Op α)) :
    delivered (run (init d rows) ops).2 = rows.take (run (init d rows) ops).1.pos
    ∧ (run (init d rows) ops).1.pos ≤ rows.length := by
  have h := run_inv rows ops (init d rows) [] (by simp [Inv, init])
  exact ⟨by simpa using h.1, h.2.1⟩

/-- `fetchmany k` returns `min k remaining` rows (arraysize when `k` is omitted). -/
theorem fetchmany_len (s : State α) (k : Option Nat) (hv : s.valid = true) :
    ∃ rs, (step s (.fetchmany k)).2 = .many rs ∧
      rs.length = min (k.getD s.arraysize) (s.rows.length - s.pos) ∧
      rs = (s.rows.drop s.pos).take (k.getD s.arraysize) := by
  refine ⟨(s.rows.drop s.pos).take (k.getD s.arraysize), ?_, ?_, rfl⟩
  · simp [step, hv]
  · simp [List.length_take, List.length_drop]

/-- After exhaustion `fetchone` gives `None` and the others an empty list; the state does not move. -/
theorem exhausted_outputs (s : State α) (hv : s.valid = true) (he : s.rows.length ≤ s.pos) (k : Option Nat) :
    step s .fetchone = (s, .one none) ∧
    step s (.fetchmany k) = (s, .many []) ∧
    step s .fetchall = (s, .many []) := by
  have h1 : s.rows[s.pos]? = none := List.getElem?_eq_none_iff.mpr he
  have h2 : s.rows.drop s.pos = [] := List.drop_eq_nil_iff.mpr he
  refine ⟨?_, ?_, ?_⟩
  · simp [step, hv, h1]
  · cases s; simp_all [step]
  · cases s; simp_all [step]

/-- `fetchall` delivers exactly the remaining rows and exhausts the cursor. -/
theorem fetchall_rest (s : State α) (hv : s.valid = true) (hp : s.pos ≤ s.rows.length) :
    (step s .fetchall).2 = .many (s.rows.drop s.pos) ∧ (step s .fetchall).1.pos = s.rows.length := by
  simp [step, hv]; omega

/-- Read-only observers and arraysize changes never move the cursor or change the rows. -/
theorem observe_noop (s : State α) (n : Nat) (kind : Obs) :
    step s (.observe kind) = (s, .unit) ∧
    (step s (.setArraysize n)).1.pos = s.pos ∧ (step s (.setArraysize n)).1.rows = s.rows ∧
    (step s (.setArraysize n)).1.valid = s.valid := by
  simp [step]

/-- Once a row has been appended every later fetch refuses to run, whatever else happens in between,
and the rows grew by exactly the appended row. -/
theorem after_append_refuses (s : State α) (r : α) (ops : List (Op α)) :
    (step s (.append r)).1.rows = s.rows ++ [r] ∧
    ∀ o ∈ (run (step s (.append r)).1 ops).2, fetched o = [] := by
  refine ⟨by simp [step], ?_⟩
  have key : ∀ (ops : List (Op α)) (t : State α), t.valid = false →
      ∀ o ∈ (run t ops).2, fetched o = [] := by
    intro ops
    induction ops with
    | nil => intro t _ o ho; simp [run] at ho
    | cons op ops ih =>
      intro t ht o ho
      simp only [run, List.mem_cons] at ho
      have hst : (step t op).1.valid = false := by
        cases op <;> simp [step, ht]
      rcases ho with rfl | ho
      · cases op <;> simp [step, ht, fetched]
      · exact ih _ hst o ho
  exact key ops _ (by simp [step])

/-- **Exhaustion is permanent.**  Once `fetchone` has answered `None`, no later call of any
history delivers a row (the fetches answer `None` / `[]`, or refuse after an append). -/
theorem none_is_final (s : State α) (h : (step s .fetchone).2 = .one none) (ops : List (Op α)) :
    (step s .fetchone).1 = s ∧ ∀ o ∈ (run (step s .fetchone).1 ops).2, fetched o = [] := by
  by_cases hv : s.valid = true
  · cases hg : s.rows[s.pos]? with
    | some r => simp [step, hv, hg] at h
    | none =>
      have hS : step s .fetchone = (s, .one none) := by simp [step, hv, hg]
      rw [hS]
      exact ⟨rfl, spent_run ops s (Or.inr (List.getElem?_eq_none_iff.mp hg))⟩
  · simp [step, hv] at h

/-- …and the same after a `fetchall`, and after a `fetchmany` that came back short. -/
theorem short_is_final (s : State α) (hv : s.valid = true) (k : Option Nat) (ops : List (Op α)) :
    (∀ o ∈ (run (step s .fetchall).1 ops).2, fetched o = []) ∧
    ((fetched (step s (.fetchmany k)).2).length < k.getD s.arraysize →
      ∀ o ∈ (run (step s (.fetchmany k)).1 ops).2, fetched o = []) := by
  constructor
  · apply spent_run
    right
    simp only [step, hv, if_true, List.length_drop]
    omega
  · intro h
    apply spent_run
    right
    simp only [step, hv, if_true, fetched, List.length_take, List.length_drop] at h ⊢
    omega

/-! ## Part 2 — what the source says now -/

/-- `fetchmany`: the loop runs `k` times, `arraysize` times when `k` is omitted
(`fetch_size = self.arraysize if size is None else size`, `range(fetch_size)`); an explicit `0` is `0`. -/
theorem gen_fetch_size (a : Nat) (k : Option Nat) : fetchCount a k = k.getD a := by
  cases k <;> simp [fetchCount, Gen.Cursor.loopBound, Gen.Cursor.fetchSize]

/-- The three fetch methods refuse exactly when the cursor is `None`. -/
theorem gen_guards (b : Bool) :
    Gen.Cursor.fetchoneRefuses b = b ∧ Gen.Cursor.fetchmanyRefuses b = b ∧ Gen.Cursor.fetchallRefuses b = b := by
  cases b <;> decide

/-- `__init__` always creates an iterator — also for a frame of no rows (`None` is the mark `append` leaves). -/
theorem gen_init_live (b : Bool) : Gen.Cursor.initCursorLive b = true := by
  cases b <;> decide

/-- Every completing `append` reaches `self._cursor = None`: whatever the kind of schema, and whether or
not the running byte total is being kept. -/
theorem gen_append_invalidates (schemaRel nbytesTracked : Bool) :
    Gen.Cursor.appendInvalidates schemaRel nbytesTracked = true := by
  cases schemaRel <;> cases nbytesTracked <;> decide

/-- `_RowsIterator.__next__`: stops at `max_size` rows exactly, counts one per row, and keeps loading
tables while the loaded one has no rows. -/
theorem gen_rows_iterator :
    Gen.Cursor.skipsEmptyTables = true ∧
    (∀ p m : Nat, Gen.Cursor.limitReached (p : Int) (m : Int) ↔ m ≤ p) ∧
    (∀ p : Nat, (Gen.Cursor.processedAfter (p : Int)).toNat = p + 1) := by
  refine ⟨by decide, ?_, ?_⟩
  · intro p m; unfold Gen.Cursor.limitReached; omega
  · intro p; unfold Gen.Cursor.processedAfter; omega

/-- A completing `append` on a frame whose rows are not a list (a lazily backed frame: `materialize()` has
just run the iterator the cursor *is* to its end) drops the cursor, whatever the schema and the byte total. -/
theorem gen_append_drops_cursor_of_lazy_frame (schemaRel nbytesTracked : Bool) :
    Gen.Cursor.appendDropsCursor false schemaRel nbytesTracked = true := by
  cases schemaRel <;> cases nbytesTracked <;> decide

/-- **`append` can be left by an exception only in a safe state.**  `Gen.Cursor.appendPoints` is `append`
statement by statement as the working tree has it: every statement and test that calls something (schema
validation, the row factory, `nbytes()`, …), with what has been executed when it starts.  At every one of
them, for every kind of frame: if the row has been stored the cursor has been dropped (no stale view), and
if `materialize()` has run the iterator behind a lazily backed frame to its end — outside the fetch calls,
so the cursor has nothing left to deliver — the cursor has been dropped too (the fetch calls refuse, they
do not report exhaustion over rows that were never delivered). -/
theorem gen_rejected_append_safe :
    ∀ p ∈ Gen.Cursor.appendPoints, ∀ l r n,
      (p.stored l r n = true → p.dropped l r n = true) ∧ (p.materialized false r n = true → p.dropped false r n = true) := by
  simp only [Bool.forall_bool]
  decide

theorem gen_facts : GenFacts :=
  { size := gen_fetch_size
    guardOne := fun b => (gen_guards b).1
    guardMany := fun b => (gen_guards b).2.1
    guardAll := fun b => (gen_guards b).2.2
    initLive := gen_init_live
    appendInv := gen_append_invalidates
    skips := gen_rows_iterator.1
    limit := gen_rows_iterator.2.1
    bump := gen_rows_iterator.2.2
    appendLazy := gen_append_drops_cursor_of_lazy_frame
    rejectSafe := gen_rejected_append_safe }

/-! ### the fetch methods translated statement by statement (`Gen.CursorFns`, harness/pystmt.py)

`Gen.CursorFns.fetchone/fetchmany/fetchall` are the bodies of the three methods as the working tree has
them now, in state-passing style (`none` = the method raised).  Each is proved equal to what the
contract says of it over the iterator model; `code_machine_is_generated` then shows that the fetch steps
of the code machine *are* these functions. -/

/-- `fetchone`: refuses iff the cursor is `None`; otherwise one `next`, `StopIteration` answered by `None`. -/
theorem generated_fetchone_eq_model (live : Bool) (b : Backing α) :
    Gen.CursorFns.fetchone Backing.next (!live) b = if live then some b.next else none := by
  unfold Gen.CursorFns.fetchone
  rcases hb : b.next with ⟨_ | r, b'⟩ <;> cases live <;> simp

/-- `fetchmany(k)`: refuses iff the cursor is `None`; otherwise `k` turns of `next` (`arraysize` turns when
`k` is omitted, none for `k = 0`), stopping at the first `StopIteration`, rows in the order delivered. -/
theorem generated_fetchmany_eq_model (live : Bool) (a : Nat) (k : Option Nat) (b : Backing α) :
    Gen.CursorFns.fetchmany Backing.next (!live) (a : Int) (k.map Int.ofNat) b =
      if live then some (pull (k.getD a) b) else none := by
  unfold Gen.CursorFns.fetchmany
  cases live
  · simp
  · simp only [Bool.not_true, Bool.false_eq_true, if_false, if_true]
    rw [forRange_pull]
    · cases k <;> simp
    · intro acc b r b' h; simp [h]
    · intro acc b b' h; simp [h]

/-- `fetchall`: refuses iff the cursor is `None`; otherwise `list(cursor)`. -/
theorem generated_fetchall_eq_model (drain : Backing α → List α × Backing α) (live : Bool) (b : Backing α) :
    Gen.CursorFns.fetchall drain (!live) b = if live then some (drain b) else none := by
  unfold Gen.CursorFns.fetchall
  cases live <;> simp

/-- **The fetch steps of the code machine are the generated functions.** -/
theorem code_machine_is_generated (f : Frame α) (k : Option Nat) :
    Impl.step f .fetchone =
      (match Gen.CursorFns.fetchone Backing.next (!f.live) f.backing with
        | some (r, b) => ({ f with backing := b }, .one r) | none => (f, .err)) ∧
    Impl.step f (.fetchmany k) =
      (match Gen.CursorFns.fetchmany Backing.next (!f.live) (f.arraysize : Int) (k.map Int.ofNat) f.backing with
        | some (rs, b) => ({ f with backing := b }, .many rs) | none => (f, .err)) ∧
    Impl.step f .fetchall =
      (match Gen.CursorFns.fetchall (fun b => pull b.fuel b) (!f.live) f.backing with
        | some (rs, b) => ({ f with backing := b }, .many rs) | none => (f, .err)) := by
  rw [generated_fetchone_eq_model, generated_fetchmany_eq_model, generated_fetchall_eq_model]
  simp only [Impl.step, (gen_guards _).1, (gen_guards _).2.1, (gen_guards _).2.2, gen_fetch_size]
  cases f.live <;> simp

/-! ## Part 3 — the code machine -/

/-- **The lazy source delivers its rows one by one, in order, and its end is permanent.**  For every
list of tables (empty ones anywhere), every `max_size` and every state reached: `__next__` returns the
first of the rows still to come (`StopIteration` iff there is none) and leaves the others to come. -/
theorem rows_iterator_next (c : Chunks α) (tables : List (List α)) (m : Option Nat) :
    (c.next).1 = c.rows.head? ∧ (c.next).2.rows = c.rows.tail ∧
    (Chunks.ofTables tables m : Chunks α).rows = chunkRows tables m := by
  refine ⟨(Chunks.next_spec gen_facts c).1, (Chunks.next_spec gen_facts c).2, ?_⟩
  cases m <;> simp [Chunks.ofTables, Chunks.rows, chunkRows]

/-- `list(cursor)`: the fuel the model gives the loop is enough — it returns everything that is left,
leaves nothing, and any larger fuel returns the same rows. -/
theorem fetchall_fuel_enough (b : Backing α) (j : Nat) :
    (pull b.fuel b).1 = b.rest ∧ (pull b.fuel b).2.rest = [] ∧ (pull (b.fuel + j) b).1 = (pull b.fuel b).1 :=
  ⟨(pull_fuel gen_facts b).1, (pull_fuel gen_facts b).2, pull_more_fuel gen_facts b j⟩

theorem sim_init_eager (d : Nat) (rows : List α) (dicts rel : Bool) :
    Sim (Impl.initEager d rows dicts rel) (init d rows) := by
  simp [Sim, Impl.initEager, init, gen_init_live, Backing.rest, storeOk]

theorem sim_init_lazy (d : Nat) (tables : List (List α)) (m : Option Nat) (rel : Bool) :
    Sim (Impl.initLazy d tables m rel) (init d (chunkRows tables m)) := by
  have h := (rows_iterator_next (Chunks.ofTables tables m) tables m).2.2
  simp [Sim, Impl.initLazy, init, gen_init_live, Backing.rest, storeOk, h]

/-- **Materialised frames: the code machine refines the spec machine.**  For every list of rows, both
ways of construction, both kinds of schema and *every* history (fetches, arraysize changes, observers
of every kind, appends) the outputs are those of the spec machine. -/
theorem eager_refines_spec (d : Nat) (rows : List α) (dicts rel : Bool) (ops : List (Op α)) :
    (Impl.run (Impl.initEager d rows dicts rel) ops).2
      = (run (init d rows) (Impl.annot (Impl.initEager d rows dicts rel) ops)).2 :=
  (run_sim gen_facts ops _ _ (sim_init_eager d rows dicts rel) (Or.inl (by simp [Impl.initEager, Backing.store]))).1

/-- **Lazily backed frames obey the same contract.**  For every list of tables (empty ones at the
start, in the middle, at the end), every `max_size`, and every history that reads the frame only through
the cursor, the outputs are those of the spec machine over the concatenated rows. -/
theorem lazy_refines_spec (d : Nat) (tables : List (List α)) (m : Option Nat) (rel : Bool) (ops : List (Op α))
    (hops : ∀ op ∈ ops, LazyOk op = true) :
    (Impl.run (Impl.initLazy d tables m rel) ops).2
      = (run (init d (chunkRows tables m)) (Impl.annot (Impl.initLazy d tables m rel) ops)).2 :=
  (run_sim gen_facts ops _ _ (sim_init_lazy d tables m rel) (Or.inr hops)).1

/-- The contract on the code machine, materialised frames: what the fetch calls of any history returned,
concatenated, is a prefix of the rows. -/
theorem eager_delivers_prefix (d : Nat) (rows : List α) (dicts rel : Bool) (ops : List (Op α)) :
    ∃ n, n ≤ rows.length ∧ delivered (Impl.run (Impl.initEager d rows dicts rel) ops).2 = rows.take n := by
  rw [eager_refines_spec]
  exact ⟨_, (fetched_is_prefix d rows _).2, (fetched_is_prefix d rows _).1⟩

/-- …and lazily backed frames read through the cursor: a prefix of the concatenated tables. -/
theorem lazy_delivers_prefix (d : Nat) (tables : List (List α)) (m : Option Nat) (rel : Bool) (ops : List (Op α))
    (hops : ∀ op ∈ ops, LazyOk op = true) :
    ∃ n, n ≤ (chunkRows tables m).length ∧
      delivered (Impl.run (Impl.initLazy d tables m rel) ops).2 = (chunkRows tables m).take n := by
  rw [lazy_refines_spec d tables m rel ops hops]
  exact ⟨_, (fetched_is_prefix d _ _).2, (fetched_is_prefix d _ _).1⟩

/-- **Exhaustion of a lazily backed frame is permanent.**  After any cursor-only history `pre`, if
`fetchone` answers `None` then no call of any later cursor-only history `post` delivers a row. -/
theorem lazy_exhaustion_permanent (d : Nat) (tables : List (List α)) (m : Option Nat) (rel : Bool)
    (pre post : List (Op α)) (hpre : ∀ op ∈ pre, LazyOk op = true) (hpost : ∀ op ∈ post, LazyOk op = true)
    (hnone : (Impl.step (Impl.run (Impl.initLazy d tables m rel) pre).1 .fetchone).2 = .one none) :
    ∀ o ∈ (Impl.run (Impl.step (Impl.run (Impl.initLazy d tables m rel) pre).1 .fetchone).1 post).2,
      fetched o = [] := by
  have h1 := run_sim gen_facts pre _ _ (sim_init_lazy d tables m rel) (Or.inr hpre)
  have h2 := step_sim gen_facts _ _ .fetchone h1.2 (Or.inr rfl)
  have h3 := run_sim gen_facts post _ _ h2.2 (Or.inr hpost)
  rw [h3.1]
  rw [h2.1] at hnone
  exact (none_is_final _ hnone _).2

/-- The same for a materialised frame, whatever the later history contains (observers, appends). -/
theorem eager_exhaustion_permanent (d : Nat) (rows : List α) (dicts rel : Bool) (pre post : List (Op α))
    (hnone : (Impl.step (Impl.run (Impl.initEager d rows dicts rel) pre).1 .fetchone).2 = .one none) :
    ∀ o ∈ (Impl.run (Impl.step (Impl.run (Impl.initEager d rows dicts rel) pre).1 .fetchone).1 post).2,
      fetched o = [] := by
  have hE : ∀ ops, ((Impl.run (Impl.initEager d rows dicts rel) ops).1).backing.store.isSome = true := by
    intro ops
    generalize hf : Impl.initEager d rows dicts rel = f
    have h0 : f.backing.store.isSome = true := by rw [← hf]; simp [Impl.initEager, Backing.store]
    clear hf
    induction ops generalizing f with
    | nil => simpa [Impl.run] using h0
    | cons op ops ih => simpa [Impl.run] using ih _ (allowed_step f op h0 gen_facts)
  have h1 := run_sim gen_facts pre _ _ (sim_init_eager d rows dicts rel) (Or.inl (by simp [Impl.initEager, Backing.store]))
  have h2 := step_sim gen_facts _ _ .fetchone h1.2 (Or.inl (hE pre))
  have h3 := run_sim gen_facts post _ _ h2.2 (Or.inl (allowed_step _ _ (hE pre) gen_facts))
  rw [h3.1]
  rw [h2.1] at hnone
  exact (none_is_final _ hnone _).2

/-! ### operations that fail part-way: rejected appends interleaved with fetches -/

/-- On the spec machine a rejected append adds no row and does not move the cursor; at most the fetch
calls refuse afterwards. -/
theorem rejected_append_changes_nothing_but_validity (s : State α) (st : Nat) (d : Bool) (r : α) :
    (step s (.reject st d r)).1.rows = s.rows ∧ (step s (.reject st d r)).1.pos = s.pos ∧
    (step s (.reject st d r)).1.arraysize = s.arraysize ∧ (step s (.reject st d r)).2 = .unit ∧
    ((step s (.reject st d r)).1.valid = true → s.valid = true) := by
  refine ⟨rfl, rfl, rfl, rfl, ?_⟩
  intro h
  simp only [step, Bool.and_eq_true] at h
  exact h.1

/-- **A fetch call never misreports where the cursor is** (spec machine).  After *any* history — fetches,
observers, arraysize changes, appends, rejected appends — a fetch call either refuses or answers from
exactly the first row that has not been delivered yet: `fetchone` gives that row, and `None` only when every
row has been delivered; `fetchall` gives all the rows not delivered yet; `fetchmany(k)` the first
`min(k, remaining)` of them. -/
theorem fetch_answers_from_the_first_undelivered_row (d : Nat) (rows : List α) (ops : List (Op α)) (k : Option Nat) :
    let s := (run (init d rows) ops).1
    let n := (delivered (run (init d rows) ops).2).length
    ((step s .fetchone).2 = .err ∨ (step s .fetchone).2 = .one rows[n]?) ∧
    ((step s .fetchall).2 = .err ∨ (step s .fetchall).2 = .many (rows.drop n)) ∧
    ((step s (.fetchmany k)).2 = .err ∨ (step s (.fetchmany k)).2 = .many ((rows.drop n).take (k.getD s.arraysize))) := by
  intro s n
  have h := run_inv rows ops (init d rows) [] (by simp [Inv, init])
  obtain ⟨hacc, hpos, hrows⟩ := h
  have hn : n = s.pos := by
    show (delivered (run (init d rows) ops).2).length = _
    simp only [List.nil_append] at hacc
    rw [hacc, List.length_take]
    exact Nat.min_eq_left hpos
  by_cases hv : s.valid = true
  · have hr := hrows hv
    refine ⟨Or.inr ?_, Or.inr ?_, Or.inr ?_⟩
    · rw [hn, ← hr]
      simp only [step, hv, if_true]
      cases hg : s.rows[s.pos]? <;> rfl
    · rw [hn, ← hr]; simp [step, hv]; rfl
    · rw [hn, ← hr]; simp [step, hv]; rfl
  · refine ⟨Or.inl ?_, Or.inl ?_, Or.inl ?_⟩ <;> simp [step, hv]

/-- **The contract holds across rejected appends — materialised frames.**  Whatever the history — rejected
appends (left at any statement of `append`) before the first fetch, between fetches, after exhaustion,
mixed with observers, arraysize changes and appends that complete — the next fetch call either refuses or
answers from exactly the first row not delivered yet; in particular `fetchone` gives `None`, and
`fetchall` an empty list, only when every row of the frame has been delivered. -/
theorem eager_contract_across_rejected_appends (d : Nat) (rows : List α) (dicts rel : Bool) (ops : List (Op α)) :
    let f := (Impl.run (Impl.initEager d rows dicts rel) ops).1
    let n := (delivered (Impl.run (Impl.initEager d rows dicts rel) ops).2).length
    ((Impl.step f .fetchone).2 = .err ∨ (Impl.step f .fetchone).2 = .one rows[n]?) ∧
    ((Impl.step f .fetchall).2 = .err ∨ (Impl.step f .fetchall).2 = .many (rows.drop n)) := by
  intro f n
  have h1 := run_sim gen_facts ops _ _ (sim_init_eager d rows dicts rel) (Or.inl (by simp [Impl.initEager, Backing.store]))
  have hE : f.backing.store.isSome = true := by
    show ((Impl.run (Impl.initEager d rows dicts rel) ops).1).backing.store.isSome = true
    generalize hf : Impl.initEager d rows dicts rel = f0
    have h0 : f0.backing.store.isSome = true := by rw [← hf]; simp [Impl.initEager, Backing.store]
    clear hf h1
    induction ops generalizing f0 with
    | nil => simpa [Impl.run] using h0
    | cons op ops ih => simpa [Impl.run] using ih _ (allowed_step f0 op h0 gen_facts)
  have hone := (step_sim gen_facts _ _ .fetchone h1.2 (Or.inl hE)).1
  have hall := (step_sim gen_facts _ _ .fetchall h1.2 (Or.inl hE)).1
  have hs := fetch_answers_from_the_first_undelivered_row d rows (Impl.annot (Impl.initEager d rows dicts rel) ops) none
  simp only at hs
  rw [← h1.1] at hs
  exact ⟨by rw [hone]; exact hs.1, by rw [hall]; exact hs.2.1⟩

/-- **…and lazily backed frames** (the class of C04-w6s3).  A lazily backed frame read through the cursor,
with appends and *rejected* appends anywhere in the history: `append` starts by materialising — it runs the
iterator the cursor *is* to its end, outside the fetch calls — so if it is then left by an exception the
cursor must not survive.  With the statement order the source has now (`gen_rejected_append_safe`) the next
fetch call either refuses or answers from exactly the first row not delivered yet: `None` / `[]` are
reported only after the last row. -/
theorem lazy_contract_across_rejected_appends (d : Nat) (tables : List (List α)) (m : Option Nat) (rel : Bool)
    (ops : List (Op α)) (hops : ∀ op ∈ ops, LazyOk op = true) :
    let f := (Impl.run (Impl.initLazy d tables m rel) ops).1
    let n := (delivered (Impl.run (Impl.initLazy d tables m rel) ops).2).length
    ((Impl.step f .fetchone).2 = .err ∨ (Impl.step f .fetchone).2 = .one (chunkRows tables m)[n]?) ∧
    ((Impl.step f .fetchall).2 = .err ∨ (Impl.step f .fetchall).2 = .many ((chunkRows tables m).drop n)) := by
  intro f n
  have h1 := run_sim gen_facts ops _ _ (sim_init_lazy d tables m rel) (Or.inr hops)
  have hone := (step_sim gen_facts _ _ .fetchone h1.2 (Or.inr rfl)).1
  have hall := (step_sim gen_facts _ _ .fetchall h1.2 (Or.inr rfl)).1
  have hs := fetch_answers_from_the_first_undelivered_row d (chunkRows tables m) (Impl.annot (Impl.initLazy d tables m rel) ops) none
  simp only at hs
  rw [← h1.1] at hs
  exact ⟨by rw [hone]; exact hs.1, by rw [hall]; exact hs.2.1⟩

/-- What a rejected append does to a lazily backed frame, field by field (the step of the model is what the
source's statement order says): the arraysize, the schema kind and the byte total are as they were; the
iterator is run to its end iff `materialize()` precedes the statement that raised; the cursor is dropped iff
`self._cursor = None` does — and with the source as it is, the second whenever the first. -/
theorem rejected_append_on_lazy_frame (f : Frame α) (src : Chunks α) (hb : f.backing = .lazy src) (st : Nat) (d : Bool) (r : α) :
    let f' := (Impl.step f (.reject st d r)).1
    f'.arraysize = f.arraysize ∧ f'.schemaRel = f.schemaRel ∧ f'.nbytesTracked = f.nbytesTracked ∧
    (Impl.step f (.reject st d r)).2 = .unit ∧
    f'.backing = .lazy (if (rejectPoint st).materialized false f.schemaRel f.nbytesTracked then src.drain else src) ∧
    f'.live = (f.live && !(rejectPoint st).dropped false f.schemaRel f.nbytesTracked) ∧
    (f'.backing ≠ f.backing → f'.live = false) := by
  have hP := (rejectPoint_safe gen_facts st false f.schemaRel f.nbytesTracked).2
  simp only [Impl.step, hb, Impl.rejectDrops]
  refine ⟨trivial, trivial, trivial, trivial, trivial, trivial, ?_⟩
  intro hne
  by_cases hm : (rejectPoint st).materialized false f.schemaRel f.nbytesTracked = true
  · simp [hP hm]
  · simp [hm] at hne

/-- Non-vacuity: rejected appends between fetches on the spec machine — one that leaves the cursor alone
(a materialised frame: the history goes on), one that drops it (a lazily backed frame: refusal, never a
false `None`). -/
example :
    (run (init 2 [10, 20, 30]) [.fetchone, .reject 5 false 0, .fetchone, .fetchall, .reject 9 false 0, .fetchone]).2
      = [.one (some 10), .unit, .one (some 20), .many [30], .unit, .one none] ∧
    (run (init 2 [10, 20, 30]) [.fetchone, .reject 5 true 0, .fetchone, .fetchall]).2
      = [.one (some 10), .unit, .err, .err] := by decide

/-- Why the cursor of a lazily backed frame must not survive a rejected append: a code machine whose
iterator was run to its end by `materialize()` but whose cursor is still live (what dropping the early
`self._cursor = None` gives) answers `None` with two rows never delivered. -/
example :
    let f : Frame Nat := (Impl.step (Impl.initLazy 100 [[10, 20, 30]] none true) .fetchone).1
    let g : Frame Nat := { f with backing := match f.backing with | .lazy src => .lazy src.drain | b => b }
    (Impl.run g [.fetchone, .fetchall]).2 = [.one none, .many []] := by decide

/-! ### the lazy views as chunk sources -/

/-- **The lazy views are chunk sources.**  The generators behind `filter`, `take` and `select`, translated
from the source as the lists they produce (`Gen.CursorFns.filterRows/takeRows/selectRows`), produce the
concatenation of one chunk of one or zero rows per parent row — the shape `lazy_refines_spec` is about.
(Round 2 had this by correspondence only.  Python's generator protocol is trusted.) -/
theorem generated_views_are_chunk_sources {β : Type} (rows : List α) (mask : List Bool) (indexes : List Nat)
    (get : α → Nat → β) (cols : List Nat) :
    Gen.CursorFns.filterRows rows mask = (filterChunks rows mask).flatten ∧
    Gen.CursorFns.takeRows rows indexes = (takeChunks rows indexes).flatten ∧
    Gen.CursorFns.selectRows get rows cols = (selectChunks get rows cols).flatten := by
  refine ⟨?_, ?_, ?_⟩
  · unfold Gen.CursorFns.filterRows filterChunks
    rw [filter_map_flatten]
    congr 1
    apply List.map_congr_left
    rintro ⟨t, m⟩ _
    cases m <;> simp
  · unfold Gen.CursorFns.takeRows takeChunks
    rw [filter_map_flatten, List.map_map]
    congr 1
    apply List.map_congr_left
    rintro ⟨m, i⟩ _
    by_cases h : i ∈ indexes <;> simp [h]
  · unfold Gen.CursorFns.selectRows selectChunks
    induction rows with
    | nil => rfl
    | cons r rows ih => simp [ih]

/-- …so a `filter` / `take` view read only through its cursor delivers a prefix of what the source's
generator expression produces. -/
theorem views_deliver_prefix (d : Nat) (rows : List α) (mask : List Bool) (indexes : List Nat) (ops : List (Op α))
    (hops : ∀ op ∈ ops, LazyOk op = true) :
    (∃ n, delivered (Impl.run (Impl.initLazy d (filterChunks rows mask) none false) ops).2
        = (Gen.CursorFns.filterRows rows mask).take n) ∧
    (∃ n, delivered (Impl.run (Impl.initLazy d (takeChunks rows indexes) none false) ops).2
        = (Gen.CursorFns.takeRows rows indexes).take n) := by
  have hv := generated_views_are_chunk_sources (β := α) rows mask indexes (fun a _ => a) []
  constructor
  · obtain ⟨n, _, h⟩ := lazy_delivers_prefix d (filterChunks rows mask) none false ops hops
    exact ⟨n, by rw [h, hv.1]; rfl⟩
  · obtain ⟨n, _, h⟩ := lazy_delivers_prefix d (takeChunks rows indexes) none false ops hops
    exact ⟨n, by rw [h, hv.2.1]; rfl⟩
/-! ## Part 4 — a frame and the frames derived from it -/

/-- Every method that hands out a new frame over rows of this one (`slice`, `head`, `tail`, `query`,
`distinct`, `+`, `to_batches`) gives it a row list of its own: `rows=self._rows[a:b]`, a list display, a
comprehension, a concatenation — never `self._rows` itself, never `self`. -/
theorem gen_derived_frames_own_rows : AllOwn := by
  intro h; cases h <;> decide

/-- …and `select` / `filter` / `take` hand out a new frame over a generator of their own (never `self`,
never the parent's list): what `SysOp.deriveLazy` models as a new frame is one. -/
theorem gen_views_are_new_frames :
    Gen.Cursor.selectIsNewFrame = true ∧ Gen.Cursor.filterIsNewFrame = true ∧ Gen.Cursor.takeIsNewFrame = true := by
  decide

/-- **Frames do not interfere** (clause 1: slicing, `+`, batching are read-only observations of the frame
they are applied to, and the frames they hand out are frames of their own).  In a system in which no two
frames hold one list — which is every system reachable with what the source says now
(`gen_derived_frames_own_rows`; the first conjunct is the invariant) — whatever the history does to the
other frames (fetches, appends, further derivations, on frames that exist or are made on the way),
frame `i` goes through its own history `proj i ops` and returns exactly what it would return alone. -/
theorem frames_independent (ops : List (SysOp α)) (s : Sys α) (hl : s.links = []) (i : Nat) (f : Frame α)
    (hf : s.frames[i]? = some f) :
    (Sys.run s ops).1.links = [] ∧
    (Sys.run s ops).1.frames[i]? = some (Impl.run f (Sys.proj i ops)).1 ∧
    Sys.trace i ops (Sys.run s ops).2 = (Impl.run f (Sys.proj i ops)).2 :=
  Sys.run_frame gen_derived_frames_own_rows ops s hl i f hf

/-- The contract for the frame the others were derived from: for every materialised frame and every
history of a system started from it — operations on it interleaved with derivations from it and from its
descendants and with fetches and *appends* on those — what its fetch calls return is what the spec
machine returns for its own operations: a prefix of its rows, and it refuses only after an append to
*it*.  No shared list ever arises. -/
theorem parent_contract_among_derived_frames (d : Nat) (rows : List α) (dicts rel : Bool) (ops : List (SysOp α)) :
    Sys.trace 0 ops (Sys.run (Sys.init d (Impl.initEager d rows dicts rel)) ops).2
      = (run (init d rows) (Impl.annot (Impl.initEager d rows dicts rel) (Sys.proj 0 ops))).2 ∧
    (∃ n, n ≤ rows.length ∧
      delivered (Sys.trace 0 ops (Sys.run (Sys.init d (Impl.initEager d rows dicts rel)) ops).2) = rows.take n) ∧
    (Sys.run (Sys.init d (Impl.initEager d rows dicts rel)) ops).1.links = [] := by
  have h := frames_independent ops (Sys.init d (Impl.initEager d rows dicts rel)) rfl 0 _ rfl
  rw [h.2.2]
  exact ⟨eager_refines_spec d rows dicts rel _, eager_delivers_prefix d rows dicts rel _, h.1⟩

/-- The contract for a derived frame: a frame handed out by `slice` / `head` / `tail` / `query` /
`distinct` / `+` / `to_batches` at any point of any history, holding `rows`, obeys the contract over
`rows` in every continuation — whatever is appended to or fetched from its parent or its siblings. -/
theorem derived_frame_contract (s : Sys α) (hl : s.links = []) (i : Nat) (how : Deriv) (rows : List α)
    (ops : List (SysOp α)) (hd : (Sys.step s (.derive i how rows)).2 = .unit) :
    Sys.trace s.frames.length ops (Sys.run (Sys.step s (.derive i how rows)).1 ops).2
      = (run (init s.default rows) (Impl.annot (Impl.initEager s.default rows false
          ((s.frames[i]?.map (·.schemaRel)).getD false)) (Sys.proj s.frames.length ops))).2 ∧
    ∃ n, n ≤ rows.length ∧
      delivered (Sys.trace s.frames.length ops (Sys.run (Sys.step s (.derive i how rows)).1 ops).2) = rows.take n := by
  cases hi : s.frames[i]? with
  | none => simp [Sys.step, hi] at hd
  | some g =>
    cases hb : g.backing with
    | lazy src => simp [Sys.step, hi, hb] at hd
    | eager prows p =>
      have hs : (Sys.step s (.derive i how rows)).1 =
          { s with frames := s.frames ++ [Impl.initEager s.default rows false g.schemaRel] } := by
        simp [Sys.step, hi, hb, gen_derived_frames_own_rows how]
      rw [hs]
      have h := frames_independent ops { s with frames := s.frames ++ [Impl.initEager s.default rows false g.schemaRel] }
        hl s.frames.length (Impl.initEager s.default rows false g.schemaRel) (by simp)
      rw [h.2.2]
      exact ⟨eager_refines_spec _ rows false _ _, eager_delivers_prefix _ rows false _ _⟩

/-- The same for a lazy view (`select` / `filter` / `take` of a materialised frame) read only through its
cursor, while the parent is fetched from and observed.  (The view reads the parent's list when it is
read: what it holds after an append to the parent is not defined by the property, and the model treats
the view as a source of its own — the harness does not read a view after its parent was appended to.) -/
theorem derived_view_contract (s : Sys α) (hl : s.links = []) (i : Nat) (tables : List (List α))
    (ops : List (SysOp α)) (hd : (Sys.step s (.deriveLazy i tables)).2 = .unit)
    (hops : ∀ op ∈ Sys.proj s.frames.length ops, LazyOk op = true) :
    Sys.trace s.frames.length ops (Sys.run (Sys.step s (.deriveLazy i tables)).1 ops).2
      = (run (init s.default (chunkRows tables none))
          (Impl.annot (Impl.initLazy s.default tables none false) (Sys.proj s.frames.length ops))).2 ∧
    ∃ n, n ≤ (chunkRows tables none).length ∧
      delivered (Sys.trace s.frames.length ops (Sys.run (Sys.step s (.deriveLazy i tables)).1 ops).2)
        = (chunkRows tables none).take n := by
  cases hi : s.frames[i]? with
  | none => simp [Sys.step, hi] at hd
  | some g =>
    cases hb : g.backing with
    | lazy src => simp [Sys.step, hi, hb] at hd
    | eager prows p =>
      have hs : (Sys.step s (.deriveLazy i tables)).1 =
          { s with frames := s.frames ++ [Impl.initLazy s.default tables none false] } := by
        simp [Sys.step, hi, hb]
      rw [hs]
      have h := frames_independent ops { s with frames := s.frames ++ [Impl.initLazy s.default tables none false] }
        hl s.frames.length (Impl.initLazy s.default tables none false) (by simp)
      rw [h.2.2]
      exact ⟨lazy_refines_spec _ tables none false _ hops, lazy_delivers_prefix _ tables none false _ hops⟩

/-- Why the derivations must own their rows: two frames over one list (`links`).  The slice of a 2-row
frame is appended to; the frame it was taken from — never appended to, its cursor live — delivers the
foreign row. -/
example :
    let p : Frame Nat := (Impl.step (Impl.initEager 100 [10, 20] false false) .fetchone).1
    let s : Sys Nat := { frames := [p, Impl.initEager 100 [10, 20] false false], links := [(1, 0)], default := 100 }
    (Sys.run s [.on 1 (.append 99), .on 0 .fetchall, .on 1 .fetchone]).2 = [.unit, .many [20, 99], .err] := by decide

/-- …and with what the source says now the same history leaves the first frame alone. -/
example :
    (Sys.run (Sys.init 100 (Impl.initEager 100 [10, 20] false false))
      [.on 0 .fetchone, .derive 0 .head [10, 20], .on 1 (.append 99), .on 0 .fetchall, .on 1 .fetchone, .on 0 .fetchone]).2
      = [.one (some 10), .unit, .unit, .many [20], .err, .one none] := by decide

/-! ## Part 5 — what the observers do with the frame

The bodies of the observers are not in the model.  What every member of `DataFrame`, and every function
of orso a frame is handed to, does with `_cursor` and `_rows` is lifted from the source on every run
(`Gen.CursorFootprint.units`, harness/extractors/c04_footprint.py); the call graph over it is closed in
`Lemmas/CursorFootprint.lean`. -/

/-- **Only the cursor API reaches the cursor.**  Whatever member of `DataFrame` other than `__init__`,
`append` and the three fetch methods is used on a frame — directly, through another member, or through
`display.ascii_table/markdown/html_table`, `converters.to_arrow/to_pandas/to_polars`, `GroupBy`,
`TableProfile.from_dataframe` — nothing that is reached mentions `_cursor`, changes the row list in
place, hands the frame to code outside the table, or is a fetch or an append.  (Clause 1, the observers;
the analysis is syntactic, see the extractor for what it trusts.) -/
theorem observers_leave_cursor_alone :
    ∀ u ∈ Gen.CursorFootprint.units, u.name ∉ Footprint.cursorApi → Footprint.leavesCursorAlone u.name = true := by
  decide +kernel

/-- **The schema-level observers do not look at the rows**: `column_names`, `columncount`, `description`,
`schema` reach neither `_rows` nor `materialize()` nor an iteration — which is why a lazily backed frame
may be shown to them between fetches (clause 4: "read only through the cursor"). -/
theorem schema_observers_do_not_read_rows :
    ∀ n ∈ Gen.CursorFootprint.schemaObservers, Footprint.schemaOnly n = true ∧ (Footprint.find n).isSome = true := by
  decide +kernel

/-- Non-vacuity of the footprint table: it has the members, the call graph is followed (`shape` reaches
`materialize` through `rowcount`), and the predicates do reject (`append`, `rowcount`). -/
example : Footprint.reach "shape" = ["shape", "columncount", "rowcount", "materialize"] ∧
    Footprint.leavesCursorAlone "append" = false ∧ Footprint.leavesCursorAlone "fetchall" = false ∧
    Footprint.schemaOnly "rowcount" = false ∧ Gen.CursorFootprint.units.length ≥ 40 ∧
    Gen.CursorFootprint.extracted = true := by decide +kernel

/-- Non-vacuity: a concrete history over a 3-row frame exercising every operation. -/
example :
    let r := run (init 2 [10, 20, 30]) [.fetchone, .observe .rows, .fetchmany none, .fetchmany (some 5), .fetchone, .append 40, .fetchall]
    delivered r.2 = [10, 20, 30] ∧ r.1.pos = 3 ∧ r.1.valid = false := by decide

/-- Non-vacuity of the lazy clause: tables of 2, 0 and 3 rows (an empty one in the middle), an empty one
first and last; `fetchall` crosses the empty table, the end is final. -/
example :
    let r := Impl.run (Impl.initLazy 2 [[], [10, 20], [], [30, 40, 50], []] none true)
      [.fetchone, .fetchmany none, .observe .pure, .fetchall, .fetchone, .fetchmany (some 3), .fetchall]
    r.2 = [.one (some 10), .many [20, 30], .unit, .many [40, 50], .one none, .many [], .many []] := by decide

/-- …and with `max_size = 3` the frame has three rows. -/
example :
    (Impl.run (Impl.initLazy 2 [[10, 20], [], [30, 40, 50]] (some 3) true) [.fetchmany (some 5), .fetchone]).2
      = [.many [10, 20, 30], .one none] := by decide

/-- Why the lazy clause says "read only through the cursor": a row-level observer on a lazily backed
frame is outside the model (`Out.outside`), the machine claims nothing about it. -/
example : (Impl.step (Impl.initLazy 2 [[10]] none true) (.observe .rows)).2 = (.outside : Out Nat) := by decide

end C04
