import OrsoVerif.Model.Cursor
/-!
# C04 — Cursor fetches deliver every row exactly once, in order

Property theorems only.  The statements quantify over every frame, every element
type and every finite history of operations.
-/
namespace C04
open Cursor

variable {α : Type}

/-- Invariant relating a state reached from `init d rows₀` to what has been delivered so far. -/
def Inv (rows₀ : List α) (s : State α) (acc : List α) : Prop :=
  acc = rows₀.take s.pos ∧ s.pos ≤ rows₀.length ∧ (s.valid = true → s.rows = rows₀)

theorem step_inv (rows₀ : List α) (s : State α) (acc : List α) (op : Op α)
    (h : Inv rows₀ s acc) : Inv rows₀ (step s op).1 (acc ++ fetched (step s op).2) := by
  obtain ⟨hacc, hpos, hrows⟩ := h
  cases op with
  | fetchone =>
    unfold step
    by_cases hv : s.valid = true
    · have hr := hrows hv
      simp only [hv, if_true]
      cases hg : s.rows[s.pos]? with
      | none => exact ⟨by simp [fetched, hacc], hpos, hrows⟩
      | some r =>
        have hlt : s.pos < rows₀.length := by
          rw [hr] at hg
          exact (List.getElem?_eq_some_iff.mp hg).1
        have hget : rows₀[s.pos]? = some r := by rw [← hr]; exact hg
        refine ⟨?_, ?_, ?_⟩
        · simp only [fetched, hacc]
          rw [List.take_add_one, hget]; rfl
        · exact hlt
        · intro _; exact hr
    · simp [hv, Inv, fetched, hacc, hpos]
  | fetchmany k =>
    unfold step
    by_cases hv : s.valid = true
    · have hr := hrows hv
      simp only [hv, if_true]
      refine ⟨?_, ?_, ?_⟩
      · simp only [fetched, hacc, hr]
        rw [List.take_add]
        congr 1
        rw [List.length_take]
        exact List.take_eq_take_min
      · simp only [hr, List.length_take, List.length_drop]; omega
      · intro _; exact hr
    · simp [hv, Inv, fetched, hacc, hpos]
  | fetchall =>
    unfold step
    by_cases hv : s.valid = true
    · have hr := hrows hv
      simp only [hv, if_true]
      refine ⟨?_, ?_, ?_⟩
      · simp only [fetched, hacc, hr, List.length_drop]
        rw [List.take_add]
        congr 1
        rw [List.take_of_length_le]; simp
      · simp only [hr, List.length_drop]; omega
      · intro _; exact hr
    · simp [hv, Inv, fetched, hacc, hpos]
  | setArraysize n => simp [step, Inv, fetched, hacc, hpos]; exact hrows
  | observe => simp [step, Inv, fetched, hacc, hpos]; exact hrows
  | append r => simp [step, Inv, fetched, hacc, hpos]

theorem run_inv (rows₀ : List α) (ops : List (Op α)) (s : State α) (acc : List α)
    (h : Inv rows₀ s acc) :
    Inv rows₀ (run s ops).1 (acc ++ delivered (run s ops).2) := by
  induction ops generalizing s acc with
  | nil => simpa [run, delivered] using h
  | cons op ops ih =>
    have h1 := step_inv rows₀ s acc op h
    have h2 := ih (step s op).1 _ h1
    simpa [run, delivered, List.append_assoc] using h2

/-- **Delivered rows are a prefix.**  For every frame, every default arraysize and every
finite history, the concatenation of everything the fetch calls returned is exactly the
first `pos` rows of the frame, in order, none skipped or repeated. -/
theorem fetched_is_prefix (d : Nat) (rows : List α) (ops : List (Op α)) :
    delivered (run (init d rows) ops).2 = rows.take (run (init d rows) ops).1.pos
    ∧ (run (init d rows) ops).1.pos ≤ rows.length := by
  have h := run_inv rows ops (init d rows) [] (by simp [Inv, init])
  exact ⟨by simpa using h.1, h.2.1⟩

/-- `fetchmany k` returns `min k remaining` rows (arraysize when `k` is omitted). -/
theorem fetchmany_len (s : State α) (k : Option Nat) (hv : s.valid = true) :
    ∃ rs, (step s (.fetchmany k)).2 = .many rs ∧
      rs.length = min (k.getD s.arraysize) (s.rows.length - s.pos) ∧
      rs = (s.rows.drop s.pos).take (k.getD s.arraysize) := by
  refine ⟨(s.rows.drop s.pos).take (k.getD s.arraysize), ?_, ?_, rfl⟩
  · simp [step, hv]
  · simp [List.length_take, List.length_drop]

/-- After exhaustion `fetchone` gives `None` and the others an empty list; the state does not move. -/
theorem exhausted_outputs (s : State α) (hv : s.valid = true) (he : s.rows.length ≤ s.pos) (k : Option Nat) :
    step s .fetchone = (s, .one none) ∧
    step s (.fetchmany k) = (s, .many []) ∧
    step s .fetchall = (s, .many []) := by
  have h1 : s.rows[s.pos]? = none := List.getElem?_eq_none_iff.mpr he
  have h2 : s.rows.drop s.pos = [] := List.drop_eq_nil_iff.mpr he
  refine ⟨?_, ?_, ?_⟩
  · simp [step, hv, h1]
  · cases s; simp_all [step]
  · cases s; simp_all [step]

/-- `fetchall` delivers exactly the remaining rows and exhausts the cursor. -/
theorem fetchall_rest (s : State α) (hv : s.valid = true) (hp : s.pos ≤ s.rows.length) :
    (step s .fetchall).2 = .many (s.rows.drop s.pos) ∧ (step s .fetchall).1.pos = s.rows.length := by
  simp [step, hv]; omega

/-- Read-only observers and arraysize changes never move the cursor or change the rows. -/
theorem observe_noop (s : State α) (n : Nat) :
    step s .observe = (s, .unit) ∧
    (step s (.setArraysize n)).1.pos = s.pos ∧ (step s (.setArraysize n)).1.rows = s.rows ∧
    (step s (.setArraysize n)).1.valid = s.valid := by
  simp [step]

/-- Once a row has been appended every later fetch refuses to run, whatever else happens in between,
and the rows grew by exactly the appended row. -/
theorem after_append_refuses (s : State α) (r : α) (ops : List (Op α)) :
    (step s (.append r)).1.rows = s.rows ++ [r] ∧
    ∀ o ∈ (run (step s (.append r)).1 ops).2, fetched o = [] := by
  refine ⟨by simp [step], ?_⟩
  have key : ∀ (ops : List (Op α)) (t : State α), t.valid = false →
      ∀ o ∈ (run t ops).2, fetched o = [] := by
    intro ops
    induction ops with
    | nil => intro t _ o ho; simp [run] at ho
    | cons op ops ih =>
      intro t ht o ho
      simp only [run, List.mem_cons] at ho
      have hst : (step t op).1.valid = false := by
        cases op <;> simp [step, ht]
      rcases ho with rfl | ho
      · cases op <;> simp [step, ht, fetched]
      · exact ih _ hst o ho
  exact key ops _ (by simp [step])

/-- Non-vacuity: a concrete history over a 3-row frame exercising every operation. -/
example :
    let r := run (init 2 [10, 20, 30]) [.fetchone, .observe, .fetchmany none, .fetchmany (some 5), .fetchone, .append 40, .fetchall]
    delivered r.2 = [10, 20, 30] ∧ r.1.pos = 3 ∧ r.1.valid = false := by decide

end C04
