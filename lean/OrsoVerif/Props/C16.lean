import OrsoVerif.Lemmas.Persist
import OrsoVerif.Lemmas.PersistPy
/-!
# C16 — Schemas and columns survive persistence round-trips unchanged

Property theorems only, about `Model/Persist.lean` (`init` = `FlatColumn.__init__`, `toFlat` =
`to_flatcolumn`, `toDict`/`fromDict` = `RelationSchema.to_dict`/`from_dict`, `jsonRoundTrip` =
`FlatColumn.from_json(c.to_json())`, `vcols` = what `RelationSchema.validate` reads, `describe` = what
`DataFrame.description` reports).  The model interprets the lists of `Generated/Persist.lean` (declared
fields, keywords forwarded by `to_flatcolumn`, attributes restored by `from_dict`, disposition members)
and of `Generated/TypeName.lean` (type names and what they resolve to), re-extracted on every run: a
dropped or swapped attribute makes the proofs below fail.

Values enter through a `Caster K` (truthiness, the type's cast, the effect of JSON on a value).  The
only thing assumed of the cast is C07's first clause, as a hypothesis where it is used:

  `hIdem : ∀ m v w, K.parse m v = some w → K.truthy w = true → K.parse m w = some w`
  (casting a value the cast produced gives that value)

and, for JSON, `DefaultSurvivesJson` (casting the JSON rendering of the default gives it back — C07's
"canonical rendering" clause) and `JsonNative` (the statistics are values JSON carries unchanged).

`Persistable c`: the type is a base type or untyped, the element type a base type, an ARRAY names its
element type, the disposition is a member.  Outside it the written form does not determine the column;
the counterexamples at the end are the open findings C16-K01..K03.
-/
namespace C16
open Persist
open TypeName (Str Ty)

variable {V : Type}

/-- **The constructor's normalisation is idempotent.**  Whatever keyword arguments a column was built
from, building a column again from its seventeen attributes (type and element type as stored, default
as cast, DECIMAL precision and scale as defaulted) gives the same column. -/
theorem init_idempotent (K : Caster V)
    (hIdem : ∀ m v w, K.parse m v = some w → K.truthy w = true → K.parse m w = some w)
    (fresh fresh' : String) (r : Raw V) (c : Col V) (h : init K fresh r = .ok c) :
    init K fresh' (rawOf c) = .ok c :=
  init_rawOf K fresh' c (init_establishes K hIdem fresh r c h)

/-- **Flattening keeps the eleven attributes the statement lists** — identity, name, type, precision,
scale, element type, nullability, default, aliases, description and the three statistics — for any
column the constructor produced (every subclass shares `to_flatcolumn` and `__init__`).  It succeeds:
the default is not re-cast into something else and a defaulted DECIMAL precision stays. -/
theorem toFlat_preserves (K : Caster V)
    (hIdem : ∀ m v w, K.parse m v = some w → K.truthy w = true → K.parse m w = some w)
    (fresh fresh' : String) (r : Raw V) (c : Col V) (h : init K fresh r = .ok c) :
    ∃ c', toFlat K fresh' c = .ok c'
      ∧ c'.identity = c.identity ∧ c'.name = c.name ∧ c'.type = c.type
      ∧ c'.precision = c.precision ∧ c'.scale = c.scale ∧ c'.element_type = c.element_type
      ∧ c'.nullable = c.nullable ∧ c'.default = c.default ∧ c'.aliases = c.aliases
      ∧ c'.description = c.description
      ∧ c'.highest_value = c.highest_value ∧ c'.lowest_value = c.lowest_value ∧ c'.null_count = c.null_count :=
  ⟨_, toFlat_eq K fresh' c (init_establishes K hIdem fresh r c h),
    rfl, rfl, rfl, rfl, rfl, rfl, rfl, rfl, rfl, rfl, rfl, rfl, rfl⟩

/-- **A schema written to a dictionary and read back is the same schema**: its name, aliases and
primary key, and every column in every declared attribute (name, type with length, precision, scale and
element type, nullability, default, aliases, description, disposition, identity, statistics; also
origin and expectations), for every schema whose columns are constructed and persistable. -/
theorem fromDict_toDict (K : Caster V) (fresh : String) (s : Schema V)
    (h : ∀ c ∈ s.columns, Constructed K c ∧ Persistable c) :
    fromDict K fresh (toDict s) = .ok s :=
  fromDict_toDict_eq K fresh s h

/-- … in particular for every schema whose columns came out of the constructor. -/
theorem fromDict_toDict_of_init (K : Caster V)
    (hIdem : ∀ m v w, K.parse m v = some w → K.truthy w = true → K.parse m w = some w)
    (fresh : String) (s : Schema V)
    (h : ∀ c ∈ s.columns, (∃ f r, init K f r = .ok c) ∧ Persistable c) :
    fromDict K fresh (toDict s) = .ok s :=
  fromDict_toDict_eq K fresh s fun c hc =>
    let ⟨⟨f, r, hi⟩, hp⟩ := h c hc
    ⟨init_establishes K hIdem f r c hi, hp⟩

/-- **A column written to JSON and read back is the same column**, when JSON can carry its values:
the statistics are JSON-native and the default's JSON rendering casts back to it. -/
theorem fromJson_toJson (K : Caster V) (fresh : String) (c : Col V)
    (hc : Constructed K c) (hp : Persistable c) (hn : JsonNative K c) (hd : DefaultSurvivesJson K c) :
    jsonRoundTrip K fresh c = .ok c :=
  jsonRoundTrip_eq K fresh c hc hp hn hd

/-- **The restored schema accepts and rejects the same records** (C05's `validate`, on what validation
reads of each column), with the same error content. -/
theorem restored_validates_same (K : Caster V) (fresh : String) (s s' : Schema V)
    (h : ∀ c ∈ s.columns, Constructed K c ∧ Persistable c)
    (hr : fromDict K fresh (toDict s) = .ok s') (rec : Validate.Record) :
    Validate.validate (vcols s') rec = Validate.validate (vcols s) rec := by
  rw [fromDict_toDict_eq K fresh s h] at hr
  cases hr
  rfl

/-- **The restored schema reports the same column descriptions.** -/
theorem restored_describes_same (K : Caster V) (fresh : String) (s s' : Schema V)
    (h : ∀ c ∈ s.columns, Constructed K c ∧ Persistable c)
    (hr : fromDict K fresh (toDict s) = .ok s') :
    describe s' = describe s := by
  rw [fromDict_toDict_eq K fresh s h] at hr
  cases hr
  rfl

/-- A persistable column's description never raises (type and element type are members). -/
theorem persistable_describes (c : Col V) (hp : Persistable c) : (describeCol c).isSome = true :=
  describeCol_isSome c hp

/-! ## the extracted lists carry every attribute the statement names

These mention the generated definitions directly: removing an attribute from the dataclass, a keyword
from `to_flatcolumn` or from `from_dict` (or reading it from another attribute / key) fails here by name,
besides breaking the round-trip theorems above. -/

/-- every attribute the statement lists for a column is a declared field (written by `to_dict` /
`to_json`, read by the constructor) -/
theorem listed_attributes_declared :
    ∀ k ∈ ["name", "type", "length", "precision", "scale", "element_type", "nullable", "default", "aliases",
           "description", "disposition", "identity", "highest_value", "lowest_value", "null_count"],
      k ∈ Gen.Persist.columnFields := by decide

/-- `to_flatcolumn` forwards each attribute the statement lists for flattening, from the attribute of the
same name -/
theorem flat_forwards_listed :
    ∀ k ∈ ["identity", "name", "type", "precision", "scale", "element_type", "nullable", "default", "aliases",
           "description", "highest_value", "lowest_value", "null_count"],
      Gen.Persist.flatKwargs.lookup k = some k := by decide

/-- `to_dict` writes, and `from_dict` restores from the key of the same name, the schema's name, aliases,
primary key and columns -/
theorem from_dict_restores_listed :
    Gen.Persist.toDictAsdict = true
    ∧ ∀ k ∈ ["name", "aliases", "primary_key", "columns"],
        k ∈ Gen.Persist.schemaFields ∧ Gen.Persist.fromDictRestores.lookup k = some k := by decide

/-! ## the boundary: what the written forms do not carry (open findings), proved of the model -/

/-- a concrete column over the driver's values -/
def col (name : String) (ty : String) : Col PyVal :=
  { name := name, default := .none, type := .member ty.toList, element_type := none, description := none,
    disposition := none, aliases := some [], nullable := true, expectations := [], identity := "id-" ++ name,
    length := none, precision := none, scale := none, origin := [], highest_value := .none, lowest_value := .none,
    null_count := none }

/-- C16-K03: an ARRAY column without an element type (declared with the member, or as `LIST`) is
written as `'ARRAY'` and read back with the default element type VARCHAR. -/
theorem array_without_element_type_changes :
    colFromDict Py.caster "f" (colToDict (col "a" "ARRAY"))
      = .ok { col "a" "ARRAY" with element_type := some (.member "VARCHAR".toList) } := by
  decide

/-- C16-K02: a statistic that JSON renders in another form (a date becomes its ISO text) comes back
as that other form. -/
theorem json_changes_temporal_statistics :
    jsonRoundTrip Py.caster "f" { col "a" "DATE" with highest_value := Py.tagged "date" "2020-01-02" }
      = .ok { col "a" "DATE" with highest_value := .str "2020-01-02" } := by
  decide

/-- C16-K01: a default (or statistic) JSON cannot carry — bytes, Decimal, timedelta, integers beyond 64
bits — makes `to_json` raise TypeError. -/
theorem json_unserialisable_raises :
    jsonRoundTrip Py.caster "f" { col "a" "BLOB" with default := .bytes [1, 2] } = .error .type
    ∧ jsonRoundTrip Py.caster "f" { col "a" "DECIMAL" with default := Py.tagged "Decimal" "1.5", precision := some 10, scale := some 2 }
        = .error .type
    ∧ jsonRoundTrip Py.caster "f" { col "a" "INTEGER" with lowest_value := .int (-(2 ^ 64)) } = .error .type
    ∧ jsonRoundTrip Py.caster "f" { col "a" "VARCHAR" with length := some (10 ^ 20) } = .error .type := by
  decide

/-- C16-K04: a TIME default is written as `'HH:MM:SS'`, which the TIME cast does not read. -/
theorem json_time_default_raises :
    jsonRoundTrip Py.caster "f" { col "a" "TIME" with default := Py.tagged "time" "03:04:05" } = .error .value := by
  decide

/-- C16-F08 (repaired): an ARRAY column whose element type is the untyped member is written with the
member's value `'0'`, and `from_dict` maps that value back to the member - for the element type as it
does for the type; before the repair the element type came back as the integer `0` (`Ty.zero`). -/
theorem untyped_element_type_restored :
    colFromDict Py.caster "f" (colToDict { col "a" "ARRAY" with element_type := some (.member "_MISSING_TYPE".toList) })
      = .ok { col "a" "ARRAY" with element_type := some (.member "_MISSING_TYPE".toList) }
    ∧ init Py.caster "f" (colToDict { col "a" "ARRAY" with element_type := some (.member "_MISSING_TYPE".toList) })
      = .ok { col "a" "ARRAY" with element_type := some .zero } := by
  decide

/-! ## non-vacuity -/

/-- a schema with an untyped column, a defaulted DECIMAL, a disposition, an ARRAY<T>, a default and statistics
meets the hypotheses (over the driver's values) … -/
def demo : Schema PyVal :=
  { name := "t", aliases := ["u"], primary_key := some "k",
    columns := [
      col "u" "_MISSING_TYPE",
      { col "d" "DECIMAL" with precision := some 28, scale := some 21, disposition := some "AGE", nullable := false },
      { col "l" "ARRAY" with element_type := some (.member "DATE".toList), aliases := some ["x", "y"] },
      { col "m" "ARRAY" with element_type := some (.member "_MISSING_TYPE".toList) },
      { col "k" "INTEGER" with default := .int 7, highest_value := .int 9, lowest_value := .int (-1), null_count := some 0,
                               description := some "key" },
      { col "v" "VARCHAR" with length := some 12, default := .str "" } ] }

theorem nonvacuity_demo : ∀ c ∈ demo.columns, Constructed Py.caster c ∧ Persistable c := by
  intro c hc
  have : ∀ c ∈ demo.columns, constructedB Py.caster c = true ∧ persistableB c = true := by decide
  exact ⟨constructed_of_B _ c (this c hc).1, persistable_of_B c (this c hc).2⟩

/-- … and the round trip is then computed by the model to be the identity (also by evaluation). -/
example : fromDict Py.caster "fresh" (toDict demo) = .ok demo := fromDict_toDict Py.caster "fresh" demo nonvacuity_demo

example : fromDict Py.caster "fresh" (toDict demo) = .ok demo := by decide

/-- the JSON theorem's hypotheses are met by a DATE column with a date default (written as ISO text, cast
back by the DATE cast), JSON-native statistics and a disposition -/
def dateCol : Col PyVal :=
  { col "d" "DATE" with default := Py.tagged "date" "2020-01-02", highest_value := .int 3, lowest_value := .str "a",
                        null_count := some 2, disposition := some "NAME", nullable := false }

example : jsonRoundTrip Py.caster "f" dateCol = .ok dateCol :=
  fromJson_toJson Py.caster "f" dateCol (constructed_of_B _ _ (by decide)) (persistable_of_B _ (by decide))
    ⟨by decide, by decide, by decide, by decide⟩ ⟨.str "2020-01-02", by decide, by decide⟩

/-- The hypothesis `hIdem` is satisfiable: the caster the driver runs against the implementation meets it
(proved in `Lemmas/PersistPy.lean`), so the theorems apply to every column that model constructs. -/
theorem driver_caster_idem (m : Str) (v w : PyVal) (h : Py.caster.parse m v = some w)
    (hw : Py.caster.truthy w = true) : Py.caster.parse m w = some w :=
  Py.caster_idem m v w h hw

example (fresh : String) (r : Raw PyVal) (c : Col PyVal) (h : init Py.caster fresh r = .ok c) :
    init Py.caster "other" (rawOf c) = .ok c ∧ ∃ c', toFlat Py.caster "other" c = .ok c' ∧ c'.identity = c.identity :=
  ⟨init_idempotent Py.caster driver_caster_idem fresh "other" r c h,
   let ⟨c', h1, h2, _⟩ := toFlat_preserves Py.caster driver_caster_idem fresh "other" r c h
   ⟨c', h1, h2⟩⟩

/-- the constructor on raw keyword arguments: a type name is resolved, the default cast, DECIMAL defaulted;
flattening drops only what the statement does not list. -/
example :
    init Py.caster "fresh" { name := some "p", type := some (.text "decimal(10,2)".toList), default := some (.int 0) }
      = .ok { col "p" "DECIMAL" with default := .int 0, precision := some 10, scale := some 2, identity := "fresh" }
    ∧ init Py.caster "fresh" { name := some "q", type := some (.text "integer".toList), default := some (.str "-12"),
                                disposition := some (some (.text "name")) }
      = .ok { col "q" "INTEGER" with default := .int (-12), disposition := some "NAME", identity := "fresh" }
    ∧ init Py.caster "fresh" { name := some "q", type := some (.text "integer".toList), default := some (.str "x") }
      = .error .value
    ∧ init Py.caster "fresh" ({ } : Raw PyVal) = .error .columnDefinition := by
  decide

end C16
