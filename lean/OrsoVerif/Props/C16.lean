import OrsoVerif.Lemmas.Persist
import OrsoVerif.Lemmas.PersistAll
import OrsoVerif.Lemmas.PersistPy
import OrsoVerif.Lemmas.PersistFns
import OrsoVerif.Lemmas.PersistSession
/-!
# C16 — Schemas and columns survive persistence round-trips unchanged

Property theorems only, about `Model/Persist.lean` (`init` = `FlatColumn.__init__`, `toFlat` =
`to_flatcolumn`, `toDict`/`fromDict` = `RelationSchema.to_dict`/`from_dict`, `jsonRoundTrip` =
`FlatColumn.from_json(c.to_json())`, `vcols` = what `RelationSchema.validate` reads, `describe` = what
`DataFrame.description` reports).  The model interprets the lists of `Generated/Persist.lean` (declared
fields, keywords forwarded by `to_flatcolumn`, attributes restored by `from_dict`, disposition members)
and of `Generated/TypeName.lean` (type names and what they resolve to), re-extracted on every run: a
dropped or swapped attribute makes the proofs below fail.

Values enter through a `Caster K` (truthiness, the type's cast, the effect of JSON on a value).  The
only thing assumed of the cast is C07's first clause, as a hypothesis where it is used:

  `hIdem : ∀ m v w, K.parse m v = some w → K.truthy w = true → K.parse m w = some w`
  (casting a value the cast produced gives that value)

and, for JSON, `DefaultSurvivesJson` (casting the JSON rendering of the default gives it back — C07's
"canonical rendering" clause) and `JsonNative` (the statistics are values JSON carries unchanged).

`Persistable c`: the type is a base type or untyped, the element type (if any) a base type or untyped, the
disposition is a member.  Outside it the written form does not determine the column (a stored type that
is the int 0).  The counterexamples at the end are the open findings C16-K01, K02; K03 (ARRAY without
element type) and K04 (TIME default through JSON) are repaired and their theorems are positive now.

Round 2: the model also interprets, statement by statement, `FlatColumn.from_dict`
(`Gen.Persist.fromDictRules`), the fill statements of the type-literal block of `__init__`
(`Gen.Persist.initFills`, with their guards), the guards of the DECIMAL defaults
(`Gen.Persist.decimalFills`), the attribute `_converter` writes for an enum (`Gen.Persist.enumWrittenAs`)
and which loader `RelationSchema.from_dict` / `from_json` call (`Gen.Persist.columnLoader`/`jsonLoader`).
-/
namespace C16
open Persist
open TypeName (Str Ty)

variable {V : Type}

/-- **The constructor's normalisation is idempotent.**  Whatever keyword arguments a column was built
from, building a column again from its seventeen attributes (type and element type as stored, default
as cast, DECIMAL precision and scale as defaulted) gives the same column. -/
theorem init_idempotent (K : Caster V)
    (hIdem : ∀ m v w, K.parse m v = some w → K.truthy w = true → K.parse m w = some w)
    (fresh fresh' : String) (r : Raw V) (c : Col V) (h : init K fresh r = .ok c) :
    init K fresh' (rawOf c) = .ok c :=
  init_rawOf K fresh' c (init_establishes K hIdem fresh r c h)

/-- **Flattening keeps the eleven attributes the statement lists** — identity, name, type, precision,
scale, element type, nullability, default, aliases, description and the three statistics — for any
column the constructor produced (every subclass shares `to_flatcolumn` and `__init__`).  It succeeds:
the default is not re-cast into something else and a defaulted DECIMAL precision stays. -/
theorem toFlat_preserves (K : Caster V)
    (hIdem : ∀ m v w, K.parse m v = some w → K.truthy w = true → K.parse m w = some w)
    (fresh fresh' : String) (r : Raw V) (c : Col V) (h : init K fresh r = .ok c) :
    ∃ c', toFlat K fresh' c = .ok c'
      ∧ c'.identity = c.identity ∧ c'.name = c.name ∧ c'.type = c.type
      ∧ c'.precision = c.precision ∧ c'.scale = c.scale ∧ c'.element_type = c.element_type
      ∧ c'.nullable = c.nullable ∧ c'.default = c.default ∧ c'.aliases = c.aliases
      ∧ c'.description = c.description
      ∧ c'.highest_value = c.highest_value ∧ c'.lowest_value = c.lowest_value ∧ c'.null_count = c.null_count :=
  ⟨_, toFlat_eq K fresh' c (init_establishes K hIdem fresh r c h),
    rfl, rfl, rfl, rfl, rfl, rfl, rfl, rfl, rfl, rfl, rfl, rfl, rfl⟩

/-- **Flattening reads the column's current state.**  For a column in *any* state that satisfies what the
constructor establishes (attributes assigned after construction included - statistics recorded later,
aliases and nullability adjusted by a planner), `to_flatcolumn` returns exactly the current attributes,
with disposition, expectations, length and origin reset: no earlier flat copy, no attribute of another
moment can show through. -/
theorem toFlat_of_constructed (K : Caster V) (fresh : String) (c : Col V) (hc : Constructed K c) :
    toFlat K fresh c = .ok { c with disposition := none, expectations := [], length := none, origin := [] } :=
  toFlat_eq K fresh c hc

/-- **A schema written to a dictionary and read back is the same schema**: its name, aliases and
primary key, and every column in every declared attribute (name, type with length, precision, scale and
element type, nullability, default, aliases, description, disposition, identity, statistics; also
origin and expectations), for every schema whose columns are constructed and persistable. -/
theorem fromDict_toDict (K : Caster V) (fresh : String) (s : Schema V)
    (h : ∀ c ∈ s.columns, Constructed K c ∧ Persistable c) :
    fromDict K fresh (toDict s) = .ok s :=
  fromDict_toDict_eq K fresh s h

/-- … in particular for every schema whose columns came out of the constructor. -/
theorem fromDict_toDict_of_init (K : Caster V)
    (hIdem : ∀ m v w, K.parse m v = some w → K.truthy w = true → K.parse m w = some w)
    (fresh : String) (s : Schema V)
    (h : ∀ c ∈ s.columns, (∃ f r, init K f r = .ok c) ∧ Persistable c) :
    fromDict K fresh (toDict s) = .ok s :=
  fromDict_toDict_eq K fresh s fun c hc =>
    let ⟨⟨f, r, hi⟩, hp⟩ := h c hc
    ⟨init_establishes K hIdem f r c hi, hp⟩

/-- **Full strength: every schema whose columns the constructor built.**  No vocabulary in the hypothesis: each
column is the result of `FlatColumn(**kwargs)` for *some* keyword arguments - any type literal (`'decimal(10,2)'`,
`'ARRAY<DATE>'`, `'VARIANT'`, the int 0, a member), any element type literal, any disposition literal, any default the
cast accepts, any other attributes - the only condition being that an enum member passed in is a member of its enum
(`WellTyped`, an identification, not a restriction).  In particular a column whose stored type is the int `0`
(`'VARIANT'`/`'MISSING'`/`'0'`, C06's reading) is written as 0 and read back as 0, and an ARRAY column without an element
type comes back without one (repair F09).  By C06's totality of `from_name`: a resolved name is a member or the int 0. -/
theorem fromDict_toDict_constructed (K : Caster V)
    (hIdem : ∀ m v w, K.parse m v = some w → K.truthy w = true → K.parse m w = some w)
    (fresh : String) (s : Schema V)
    (h : ∀ c ∈ s.columns, ∃ f r, WellTyped r ∧ init K f r = .ok c) :
    fromDict K fresh (toDict s) = .ok s :=
  fromDict_toDict_eq' K fresh s fun c hc =>
    let ⟨f, r, hw, hi⟩ := h c hc
    ⟨init_establishes K hIdem f r c hi, init_writable K f r c hi hw⟩

/-- ... and it **behaves identically**: the restored schema gives `validate` (C05's model) the same outcome on every
record and `DataFrame.description` (C06's type codes) the same entries - including the columns whose description
raises (a stored type that is the int 0): it raises on both sides. -/
theorem restored_behaves_same_constructed (K : Caster V)
    (hIdem : ∀ m v w, K.parse m v = some w → K.truthy w = true → K.parse m w = some w)
    (fresh : String) (s s' : Schema V)
    (h : ∀ c ∈ s.columns, ∃ f r, WellTyped r ∧ init K f r = .ok c)
    (hr : fromDict K fresh (toDict s) = .ok s') :
    (∀ rec : Validate.Record, Validate.validate (vcols s') rec = Validate.validate (vcols s) rec)
    ∧ describe s' = describe s := by
  rw [fromDict_toDict_constructed K hIdem fresh s h] at hr
  cases hr
  exact ⟨fun _ => rfl, rfl⟩

/-- the JSON round trip for every column the constructor built (stored type / element type possibly the int 0) -/
theorem fromJson_toJson_constructed (K : Caster V)
    (hIdem : ∀ m v w, K.parse m v = some w → K.truthy w = true → K.parse m w = some w)
    (fresh f : String) (r : Raw V) (c : Col V) (hw : WellTyped r) (hi : init K f r = .ok c)
    (hn : JsonNative K c) (hd : DefaultSurvivesJson K c) :
    jsonRoundTrip K fresh c = .ok c :=
  jsonRoundTrip_eq' K fresh c (init_establishes K hIdem f r c hi) (init_writable K f r c hi hw) hn hd

/-- **A column written to JSON and read back is the same column**, when JSON can carry its values:
the statistics are JSON-native and the default's JSON rendering casts back to it. -/
theorem fromJson_toJson (K : Caster V) (fresh : String) (c : Col V)
    (hc : Constructed K c) (hp : Persistable c) (hn : JsonNative K c) (hd : DefaultSurvivesJson K c) :
    jsonRoundTrip K fresh c = .ok c :=
  jsonRoundTrip_eq K fresh c hc hp hn hd

/-- **The restored schema accepts and rejects the same records** (C05's `validate`, on what validation
reads of each column), with the same error content. -/
theorem restored_validates_same (K : Caster V) (fresh : String) (s s' : Schema V)
    (h : ∀ c ∈ s.columns, Constructed K c ∧ Persistable c)
    (hr : fromDict K fresh (toDict s) = .ok s') (rec : Validate.Record) :
    Validate.validate (vcols s') rec = Validate.validate (vcols s) rec := by
  rw [fromDict_toDict_eq K fresh s h] at hr
  cases hr
  rfl

/-- **The restored schema reports the same column descriptions.** -/
theorem restored_describes_same (K : Caster V) (fresh : String) (s s' : Schema V)
    (h : ∀ c ∈ s.columns, Constructed K c ∧ Persistable c)
    (hr : fromDict K fresh (toDict s) = .ok s') :
    describe s' = describe s := by
  rw [fromDict_toDict_eq K fresh s h] at hr
  cases hr
  rfl

/-- **Reading the same written form again gives the same schema again** (a dictionary can be loaded any
number of times; the second load equals the first, and both equal the original). -/
theorem fromDict_repeatable (K : Caster V) (fresh fresh' : String) (s : Schema V)
    (h : ∀ c ∈ s.columns, Constructed K c ∧ Persistable c) :
    fromDict K fresh' (toDict s) = fromDict K fresh (toDict s) := by
  rw [fromDict_toDict_eq K fresh s h, fromDict_toDict_eq K fresh' s h]

/-- **Persisting the restored schema writes the same dictionary** (to_dict ∘ from_dict ∘ to_dict = to_dict). -/
theorem toDict_stable (K : Caster V) (fresh : String) (s s' : Schema V)
    (h : ∀ c ∈ s.columns, Constructed K c ∧ Persistable c)
    (hr : fromDict K fresh (toDict s) = .ok s') : toDict s' = toDict s := by
  rw [fromDict_toDict_eq K fresh s h] at hr
  cases hr
  rfl

/-- A persistable column's description never raises (type and element type are members). -/
theorem persistable_describes (c : Col V) (hp : Persistable c) : (describeCol c).isSome = true :=
  describeCol_isSome c hp

/-! ## the extracted lists carry every attribute the statement names

These mention the generated definitions directly: removing an attribute from the dataclass, a keyword
from `to_flatcolumn` or from `from_dict` (or reading it from another attribute / key) fails here by name,
besides breaking the round-trip theorems above. -/

/-- every attribute the statement lists for a column is a declared field (written by `to_dict` /
`to_json`, read by the constructor) -/
theorem listed_attributes_declared :
    ∀ k ∈ ["name", "type", "length", "precision", "scale", "element_type", "nullable", "default", "aliases",
           "description", "disposition", "identity", "highest_value", "lowest_value", "null_count"],
      k ∈ Gen.Persist.columnFields := by decide

/-- `to_flatcolumn` forwards each attribute the statement lists for flattening, from the attribute of the
same name -/
theorem flat_forwards_listed :
    ∀ k ∈ ["identity", "name", "type", "precision", "scale", "element_type", "nullable", "default", "aliases",
           "description", "highest_value", "lowest_value", "null_count"],
      Gen.Persist.flatKwargs.lookup k = some k := by decide

/-- `to_dict` writes, and `from_dict` restores from the key of the same name, the schema's name, aliases,
primary key and columns -/
theorem from_dict_restores_listed :
    Gen.Persist.toDictAsdict = true
    ∧ ∀ k ∈ ["name", "aliases", "primary_key", "columns"],
        k ∈ Gen.Persist.schemaFields ∧ Gen.Persist.fromDictRestores.lookup k = some k := by decide

/-! ## the statements of the loaders and of the constructor, as extracted -/

/-- **Declared parameters win over parsed ones, 0 included.**  In the block of `__init__` that maps a type
literal, an explicitly given length / precision / scale (any value: `x is None` guards, not `x or parsed`)
and element type are kept whatever the type name says.  This is what lets `DECIMAL(12,0)`, `VARCHAR[0]`
survive a reload: they are written as `'DECIMAL'` + `scale = 0`, `'VARCHAR'` + `length = 0`. -/
theorem declared_parameters_kept (t : RawTy) (e : RawTy) (l p s : Nat) (r : Resolved)
    (h : resolveType t (some e) (some l) (some p) (some s) = .ok r) :
    r.elem = some e ∧ r.length = some l ∧ r.precision = some p ∧ r.scale = some s := by
  unfold resolveType at h
  have f1 := fill_some "element_type" rawTyFalsy
  have f2 := fill_some "length" (fun n : Nat => n == 0)
  have f3 := fill_some "precision" (fun n : Nat => n == 0)
  have f4 := fill_some "scale" (fun n : Nat => n == 0)
  split at h
  · cases h; exact ⟨rfl, rfl, rfl, rfl⟩
  · split at h
    · cases h
    · split at h
      · cases h; exact ⟨rfl, rfl, rfl, rfl⟩
      · cases h
        refine ⟨?_, ?_, ?_, ?_⟩ <;> dsimp only
        · exact f1 _ _ (Or.inl rfl)
        · exact f2 _ _ (Or.inr (Or.inl rfl))
        · exact f3 _ _ (Or.inr (Or.inr (Or.inl rfl)))
        · exact f4 _ _ (Or.inr (Or.inr (Or.inr rfl)))

/-- **A declared DECIMAL precision / scale is never replaced by the default, 0 included** (the guards of the two
defaulting statements are `is None`). -/
theorem decimal_defaults_only_fill_none (ty : Ty) (p s : Nat) :
    decimalPrecision ty (some p) = some p ∧ decimalScale ty (some p) (some s) = some s :=
  ⟨decimalPrecision_fixed (fun _ => rfl), decimalScale_fixed (fun _ => rfl)⟩

/-- the extracted statements have the shape the round trips need: every fill is guarded by `is None` and takes
the parsed field of the same meaning; the DECIMAL defaults are guarded by `is None`; an enum member is written
as its value; both loaders go through `FlatColumn.from_dict`; `from_dict` maps the written value of
`_MISSING_TYPE` back to the member for the type and for the element type, and hands a written `'ARRAY'` with a
null element type over as the member -/
theorem extracted_statements :
    Gen.Persist.initFills = [("element_type", "isNone", "elem"), ("precision", "isNone", "precision"),
                             ("scale", "isNone", "scale"), ("length", "isNone", "length")]
    ∧ Gen.Persist.decimalFills = [("precision", "isNone"), ("scale", "isNone")]
    ∧ Gen.Persist.enumWrittenAs = "value"
    ∧ Gen.Persist.columnLoader = "from_dict" ∧ Gen.Persist.jsonLoader = "from_dict"
    ∧ ([("eqValue", "type", "_MISSING_TYPE")], "type", "_MISSING_TYPE") ∈ Gen.Persist.fromDictRules
    ∧ ([("eqValue", "element_type", "_MISSING_TYPE")], "element_type", "_MISSING_TYPE") ∈ Gen.Persist.fromDictRules
    ∧ ([("eqValue", "type", "ARRAY"), ("present", "element_type", ""), ("isNone", "element_type", "")], "type", "ARRAY")
        ∈ Gen.Persist.fromDictRules := by
  decide

/-- **`from_dict` does not touch a dictionary it has nothing to repair in**: a hand-written column dictionary whose
type is a name other than `'0'`, with an element type other than `'0'`, and that is not a bare `'ARRAY'` with an
explicit null element type, reaches the constructor unchanged (so the loaders add nothing to what
`FlatColumn(**dic)` means for it). -/
theorem from_dict_only_repairs (K : Caster V) (fresh : String) (d : Raw V)
    (h1 : typeIs d missingName = false)
    (h2 : ∀ t, d.element_type = some (some t) → tyEqValue t missingName = false)
    (h3 : (typeIs d TypeName.litArray && elemIsNull d) = false) :
    colFromDict K fresh d = init K fresh d := by
  unfold colFromDict
  rw [prepare_eq]
  have he : restoreElem d.element_type = d.element_type := by
    unfold restoreElem
    split
    · rename_i t heq; rw [h2 t heq]; simp [heq]
    · rfl
  simp only [h1, Bool.false_eq_true, if_false, he]
  have hd : ({ d with element_type := d.element_type } : Raw V) = d := by cases d; rfl
  rw [hd, h3]
  rfl

/-! ## fourth pass: the persistence functions *as translated from the source, statement by statement*

`Generated/PersistFns.lean` (namespace `Gen.PersistFns`) is rewritten on every run by harness/extractors/c16_fns.py through
harness/pystmt.py: `FlatColumn.from_dict`, `from_json`, `to_json` with its `default_serializer`, `to_flatcolumn`,
`RelationSchema.from_dict` and `to_dict` with `_converter`, and every statement of `FlatColumn.__init__` after the attribute
loop.  The theorems below say that each translated function *is* the reference function of the model, and state the round
trips over the translated functions.  A change of the source that changes what one of these functions does changes the
text the theorem is about. -/

-- BEGIN generated-eq
/-- `FlatColumn.from_dict` (its tests and repairs in source order, then `cls(**dic)`) is the model's `colFromDict` -/
theorem generated_column_from_dict_eq_model (K : Caster V) (fresh : String) (d : Raw V) :
    Gen.PersistFns.column_from_dict K fresh d = colFromDict K fresh d :=
  gen_column_from_dict_eq K fresh d

/-- `FlatColumn.from_json`: parse, then the loader the model calls -/
theorem generated_from_json_eq_model (K : Caster V) (fresh : String) (d : Raw V) :
    Gen.PersistFns.from_json K fresh d = load Gen.Persist.jsonLoader K fresh d :=
  gen_from_json_eq K fresh d

/-- the hook `to_json` gives orjson for what orjson does not write itself: a type member as its text, an expectation
as its attributes, **anything else TypeError** — bytes, `Decimal`, `timedelta` (this line of the source is the open
finding C16-K01) -/
theorem generated_default_serializer_eq_model (o : SerObj) :
    Gen.PersistFns.default_serializer o = defaultSerializer o :=
  gen_default_serializer_eq o

/-- `FlatColumn.to_json` (`orjson.dumps(asdict(self), default=default_serializer)`, then parsed) is the model's `colToJson` -/
theorem generated_to_json_eq_model (K : Caster V) (c : Col V) :
    Gen.PersistFns.to_json K c = colToJson K c :=
  gen_to_json_eq K c

/-- `to_flatcolumn` (the keywords it passes, each from the attribute it reads) is the model's `toFlat` -/
theorem generated_to_flatcolumn_eq_model (K : Caster V) (fresh : String) (c : Col V) :
    Gen.PersistFns.to_flatcolumn K fresh c = toFlat K fresh c :=
  gen_to_flatcolumn_eq K fresh c

/-- `RelationSchema.from_dict` on **any** dictionary (keys absent, column entries that are dictionaries, names or
neither) is the reference `fromDictE` -/
theorem generated_schema_from_dict_eq_model (K : Caster V) (fresh : String) (d : SDictE V) :
    Gen.PersistFns.schema_from_dict K fresh d = fromDictE K fresh d :=
  gen_schema_from_dict_eq K fresh d

/-- `RelationSchema.to_dict` (`asdict` with `_converter`'s rule for one value) is the model's `toDict` -/
theorem generated_schema_to_dict_eq_model (s : Schema V) : Gen.PersistFns.schema_to_dict s = toDict s :=
  gen_schema_to_dict_eq s

/-- the statements of `FlatColumn.__init__` after the attribute loop, composed in source order, are the model's
normalisation (type literal with its fills and their guards, element type, disposition, the default's cast and what its
`try` turns an exception into, the two DECIMAL defaults with their guards and constants) -/
theorem generated_init_body_eq_model (K : Caster V) (s : St V) :
    Gen.PersistFns.init_body K s = initBody K s :=
  gen_init_body_eq K s

/-- ... and the model's constructor is the attribute loop followed by those translated statements -/
theorem constructor_is_loop_then_generated_body (K : Caster V) (fresh : String) (r : Raw V) :
    initSt K fresh r = loopThen K r (Gen.PersistFns.init_body K) := by
  rw [init_eq_initBody]
  have : Gen.PersistFns.init_body K = initBody K := funext (gen_init_body_eq K)
  rw [this]
-- END generated-eq

/-- **The round trip over the translated functions, for every reachable column state**: for a schema whose columns
are each in a state reachable by a constructor call (any keyword arguments) followed by any assignments to name,
description, aliases, nullability, identity, the three statistics, origin and length, the *translated* `from_dict`
applied to what the *translated* `to_dict` writes gives the schema back. -/
theorem generated_from_dict_to_dict (K : Caster V)
    (hIdem : ∀ m v w, K.parse m v = some w → K.truthy w = true → K.parse m w = some w)
    (fresh : String) (s : Schema V) (h : ∀ c ∈ s.columns, Reachable K c) :
    Gen.PersistFns.schema_from_dict K fresh (SDictE.ofSDict (Gen.PersistFns.schema_to_dict s)) = .ok s := by
  rw [gen_schema_from_dict_eq, gen_schema_to_dict_eq, fromDictE_ofSDict]
  exact fromDict_toDict_eq' K fresh s (fun c hc => reachable_ok K hIdem c (h c hc))

/-- the same for one column through JSON (translated `to_json`, then translated `from_json`), when JSON can carry its
values -/
theorem generated_from_json_to_json (K : Caster V)
    (hIdem : ∀ m v w, K.parse m v = some w → K.truthy w = true → K.parse m w = some w)
    (fresh : String) (c : Col V) (h : Reachable K c) (hn : JsonNative K c) (hd : DefaultSurvivesJson K c) :
    (Gen.PersistFns.to_json K c).bind (Gen.PersistFns.from_json K fresh) = .ok c := by
  have hr := reachable_ok K hIdem c h
  have := jsonRoundTrip_eq' K fresh c hr.1 hr.2 hn hd
  unfold jsonRoundTrip at this
  rw [gen_to_json_eq]
  cases hj : colToJson K c with
  | error e => rw [hj] at this; cases this
  | ok d =>
    rw [hj] at this
    show Gen.PersistFns.from_json K fresh d = .ok c
    rw [gen_from_json_eq]
    exact this

/-- and the translated `to_flatcolumn` returns the reachable state's current attributes (disposition, expectations,
length and origin reset) -/
theorem generated_flatten_reachable (K : Caster V)
    (hIdem : ∀ m v w, K.parse m v = some w → K.truthy w = true → K.parse m w = some w)
    (fresh : String) (c : Col V) (h : Reachable K c) :
    Gen.PersistFns.to_flatcolumn K fresh c
      = .ok { c with disposition := none, expectations := [], length := none, origin := [] } := by
  rw [gen_to_flatcolumn_eq]
  exact toFlat_eq K fresh c (reachable_ok K hIdem c h).1

/-- **A dictionary written by hand**: a column entry that is a name is loaded as `FlatColumn(name=…)` with every declared
default, an entry that is neither a dictionary nor a name is skipped, a missing `aliases` / `primary_key` key is the
declared default, a missing `name` / `columns` key is a KeyError. -/
theorem generated_schema_from_dict_by_hand (K : Caster V) (hn : K.truthy K.none = false) (fresh : String) (a b : String) :
    Gen.PersistFns.schema_from_dict K fresh { name := some "t", columns := some [.name a, .other, .name b] }
      = .ok ⟨"t", [], [nameOnly K fresh a, nameOnly K fresh b], none⟩
    ∧ Gen.PersistFns.schema_from_dict K fresh ({ columns := some [] } : SDictE V) = .error .key
    ∧ Gen.PersistFns.schema_from_dict K fresh ({ name := some "t" } : SDictE V) = .error .key := by
  refine ⟨?_, ?_, ?_⟩
  · rw [gen_schema_from_dict_eq]
    simp only [fromDictE, loadEntries, init_name_only K hn, nameOnly]
    rfl
  · rw [gen_schema_from_dict_eq]; rfl
  · rw [gen_schema_from_dict_eq]; rfl

/-! ### the declared defaults and the column subclasses, as extracted -/

/-- the declared default of every `FlatColumn` field, from the dataclass declaration (what `init` gives an absent
keyword; `init_name_only` evaluates the model on a name alone) -/
theorem declared_defaults :
    Gen.PersistFns.columnDefaults =
      [("name", "required"), ("default", "None"), ("type", "OrsoTypes._MISSING_TYPE"), ("element_type", "None"),
       ("description", "None"), ("disposition", "None"), ("aliases", "factory:list"), ("nullable", "True"),
       ("expectations", "factory:list"), ("identity", "factory:random_string"), ("length", "None"), ("precision", "None"),
       ("scale", "None"), ("origin", "factory:list"), ("highest_value", "None"), ("lowest_value", "None"),
       ("null_count", "None")]
    ∧ Gen.PersistFns.columnDefaults.map Prod.fst = Gen.Persist.columnFields
    ∧ Gen.PersistFns.schemaDefaults.map Prod.fst = Gen.Persist.schemaFields
    ∧ ∀ k ∈ ["aliases", "columns"], Gen.PersistFns.schemaDefaults.lookup k = some "factory:list" := by
  decide

/-- **every column subclass constructs through the base constructor and leaves the declared attributes alone**: its
own `__init__` (if it has one) starts with `super().__init__(**kwargs)` and afterwards assigns no declared field of
`FlatColumn` — so a subclass instance's declared attributes are the result of `init` on its keyword arguments (with the
subclass's own default for a redeclared field), to which `toFlat_preserves` applies -/
theorem subclasses_construct_through_base :
    Gen.PersistFns.subclasses = ["FunctionColumn", "ConstantColumn", "SparseColumn", "RLEColumn", "DictionaryColumn"]
    ∧ (Gen.PersistFns.subclassInit.map Prod.fst = Gen.PersistFns.subclasses)
    ∧ ∀ e ∈ Gen.PersistFns.subclassInit, e.2.1 = true ∧ ∀ a ∈ e.2.2, a ∉ Gen.Persist.columnFields := by
  decide

/-- **every column subclass flattens and persists with the base class's code**: none defines `to_flatcolumn`, `to_json`,
`from_json`, `from_dict`, an equality or an attribute hook of its own -/
theorem subclasses_share_persistence :
    ∀ e ∈ Gen.PersistFns.subclassMethods,
      ∀ m ∈ ["to_flatcolumn", "to_json", "from_json", "from_dict", "__eq__", "__setattr__", "__getattr__",
             "__getattribute__", "__post_init__"], m ∉ e.2 := by
  decide

/-- a declared field that a subclass redeclares (which changes its default: `length = 1` in `FunctionColumn` and
`ConstantColumn`) is not one of the attributes flattening is to keep -/
theorem subclass_redeclared_fields_not_flattened :
    ∀ e ∈ Gen.PersistFns.subclassFields, ∀ f ∈ e.2, f.1 ∈ Gen.Persist.columnFields →
      f.1 ∉ Gen.Persist.flatKwargs.map Prod.snd := by
  decide

/-! ## the boundary: what the written forms do not carry (open findings), proved of the model -/

/-- a concrete column over the driver's values -/
def col (name : String) (ty : String) : Col PyVal :=
  { name := name, default := .none, type := .member ty.toList, element_type := none, description := none,
    disposition := none, aliases := some [], nullable := true, expectations := [], identity := "id-" ++ name,
    length := none, precision := none, scale := none, origin := [], highest_value := .none, lowest_value := .none,
    null_count := none }

/-- C16-K03 (repaired, F09): an ARRAY column without an element type (declared with the member, or as
`LIST`) is written as `'ARRAY'` with a null element type; `from_dict` hands the member to the constructor,
so the column comes back without an element type.  Read by the constructor alone (`cls(**dic)`, as before the
repair) the bare name defaults the element type to VARCHAR. -/
theorem array_without_element_type_restored :
    colFromDict Py.caster "f" (colToDict (col "a" "ARRAY")) = .ok (col "a" "ARRAY")
    ∧ init Py.caster "f" (colToDict (col "a" "ARRAY"))
        = .ok { col "a" "ARRAY" with element_type := some (.member "VARCHAR".toList) } := by
  decide

/-- C16-K02: a statistic that JSON renders in another form (a date becomes its ISO text) comes back
as that other form. -/
theorem json_changes_temporal_statistics :
    jsonRoundTrip Py.caster "f" { col "a" "DATE" with highest_value := Py.tagged "date" "2020-01-02" }
      = .ok { col "a" "DATE" with highest_value := .str "2020-01-02" } := by
  decide

/-- C16-K01: a default (or statistic) JSON cannot carry — bytes, Decimal, timedelta, integers beyond 64
bits — makes `to_json` raise TypeError. -/
theorem json_unserialisable_raises :
    jsonRoundTrip Py.caster "f" { col "a" "BLOB" with default := .bytes [1, 2] } = .error .type
    ∧ jsonRoundTrip Py.caster "f" { col "a" "DECIMAL" with default := Py.tagged "Decimal" "1.5", precision := some 10, scale := some 2 }
        = .error .type
    ∧ jsonRoundTrip Py.caster "f" { col "a" "INTEGER" with lowest_value := .int (-(2 ^ 64)) } = .error .type
    ∧ jsonRoundTrip Py.caster "f" { col "a" "VARCHAR" with length := some (10 ^ 20) } = .error .type := by
  decide

/-- C16-K04 (repaired, F10): a TIME default is written as `'HH:MM:SS'`, which the TIME cast reads since the
repair; the column comes back equal. -/
theorem json_time_default_survives :
    jsonRoundTrip Py.caster "f" { col "a" "TIME" with default := Py.tagged "time" "03:04:05" }
      = .ok { col "a" "TIME" with default := Py.tagged "time" "03:04:05" } := by
  decide

/-- C16-F08 (repaired): an ARRAY column whose element type is the untyped member is written with the
member's value `'0'`, and `from_dict` maps that value back to the member - for the element type as it
does for the type; before the repair the element type came back as the integer `0` (`Ty.zero`). -/
theorem untyped_element_type_restored :
    colFromDict Py.caster "f" (colToDict { col "a" "ARRAY" with element_type := some (.member "_MISSING_TYPE".toList) })
      = .ok { col "a" "ARRAY" with element_type := some (.member "_MISSING_TYPE".toList) }
    ∧ init Py.caster "f" (colToDict { col "a" "ARRAY" with element_type := some (.member "_MISSING_TYPE".toList) })
      = .ok { col "a" "ARRAY" with element_type := some .zero } := by
  decide

/-! ## non-vacuity -/

/-- a schema with an untyped column, a defaulted DECIMAL, a disposition, an ARRAY<T>, a default and statistics
meets the hypotheses (over the driver's values) … -/
def demo : Schema PyVal :=
  { name := "t", aliases := ["u"], primary_key := some "k",
    columns := [
      col "u" "_MISSING_TYPE",
      { col "d" "DECIMAL" with precision := some 28, scale := some 21, disposition := some "AGE", nullable := false },
      { col "l" "ARRAY" with element_type := some (.member "DATE".toList), aliases := some ["x", "y"] },
      { col "m" "ARRAY" with element_type := some (.member "_MISSING_TYPE".toList) },
      col "n" "ARRAY",
      { col "w" "TIME" with default := Py.tagged "time" "03:04:05.250000" },
      { col "k" "INTEGER" with default := .int 7, highest_value := .int 9, lowest_value := .int (-1), null_count := some 0,
                               description := some "key" },
      { col "v" "VARCHAR" with length := some 12, default := .str "" } ] }

theorem nonvacuity_demo : ∀ c ∈ demo.columns, Constructed Py.caster c ∧ Persistable c := by
  intro c hc
  have : ∀ c ∈ demo.columns, constructedB Py.caster c = true ∧ persistableB c = true := by decide
  exact ⟨constructed_of_B _ c (this c hc).1, persistable_of_B c (this c hc).2⟩

/-- … and the round trip is then computed by the model to be the identity (also by evaluation). -/
example : fromDict Py.caster "fresh" (toDict demo) = .ok demo := fromDict_toDict Py.caster "fresh" demo nonvacuity_demo

example : fromDict Py.caster "fresh" (toDict demo) = .ok demo := by decide

/-- the behavioural clauses are not vacuous on it: `validate` (C05's model, shared) accepts one record and rejects
another with all three kinds of error, and the restored schema - by `restored_validates_same` - does the same;
`describe` (C06's type codes, shared) reports every column -/
example :
    Validate.validate (vcols demo)
        [("u", some "set"), ("d", some "Decimal"), ("l", some "list"), ("m", none), ("n", some "list"), ("w", some "time"),
         ("k", some "bool"), ("v", some "str")] = .ok
    ∧ Validate.validate (vcols demo)
        [("u", none), ("d", none), ("l", some "tuple"), ("m", none), ("n", none), ("w", some "datetime"), ("k", some "float")]
        = .invalid ["v"] ["d"] ["l", "w", "k"]
    ∧ Validate.validate (vcols demo) [("zz", none)] = .excess ["zz"]
    ∧ (describe demo).all Option.isSome = true
    ∧ (describe demo).length = 8 := by
  decide

example (s' : Schema PyVal) (hr : fromDict Py.caster "fresh" (toDict demo) = .ok s') (rec : Validate.Record) :
    Validate.validate (vcols s') rec = Validate.validate (vcols demo) rec ∧ describe s' = describe demo :=
  ⟨restored_validates_same Py.caster "fresh" demo s' nonvacuity_demo hr rec,
   restored_describes_same Py.caster "fresh" demo s' nonvacuity_demo hr⟩

/-- the full-strength theorem applies to columns given by raw keyword arguments, among them one whose stored type is
the int 0 and an ARRAY declared as `LIST` (no element type) -/
def rawDemo : List (Raw PyVal) :=
  [{ name := some "z", type := some (.text "variant".toList), identity := some "i1" },
   { name := some "l", type := some (.text "LIST".toList), identity := some "i2", nullable := some false },
   { name := some "e", type := some (.member "ARRAY".toList), element_type := some (some (.text "0".toList)), identity := some "i3" },
   { name := some "p", type := some (.text "decimal(12, 0)".toList), default := some (.int 0), identity := some "i4",
     disposition := some (some (.text "age")) },
   { name := some "q", type := some .zero, identity := some "i5", aliases := some none }]

example :
    (rawDemo.map (init Py.caster "fresh")) =
      [.ok { col "z" "x" with type := .zero, identity := "i1" },
       .ok { col "l" "ARRAY" with identity := "i2", nullable := false },
       .ok { col "e" "ARRAY" with element_type := some .zero, identity := "i3" },
       .ok { col "p" "DECIMAL" with default := .int 0, precision := some 12, scale := some 0, identity := "i4",
                                    disposition := some "AGE" },
       .ok { col "q" "x" with type := .zero, identity := "i5", aliases := none }]
    ∧ rawDemo.all wellTypedB = true := by
  decide

example (s : Schema PyVal) (hs : s.columns.map Except.ok = rawDemo.map (init Py.caster "fresh")) :
    fromDict Py.caster "g" (toDict s) = .ok s := by
  refine fromDict_toDict_constructed Py.caster Py.caster_idem "g" s ?_
  intro c hc
  have : (Except.ok c : Except Err (Col PyVal)) ∈ rawDemo.map (init Py.caster "fresh") := by
    rw [← hs]; exact List.mem_map_of_mem hc
  obtain ⟨r, hr, hi⟩ := List.mem_map.mp this
  exact ⟨"fresh", r, wellTyped_of_B r (by
    have hall : rawDemo.all wellTypedB = true := by decide
    exact List.all_eq_true.mp hall r hr), hi⟩

/-- the JSON theorem's hypotheses are met by a DATE column with a date default (written as ISO text, cast
back by the DATE cast), JSON-native statistics and a disposition -/
def dateCol : Col PyVal :=
  { col "d" "DATE" with default := Py.tagged "date" "2020-01-02", highest_value := .int 3, lowest_value := .str "a",
                        null_count := some 2, disposition := some "NAME", nullable := false }

example : jsonRoundTrip Py.caster "f" dateCol = .ok dateCol :=
  fromJson_toJson Py.caster "f" dateCol (constructed_of_B _ _ (by decide)) (persistable_of_B _ (by decide))
    ⟨by decide, by decide, by decide, by decide⟩ ⟨.str "2020-01-02", by decide, by decide⟩

/-- ... and by a TIME column with a time default (with microseconds), since repair F10 -/
def timeCol : Col PyVal :=
  { col "w" "TIME" with default := Py.tagged "time" "23:59:59.999999", null_count := some 0 }

example : jsonRoundTrip Py.caster "f" timeCol = .ok timeCol :=
  fromJson_toJson Py.caster "f" timeCol (constructed_of_B _ _ (by decide)) (persistable_of_B _ (by decide))
    ⟨by decide, by decide, by decide, by decide⟩ ⟨.str "23:59:59.999999", by decide, by decide⟩

/-- The hypothesis `hIdem` is satisfiable: the caster the driver runs against the implementation meets it
(proved in `Lemmas/PersistPy.lean`), so the theorems apply to every column that model constructs. -/
theorem driver_caster_idem (m : Str) (v w : PyVal) (h : Py.caster.parse m v = some w)
    (hw : Py.caster.truthy w = true) : Py.caster.parse m w = some w :=
  Py.caster_idem m v w h hw

example (fresh : String) (r : Raw PyVal) (c : Col PyVal) (h : init Py.caster fresh r = .ok c) :
    init Py.caster "other" (rawOf c) = .ok c ∧ ∃ c', toFlat Py.caster "other" c = .ok c' ∧ c'.identity = c.identity :=
  ⟨init_idempotent Py.caster driver_caster_idem fresh "other" r c h,
   let ⟨c', h1, h2, _⟩ := toFlat_preserves Py.caster driver_caster_idem fresh "other" r c h
   ⟨c', h1, h2⟩⟩

/-- the constructor on raw keyword arguments: a type name is resolved, the default cast, DECIMAL defaulted;
flattening drops only what the statement does not list. -/
example :
    init Py.caster "fresh" { name := some "p", type := some (.text "decimal(10,2)".toList), default := some (.int 0) }
      = .ok { col "p" "DECIMAL" with default := .int 0, precision := some 10, scale := some 2, identity := "fresh" }
    ∧ init Py.caster "fresh" { name := some "q", type := some (.text "integer".toList), default := some (.str "-12"),
                                disposition := some (some (.text "name")) }
      = .ok { col "q" "INTEGER" with default := .int (-12), disposition := some "NAME", identity := "fresh" }
    ∧ init Py.caster "fresh" { name := some "q", type := some (.text "integer".toList), default := some (.str "x") }
      = .error .value
    ∧ init Py.caster "fresh" ({ } : Raw PyVal) = .error .columnDefinition := by
  decide

/-! ## fifth pass: the "behaves identically" clause on a schema with a history -/

/-- **`validate` judges by the columns as they are now.**  Extracted from the working tree on every run (C05's reading of
`RelationSchema.validate`, through properties and helper methods): it depends on no state that is not a declared field
(no cached plan, no memoising decorator, no undeclared attribute, no write to `self`), what it reads of the schema is
restored by `from_dict` from the key of the same name, and what it reads of a column is its name, type and nullability -
declared fields that `to_dict` writes and that `vcol` carries.  This is what makes `Validate.validate (vcols s)` the
outcome for *every* schema object in state `s`, whatever was validated against it before: the original with its
history, and the restored copy without one. -/
theorem validate_reads_current_columns :
    Gen.ValidateFlow.hiddenState = []
    ∧ (∀ a ∈ Gen.ValidateFlow.schemaReads, Gen.Persist.fromDictRestores.lookup a = some a)
    ∧ (∀ a ∈ Gen.ValidateFlow.columnReads, a ∈ ["name", "type", "nullable"] ∧ a ∈ Gen.Persist.columnFields) := by
  decide

/-- **After any session the restored schema behaves identically.**  Start from a schema whose columns are reachable
states, run any list of steps - validate a record, assign an attribute of a column in place, add / remove / replace a
column (by a reachable one), reverse the columns, assign the schema's name, aliases, primary key - then write the schema
with the translated `to_dict` and load it with the translated `from_dict`: the loaded schema is the schema as it is now,
gives every record the same validation outcome and reports the same description. -/
theorem session_restored_behaves_same (K : Caster V)
    (hIdem : ∀ m v w, K.parse m v = some w → K.truthy w = true → K.parse m w = some w)
    (fresh : String) (s : Schema V) (es : List (Edit V))
    (h0 : ∀ c ∈ s.columns, Reachable K c) (hes : ∀ e ∈ es, e.Fine K) :
    ∃ s', Gen.PersistFns.schema_from_dict K fresh (SDictE.ofSDict (Gen.PersistFns.schema_to_dict (runSession es s))) = .ok s'
      ∧ s' = runSession es s
      ∧ (∀ rec : Validate.Record, Validate.validate (vcols s') rec = Validate.validate (vcols (runSession es s)) rec)
      ∧ describe s' = describe (runSession es s) :=
  ⟨runSession es s,
   generated_from_dict_to_dict K hIdem fresh (runSession es s) (runSession_keeps K es hes s h0), rfl, fun _ => rfl, rfl⟩

/-- **Validating leaves no trace**: the schema a session ends in - hence every later validation outcome, written
dictionary and description - is the one the same edits give without any record validated in between. -/
theorem session_history_invisible (es : List (Edit V)) (s : Schema V) (rec : Validate.Record) :
    runSession es s = runSession (es.filter Edit.writes) s
    ∧ Validate.validate (vcols (runSession es s)) rec
      = Validate.validate (vcols (runSession (es.filter Edit.writes) s)) rec := by
  have h := runSession_ignores_use es s
  exact ⟨h, congrArg (fun x => Validate.validate (vcols x) rec) h⟩

/-- **Whatever state the columns were left in**: an attribute assigned in place can give a state no constructor call
produces (a type member next to a default of the old type, a DECIMAL without precision, a raw default); the dictionary
round trip is then not the identity (the constructor casts the default and fills DECIMAL parameters on load) and may
raise.  Whenever it succeeds - the only hypothesis is that every column's type is an `OrsoTypes` member or the int 0,
which in-place assignment of a member keeps true - the loaded schema shows `validate` the same columns, so it accepts
and rejects the same records; over the model's functions and over the translated ones. -/
theorem restored_validates_same_any_state (K : Caster V) (fresh : String) (s s' : Schema V)
    (hw : ∀ c ∈ s.columns, TypeWritable c) (rec : Validate.Record) :
    (fromDict K fresh (toDict s) = .ok s' → Validate.validate (vcols s') rec = Validate.validate (vcols s) rec)
    ∧ (Gen.PersistFns.schema_from_dict K fresh (SDictE.ofSDict (Gen.PersistFns.schema_to_dict s)) = .ok s' →
        Validate.validate (vcols s') rec = Validate.validate (vcols s) rec) := by
  constructor
  · intro hr
    rw [fromDict_vcols K fresh s s' hw hr]
  · intro hr
    rw [gen_schema_from_dict_eq, gen_schema_to_dict_eq, fromDictE_ofSDict] at hr
    rw [fromDict_vcols K fresh s s' hw hr]

/-- ... and through JSON, one column at a time: whatever the column holds (K01 / K02 concern its default and statistics),
if `from_json(to_json(c))` succeeds it has the name, type and nullability of `c` - over the model's functions and over
the translated ones -/
theorem json_restored_column_validates_same (K : Caster V) (fresh : String) (c c' : Col V) (hw : TypeWritable c) :
    (jsonRoundTrip K fresh c = .ok c' → vcol c' = vcol c)
    ∧ ((Gen.PersistFns.to_json K c).bind (Gen.PersistFns.from_json K fresh) = .ok c' → vcol c' = vcol c) := by
  refine ⟨jsonRoundTrip_vcol K fresh c c' hw, fun h => ?_⟩
  apply jsonRoundTrip_vcol K fresh c c' hw
  unfold jsonRoundTrip
  rw [gen_to_json_eq] at h
  cases hj : colToJson K c with
  | error e => rw [hj] at h; cases h
  | ok d =>
    rw [hj] at h
    have h' : Gen.PersistFns.from_json K fresh d = .ok c' := h
    rw [gen_from_json_eq] at h'
    exact h'

/-- **After a session of arbitrary in-place writes** - validate records, write anything to any attribute of a column but
its type, assign an `OrsoTypes` member to a column's type, add / remove / replace columns, reverse them - starting from
columns built by the constructor: if the written dictionary loads, the loaded schema accepts and rejects the same
records as the schema with the history. -/
theorem session_any_writes_validates_same (K : Caster V)
    (hIdem : ∀ m v w, K.parse m v = some w → K.truthy w = true → K.parse m w = some w)
    (fresh : String) (s s' : Schema V) (es : List (RawEdit V))
    (h0 : ∀ c ∈ s.columns, Reachable K c) (hes : ∀ e ∈ es, e.Fine)
    (hr : Gen.PersistFns.schema_from_dict K fresh (SDictE.ofSDict (Gen.PersistFns.schema_to_dict (runRaw es s))) = .ok s')
    (rec : Validate.Record) :
    Validate.validate (vcols s') rec = Validate.validate (vcols (runRaw es s)) rec :=
  (restored_validates_same_any_state K fresh (runRaw es s) s'
    (runRaw_keeps es hes s (fun c hc => typeWritable_of_reachable K hIdem c (h0 c hc))) rec).2 hr

/-- in-place assignments keep the hypothesis of `restored_validates_same_any_state`: a type member of the enum, and any
value at all for every other attribute -/
theorem type_writable_kept (c : Col V) (h : TypeWritable c) (m : Str) (hm : m ∈ persistableTypes)
    (d hv lv : V) (p sc l : Option Nat) (e : Option Ty) (n : Bool) (nm : String) :
    TypeWritable { c with type := .member m }
    ∧ TypeWritable { c with default := d, highest_value := hv, lowest_value := lv, precision := p, scale := sc,
                            length := l, element_type := e, nullable := n, name := nm } :=
  ⟨.inr ⟨m, rfl, hm⟩, h⟩


/-- non-vacuity of `restored_validates_same_any_state`: the demo schema with its VARCHAR[12] column retyped in place to
DECIMAL (no precision, no scale - a state the constructor never leaves) and made non-nullable meets the hypothesis; the
dictionary loads, the loaded schema is *not* the edited one (precision and scale were filled on load), and `validate`
reads the same columns of both -/
def retyped : Schema PyVal :=
  { demo with columns := modifyAt (fun c => { c with type := .member "DECIMAL".toList, nullable := false }) 7 demo.columns }

theorem retyped_writable : ∀ c ∈ retyped.columns, TypeWritable c := by
  intro c hc
  simp only [retyped, demo, modifyAt, List.mem_cons, List.not_mem_nil, or_false] at hc
  rcases hc with rfl | rfl | rfl | rfl | rfl | rfl | rfl | rfl <;> exact .inr ⟨_, rfl, by decide⟩

example : (match fromDict Py.caster "fresh" (toDict retyped) with
           | .ok s' => decide (s' ≠ retyped) && (vcols s' == vcols retyped)
           | _ => false) = true := by decide

example (s' : Schema PyVal) (hr : fromDict Py.caster "fresh" (toDict retyped) = .ok s') (rec : Validate.Record) :
    Validate.validate (vcols s') rec = Validate.validate (vcols retyped) rec :=
  (restored_validates_same_any_state Py.caster "fresh" retyped s' retyped_writable rec).1 hr

/-- non-vacuity: the seeded session - validate, make a column non-nullable in place, retype nothing - on the demo schema:
the record with a null in that column is accepted before the edit and rejected after it, by the original and by the copy -/
example :
    Validate.validate (vcols (runSession [.use [("v", some "str")], .col 7 (.nullable false)] demo))
        [("u", some "set"), ("d", some "Decimal"), ("l", some "list"), ("m", none), ("n", some "list"), ("w", some "time"),
         ("k", some "bool"), ("v", none)]
      ≠ Validate.validate (vcols demo)
        [("u", some "set"), ("d", some "Decimal"), ("l", some "list"), ("m", none), ("n", some "list"), ("w", some "time"),
         ("k", some "bool"), ("v", none)] := by
  decide

end C16
